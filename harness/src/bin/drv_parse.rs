//! C02 / C08 driver: every parser of cascette-rs on structured boundary vectors, seeded mutations and
//! builder programs, in an isolated child process under a counting allocator.
//!
//! Parent (`drv_parse --out trace.ndjson ...`): plans the inputs
//!   * `fixture`  every seed as it is (real CDN fixtures of /repo's test_fixtures + small builder outputs)
//!   * `model`    field vectors enumerated by TLC from spec/mc/MC_ParserGuard.tla (`--vectors`), patched into
//!                the seeds of the format through the layout table below
//!   * `mut`      seeded mutations (bit flips, byte/word overwrites, truncations, splices, length-field
//!                tweaks, checksum re-sealing) of the same seeds (`--mutations N`, `VERIF_SEED`)
//!   * `bprog`    builder programs enumerated by TLC from spec/mc/MC_RoundTrip.tla (`--bprogs`)
//! and feeds them to `--jobs` child processes (`drv_parse --child`).  A child runs each real parser under
//! `catch_unwind` with the allocator counters reset; a single request above 2 GiB (or more than 3 GiB live)
//! is refused, which the standard library turns into an abort - the parent observes the death of the child
//! (abort, stack overflow, timeout) as the *outcome* of that input, restarts the child and re-runs the input
//! alone before it records a hang or an abort.  For every accepted input of a format with a serialiser the
//! child also performs parse -> build -> parse -> build and logs digests (C08).
//!
//! The driver records; it never judges.  spec/trace/T_ParserGuard.tla and T_RoundTrip.tla do.

use cascette_formats::CascFormat;
use serde_json::{Map, Value, json};
use std::alloc::{GlobalAlloc, Layout, System};
use std::any::Any;
use std::io::{BufRead, BufReader, Read, Write};
use std::path::{Path, PathBuf};
use std::sync::atomic::{AtomicU64, AtomicUsize, Ordering::Relaxed};
use std::time::{Duration, Instant};
use verif_harness::{Rng, arg, arg_u64, guarded, has_flag, md5hex, quiet_panics, seed_from_env};

// ------------------------------------------------------------------------------------------------
// counting allocator
// ------------------------------------------------------------------------------------------------
struct Counting;
static CUR: AtomicUsize = AtomicUsize::new(0);
static PEAK: AtomicUsize = AtomicUsize::new(0);
static LARGEST: AtomicUsize = AtomicUsize::new(0);
static NALLOC: AtomicU64 = AtomicU64::new(0);
const CHILD_STACK: usize = 2 << 20;
const MAX_HANGS: u32 = 3;
const MAX_SINGLE: usize = 2 << 30;
const MAX_LIVE: usize = 3 << 30;

#[inline]
fn admit(req: usize, delta: usize) -> bool {
    LARGEST.fetch_max(req, Relaxed);
    NALLOC.fetch_add(1, Relaxed);
    let c = CUR.fetch_add(delta, Relaxed) + delta;
    if req > MAX_SINGLE || c > MAX_LIVE {
        CUR.fetch_sub(delta, Relaxed);
        return false;
    }
    PEAK.fetch_max(c, Relaxed);
    true
}
unsafe impl GlobalAlloc for Counting {
    unsafe fn alloc(&self, l: Layout) -> *mut u8 {
        if !admit(l.size(), l.size()) {
            return std::ptr::null_mut();
        }
        let p = unsafe { System.alloc(l) };
        if p.is_null() {
            CUR.fetch_sub(l.size(), Relaxed);
        }
        p
    }
    unsafe fn alloc_zeroed(&self, l: Layout) -> *mut u8 {
        if !admit(l.size(), l.size()) {
            return std::ptr::null_mut();
        }
        let p = unsafe { System.alloc_zeroed(l) };
        if p.is_null() {
            CUR.fetch_sub(l.size(), Relaxed);
        }
        p
    }
    unsafe fn dealloc(&self, p: *mut u8, l: Layout) {
        CUR.fetch_sub(l.size(), Relaxed);
        unsafe { System.dealloc(p, l) }
    }
    unsafe fn realloc(&self, p: *mut u8, l: Layout, new: usize) -> *mut u8 {
        if new > l.size() {
            if !admit(new, new - l.size()) {
                return std::ptr::null_mut();
            }
            let q = unsafe { System.realloc(p, l, new) };
            if q.is_null() {
                CUR.fetch_sub(new - l.size(), Relaxed);
            }
            q
        } else {
            let q = unsafe { System.realloc(p, l, new) };
            if !q.is_null() {
                CUR.fetch_sub(l.size() - new, Relaxed);
            }
            q
        }
    }
}
#[global_allocator]
static ALLOC: Counting = Counting;

fn meter_reset() -> usize {
    let base = CUR.load(Relaxed);
    PEAK.store(base, Relaxed);
    LARGEST.store(0, Relaxed);
    NALLOC.store(0, Relaxed);
    base
}
fn meter_read(base: usize) -> (usize, usize, u64) {
    (PEAK.load(Relaxed).saturating_sub(base), LARGEST.load(Relaxed), NALLOC.load(Relaxed))
}

// ------------------------------------------------------------------------------------------------
// small helpers
// ------------------------------------------------------------------------------------------------
fn trunc(s: &str, n: usize) -> String {
    s.chars().take(n).collect()
}
/// panic message -> (class, source file): digits become N, quoted content is cut, the line number is dropped
fn panic_class(full: &str) -> (String, String) {
    let (msg, loc) = match full.rfind(" @ ") {
        Some(p) => (&full[..p], &full[p + 3..]),
        None => (full, ""),
    };
    let mut mc = String::new();
    let mut last_n = false;
    for ch in msg.chars() {
        if ch == '`' || ch == '\'' || ch == '"' {
            break;
        }
        if ch.is_ascii_digit() {
            if !last_n {
                mc.push('N');
            }
            last_n = true;
        } else {
            mc.push(ch);
            last_n = false;
        }
        if mc.len() >= 80 {
            break;
        }
    }
    let file = loc.rsplit_once(':').map_or(loc, |(f, _)| f);
    let file = match file.find("/crates/") {
        Some(p) => file[p + 8..].to_string(),
        None => file.rsplit('/').take(3).collect::<Vec<_>>().into_iter().rev().collect::<Vec<_>>().join("/"),
    };
    (mc, file)
}
fn kib(n: usize) -> u64 {
    (n as u64).div_ceil(1024)
}
fn repo_root() -> PathBuf {
    PathBuf::from(std::env::var("VERIF_REPO").unwrap_or_else(|_| "/repo".into()))
}
/// 16-bit limbs, most significant first (TLC integers are 32-bit).
fn limbs(v: u64, width: usize) -> Value {
    let n = width.div_ceil(2).max(1);
    Value::Array((0..n).rev().map(|i| json!((v >> (16 * i)) & 0xFFFF)).collect())
}

struct Env {
    /// a valid .idx file (for the directory scanners)
    valid_idx: Vec<u8>,
    tmp: PathBuf,
    rt: tokio::runtime::Runtime,
    olds: Vec<Vec<u8>>,
}

thread_local! { static OBS: std::cell::RefCell<Option<Value>> = const { std::cell::RefCell::new(None) }; }
/// observations of an entry point beyond its outcome (logged as `obs`, judged by the monitor)
fn observe(v: Value) {
    OBS.with(|o| *o.borrow_mut() = Some(v));
}
type Val = Box<dyn Any>;
type ParseFn = fn(&[u8], &Env) -> Result<Val, String>;
type RtFn = fn(Val, &[u8], &Env) -> Value;

struct Fmt {
    name: &'static str,
    /// the entry point decompresses: the documented 1 GiB cap is added to the allocation bound
    decomp: bool,
    text: bool,
    parse: ParseFn,
    rt: Option<RtFn>,
    weight: u32,
}

fn stage_out<T>(r: Result<Result<T, String>, String>) -> (Value, Option<T>) {
    match r {
        Ok(Ok(v)) => (json!({"o": "ok"}), Some(v)),
        Ok(Err(e)) => (json!({"o": "err", "msg": trunc(&e, 160)}), None),
        Err(p) => (json!({"o": "panic", "msg": trunc(&p, 200)}), None),
    }
}

/// parse -> build -> parse -> build with digests (C08).  `logical(v, texts)` is the format's logical
/// content as a canonical string (entries, keys, sizes, flags, tags - no layout, no lookup tables).
fn rt_run<T>(
    v: T,
    b: &[u8],
    parse: &dyn Fn(&[u8]) -> Result<T, String>,
    build: &dyn Fn(&T) -> Result<Vec<u8>, String>,
    logical: &dyn Fn(&T, &[&[u8]]) -> String,
) -> Value {
    let mut o = Map::new();
    let (s2, b2) = stage_out(guarded(|| build(&v)));
    let mut s2 = s2;
    if let Some(ref x) = b2 {
        s2["d"] = json!(md5hex(x));
        s2["n"] = json!(x.len());
    }
    o.insert("b2".into(), s2);
    let texts: Vec<&[u8]> = match b2 {
        Some(ref x) => vec![b, x.as_slice()],
        None => vec![b],
    };
    match guarded(|| logical(&v, &texts)) {
        Ok(s) => {
            o.insert("l1".into(), json!(md5hex(s.as_bytes())));
            if std::env::var("VERIF_PARSE_SHOW_LOGICAL").is_ok() {
                o.insert("l1_text".into(), json!(trunc(&s, 4000)));
            }
        }
        Err(p) => {
            o.insert("l1".into(), json!(format!("panic: {}", trunc(&p, 120))));
        }
    }
    let Some(ref b2) = b2 else { return Value::Object(o) };
    let (s, v2) = stage_out(guarded(|| parse(b2)));
    o.insert("p2".into(), s);
    let Some(v2) = v2 else { return Value::Object(o) };
    match guarded(|| logical(&v2, &texts)) {
        Ok(s) => {
            o.insert("l2".into(), json!(md5hex(s.as_bytes())));
            if std::env::var("VERIF_PARSE_SHOW_LOGICAL").is_ok() {
                o.insert("l2_text".into(), json!(trunc(&s, 4000)));
            }
        }
        Err(p) => {
            o.insert("l2".into(), json!(format!("panic: {}", trunc(&p, 120))));
        }
    }
    let (s3, b3) = stage_out(guarded(|| build(&v2)));
    let mut s3 = s3;
    if let Some(ref x) = b3 {
        s3["d"] = json!(md5hex(x));
        s3["n"] = json!(x.len());
    }
    o.insert("b3".into(), s3);
    Value::Object(o)
}

macro_rules! casc_fmt {
    ($m:ident, $T:ty, $logical:expr) => {
        mod $m {
            use super::*;
            pub fn parse(b: &[u8], _: &Env) -> Result<Val, String> {
                <$T as CascFormat>::parse(b).map(|v| Box::new(v) as Val).map_err(|e| e.to_string())
            }
            pub fn rt(v: Val, b: &[u8], _: &Env) -> Value {
                let v = *v.downcast::<$T>().expect("value type");
                rt_run::<$T>(
                    v,
                    b,
                    &|x| <$T as CascFormat>::parse(x).map_err(|e| e.to_string()),
                    &|v| <$T as CascFormat>::build(v).map_err(|e| e.to_string()),
                    &$logical,
                )
            }
        }
    };
}

// ------------------------------------------------------------------------------------------------
// logical projections
// ------------------------------------------------------------------------------------------------
use cascette_formats::archive::{ArchiveGroup, ArchiveIndex};
use cascette_formats::blte::BlteFile;
use cascette_formats::bpsv::BpsvDocument;
use cascette_formats::config::{BuildConfig, CdnConfig, KeyringConfig, PatchConfig, ProductConfig};
use cascette_formats::download::DownloadManifest;
use cascette_formats::encoding::EncodingFile;
use cascette_formats::espec::ESpec;
use cascette_formats::install::InstallManifest;
use cascette_formats::patch_archive::PatchArchive;
use cascette_formats::patch_index::PatchIndex;
use cascette_formats::root::RootFile;
use cascette_formats::size::SizeManifest;
use cascette_formats::tvfs::TvfsFile;
use cascette_formats::zbsdiff::ZbsDiff;

fn l_blte(v: &BlteFile, _: &[&[u8]]) -> String {
    let chunks: Vec<(u8, String)> = v.chunks.iter().map(|c| (c.mode.as_byte(), md5hex(&c.data))).collect();
    format!("{:?}|{:?}", v.header, chunks)
}
fn l_encoding(v: &EncodingFile, _: &[&[u8]]) -> String {
    let h = &v.header;
    let ck: Vec<_> = v.ckey_pages.iter().map(|p| format!("{:?}", p.entries)).collect();
    let ek: Vec<_> = v.ekey_pages.iter().map(|p| format!("{:?}", p.entries)).collect();
    format!(
        "v{} ch{} eh{} cp{} ep{} fl{}|{:?}|{:?}|{:?}|{:?}",
        h.version, h.ckey_hash_size, h.ekey_hash_size, h.ckey_page_size_kb, h.ekey_page_size_kb, h.flags, v.espec_table.entries, ck, ek, v.trailing_espec
    )
}
fn l_aidx(v: &ArchiveIndex, _: &[&[u8]]) -> String {
    let f = &v.footer;
    format!("v{} ob{} sb{} kl{}|{:?}", f.version, f.offset_bytes, f.size_bytes, f.ekey_length, v.entries)
}
fn l_root(v: &RootFile, _: &[&[u8]]) -> String {
    let mut recs: Vec<String> = Vec::new();
    for b in &v.blocks {
        for r in &b.records {
            recs.push(format!("{:?}|{:?}|{:?}|{:?}|{:?}", r.file_data_id, r.content_key, r.name_hash, b.locale_flags(), b.content_flags()));
        }
    }
    recs.sort();
    format!("{:?}|{:?}", v.version, recs)
}
fn l_install(v: &InstallManifest, _: &[&[u8]]) -> String {
    format!("v{}|{:?}|{:?}", v.header.version, v.tags, v.entries)
}
fn l_download(v: &DownloadManifest, _: &[&[u8]]) -> String {
    format!("{:?}|{:?}|{:?}", v.header, v.entries, v.tags)
}
fn l_size(v: &SizeManifest, _: &[&[u8]]) -> String {
    format!("{:?}", v)
}
fn l_tvfs(v: &TvfsFile, _: &[&[u8]]) -> String {
    use std::collections::HashMap;
    let vfs: HashMap<u32, usize> = v.vfs_table.entries.iter().enumerate().map(|(i, e)| (e.offset, i)).collect();
    let cft: HashMap<u32, usize> = v.container_table.entries.iter().enumerate().map(|(i, e)| (e.offset, i)).collect();
    let mut files: Vec<String> = Vec::new();
    for f in &v.path_table.files {
        let mut s = format!("{:?}=>", f.path);
        match vfs.get(&f.vfs_offset) {
            None => s.push_str("novfs"),
            Some(&i) => {
                for sp in &v.vfs_table.entries[i].spans {
                    s.push_str(&format!("[{}+{}:", sp.file_offset, sp.span_length));
                    match cft.get(&sp.cft_offset) {
                        None => s.push_str("nocft"),
                        Some(&j) => {
                            let c = &v.container_table.entries[j];
                            let est = c.est_index.map(|x| v.est_table.as_ref().and_then(|t| t.specs.get(x as usize).cloned()));
                            s.push_str(&format!("{:?} {} {:?} {:?} {:?}", c.ekey, c.encoded_size, c.content_key, est, c.patch_offset.is_some()));
                        }
                    }
                    s.push(']');
                }
            }
        }
        files.push(s);
    }
    files.sort();
    format!("v{} ek{} pk{} fl{}|{:?}", v.header.format_version, v.header.ekey_size, v.header.pkey_size, v.header.flags, files)
}
fn l_pa(v: &PatchArchive, _: &[&[u8]]) -> String {
    let h = &v.header;
    // the serialiser sorts the file entries by target key: the entries are a multiset
    let mut fe: Vec<String> = v.all_file_entries().map(|e| format!("{e:?}")).collect();
    fe.sort();
    // documented flag bits only (0: plain data, 1: extended header); key widths are layout
    format!("v{} bb{} fl{}|{:?}|{:?}", h.version, h.block_size_bits, h.flags & 3, v.encoding_info, fe)
}
fn l_pi(v: &PatchIndex, _: &[&[u8]]) -> String {
    format!("v{} ks{}|{:?}", v.header.version, v.key_size, v.entries)
}
fn l_zbs(v: &ZbsDiff, _: &[&[u8]]) -> String {
    format!("{:?}|{}|{}|{}", v.header, md5hex(&v.control_data), md5hex(&v.diff_data), md5hex(&v.extra_data))
}
/// candidate keys of a `key = value` text: everything before the first " = " of each line
fn cand_keys(texts: &[&[u8]]) -> Vec<String> {
    let mut ks = std::collections::BTreeSet::new();
    for t in texts {
        let s = String::from_utf8_lossy(t);
        for line in s.split(['\n', '\r']) {
            let line = line.trim();
            if let Some(k) = line.split(" = ").next() {
                ks.insert(k.trim().to_string());
            }
        }
    }
    ks.into_iter().collect()
}
fn l_buildcfg(v: &BuildConfig, t: &[&[u8]]) -> String {
    let kv: Vec<_> = cand_keys(t).into_iter().filter_map(|k| v.get(&k).map(|x| (k.clone(), x.clone()))).collect();
    format!("{:?}", kv)
}
fn l_cdncfg(v: &CdnConfig, t: &[&[u8]]) -> String {
    let kv: Vec<_> = cand_keys(t).into_iter().filter_map(|k| v.get(&k).map(|x| (k.clone(), x.clone()))).collect();
    format!("{:?}", kv)
}
fn l_patchcfg(v: &PatchConfig, t: &[&[u8]]) -> String {
    let kv: Vec<_> = cand_keys(t).into_iter().filter_map(|k| v.get_property(&k).map(|x| (k.clone(), x.to_string()))).collect();
    format!("{:?}|{:?}|{}", kv, v.entries(), v.property_count())
}
fn l_productcfg(v: &ProductConfig, _: &[&[u8]]) -> String {
    serde_json::to_value(v).map(|x| x.to_string()).unwrap_or_else(|e| format!("unserialisable: {e}"))
}
fn l_keyring(v: &KeyringConfig, _: &[&[u8]]) -> String {
    format!("{:?}", v.entries())
}
fn l_bpsv(v: &BpsvDocument, _: &[&[u8]]) -> String {
    let rows: Vec<_> = v.rows().iter().map(|r| format!("{:?}|{:?}", r.raw_values(), r.values())).collect();
    format!("{:?}|{:?}|{:?}", v.schema().fields(), v.sequence_number(), rows)
}
fn l_espec(v: &ESpec, _: &[&[u8]]) -> String {
    format!("{:?}", v)
}

casc_fmt!(f_blte, BlteFile, l_blte);
casc_fmt!(f_aidx, ArchiveIndex, l_aidx);
casc_fmt!(f_root, RootFile, l_root);
casc_fmt!(f_install, InstallManifest, l_install);
casc_fmt!(f_download, DownloadManifest, l_download);
casc_fmt!(f_size, SizeManifest, l_size);
mod f_tvfs {
    use super::*;
    pub fn parse(b: &[u8], _: &Env) -> Result<Val, String> {
        <TvfsFile as CascFormat>::parse(b).map(|v| Box::new(v) as Val).map_err(|e| e.to_string())
    }
    pub fn rt(v: Val, b: &[u8], _: &Env) -> Value {
        let v = *v.downcast::<TvfsFile>().expect("value type");
        // does the accepted file contain references that resolve to nothing (path -> VFS entry -> container entry)?
        let dangling = guarded(|| l_tvfs(&v, &[])).map(|s| s.contains("nocft") || s.contains("novfs")).unwrap_or(true);
        let mut o = rt_run::<TvfsFile>(v, b, &|x| <TvfsFile as CascFormat>::parse(x).map_err(|e| e.to_string()), &|v| <TvfsFile as CascFormat>::build(v).map_err(|e| e.to_string()), &l_tvfs);
        o["dang"] = json!(dangling);
        o
    }
}
casc_fmt!(f_pa, PatchArchive, l_pa);
casc_fmt!(f_pi, PatchIndex, l_pi);
casc_fmt!(f_zbs, ZbsDiff, l_zbs);
casc_fmt!(f_buildcfg, BuildConfig, l_buildcfg);
casc_fmt!(f_cdncfg, CdnConfig, l_cdncfg);
casc_fmt!(f_patchcfg, PatchConfig, l_patchcfg);
mod f_productcfg {
    use super::*;
    pub fn parse(b: &[u8], _: &Env) -> Result<Val, String> {
        <ProductConfig as CascFormat>::parse(b).map(|v| Box::new(v) as Val).map_err(|e| e.to_string())
    }
    fn region_hm(r: &cascette_formats::config::RegionConfig) -> usize {
        let c = &r.config;
        c.opaque_product_specific.as_ref().map_or(0, |m| m.len()).max(c.replacement_locales.as_ref().map_or(0, |m| m.len())).max(c.install_media.as_ref().map_or(0, |m| m.len()))
    }
    /// size of the largest HashMap-typed field (their serialisation order is the subject of F08 finding)
    fn hm(v: &ProductConfig) -> usize {
        let mut regions: Vec<&cascette_formats::config::RegionConfig> = vec![&v.all];
        for r in [&v.cn, &v.dede, &v.enus, &v.eses, &v.esmx, &v.frfr, &v.itit, &v.kokr, &v.ptbr, &v.ruru, &v.zhcn, &v.zhtw].into_iter().flatten() {
            regions.push(r);
        }
        if let Some(p) = &v.platform {
            for r in [&p.mac, &p.win].into_iter().flatten() {
                regions.push(r);
            }
        }
        regions.into_iter().map(region_hm).max().unwrap_or(0)
    }
    pub fn rt(v: Val, b: &[u8], _: &Env) -> Value {
        let v = *v.downcast::<ProductConfig>().expect("value type");
        let n = hm(&v);
        let mut o = rt_run::<ProductConfig>(v, b, &|x| <ProductConfig as CascFormat>::parse(x).map_err(|e| e.to_string()), &|v| <ProductConfig as CascFormat>::build(v).map_err(|e| e.to_string()), &l_productcfg);
        o["hm"] = json!(n);
        o
    }
}
casc_fmt!(f_keyring, KeyringConfig, l_keyring);
casc_fmt!(f_bpsv, BpsvDocument, l_bpsv);
casc_fmt!(f_espec, ESpec, l_espec);

// the encoding file's inherent parse/build are what callers use (CascFormat delegates to them)
mod f_encoding {
    use super::*;
    pub fn parse(b: &[u8], _: &Env) -> Result<Val, String> {
        EncodingFile::parse(b).map(|v| Box::new(v) as Val).map_err(|e| e.to_string())
    }
    pub fn rt(v: Val, b: &[u8], _: &Env) -> Value {
        let v = *v.downcast::<EncodingFile>().expect("value type");
        rt_run::<EncodingFile>(v, b, &|x| EncodingFile::parse(x).map_err(|e| e.to_string()), &|v| v.build().map_err(|e| e.to_string()), &l_encoding)
    }
}

// ------------------------------------------------------------------------------------------------
// entry points without a serialiser (C02 only)
// ------------------------------------------------------------------------------------------------
fn unit() -> Val {
    Box::new(())
}
fn p_blte_decompress(b: &[u8], _: &Env) -> Result<Val, String> {
    let f = <BlteFile as CascFormat>::parse(b).map_err(|e| e.to_string())?;
    // one output at a time: the first result is dropped before the second call
    let plain = f.decompress().map(|_| ()).map_err(|e| e.to_string());
    let mut ks = cascette_crypto::TactKeyStore::new();
    ks.add(cascette_crypto::TactKey::new(SEED_KEY_NAME, SEED_KEY));
    let keyed = f.decompress_with_keys(&ks).map(|_| ()).map_err(|e| e.to_string());
    match (plain, keyed) {
        (Ok(()), _) | (_, Ok(())) => Ok(unit()),
        (Err(e), Err(_)) => Err(e),
    }
}
const SEED_KEY_NAME: u64 = 0x1122_3344_5566_7788;
const SEED_KEY: [u8; 16] = [7; 16];
fn p_blte_enc_header(b: &[u8], _: &Env) -> Result<Val, String> {
    // the public BinRead parser of the encrypted-chunk header (reachable through binrw only)
    use binrw::BinRead;
    use cascette_formats::blte::EncryptedHeader;
    let mut c = std::io::Cursor::new(b);
    let h = EncryptedHeader::read_options(&mut c, binrw::Endian::Big, ()).map_err(|e| e.to_string())?;
    let _ = h.key_id();
    Ok(unit())
}
fn p_pi_block2(b: &[u8], _: &Env) -> Result<Val, String> {
    cascette_formats::patch_index::parser::parse_block2(b).map(|_| unit()).map_err(|e| e.to_string())
}
fn p_pi_block8(b: &[u8], _: &Env) -> Result<Val, String> {
    cascette_formats::patch_index::parser::parse_block8(b).map(|_| unit()).map_err(|e| e.to_string())
}
/// the payload of an encrypted BLTE chunk (without the mode byte) given to the public decoder with a key
/// store that knows the key the seeds and vectors name
fn p_blte_decrypt_chunk(b: &[u8], _: &Env) -> Result<Val, String> {
    let mut ks = cascette_crypto::TactKeyStore::new();
    ks.add(cascette_crypto::TactKey::new(SEED_KEY_NAME, SEED_KEY));
    let mut last = None;
    for idx in [0usize, 1] {
        match cascette_formats::blte::decrypt_chunk_with_keys(b, &ks, idx) {
            Ok(_) => return Ok(unit()),
            Err(e) => last = Some(e.to_string()),
        }
    }
    Err(last.unwrap_or_default())
}
/// E-chunk payload of a vector [ivs, cut, typ]: key-name size 8, the known key name, IV size 4 or 8, IV, type
/// byte, 8 bytes of ciphertext - cut to `cut` bytes
fn echunk_of_vector(v: &Value) -> (Vec<u8>, String) {
    let num = |k: &str| v[k].as_str().and_then(|t| t.strip_prefix("n:")).and_then(|t| t.parse::<usize>().ok());
    let ivs = num("ivs").unwrap_or(4);
    let mut p = vec![8u8];
    p.extend_from_slice(&SEED_KEY_NAME.to_le_bytes());
    p.push(ivs as u8);
    p.extend((0..ivs).map(|i| 0x10 + i as u8));
    p.push(match v["typ"].as_str() {
        Some("n:65") => b'A',
        Some("bad") => b'X',
        _ => b'S',
    });
    p.extend_from_slice(&[0xA1, 0xA2, 0xA3, 0xA4, 0xA5, 0xA6, 0xA7, 0xA8]);
    let cut = num("cut").unwrap_or(p.len()).min(p.len());
    p.truncate(cut);
    (p, format!("echunk iv{ivs} cut{cut} {}", v["typ"].as_str().unwrap_or("")))
}
/// the same payload as the only chunk of a well-formed multi-chunk BLTE file (mode byte 'E', table sizes and MD5 right)
fn blte_with_echunk(payload: &[u8]) -> Vec<u8> {
    let mut chunk = vec![b'E'];
    chunk.extend_from_slice(payload);
    let mut b = b"BLTE".to_vec();
    b.extend_from_slice(&36u32.to_be_bytes());
    b.extend_from_slice(&[0x0F, 0, 0, 1]);
    b.extend_from_slice(&(chunk.len() as u32).to_be_bytes());
    b.extend_from_slice(&8u32.to_be_bytes());
    b.extend_from_slice(&md5::compute(&chunk).0);
    b.extend_from_slice(&chunk);
    b
}
fn p_encoding_blte(b: &[u8], _: &Env) -> Result<Val, String> {
    EncodingFile::parse_blte(b).map(|_| unit()).map_err(|e| e.to_string())
}
fn p_tvfs_blte(b: &[u8], _: &Env) -> Result<Val, String> {
    TvfsFile::load_from_blte(b).map(|_| unit()).map_err(|e| e.to_string())
}
fn p_agroup(b: &[u8], _: &Env) -> Result<Val, String> {
    let mut c = std::io::Cursor::new(b);
    ArchiveGroup::parse(&mut c).map(|_| unit()).map_err(|e| e.to_string())
}
fn p_zbs_apply(b: &[u8], env: &Env) -> Result<Val, String> {
    // input = patch; applied to every old file of the fixtures (and an empty one): Ok if any application succeeds
    let p = ZbsDiff::parse(b).map_err(|e| e.to_string())?;
    let mut last = String::from("no old data");
    let mut ok = false;
    for old in env.olds.iter().take(3) {
        match p.apply(old) {
            Ok(_) => ok = true,
            Err(e) => last = e.to_string(),
        }
    }
    match cascette_formats::zbsdiff::apply_patch_memory(&env.olds[0], b) {
        Ok(_) => ok = true,
        Err(e) => last = e.to_string(),
    }
    if ok { Ok(unit()) } else { Err(last) }
}
fn p_mime(b: &[u8], _: &Env) -> Result<Val, String> {
    use cascette_protocol::mime_parser::{is_v1_mime_response, parse_v1_mime_response, parse_v1_mime_to_bpsv};
    let _ = is_v1_mime_response(b);
    let r = parse_v1_mime_response(b).map(|_| ()).map_err(|e| e.to_string());
    let _ = parse_v1_mime_to_bpsv(b);
    r.map(|()| unit())
}
fn p_local_idx(b: &[u8], env: &Env) -> Result<Val, String> {
    use cascette_client_storage::index::IndexManager;
    let dir = env.tmp.join("idx");
    std::fs::create_dir_all(&dir).map_err(|e| e.to_string())?;
    let path = dir.join("0100000001.idx");
    std::fs::write(&path, b).map_err(|e| e.to_string())?;
    let mut m = IndexManager::new(&dir);
    let r = m.load_index(1, &path).map_err(|e| e.to_string());
    if r.is_ok() {
        let _ = m.entry_count();
        let _ = m.iter_entries().count();
    }
    r.map(|()| unit())
}
fn p_update_section(b: &[u8], _: &Env) -> Result<Val, String> {
    use cascette_client_storage::index::update::{UpdatePage, UpdateSection};
    let s = UpdateSection::from_bytes(b);
    let _ = s.entry_count();
    let _ = s.all_entries().filter(|e| e.validate_hash_guard()).count();
    let _ = s.to_bytes();
    match UpdatePage::from_bytes(b) {
        Some(p) => {
            let _ = p.to_bytes();
            Ok(unit())
        }
        None => Err("empty or short page".into()),
    }
}
fn p_residency(b: &[u8], env: &Env) -> Result<Val, String> {
    use cascette_client_storage::kmt::key_state::{ResidencyDb, ResidencyPage};
    let dir = env.tmp.join("res");
    std::fs::create_dir_all(&dir).map_err(|e| e.to_string())?;
    let path = dir.join("residency.db");
    std::fs::write(&path, b).map_err(|e| e.to_string())?;
    let _ = ResidencyPage::from_bytes(b);
    let db = ResidencyDb::load(&path).map_err(|e| e.to_string())?;
    let keys = db.scan_keys();
    for k in keys.iter().take(64) {
        let _ = db.is_resident(k);
    }
    let _ = db.entry_count();
    Ok(unit())
}
fn p_lru(b: &[u8], env: &Env) -> Result<Val, String> {
    use cascette_client_storage::lru::LruManager;
    use cascette_client_storage::lru::lru_file::{deserialize, lru_file_path};
    let d = deserialize(b);
    let dir = env.tmp.join("lru");
    std::fs::create_dir_all(&dir).map_err(|e| e.to_string())?;
    let generation = 7u64;
    std::fs::write(lru_file_path(&dir, generation), b).map_err(|e| e.to_string())?;
    let mut m = LruManager::new(8, dir.clone());
    let r = env.rt.block_on(m.load_from_disk(generation)).map_err(|e| e.to_string());
    if r.is_ok() {
        let mut n = 0u64;
        m.for_each_entry(|_| n += 1);
        let _ = m.len();
    }
    match (d, r) {
        (_, Ok(())) => Ok(unit()),
        (_, Err(e)) => Err(e),
    }
}
/// a checkpoint that loads must be usable: the operations every caller performs next must not panic
fn p_lru_ops(b: &[u8], env: &Env) -> Result<Val, String> {
    use cascette_client_storage::lru::LruManager;
    use cascette_client_storage::lru::lru_file::lru_file_path;
    let dir = env.tmp.join("lru_ops");
    std::fs::create_dir_all(&dir).map_err(|e| e.to_string())?;
    let generation = 9u64;
    std::fs::write(lru_file_path(&dir, generation), b).map_err(|e| e.to_string())?;
    // a tracker of the capacity the checkpoint was written with (a tracker of another capacity rebuilds the
    // table from the `next` chain and never looks at the other links)
    let cap = (b.len().saturating_sub(0x1C) / 0x14).clamp(1, 4096) as u32;
    let mut m = LruManager::new(cap, dir.clone());
    env.rt.block_on(m.load_from_disk(generation)).map_err(|e| e.to_string())?;
    let mut keys: Vec<[u8; 9]> = Vec::new();
    m.for_each_entry(|k| {
        if keys.len() < 64 {
            keys.push(*k);
        }
    });
    for k in keys.iter().take(3) {
        let _ = m.touch(k);
    }
    let _ = m.touch(&[0xAB; 9]);
    if let Some(k) = keys.last() {
        let _ = m.remove(k);
    }
    let _ = m.evict_tail();
    let _ = m.evict_to_target(40, 20);
    let mut n = 0u64;
    m.for_each_entry(|_| n += 1);
    Ok(unit())
}
fn p_shmem(b: &[u8], _: &Env) -> Result<Val, String> {
    use cascette_client_storage::shmem::control_block::{PidTracking, ShmemControlBlock};
    let p = PidTracking::from_mapped(b);
    let _ = p.max_slots;
    match ShmemControlBlock::from_mapped(b) {
        Some(cb) => {
            let _ = cb.validate_for_bind();
            Ok(unit())
        }
        None => Err("not a control block".into()),
    }
}
/// Directory entry names are disk input too: the input is a list of file names (one per line, raw bytes);
/// they are created next to one valid .idx, .lru and data file and the real directory scanners run over
/// the directory.  Files whose name ends in .idx / .lru (any case) get valid content of that kind, so
/// that a look-alike which a scanner accepts does not make the scan fail for its content.
const VALID_IDX_NAME: &str = "0fffffffff.idx";
const VALID_LRU_NAME: &str = "ffffffffffffffff.lru";
const VALID_DATA_NAME: &str = "data.000";
fn hostile_names(b: &[u8]) -> Vec<Vec<u8>> {
    let mut out: Vec<Vec<u8>> = Vec::new();
    for n in b.split(|&c| c == b'\n') {
        let valid = [VALID_IDX_NAME, VALID_LRU_NAME, VALID_DATA_NAME, "extract_bu"];
        if n.is_empty() || n.len() > 255 || n.contains(&b'/') || n.contains(&0) || n == b"." || n == b".." || valid.iter().any(|v| v.as_bytes().eq_ignore_ascii_case(n)) {
            continue;
        }
        if !out.iter().any(|x| x == n) && out.len() < 400 {
            out.push(n.to_vec());
        }
    }
    out
}
fn p_dirnames(b: &[u8], env: &Env) -> Result<Val, String> {
    use cascette_cache::config::DiskCacheConfig;
    use cascette_cache::key::RibbitKey;
    use cascette_cache::traits::AsyncCache;
    use cascette_client_storage::index::IndexManager;
    use cascette_client_storage::lru::LruManager;
    use cascette_client_storage::lru::lru_file::filename_to_generation;
    use cascette_client_storage::storage::ArchiveManager;
    use cascette_client_storage::storage::compaction::ExtractorCompactorBackup;
    use cascette_client_storage::storage::parse_data_filename;
    use std::os::unix::ffi::OsStrExt;
    let dir = env.tmp.join("names");
    let _ = std::fs::remove_dir_all(&dir);
    std::fs::create_dir_all(&dir).map_err(es)?;
    let lru = build_lru_seed(5);
    let data = vec![0x5Au8; 64];
    std::fs::write(dir.join(VALID_IDX_NAME), &env.valid_idx).map_err(es)?;
    std::fs::write(dir.join(VALID_LRU_NAME), &lru).map_err(es)?;
    std::fs::write(dir.join(VALID_DATA_NAME), &data).map_err(es)?;
    let names = hostile_names(b);
    let mut created = 0usize;
    let mut nonutf8 = false;
    for n in &names {
        let lower = n.to_ascii_lowercase();
        let content: &[u8] = if lower.ends_with(b".idx") { &env.valid_idx } else if lower.ends_with(b".lru") { &lru } else { &data };
        if std::fs::write(dir.join(std::ffi::OsStr::from_bytes(n)), content).is_ok() {
            created += 1;
            nonutf8 |= std::str::from_utf8(n).is_err();
        }
    }
    let mut first_err: Option<String> = None;
    let mut note = |r: Result<(), String>| {
        if let Err(e) = r
            && first_err.is_none()
        {
            first_err = Some(e);
        }
    };
    // the pure name parsers
    for n in &names {
        if let Ok(s) = std::str::from_utf8(n) {
            let _ = filename_to_generation(s);
            let _ = parse_data_filename(s);
        }
    }
    // .idx discovery
    let mut im = IndexManager::new(&dir);
    let r = env.rt.block_on(im.load_all()).map_err(es);
    let vf_idx = r.is_ok() && im.loaded_buckets().contains(&0x0f);
    note(r);
    // .lru discovery, maintenance cycle (loads the newest checkpoint, removes stale ones)
    let latest = LruManager::find_latest_lru_file(&dir);
    let vf_lru = latest.as_ref().is_some_and(|(g, _)| *g == u64::MAX);
    let mut lm = LruManager::new(8, dir.clone());
    let r = env.rt.block_on(lm.run_cycle(0, 0)).map(|_| ()).map_err(es);
    note(r);
    let _ = lm.scan_directory();
    // data.NNN discovery
    let mut am = ArchiveManager::new(&dir);
    let r = env.rt.block_on(am.open_all()).map_err(es);
    let vf_data = r.is_ok() && am.read_raw(0, 0, 8).is_ok();
    note(r);
    // compaction journal discovery
    note(ExtractorCompactorBackup::load(&dir).map(|_| ()).map_err(es));
    // disk cache: file counting fallback of size()
    let vf_cache = match cascette_cache::DiskCache::<RibbitKey>::new(DiskCacheConfig::new(dir.clone())) {
        Ok(c) => match env.rt.block_on(c.size()) {
            Ok(n) => n >= 1,
            Err(e) => {
                note(Err(e.to_string()));
                false
            }
        },
        Err(e) => {
            note(Err(e.to_string()));
            false
        }
    };
    observe(json!({"names": names.len(), "created": created, "nonutf8": nonutf8, "vf_idx": vf_idx, "vf_lru": vf_lru, "vf_data": vf_data, "vf_cache": vf_cache}));
    let _ = std::fs::remove_dir_all(&dir);
    match first_err {
        None => Ok(unit()),
        Some(e) => Err(e),
    }
}
fn p_compaction_backup(b: &[u8], env: &Env) -> Result<Val, String> {
    use cascette_client_storage::storage::compaction::ExtractorCompactorBackup;
    let dir = env.tmp.join("backup");
    std::fs::create_dir_all(&dir).map_err(es)?;
    std::fs::write(dir.join("extract_bu"), b).map_err(es)?;
    ExtractorCompactorBackup::load(&dir).map(|_| unit()).map_err(es)
}
// ---- "parse, then operate": a parser whose result is a live object must hand out a value the cheap public
// operations can work on; whatever the parser accepted is put through them
fn p_shmem_ops(b: &[u8], _: &Env) -> Result<Val, String> {
    use cascette_client_storage::shmem::control_block::{PidTracking, ShmemControlBlock};
    let exercise = |p: &mut PidTracking, region: usize| {
        let mut buf = vec![0u8; region];
        p.to_mapped(&mut buf);
        p.recount();
        let _ = p.add_process(4242, 1);
        let _ = p.add_process(4243, 2);
        let _ = p.remove_process(4242);
        let _ = p.remove_process(1234);
        p.recount();
        p.to_mapped(&mut buf);
    };
    // the tracking region on its own (the bytes are the region)
    let mut p = PidTracking::from_mapped(b);
    exercise(&mut p, b.len());
    // the whole control block: write back into a buffer of its own file size and into one of the input's size
    let Some(mut cb) = ShmemControlBlock::from_mapped(b) else { return Err("not a control block".into()) };
    let _ = cb.validate_for_bind();
    {
        // (to_mapped documents that the caller provides file_size() bytes)
        let mut buf = vec![0u8; cb.file_size()];
        cb.to_mapped(&mut buf);
        let _ = ShmemControlBlock::from_mapped(&buf);
    }
    let region = b.len().saturating_sub(0x154);
    if let Some(p) = cb.pid_tracking_mut() {
        exercise(p, region);
    }
    cb.set_exclusive(true);
    let mut buf = vec![0u8; cb.file_size()];
    cb.to_mapped(&mut buf);
    Ok(unit())
}
fn p_residency_ops(b: &[u8], env: &Env) -> Result<Val, String> {
    use cascette_client_storage::kmt::key_state::ResidencyDb;
    let dir = env.tmp.join("res_ops");
    std::fs::create_dir_all(&dir).map_err(es)?;
    let path = dir.join("residency.db");
    std::fs::write(&path, b).map_err(es)?;
    let mut db = ResidencyDb::load(&path).map_err(es)?;
    let keys = db.scan_keys();
    for k in keys.iter().take(8) {
        let _ = db.is_resident(k);
        db.mark_span_non_resident(k, 16, 32);
        db.mark_non_resident(k);
        db.mark_resident(k);
    }
    db.mark_resident(&k16(0xEA, 900));
    db.delete_keys(&keys.iter().take(2).copied().collect::<Vec<_>>());
    let _ = db.entry_count();
    db.save().map_err(es)?;
    let again = ResidencyDb::load(&path).map_err(es)?;
    let _ = again.scan_keys();
    Ok(unit())
}
fn p_local_idx_ops(b: &[u8], env: &Env) -> Result<Val, String> {
    use cascette_client_storage::index::{IndexManager, UpdateStatus};
    use cascette_crypto::EncodingKey;
    let dir = env.tmp.join("idx_ops");
    let _ = std::fs::remove_dir_all(&dir);
    std::fs::create_dir_all(&dir).map_err(es)?;
    let path = dir.join("0100000001.idx");
    std::fs::write(&path, b).map_err(es)?;
    let mut m = IndexManager::new(&dir);
    m.load_index(1, &path).map_err(es)?;
    let entries: Vec<_> = m.iter_entries().take(6).collect();
    for (_, e) in &entries {
        let mut k = [0u8; 16];
        k[..9].copy_from_slice(&e.key);
        let k = EncodingKey::from_bytes(k);
        let _ = m.lookup(&k);
        let _ = m.has_entry(&k);
        let _ = m.update_entry_status(&k, UpdateStatus::Normal);
    }
    let fresh = EncodingKey::from_bytes(k16(0xE8, 7777));
    let _ = m.add_entry(&fresh, 2, 4096, 77);
    let _ = m.lookup(&fresh);
    if let Some((_, e)) = entries.first() {
        let mut k = [0u8; 16];
        k[..9].copy_from_slice(&e.key);
        let _ = m.remove_entry(&EncodingKey::from_bytes(k));
    }
    let _ = m.flush_all_updates();
    let _ = m.stats();
    let _ = m.entry_count();
    m.save_all().map_err(es)?;
    let mut again = IndexManager::new(&dir);
    env.rt.block_on(again.load_all()).map_err(es)?;
    Ok(unit())
}
fn p_build_info(b: &[u8], _: &Env) -> Result<Val, String> {
    use cascette_client_storage::build_info::BuildInfoFile;
    let s = std::str::from_utf8(b).map_err(|e| e.to_string())?;
    let f = BuildInfoFile::parse_str(s).map_err(|e| e.to_string())?;
    let _ = f.entry_count();
    if let Some(a) = f.active_entry() {
        let _ = (a.branch(), a.build_key(), a.cdn_key(), a.install_size(), a.cdn_hosts(), a.cdn_servers(), a.tags(), a.version(), a.product());
    }
    for e in f.entries() {
        let _ = (e.is_active(), e.install_key(), e.cdn_path(), e.armadillo(), e.last_activated());
    }
    Ok(unit())
}

static FORMATS: &[Fmt] = &[
    Fmt { name: "blte", decomp: false, text: false, parse: f_blte::parse, rt: Some(f_blte::rt), weight: 6 },
    Fmt { name: "blte_decompress", decomp: true, text: false, parse: p_blte_decompress, rt: None, weight: 6 },
    Fmt { name: "blte_enc_header", decomp: false, text: false, parse: p_blte_enc_header, rt: None, weight: 2 },
    Fmt { name: "blte_decrypt_chunk", decomp: true, text: false, parse: p_blte_decrypt_chunk, rt: None, weight: 3 },
    Fmt { name: "encoding", decomp: false, text: false, parse: f_encoding::parse, rt: Some(f_encoding::rt), weight: 6 },
    Fmt { name: "encoding_blte", decomp: true, text: false, parse: p_encoding_blte, rt: None, weight: 2 },
    Fmt { name: "archive_index", decomp: false, text: false, parse: f_aidx::parse, rt: Some(f_aidx::rt), weight: 6 },
    Fmt { name: "archive_group", decomp: false, text: false, parse: p_agroup, rt: None, weight: 3 },
    Fmt { name: "root", decomp: false, text: false, parse: f_root::parse, rt: Some(f_root::rt), weight: 6 },
    Fmt { name: "install", decomp: false, text: false, parse: f_install::parse, rt: Some(f_install::rt), weight: 5 },
    Fmt { name: "download", decomp: false, text: false, parse: f_download::parse, rt: Some(f_download::rt), weight: 5 },
    Fmt { name: "size", decomp: false, text: false, parse: f_size::parse, rt: Some(f_size::rt), weight: 5 },
    Fmt { name: "tvfs", decomp: false, text: false, parse: f_tvfs::parse, rt: Some(f_tvfs::rt), weight: 6 },
    Fmt { name: "tvfs_blte", decomp: true, text: false, parse: p_tvfs_blte, rt: None, weight: 2 },
    Fmt { name: "patch_archive", decomp: false, text: false, parse: f_pa::parse, rt: Some(f_pa::rt), weight: 5 },
    Fmt { name: "patch_index", decomp: false, text: false, parse: f_pi::parse, rt: Some(f_pi::rt), weight: 5 },
    Fmt { name: "patch_index_block2", decomp: false, text: false, parse: p_pi_block2, rt: None, weight: 2 },
    Fmt { name: "patch_index_block8", decomp: false, text: false, parse: p_pi_block8, rt: None, weight: 2 },
    Fmt { name: "zbsdiff", decomp: false, text: false, parse: f_zbs::parse, rt: Some(f_zbs::rt), weight: 4 },
    Fmt { name: "zbsdiff_apply", decomp: true, text: false, parse: p_zbs_apply, rt: None, weight: 5 },
    Fmt { name: "build_config", decomp: false, text: true, parse: f_buildcfg::parse, rt: Some(f_buildcfg::rt), weight: 3 },
    Fmt { name: "cdn_config", decomp: false, text: true, parse: f_cdncfg::parse, rt: Some(f_cdncfg::rt), weight: 3 },
    Fmt { name: "patch_config", decomp: false, text: true, parse: f_patchcfg::parse, rt: Some(f_patchcfg::rt), weight: 3 },
    Fmt { name: "product_config", decomp: false, text: true, parse: f_productcfg::parse, rt: Some(f_productcfg::rt), weight: 3 },
    Fmt { name: "keyring_config", decomp: false, text: true, parse: f_keyring::parse, rt: Some(f_keyring::rt), weight: 2 },
    Fmt { name: "bpsv", decomp: false, text: true, parse: f_bpsv::parse, rt: Some(f_bpsv::rt), weight: 4 },
    Fmt { name: "espec", decomp: false, text: true, parse: f_espec::parse, rt: Some(f_espec::rt), weight: 4 },
    Fmt { name: "mime", decomp: false, text: true, parse: p_mime, rt: None, weight: 4 },
    Fmt { name: "local_idx", decomp: false, text: false, parse: p_local_idx, rt: None, weight: 4 },
    Fmt { name: "update_section", decomp: false, text: false, parse: p_update_section, rt: None, weight: 2 },
    Fmt { name: "residency", decomp: false, text: false, parse: p_residency, rt: None, weight: 3 },
    Fmt { name: "lru", decomp: false, text: false, parse: p_lru, rt: None, weight: 3 },
    Fmt { name: "lru_ops", decomp: false, text: false, parse: p_lru_ops, rt: None, weight: 3 },
    Fmt { name: "shmem", decomp: false, text: false, parse: p_shmem, rt: None, weight: 2 },
    Fmt { name: "shmem_ops", decomp: false, text: false, parse: p_shmem_ops, rt: None, weight: 3 },
    Fmt { name: "residency_ops", decomp: false, text: false, parse: p_residency_ops, rt: None, weight: 2 },
    Fmt { name: "local_idx_ops", decomp: false, text: false, parse: p_local_idx_ops, rt: None, weight: 3 },
    Fmt { name: "build_info", decomp: false, text: true, parse: p_build_info, rt: None, weight: 2 },
    Fmt { name: "dirnames", decomp: false, text: true, parse: p_dirnames, rt: None, weight: 4 },
    Fmt { name: "compaction_backup", decomp: false, text: false, parse: p_compaction_backup, rt: None, weight: 1 },
];
fn fmt_index(name: &str) -> Option<usize> {
    FORMATS.iter().position(|f| f.name == name)
}

// ------------------------------------------------------------------------------------------------
// seeds: real CDN fixtures of /repo + small outputs of the crate's own builders
// ------------------------------------------------------------------------------------------------
#[derive(Clone)]
struct Seed {
    name: String,
    bytes: Vec<u8>,
    /// a real CDN file (C08: must round-trip byte-exactly)
    real: bool,
}
fn fixtures_dir() -> PathBuf {
    repo_root().join("crates/cascette-formats/test_fixtures")
}
fn fixture_files(sub: &str, pred: &dyn Fn(&str) -> bool) -> Vec<Seed> {
    let dir = fixtures_dir().join(sub);
    let mut names: Vec<String> = std::fs::read_dir(&dir)
        .map(|rd| rd.filter_map(|e| e.ok()).map(|e| e.file_name().to_string_lossy().to_string()).collect())
        .unwrap_or_default();
    names.sort();
    names
        .into_iter()
        .filter(|n| pred(n) && n != "manifest.json" && n != ".gitkeep")
        .filter_map(|n| std::fs::read(dir.join(&n)).ok().map(|b| Seed { name: format!("{sub}/{n}"), bytes: b, real: true }))
        .collect()
}
fn zbs_olds() -> Vec<Vec<u8>> {
    let mut v: Vec<Vec<u8>> = fixture_files("zbsdiff", &|n| n.ends_with(".old")).into_iter().map(|s| s.bytes).collect();
    v.sort_by_key(|b| b.len());
    v.insert(0, b"the quick brown fox jumps over the lazy dog".to_vec());
    v
}
fn k16(tag: u8, i: u64) -> [u8; 16] {
    let mut k = [tag; 16];
    k[..8].copy_from_slice(&(i.wrapping_mul(0x9E37_79B9_7F4A_7C15) | 1).to_be_bytes());
    k[15] = i as u8;
    k
}
fn k9(tag: u8, i: u64) -> [u8; 9] {
    let k = k16(tag, i);
    let mut o = [0u8; 9];
    o.copy_from_slice(&k[..9]);
    o
}
fn bseed(name: &str, r: Result<Vec<u8>, String>) -> Option<Seed> {
    match r {
        Ok(b) => Some(Seed { name: format!("builder/{name}"), bytes: b, real: false }),
        Err(e) => {
            eprintln!("driver: builder seed {name} unavailable: {e}");
            None
        }
    }
}
fn es<E: std::fmt::Display>(e: E) -> String {
    e.to_string()
}

fn build_blte_seed(multi: bool) -> Result<Vec<u8>, String> {
    use cascette_formats::blte::CompressionMode;
    let data: Vec<u8> = (0..300u32).map(|i| (i % 7) as u8 + b'a').collect();
    let f = if multi { BlteFile::compress(&data, 100, CompressionMode::ZLib).map_err(es)? } else { BlteFile::single_chunk(data, CompressionMode::None).map_err(es)? };
    <BlteFile as CascFormat>::build(&f).map_err(es)
}
fn build_blte_encrypted_seed(arc4: bool) -> Result<Vec<u8>, String> {
    use cascette_formats::blte::{BlteBuilder, CompressionMode, EncryptionSpec};
    let data: Vec<u8> = (0..2500u32).map(|i| (i % 11) as u8 + b'A').collect();
    let spec = if arc4 { EncryptionSpec::arc4(SEED_KEY_NAME, [1, 2, 3, 4]) } else { EncryptionSpec::salsa20(SEED_KEY_NAME, [1, 2, 3, 4]) };
    let f = BlteBuilder::new().with_compression(CompressionMode::ZLib).with_chunk_size(1024).map_err(es)?.with_encryption(spec, SEED_KEY).add_data(&data).map_err(es)?.build().map_err(es)?;
    <BlteFile as CascFormat>::build(&f).map_err(es)
}
fn build_encoding_file(n: u64) -> Result<EncodingFile, String> {
    use cascette_crypto::{ContentKey, EncodingKey};
    use cascette_formats::encoding::{CKeyEntryData, EKeyEntryData, EncodingBuilder};
    let mut b = EncodingBuilder::new().with_page_sizes(1, 1);
    for i in 0..n {
        b.add_ckey_entry(CKeyEntryData { content_key: ContentKey::from_bytes(k16(0xC0, i)), file_size: 100 + i, encoding_keys: vec![EncodingKey::from_bytes(k16(0xE0, i))] });
        b.add_ekey_entry(EKeyEntryData { encoding_key: EncodingKey::from_bytes(k16(0xE0, i)), espec: if i % 2 == 0 { "z".into() } else { "n".into() }, file_size: 90 + i });
    }
    b.build().map_err(es)
}
fn build_aidx_seed(n: u64, ow: u8) -> Result<Vec<u8>, String> {
    use cascette_formats::archive::{ArchiveGroupBuilder, ArchiveGroupEntry, ArchiveIndexBuilder};
    let mut out = Vec::new();
    if ow == 6 {
        let mut b = ArchiveGroupBuilder::new();
        for i in 0..n {
            b.add_entry(ArchiveGroupEntry::new(k16(0xA0, i).to_vec(), (i % 3) as u16, (i * 64) as u32, 32 + i as u32));
        }
        b.build(std::io::Cursor::new(&mut out)).map_err(es)?;
    } else {
        let mut b = ArchiveIndexBuilder::with_config(16, ow, 4);
        for i in 0..n {
            b.add_entry(k16(0xA0, i).to_vec(), 32 + i as u32, i * 64);
        }
        b.build(std::io::Cursor::new(&mut out)).map_err(es)?;
    }
    Ok(out)
}
fn build_root_seed(ver: u32, n: u64) -> Result<Vec<u8>, String> {
    use cascette_crypto::md5::{ContentKey, FileDataId};
    use cascette_formats::root::{ContentFlags, LocaleFlags, RootBuilder, RootVersion};
    let v = match ver {
        1 => RootVersion::V1,
        2 => RootVersion::V2,
        3 => RootVersion::V3,
        _ => RootVersion::V4,
    };
    let mut b = RootBuilder::new(v);
    for i in 0..n {
        let locale = if i % 2 == 1 { LocaleFlags::DEDE } else { LocaleFlags::ENUS };
        let path = format!("interface/file_{i}.blp");
        b.add_file(FileDataId::new(100 + 3 * i as u32), ContentKey::from_bytes(k16(0xC1, i)), Some(path.as_str()), LocaleFlags::new(locale), ContentFlags::new(ContentFlags::INSTALL));
    }
    b.build().map_err(es)
}
fn build_install_seed() -> Result<Vec<u8>, String> {
    use cascette_crypto::ContentKey;
    use cascette_formats::install::{InstallManifestBuilder, TagType};
    let mut b = InstallManifestBuilder::new().add_tag("Windows".into(), TagType::Platform).add_tag("enUS".into(), TagType::Locale);
    for i in 0..5u64 {
        b = b.add_file(format!("dir/file{i}.dat"), ContentKey::from_bytes(k16(0xC2, i)), 1000 + i as u32);
        b = b.associate_file_with_tag(i as usize, if i % 2 == 0 { "Windows" } else { "enUS" }).map_err(es)?;
    }
    b.build().map_err(es)?.build().map_err(es)
}
fn build_download_seed(ver: u8) -> Result<Vec<u8>, String> {
    use cascette_crypto::EncodingKey;
    use cascette_formats::download::DownloadManifestBuilder;
    use cascette_formats::install::TagType;
    let mut b = DownloadManifestBuilder::new(ver).map_err(es)?;
    if ver >= 2 {
        b = b.with_flags(1).map_err(es)?;
    }
    if ver >= 3 {
        b = b.with_base_priority(-1).map_err(es)?;
    }
    b = b.with_checksums(ver != 2);
    b = b.add_tag("Windows".into(), TagType::Platform).add_tag("enUS".into(), TagType::Locale);
    for i in 0..5u64 {
        b = b.add_file(EncodingKey::from_bytes(k16(0xE2, i)), 5000 + i, (i % 3) as i8).map_err(es)?;
        b = b.associate_file_with_tag(i as usize, if i % 2 == 0 { "Windows" } else { "enUS" }).map_err(es)?;
        if ver != 2 {
            b = b.set_file_checksum(i as usize, 0xC0DE_0000 + i as u32).map_err(es)?;
        }
    }
    b.build().map_err(es)?.build().map_err(es)
}
fn build_size_seed(ver: u8) -> Result<Vec<u8>, String> {
    use cascette_formats::install::TagType;
    use cascette_formats::size::SizeManifestBuilder;
    let mut b = SizeManifestBuilder::new().version(ver).ekey_size(9).add_tag("Windows".into(), TagType::Platform);
    if ver == 1 {
        b = b.esize_bytes(4);
    }
    for i in 0..5u64 {
        b = b.add_entry(k9(0xE3, i).to_vec(), 700 + i);
    }
    b = b.tag_file(0, 1).tag_file(0, 3);
    b.build().map_err(es)?.build().map_err(es)
}
/// V1 size manifest with 8-byte esizes, no tag, two entries (esize fields at 28 and 45)
fn build_size_w8_seed() -> Result<Vec<u8>, String> {
    use cascette_formats::size::SizeManifestBuilder;
    let b = SizeManifestBuilder::new().version(1).ekey_size(9).esize_bytes(8).add_entry(k9(0xE3, 1).to_vec(), 0x0102_0304_0506_0708).add_entry(k9(0xE3, 2).to_vec(), 0x1112_1314_1516_1718);
    b.build().map_err(es)?.build().map_err(es)
}
fn build_tvfs_seed(est: bool) -> Result<Vec<u8>, String> {
    use cascette_formats::tvfs::TvfsBuilder;
    let mut b = if est { TvfsBuilder::with_flags(0x7) } else { TvfsBuilder::new() };
    if est {
        b.add_est_spec("z".into());
        b.add_est_spec("b:{256K*=z}".into());
    }
    for i in 0..6u64 {
        let path = format!("data/sub{}/file{i}.bin", i % 2);
        if est {
            b.add_file_with_est(path, k9(0xE4, i), 100 + i as u32, 200 + i as u32, Some(k16(0xC4, i)), (i % 2) as u32);
        } else {
            b.add_file(path, k9(0xE4, i), 100 + i as u32, 200 + i as u32, Some(k16(0xC4, i)));
        }
    }
    b.build().map_err(es)
}
fn build_pa_seed(ext: bool) -> Result<Vec<u8>, String> {
    use cascette_formats::patch_archive::{PatchArchiveBuilder, PatchArchiveEncodingInfo};
    let mut b = PatchArchiveBuilder::new();
    if ext {
        b = b.encoding_info(PatchArchiveEncodingInfo { encoding_ckey: k16(0xC5, 90), encoding_ekey: k16(0xE5, 91), decoded_size: 1234, encoded_size: 999, espec: "b:{22=n,*=z}".into() });
    }
    for i in 0..4u64 {
        b.add_file_entry(k16(0xC5, i), 4000 + i, vec![(k16(0xE5, i), 3000 + i, k16(0xF5, i), 77 + i as u32, 1)]);
    }
    b.sort_entries();
    b.build().map_err(es)
}
/// patch archive whose entries need several blocks (block_size_bits 12: 4 KiB blocks)
fn build_pa_multi_seed(n: u64, bits: u8) -> Result<Vec<u8>, String> {
    use cascette_formats::patch_archive::PatchArchiveBuilder;
    let mut b = PatchArchiveBuilder::new().block_size_bits(bits);
    for i in 0..n {
        b.add_file_entry(k16(0xC6, i), 5000 + i, vec![(k16(0xE6, i), 3000 + i, k16(0xF6, i), 70 + i as u32, 1)]);
    }
    b.sort_entries();
    b.build().map_err(es)
}
fn build_pi_seed() -> Result<Vec<u8>, String> {
    use cascette_formats::patch_index::{PatchIndexBuilder, PatchIndexEntry};
    let mut b = PatchIndexBuilder::new().key_size(16);
    for i in 0..4u64 {
        b.add_entry(PatchIndexEntry { source_ekey: k16(0xE6, i), source_size: 100 + i as u32, target_ekey: k16(0xE7, i), target_size: 200 + i as u32, encoded_size: 50 + i as u32, suffix_offset: 1, patch_ekey: k16(0xF6, i) });
    }
    b.build().map_err(es)
}
fn build_zbs_seed() -> Result<Vec<u8>, String> {
    let old = b"the quick brown fox jumps over the lazy dog".to_vec();
    let new = b"the quick red fox jumped over the lazy dogs!".to_vec();
    cascette_formats::zbsdiff::ZbsdiffBuilder::new(old, new).build().map_err(es)
}
fn build_local_idx_seed(tmp: &Path, flush: bool) -> Result<Vec<u8>, String> {
    use cascette_client_storage::index::IndexManager;
    use cascette_crypto::EncodingKey;
    let dir = tmp.join(if flush { "seed_idx_f" } else { "seed_idx_u" });
    let _ = std::fs::remove_dir_all(&dir);
    std::fs::create_dir_all(&dir).map_err(es)?;
    let mut m = IndexManager::new(&dir);
    let mut bucket = None;
    let mut n = 0;
    for i in 0..400u64 {
        let k = EncodingKey::from_bytes(k16(0xE8, i));
        let b = IndexManager::bucket_for_key(&k);
        if bucket.is_none() {
            bucket = Some(b);
        }
        if Some(b) == bucket && n < 6 {
            m.add_entry(&k, 1, (n * 4096) as u32, 300 + n as u32).map_err(es)?;
            n += 1;
            if flush && n == 4 {
                m.flush_all_updates().map_err(es)?;
            }
        }
    }
    m.save_all().map_err(es)?;
    let mut files: Vec<PathBuf> = std::fs::read_dir(&dir).map_err(es)?.filter_map(|e| e.ok()).map(|e| e.path()).filter(|p| p.extension().is_some_and(|x| x == "idx")).collect();
    files.sort();
    let f = files.first().ok_or("no idx file written")?;
    std::fs::read(f).map_err(es)
}
fn build_update_section_seed() -> Result<Vec<u8>, String> {
    use cascette_client_storage::index::update::{UpdateEntry, UpdateSection, UpdateStatus};
    use cascette_client_storage::index::ArchiveLocation;
    let mut s = UpdateSection::new();
    for i in 0..30u64 {
        let _ = s.append(UpdateEntry::new(k9(0xE9, i), ArchiveLocation { archive_id: 1, archive_offset: (i * 512) as u32 }, 100 + i as u32, UpdateStatus::Normal));
    }
    Ok(s.to_bytes())
}
fn build_residency_seed(tmp: &Path) -> Result<Vec<u8>, String> {
    use cascette_client_storage::kmt::key_state::ResidencyDb;
    let p = tmp.join("seed_residency.db");
    let _ = std::fs::remove_file(&p);
    let mut db = ResidencyDb::new(p.clone());
    for i in 0..40u64 {
        db.mark_resident(&k16(0xEA, i));
    }
    db.mark_non_resident(&k16(0xEA, 3));
    db.save().map_err(es)?;
    std::fs::read(&p).map_err(es)
}
fn build_lru_seed(n: u32) -> Vec<u8> {
    use cascette_client_storage::lru::lru_file::{LRU_SENTINEL, LruFileEntry, LruFileHeader, serialize};
    // list tail -> head: 0 -> 1 -> ... -> n-1 (next points towards the MRU end), two free slots at the end
    let mut entries = Vec::new();
    for i in 0..n {
        entries.push(LruFileEntry { prev: if i == 0 { LRU_SENTINEL } else { i - 1 }, next: if i + 1 == n { LRU_SENTINEL } else { i + 1 }, ekey: k9(0xEB, u64::from(i)), flags: 0 });
    }
    for _ in 0..2 {
        entries.push(LruFileEntry { prev: LRU_SENTINEL, next: LRU_SENTINEL, ekey: [0; 9], flags: 0 });
    }
    let header = LruFileHeader { version: 1, hash: [0; 16], mru_head: if n == 0 { LRU_SENTINEL } else { n - 1 }, lru_tail: if n == 0 { LRU_SENTINEL } else { 0 } };
    serialize(&header, &entries)
}
fn build_shmem_seed(v5: bool) -> Vec<u8> {
    use cascette_client_storage::shmem::control_block::{ShmemControlBlock, v4_file_size, v5_file_size};
    if v5 {
        let mut cb = ShmemControlBlock::new_v5_with_pid_tracking(4);
        cb.initialize(0x1000);
        if let Some(p) = cb.pid_tracking_mut() {
            let _ = p.add_process(1234, 1);
        }
        let mut buf = vec![0u8; v5_file_size(true).max(0x258 + 0x1C + 64)];
        cb.to_mapped(&mut buf);
        buf
    } else {
        let mut buf = vec![0u8; v4_file_size()];
        if let Some(mut cb) = ShmemControlBlock::new(4) {
            cb.initialize(0x1000);
            cb.to_mapped(&mut buf);
        }
        buf
    }
}
const BPSV_SEED: &str = "Region!STRING:0|BuildConfig!HEX:16|CDNConfig!HEX:16|BuildId!DEC:4|VersionsName!String:0\n## seqn = 2241282\nus|be2bb98dc28aee05bbee519393696cdb|fac77b9ca52c84ac28ad83a7dbe1c829|61491|11.1.5.61491\neu|be2bb98dc28aee05bbee519393696cdb|fac77b9ca52c84ac28ad83a7dbe1c829|61491|11.1.5.61491\ncn|||0|\n";
const BUILD_INFO_SEED: &str = "Branch!STRING:0|Active!DEC:1|Build Key!HEX:16|CDN Key!HEX:16|Install Key!HEX:16|IM Size!DEC:4|CDN Path!STRING:0|CDN Hosts!STRING:0|CDN Servers!STRING:0|Tags!STRING:0|Armadillo!STRING:0|Last Activated!STRING:0|Version!STRING:0|Product!STRING:0\nus|1|be2bb98dc28aee05bbee519393696cdb|fac77b9ca52c84ac28ad83a7dbe1c829|0123456789abcdef0123456789abcdef|4096|tpr/wow|level3.blizzard.com us.cdn.blizzard.com|http://level3.blizzard.com/?maxhosts=4 https://us.cdn.blizzard.com/?maxhosts=4|Windows x86_64 US? enUS speech?:Windows x86_64 US? enUS text?||2025-01-01T00:00:00Z|11.1.5.61491|wow\neu|0|be2bb98dc28aee05bbee519393696cdb|fac77b9ca52c84ac28ad83a7dbe1c829||0|tpr/wow|eu.cdn.blizzard.com||||||wow\n";
const CDN_CONFIG_SEED: &str = "# CDN Configuration\n\narchives = 0017a402f556fbece46c38dc431a2c9b 00b79cc0eebdd26437c7e92e57ac7f5c 00872b40344ef1a3dac4aff09588603c\narchives-index-size = 173068 53588 41228\narchive-group = 58a3c9e02c964b0ec9dd6c085df99a77\npatch-archives = 071290388e1f3b898157c372f03bc435\npatch-archives-index-size = 2709\npatch-archive-group = aaad2399821319140599c508abd54c9c\nfile-index = e3fffe04f64007852408b86e44d91e5a\nfile-index-size = 9901\npatch-file-index = 35dc55e39ec07e21e9f9dd83c41ec208\npatch-file-index-size = 182\n";
const PATCH_CONFIG_SEED: &str = "# Patch Configuration\n\npatch = aaad2399821319140599c508abd54c9c\npatch-size = 16725\npatch-entry = install 4e173599a18ca79e8fac4aa63c66304c 24197 bc4e960bed45b649d32a269ff33f2b73 23331\npatch-entry = encoding e058fa32dfe994c5e143bd0fcd0994dd 147000 25c87b6ce82551dc8d62c2800aad6e8f 146000\npatch-entry = download 0123456789abcdef0123456789abcdef 2798 fedcba9876543210fedcba9876543210\n";
const PRODUCT_CONFIG_SEED: &str = r#"{"all":{"config":{"data_dir":"Data/","display_locales":["enUS","deDE"],"supported_locales":["enUS","deDE","frFR"],"product":"WoW","enable_block_copy_patch":true,"supports_multibox":true,"supports_offline":false,"shared_container_default_subfolder":"_retail_","launch_arguments":["-launch"],"opaque_product_specific":{"uses_web_credentials":"true","a":"1","b":"2"},"form":{"game_dir":{"dirname":"World of Warcraft"}}}},"enus":{"config":{"install":[{"add_remove_programs_key":{"display_name":"World of Warcraft","icon_path":"i","install_path":"p","locale":"enUS","root":"HKEY_LOCAL_MACHINE","uid":"wow","uninstall_path":"x"}},{"desktop_shortcut":{"link":"l","target":"t","working_dir":"w"}}],"replacement_locales":{"enGB":"enUS","esMX":"esES"},"opaque_complex_data":{"z":1,"a":[1,2,{"b":null}]}}},"platform":{"win":{"config":{"binaries":{"game":{"relative_path":"Wow.exe","launch_arguments":[]}}}}}}"#;
const MIME_SEED: &str = "MIME-Version: 1.0\r\nContent-Type: multipart/alternative; boundary=\"d39ea8fd-f2a5-4b1c-a2a6-1f5f0d1f8a3e\"\r\n\r\n--d39ea8fd-f2a5-4b1c-a2a6-1f5f0d1f8a3e\r\nContent-Type: text/plain\r\nContent-Disposition: version\r\n\r\nRegion!STRING:0|BuildConfig!HEX:16|BuildId!DEC:4\n## seqn = 2241282\nus|be2bb98dc28aee05bbee519393696cdb|61491\neu|be2bb98dc28aee05bbee519393696cdb|61491\n\r\n--d39ea8fd-f2a5-4b1c-a2a6-1f5f0d1f8a3e\r\nContent-Type: application/octet-stream\r\nContent-Disposition: signature\r\n\r\nAAECAwQFBgcICQ==\r\n--d39ea8fd-f2a5-4b1c-a2a6-1f5f0d1f8a3e--\r\n";
const MIME_SEED_PLAIN: &str = "MIME-Version: 1.0\r\nContent-Type: multipart/mixed; boundary=\"xyz\"\r\n\r\n--xyz\r\nContent-Disposition: cdns\r\n\r\nName!STRING:0|Path!STRING:0|Hosts!STRING:0\nus|tpr/wow|level3.blizzard.com\n\r\n--xyz--\r\n";

fn text_seed(name: &str, s: &str) -> Seed {
    Seed { name: format!("text/{name}"), bytes: s.as_bytes().to_vec(), real: false }
}
fn espec_seeds() -> Vec<Seed> {
    let mut v: Vec<String> = ["n", "z", "z:9", "z:{9,15}", "z:{6,mpq}", "b:{256K*=z}", "b:{1M*3=z:9,16K=n,*=z}", "e:{0123456789ABCDEF,01020304,z}", "b:{22=n,100=e:{0123456789ABCDEF,01020304,b:{50=z,*=n}},*=z}", "c:{5}", "g:{3}"]
        .iter()
        .map(|s| (*s).to_string())
        .collect();
    if let Ok(t) = std::fs::read(fixtures_dir().join("espec/wow_classic_era_especs.json"))
        && let Ok(j) = serde_json::from_slice::<Value>(&t)
        && let Some(a) = j["especs"].as_array()
    {
        for (i, s) in a.iter().enumerate() {
            if i % 4 == 0
                && let Some(s) = s.as_str()
            {
                v.push(s.to_string());
            }
        }
    }
    let n_real_end = v.len();
    // explicit zero sizes (with and without unit, with a count) next to a variable `*` chunk; counted variable chunks
    // empty sub-fields in every parameter list
    for s in ["z:{,15}", "z:{,9}", "z:{,mpq}", "z:{,mpq,15}", "z:{}", "z:{6,}", "z:{,}", "b:{1=z:{,9},*=n}", "b:{16K*=z:{,mpq}}", "c:{}", "g:{}", "e:{,,z}", "e:{0123456789ABCDEF,,z}", "b:{}", "b:{,}", "b:{=n}"] {
        v.push(s.to_string());
    }
    for s in ["b:{0*5=z,*=n}", "b:{256K=n,0K*3=z:9,*=z}", "b:{0*2=n,0*3=z}", "b:{0M=n,*=z}", "b:{0=n,1=z,*=n}", "b:{*5=z}", "b:{0M*7=n,16K*3=z}", "b:{0K=z}", "b:0*2=n"] {
        v.push(s.to_string());
    }
    v.into_iter().enumerate().map(|(i, s)| Seed { name: format!("espec/{i}"), bytes: s.into_bytes(), real: i >= 11 && i < n_real_end }).collect()
}

/// name with the bytes [off, off+len(ins)) of `base` replaced by `ins` (kept at the length of `base` + delta)
fn name_with(base: &str, off: usize, ins: &[u8]) -> Vec<u8> {
    let mut n = base.as_bytes().to_vec();
    if off + ins.len() <= n.len() {
        n[off..off + ins.len()].copy_from_slice(ins);
    }
    n
}
/// a text vector [site, lit, unit, depth, opener] applied to a seed text: the `site`-th run of digits is replaced
/// by the literal (+ unit), then the whole text is wrapped `depth` times into the format's `opener`
fn text_of_vector(fmt: &str, v: &Value, seed: &[u8]) -> (Vec<u8>, String) {
    let num = |k: &str| v[k].as_str().and_then(|t| t.strip_prefix("n:")).and_then(|t| t.parse::<usize>().ok());
    let mut b = seed.to_vec();
    let mut how = String::new();
    let lit = v["lit"].as_str().unwrap_or("typ");
    if lit != "typ" {
        let lit = if lit == "huge" { "9".repeat(80) } else { lit.to_string() };
        let unit = match v["unit"].as_str() {
            Some("K") => "K",
            Some("M") => "M",
            Some("star32") => "*4294967295",
            Some("star33") => "*4294967296",
            _ => "",
        };
        let runs = digit_runs(&b);
        let ins = format!("{lit}{unit}").into_bytes();
        if runs.is_empty() {
            let _ = b.splice(0..0, ins);
        } else {
            let (s, e) = runs[num("site").unwrap_or(0) % runs.len()];
            let _ = b.splice(s..e, ins);
        }
        how.push_str(&format!("lit={lit}{unit}@site{},", num("site").unwrap_or(0)));
    }
    if let Some(n) = num("depth") {
        let ops = openers(fmt);
        let (open, close) = ops[num("opener").unwrap_or(0) % ops.len()];
        let mut w = open.repeat(n).into_bytes();
        w.extend_from_slice(&b);
        w.extend_from_slice(close.repeat(n).as_bytes());
        b = w;
        how.push_str(&format!("depth={n}x{open:?},"));
    }
    (b, how)
}
/// a ZBSDIFF1 patch whose *decoded* control block holds the entries of the vector (seek classes of three
/// entries, then one entry that applies `diff3` diff bytes): the control block is zlib data, out of reach of
/// byte mutations
fn zbs_of_vector(v: &Value) -> (Vec<u8>, String) {
    use cascette_formats::zbsdiff::{ControlBlock, ControlEntry, compress_zlib};
    let seek = |k: &str| -> i64 {
        match v[k].as_str() {
            Some("zero") => 0,
            Some("one") => 1,
            Some("under") => -1,
            Some("halfm1") => i64::MAX / 2,
            Some("max") => i64::MAX,
            Some("maxm1") => -i64::MAX,
            _ => 5,
        }
    };
    let diff3: i64 = match v["diff3"].as_str() {
        Some("zero") => 0,
        Some("one") => 1,
        _ => 4,
    };
    let entries = vec![ControlEntry::new(1, 0, seek("seek0")), ControlEntry::new(0, 1, seek("seek1")), ControlEntry::new(0, 0, seek("seek2")), ControlEntry::new(diff3, 0, 0)];
    let how = format!("control={:?}", entries.iter().map(|e| (e.diff_size, e.extra_size, e.seek_offset)).collect::<Vec<_>>());
    let out_size = 2 + diff3;
    let ctl = ControlBlock::with_entries(entries).and_then(|c| c.to_compressed()).unwrap_or_default();
    let diff = compress_zlib(&vec![1u8; (1 + diff3) as usize]).unwrap_or_default();
    let extra = compress_zlib(&[7u8]).unwrap_or_default();
    let mut b = Vec::new();
    b.extend_from_slice(b"ZBSDIFF1");
    b.extend_from_slice(&(ctl.len() as i64).to_le_bytes());
    b.extend_from_slice(&(diff.len() as i64).to_le_bytes());
    b.extend_from_slice(&out_size.to_le_bytes());
    b.extend_from_slice(&ctl);
    b.extend_from_slice(&diff);
    b.extend_from_slice(&extra);
    (b, how)
}
/// inputs that are generated instead of stored (replay files: {"fmt":..,"gen":"zbomb:1200"}): decompression bombs
fn generate(spec: &str) -> Vec<u8> {
    use cascette_formats::zbsdiff::{ControlBlock, ControlEntry, compress_zlib};
    let (kind, arg) = spec.split_once(':').unwrap_or((spec, "0"));
    let mib: usize = arg.parse().unwrap_or(0);
    match kind {
        // ZBSDIFF1 whose extra block inflates to `mib` MiB of zeros
        "zbomb" => {
            let ctl = ControlBlock::with_entries(vec![ControlEntry::new(0, 1, 0)]).and_then(|c| c.to_compressed()).unwrap_or_default();
            let diff = compress_zlib(&[]).unwrap_or_default();
            let extra = compress_zlib(&vec![0u8; mib << 20]).unwrap_or_default();
            let mut b = Vec::new();
            b.extend_from_slice(b"ZBSDIFF1");
            b.extend_from_slice(&(ctl.len() as i64).to_le_bytes());
            b.extend_from_slice(&(diff.len() as i64).to_le_bytes());
            b.extend_from_slice(&1i64.to_le_bytes());
            b.extend_from_slice(&ctl);
            b.extend_from_slice(&diff);
            b.extend_from_slice(&extra);
            b
        }
        // single-chunk BLTE whose zlib chunk inflates to `mib` MiB of zeros
        "bltebomb" => {
            let z = compress_zlib(&vec![0u8; mib << 20]).unwrap_or_default();
            let mut b = b"BLTE\0\0\0\0Z".to_vec();
            b.extend_from_slice(&z);
            b
        }
        _ => Vec::new(),
    }
}
/// the hostile name a vector of MC_ParserGuard (format "dirnames") stands for
fn name_of_vector(v: &Value) -> Vec<u8> {
    let num = |k: &str| v[k].as_str().and_then(|t| t.strip_prefix("n:")).and_then(|t| t.parse::<usize>().ok()).unwrap_or(0);
    let base = match v["kind"].as_str() {
        Some("n:1") => "00000000000000aa.lru",
        Some("n:2") => "data.001",
        _ => "0a00000001.idx",
    };
    let mut n = match v["dlen"].as_str() {
        Some("under") => base.as_bytes()[1..].to_vec(),
        Some("over") => format!("0{base}").into_bytes(),
        _ => base.as_bytes().to_vec(),
    };
    let ins: &[u8] = match num("wid") {
        1 => &[0xFF],
        2 => "\u{e9}".as_bytes(),
        _ => "\u{20ac}".as_bytes(),
    };
    let off = num("off");
    if off + ins.len() <= n.len() {
        n[off..off + ins.len()].copy_from_slice(ins);
    }
    if v["ext"].as_str() == Some("upper")
        && let Some(dot) = n.iter().rposition(|&c| c == b'.')
    {
        n[dot..].make_ascii_uppercase();
    }
    n
}
/// curated hostile name lists (no non-UTF-8 name except in the last list)
fn dirname_seeds() -> Vec<Seed> {
    let join = |v: Vec<Vec<u8>>| -> Vec<u8> { v.join(&b'\n') };
    let mut out = Vec::new();
    for (kind, base) in [("idx", "0a00000001.idx"), ("lru", "00000000000000aa.lru")] {
        let mut v: Vec<Vec<u8>> = Vec::new();
        for off in 0..base.len() {
            v.push(name_with(base, off, "\u{e9}".as_bytes()));
            v.push(name_with(base, off, "\u{20ac}".as_bytes()));
        }
        v.push(base.as_bytes()[1..].to_vec());
        v.push(base.as_bytes().to_vec());
        v.push(format!("0{base}").into_bytes());
        v.push(format!("\u{e9}{}", &base[2..]).into_bytes());
        v.push(base.to_ascii_uppercase().into_bytes());
        v.push(format!(".{kind}").into_bytes());
        v.push(format!("{}.{kind}", "f".repeat(240)).into_bytes());
        out.push(Seed { name: format!("names/{kind}"), bytes: join(v), real: false });
    }
    let data: Vec<&str> = vec!["data.\u{e9}01", "data.\u{e9}0", "data.0\u{e9}", "data.\u{20ac}", "data.+12", "data.0000", "data.00", "data.", "DATA.000", "data.99999", "data.001", "data.1\u{e9}", "data.\u{e9}", "data", ".data.000", "data.000.tmp", "x.TMP", ".tmp", " ", "extract_bu.tmp", ".extract_bu", "shmem", "a b c.idx", "-rf", "\u{feff}.idx"];
    let mut v: Vec<Vec<u8>> = data.iter().map(|s| s.as_bytes().to_vec()).collect();
    v.push("\u{e9}".repeat(127).into_bytes());
    v.push(vec![b'a'; 255]);
    out.push(Seed { name: "names/data_misc".into(), bytes: join(v), real: false });
    // names that are not UTF-8
    let mut v: Vec<Vec<u8>> = Vec::new();
    for off in [0usize, 1, 2, 9, 10, 13] {
        v.push(name_with("0a00000001.idx", off, &[0xFF]));
    }
    for off in [0usize, 1, 15, 16, 19] {
        v.push(name_with("00000000000000aa.lru", off, &[0xFF]));
    }
    v.push(b"data.\xff01".to_vec());
    v.push(vec![0xC3]);
    out.push(Seed { name: "names/nonutf8".into(), bytes: join(v), real: false });
    out
}

/// seeds per format index
fn all_seeds(tmp: &Path) -> Vec<Vec<Seed>> {
    let any = |_: &str| true;
    let mut out: Vec<Vec<Seed>> = Vec::new();
    let enc_small = build_encoding_file(5);
    for f in FORMATS {
        let mut v: Vec<Seed> = Vec::new();
        match f.name {
            "blte" | "blte_decompress" => {
                v.extend(bseed("blte_multi", guarded(|| build_blte_seed(true)).unwrap_or_else(Err)));
                v.extend(bseed("blte_single", guarded(|| build_blte_seed(false)).unwrap_or_else(Err)));
                v.extend(bseed("blte_salsa", guarded(|| build_blte_encrypted_seed(false)).unwrap_or_else(Err)));
                v.extend(bseed("blte_arc4", guarded(|| build_blte_encrypted_seed(true)).unwrap_or_else(Err)));
                v.push(Seed { name: "builder/blte_echunk_iv8".into(), bytes: blte_with_echunk(&echunk_of_vector(&json!({"ivs": "n:8", "typ": "typ"})).0), real: false });
                v.extend(fixture_files("tvfs", &|n| n.ends_with(".blte")));
            }
            "blte_decrypt_chunk" => {
                for (n, ivs) in [("echunk_iv4", "n:4"), ("echunk_iv8", "n:8")] {
                    let (p, _) = echunk_of_vector(&json!({"ivs": ivs, "typ": "typ"}));
                    v.push(Seed { name: format!("builder/{n}"), bytes: p, real: false });
                }
                let enc = guarded(|| {
                    use cascette_formats::blte::{EncryptionSpec, encrypt_chunk_with_key};
                    let mut plain = vec![b'N'];
                    plain.extend_from_slice(b"hello encrypted chunk");
                    encrypt_chunk_with_key(&plain, EncryptionSpec::salsa20(SEED_KEY_NAME, [1, 2, 3, 4]), &SEED_KEY, 0).map_err(es)
                })
                .unwrap_or_else(Err);
                v.extend(bseed("echunk_salsa", enc));
            }
            "blte_enc_header" => {
                let mut h = vec![8u8];
                h.extend_from_slice(&SEED_KEY_NAME.to_le_bytes());
                h.extend_from_slice(&[4, 1, 2, 3, 4, b'S', 0xAA, 0xBB, 0xCC]);
                v.push(Seed { name: "builder/enc_header_s".into(), bytes: h.clone(), real: false });
                h[14] = b'A';
                v.push(Seed { name: "builder/enc_header_a".into(), bytes: h, real: false });
            }
            "encoding" => {
                v.extend(bseed("encoding5", enc_small.clone().and_then(|e| e.build().map_err(es))));
                v.extend(bseed("encoding40", build_encoding_file(40).and_then(|e| e.build().map_err(es))));
                v.extend(fixture_files("encoding", &|n| n.ends_with(".bin")));
            }
            "encoding_blte" => {
                v.extend(bseed("encoding5_blte", enc_small.clone().and_then(|e| e.build_blte().map_err(es))));
            }
            "archive_index" => {
                v.extend(bseed("aidx7", build_aidx_seed(7, 4)));
                v.extend(bseed("aidx300_o5", build_aidx_seed(300, 5)));
                v.extend(bseed("agroup9", build_aidx_seed(9, 6)));
                v.extend(fixture_files("archive", &|n| n.ends_with(".index")));
            }
            "archive_group" => {
                v.extend(bseed("agroup9", build_aidx_seed(9, 6)));
                v.extend(bseed("agroup200", build_aidx_seed(200, 6)));
            }
            "root" => {
                for ver in 1..=4u32 {
                    v.extend(bseed(&format!("root_v{ver}"), guarded(|| build_root_seed(ver, 6)).unwrap_or_else(Err)));
                }
                v.extend(fixture_files("root", &|n| n.ends_with(".root")));
            }
            "install" => {
                v.extend(bseed("install5", guarded(build_install_seed).unwrap_or_else(Err)));
                v.extend(fixture_files("install", &|n| n.ends_with(".install")));
            }
            "download" => {
                for ver in 1..=3u8 {
                    v.extend(bseed(&format!("download_v{ver}"), guarded(|| build_download_seed(ver)).unwrap_or_else(Err)));
                }
                v.extend(fixture_files("download", &|n| n.ends_with(".download")));
            }
            "size" => {
                v.extend(bseed("size_v1_w8", guarded(build_size_w8_seed).unwrap_or_else(Err)));
                for ver in 1..=2u8 {
                    v.extend(bseed(&format!("size_v{ver}"), guarded(|| build_size_seed(ver)).unwrap_or_else(Err)));
                }
            }
            "tvfs" => {
                v.extend(bseed("tvfs6", guarded(|| build_tvfs_seed(false)).unwrap_or_else(Err)));
                v.extend(bseed("tvfs6_est", guarded(|| build_tvfs_seed(true)).unwrap_or_else(Err)));
                v.extend(fixture_files("tvfs", &|n| n.ends_with(".bin")));
            }
            "tvfs_blte" => v.extend(fixture_files("tvfs", &|n| n.ends_with(".blte"))),
            "patch_archive" => {
                v.extend(bseed("pa4", guarded(|| build_pa_seed(false)).unwrap_or_else(Err)));
                v.extend(bseed("pa4_ext", guarded(|| build_pa_seed(true)).unwrap_or_else(Err)));
                v.extend(bseed("pa300_b12", guarded(|| build_pa_multi_seed(300, 12)).unwrap_or_else(Err)));
                let real = fixture_files("patch_archive", &|n| n.ends_with(".bin"));
                // real manifests declared with 4 KiB blocks (header byte 6): parsed as they are, regrouped into several blocks by the writer
                for s in &real {
                    let mut b = s.bytes.clone();
                    if b.len() > 6 {
                        b[6] = 12;
                        v.push(Seed { name: format!("{}#bits12", s.name), bytes: b, real: false });
                    }
                }
                v.extend(real);
            }
            "patch_index_block2" | "patch_index_block8" => {
                let ty = if f.name.ends_with('2') { 2 } else { 8 };
                let whole = guarded(build_pi_seed).unwrap_or_else(Err);
                v.extend(bseed(&format!("pi4_block{ty}"), whole.and_then(|w| pi_block_body(&w, ty).and_then(|(o, n)| w.get(o..o + n).map(<[u8]>::to_vec)).ok_or_else(|| "no such block".to_string()))));
                for s in fixture_files("patch_index", &|n| n.ends_with(".bin")).into_iter().take(1) {
                    if let Some((o, n)) = pi_block_body(&s.bytes, ty)
                        && let Some(body) = s.bytes.get(o..o + n)
                    {
                        v.push(Seed { name: format!("{}#block{ty}", s.name), bytes: body.to_vec(), real: false });
                    }
                }
            }
            "patch_index" => {
                v.extend(bseed("pi4", guarded(build_pi_seed).unwrap_or_else(Err)));
                // the same file with the type-2 block relabelled as a second configuration block: the type-8 block is the one that is parsed
                v.extend(bseed(
                    "pi4_b8only",
                    guarded(build_pi_seed).unwrap_or_else(Err).and_then(|mut w| {
                        let at = pi_blk1_type(&w).filter(|&a| rd_le(&w, a, 4) == Some(2)).ok_or_else(|| "second block is not type 2".to_string())?;
                        w[at] = 1;
                        Ok(w)
                    }),
                ));
                v.extend(fixture_files("patch_index", &|n| n.ends_with(".bin")));
            }
            "zbsdiff" | "zbsdiff_apply" => {
                v.extend(bseed("zbs_small", guarded(build_zbs_seed).unwrap_or_else(Err)));
                v.extend(fixture_files("zbsdiff", &|n| n.ends_with(".zbsdiff")));
            }
            "build_config" => v.extend(fixture_files("config", &|n| n.contains("build_config"))),
            "cdn_config" => v.push(text_seed("cdn_config", CDN_CONFIG_SEED)),
            "patch_config" => v.push(text_seed("patch_config", PATCH_CONFIG_SEED)),
            "product_config" => v.push(text_seed("product_config", PRODUCT_CONFIG_SEED)),
            "keyring_config" => v.extend(fixture_files("config", &|n| n.contains("keyring"))),
            "bpsv" => {
                v.push(text_seed("bpsv_versions", BPSV_SEED));
                v.push(text_seed("build_info", BUILD_INFO_SEED));
            }
            "espec" => v.extend(espec_seeds()),
            "mime" => {
                v.push(text_seed("mime_v1", MIME_SEED));
                v.push(text_seed("mime_plain", MIME_SEED_PLAIN));
                v.push(text_seed("mime_checksum", &format!("{MIME_SEED}Checksum: 0000000000000000000000000000000000000000000000000000000000000000\r\n")));
                v.push(text_seed("bpsv_versions", BPSV_SEED));
            }
            "local_idx" | "local_idx_ops" => {
                v.extend(bseed("idx_updates", guarded(|| build_local_idx_seed(tmp, false)).unwrap_or_else(Err)));
                v.extend(bseed("idx_flushed", guarded(|| build_local_idx_seed(tmp, true)).unwrap_or_else(Err)));
            }
            "update_section" => v.extend(bseed("update30", guarded(build_update_section_seed).unwrap_or_else(Err))),
            "residency" | "residency_ops" => v.extend(bseed("residency40", guarded(|| build_residency_seed(tmp)).unwrap_or_else(Err))),
            "lru" | "lru_ops" => {
                v.push(Seed { name: "builder/lru5".into(), bytes: build_lru_seed(5), real: false });
                v.push(Seed { name: "builder/lru0".into(), bytes: build_lru_seed(0), real: false });
            }
            "shmem" | "shmem_ops" => {
                v.push(Seed { name: "builder/shmem_v5".into(), bytes: build_shmem_seed(true), real: false });
                v.push(Seed { name: "builder/shmem_v4".into(), bytes: build_shmem_seed(false), real: false });
            }
            "build_info" => v.push(text_seed("build_info", BUILD_INFO_SEED)),
            "dirnames" => v.extend(dirname_seeds()),
            "compaction_backup" => {
                let mut j = vec![1u8];
                j.extend_from_slice(&4096u32.to_le_bytes());
                for seg in [3u32, 5, 9] {
                    j.extend_from_slice(&seg.to_le_bytes());
                }
                v.push(Seed { name: "builder/extract_bu".into(), bytes: j, real: false });
            }
            _ => {}
        }
        let _ = any;
        if v.is_empty() {
            eprintln!("driver: no seed for format {}", f.name);
            std::process::exit(4);
        }
        out.push(v);
    }
    out
}

// ------------------------------------------------------------------------------------------------
// layout table: the header fields that drive control flow and allocation, per format.
// Used in both directions: patching TLC's field vectors into seeds, and reading the fields of every
// input back into the event (`h`) so that deviation guards of the monitor can be stated on them.
// ------------------------------------------------------------------------------------------------
#[derive(Clone, Copy)]
enum Loc {
    Abs(usize),
    /// len - n
    End(usize),
    Dyn(fn(&[u8]) -> Option<usize>),
}
#[derive(Clone, Copy)]
struct Fld {
    name: &'static str,
    loc: Loc,
    w: usize,
    be: bool,
}
const fn fb(name: &'static str, at: usize, w: usize) -> Fld {
    Fld { name, loc: Loc::Abs(at), w, be: true }
}
const fn fl(name: &'static str, at: usize, w: usize) -> Fld {
    Fld { name, loc: Loc::Abs(at), w, be: false }
}
fn rd_le(b: &[u8], at: usize, w: usize) -> Option<u64> {
    if at.checked_add(w)? > b.len() {
        return None;
    }
    Some((0..w).fold(0u64, |a, i| a | (u64::from(b[at + i]) << (8 * i))))
}
fn aidx_hash2(b: &[u8]) -> Option<usize> {
    // the second copy of the footer-hash-size byte: offset 15 of the 20-byte fixed footer part, whose
    // start is computed from the first copy (read at end-13)
    let n = b.len();
    let first = *b.get(n.checked_sub(13)?)? as usize;
    n.checked_sub(20 + first).map(|s| s + 15).filter(|&p| p < n)
}
fn root_blk0(b: &[u8]) -> Option<usize> {
    let m = b.get(0..4)?;
    if m != b"TSFM" && m != b"MFST" {
        return Some(0);
    }
    let le = m == b"TSFM";
    let rd = |at: usize| -> Option<u32> {
        let x: [u8; 4] = b.get(at..at + 4)?.try_into().ok()?;
        Some(if le { u32::from_le_bytes(x) } else { u32::from_be_bytes(x) })
    };
    let (v1, v2) = (rd(4)?, rd(8)?);
    if (16..100).contains(&v1) && v2 < 10 && v2 < v1 { Some(v1 as usize) } else { Some(12) }
}
fn pi_blocks(b: &[u8]) -> Option<usize> {
    // position of the block count exactly as PatchIndexHeader::parse computes it
    let extra = rd_le(b, 12, 2)? as usize;
    if extra == 0 {
        return Some(14);
    }
    let key_size = *b.get(14)? as usize;
    Some(14 + extra.max(key_size + 1))
}
fn pi_blk0_type(b: &[u8]) -> Option<usize> {
    pi_blocks(b).map(|p| p + 4)
}
fn pi_blk0_size(b: &[u8]) -> Option<usize> {
    pi_blocks(b).map(|p| p + 8)
}
fn pi_blk0_entries(b: &[u8]) -> Option<usize> {
    // entry count of the first block's body (u32 LE at the start of the block data = header_size)
    rd_le(b, 0, 4).map(|h| h as usize)
}
/// body of the first block of type `ty` in a patch index: (offset, size)
fn pi_block_body(b: &[u8], ty: u32) -> Option<(usize, usize)> {
    let table = pi_blocks(b)?;
    let count = rd_le(b, table, 4)? as usize;
    let mut off = rd_le(b, 0, 4)? as usize;
    for i in 0..count.min(64) {
        let d = table + 4 + 8 * i;
        let (t, sz) = (rd_le(b, d, 4)? as u32, rd_le(b, d + 4, 4)? as usize);
        if t == ty {
            return Some((off, sz));
        }
        off = off.checked_add(sz)?;
    }
    None
}
fn pi_b8(b: &[u8], at: usize) -> Option<usize> {
    pi_block_body(b, 8).map(|(o, _)| o + at)
}
fn pi_b8_version(b: &[u8]) -> Option<usize> {
    pi_b8(b, 0)
}
fn pi_b8_key_size(b: &[u8]) -> Option<usize> {
    pi_b8(b, 1)
}
fn pi_b8_data_offset(b: &[u8]) -> Option<usize> {
    pi_b8(b, 2)
}
fn pi_b8_entry_count(b: &[u8]) -> Option<usize> {
    pi_b8(b, 4)
}
fn pi_b2_entry_count(b: &[u8]) -> Option<usize> {
    pi_block_body(b, 2).map(|(o, _)| o)
}
fn pi_b2_key_size(b: &[u8]) -> Option<usize> {
    pi_block_body(b, 2).map(|(o, _)| o + 4)
}
fn pi_blk1_type(b: &[u8]) -> Option<usize> {
    pi_blocks(b).map(|p| p + 12)
}
fn ench_iv(b: &[u8]) -> Option<usize> {
    Some(1 + *b.first()? as usize)
}
fn ench_type(b: &[u8]) -> Option<usize> {
    let iv = ench_iv(b)?;
    Some(iv + 1 + *b.get(iv)? as usize)
}
fn residency_pc(_: &[u8]) -> Option<usize> {
    Some(1)
}

fn layout(fmt: &str) -> Vec<Fld> {
    const AIDX: &[Fld] = &[
        Fld { name: "version", loc: Loc::End(20), w: 1, be: false },
        Fld { name: "reserved", loc: Loc::End(19), w: 2, be: false },
        Fld { name: "page_size_kb", loc: Loc::End(17), w: 1, be: false },
        Fld { name: "offset_bytes", loc: Loc::End(16), w: 1, be: false },
        Fld { name: "size_bytes", loc: Loc::End(15), w: 1, be: false },
        Fld { name: "ekey_length", loc: Loc::End(14), w: 1, be: false },
        Fld { name: "hash_bytes", loc: Loc::End(13), w: 1, be: false },
        Fld { name: "element_count", loc: Loc::End(12), w: 4, be: false },
        Fld { name: "hash_bytes2", loc: Loc::Dyn(aidx_hash2), w: 1, be: false },
    ];
    const BLTE: &[Fld] = &[fb("magic", 0, 4), fb("header_size", 4, 4), fb("flags", 8, 1), fb("chunk_count", 9, 3), fb("c0_csize", 12, 4), fb("c0_dsize", 16, 4)];
    match fmt {
        "blte" | "blte_decompress" | "tvfs_blte" | "encoding_blte" => BLTE.to_vec(),
        "blte_enc_header" => vec![
            fb("key_name_size", 0, 1),
            Fld { name: "iv_size", loc: Loc::Dyn(ench_iv), w: 1, be: true },
            Fld { name: "enc_type", loc: Loc::Dyn(ench_type), w: 1, be: true },
        ],
        "encoding" => vec![
            fb("magic", 0, 2),
            fb("version", 2, 1),
            fb("ckey_hash_size", 3, 1),
            fb("ekey_hash_size", 4, 1),
            fb("ckey_page_kb", 5, 2),
            fb("ekey_page_kb", 7, 2),
            fb("ckey_page_count", 9, 4),
            fb("ekey_page_count", 13, 4),
            fb("flags", 17, 1),
            fb("espec_block_size", 18, 4),
        ],
        "archive_index" | "archive_group" => AIDX.to_vec(),
        "root" => vec![
            fb("magic", 0, 4),
            fl("w1", 4, 4),
            fl("w2", 8, 4),
            fl("w3", 12, 4),
            fl("w4", 16, 4),
            Fld { name: "blk0_records", loc: Loc::Dyn(root_blk0), w: 4, be: false },
        ],
        "install" => vec![fb("magic", 0, 2), fb("version", 2, 1), fb("ckey_length", 3, 1), fb("tag_count", 4, 2), fb("entry_count", 6, 4)],
        "download" => vec![fb("magic", 0, 2), fb("version", 2, 1), fb("ekey_length", 3, 1), fb("has_checksum", 4, 1), fb("entry_count", 5, 4), fb("tag_count", 9, 2), fb("flag_size", 11, 1)],
        "size" => vec![fb("magic", 0, 2), fb("version", 2, 1), fb("ekey_size", 3, 1), fb("entry_count", 4, 4), fb("tag_count", 8, 2), fb("total_size", 10, 8), fb("esize_bytes", 18, 1), fb("e0_esize", 28, 8), fb("e1_esize", 45, 8)],
        "tvfs" => vec![
            fb("magic", 0, 4),
            fb("format_version", 4, 1),
            fb("header_size", 5, 1),
            fb("ekey_size", 6, 1),
            fb("pkey_size", 7, 1),
            fb("flags", 8, 4),
            fb("path_off", 12, 4),
            fb("path_size", 16, 4),
            fb("vfs_off", 20, 4),
            fb("vfs_size", 24, 4),
            fb("cft_off", 28, 4),
            fb("cft_size", 32, 4),
            fb("max_depth", 36, 2),
            fb("est_off", 38, 4),
            fb("est_size", 42, 4),
        ],
        "patch_archive" => vec![
            fb("magic", 0, 2),
            fb("version", 2, 1),
            fb("file_key_size", 3, 1),
            fb("old_key_size", 4, 1),
            fb("patch_key_size", 5, 1),
            fb("block_size_bits", 6, 1),
            fb("block_count", 7, 2),
            fb("flags", 9, 1),
            fb("espec_length", 50, 1),
        ],
        "patch_index" => vec![
            fl("header_size", 0, 4),
            fl("version", 4, 4),
            fl("data_size", 8, 4),
            fl("extra_len", 12, 2),
            fl("key_size", 14, 1),
            Fld { name: "block_count", loc: Loc::Dyn(pi_blocks), w: 4, be: false },
            Fld { name: "blk0_type", loc: Loc::Dyn(pi_blk0_type), w: 4, be: false },
            Fld { name: "blk0_size", loc: Loc::Dyn(pi_blk0_size), w: 4, be: false },
            Fld { name: "blk0_entries", loc: Loc::Dyn(pi_blk0_entries), w: 4, be: false },
            Fld { name: "blk1_type", loc: Loc::Dyn(pi_blk1_type), w: 4, be: false },
            // the per-block headers of the entry blocks (type 2 and type 8)
            Fld { name: "b2_entry_count", loc: Loc::Dyn(pi_b2_entry_count), w: 4, be: false },
            Fld { name: "b2_key_size", loc: Loc::Dyn(pi_b2_key_size), w: 1, be: false },
            Fld { name: "b8_version", loc: Loc::Dyn(pi_b8_version), w: 1, be: false },
            Fld { name: "b8_key_size", loc: Loc::Dyn(pi_b8_key_size), w: 1, be: false },
            Fld { name: "b8_data_offset", loc: Loc::Dyn(pi_b8_data_offset), w: 2, be: false },
            Fld { name: "b8_entry_count", loc: Loc::Dyn(pi_b8_entry_count), w: 4, be: false },
        ],
        "patch_index_block2" => vec![fl("entry_count", 0, 4), fl("key_size", 4, 1)],
        "patch_index_block8" => vec![fl("version", 0, 1), fl("key_size", 1, 1), fl("data_offset", 2, 2), fl("entry_count", 4, 4), fl("unknown", 8, 4)],
        "zbsdiff" | "zbsdiff_apply" => vec![fl("signature", 0, 8), fl("control_size", 8, 8), fl("diff_size", 16, 8), fl("output_size", 24, 8)],
        "local_idx" | "local_idx_ops" => vec![
            fl("hdr_block_size", 0, 4),
            fl("version", 8, 2),
            fl("bucket", 10, 1),
            fl("size_len", 12, 1),
            fl("off_len", 13, 1),
            fl("key_len", 14, 1),
            fl("off_bits", 15, 1),
            fl("segment_size", 16, 8),
            fl("entry_block_size", 32, 4),
        ],
        "lru" | "lru_ops" => vec![fl("version", 0, 2), fl("mru_head", 20, 4), fl("lru_tail", 24, 4), fl("e0_prev", 28, 4), fl("e0_next", 32, 4), fl("e1_prev", 48, 4), fl("e1_next", 52, 4), fl("e4_prev", 108, 4), fl("e4_next", 112, 4)],
        "shmem" | "shmem_ops" => vec![fl("version", 0, 1), fl("init", 2, 1), fl("fst_format", 0x108, 4), fl("data_size", 0x10C, 4), fl("exclusive", 0x150, 4), fl("pid_state", 0x154, 4), fl("max_slots", 0x154 + 24, 4), fl("direct_max_slots", 24, 4)],
        "residency" | "residency_ops" => vec![fl("bucket_id", 0, 1), Fld { name: "page_count", loc: Loc::Dyn(residency_pc), w: 4, be: false }],
        _ => Vec::new(),
    }
}
fn fld_at(f: &Fld, b: &[u8]) -> Option<usize> {
    let at = match f.loc {
        Loc::Abs(a) => a,
        Loc::End(n) => b.len().checked_sub(n)?,
        Loc::Dyn(g) => g(b)?,
    };
    if at.checked_add(f.w)? <= b.len() { Some(at) } else { None }
}
fn fld_read(f: &Fld, b: &[u8]) -> Option<u64> {
    let at = fld_at(f, b)?;
    let s = &b[at..at + f.w];
    Some(if f.be { s.iter().fold(0u64, |a, &x| (a << 8) | u64::from(x)) } else { s.iter().rev().fold(0u64, |a, &x| (a << 8) | u64::from(x)) })
}
fn fld_write(f: &Fld, b: &mut [u8], v: u64) -> bool {
    let Some(at) = fld_at(f, b) else { return false };
    for i in 0..f.w {
        let byte = ((v >> (8 * i)) & 0xFF) as u8;
        if f.be {
            b[at + f.w - 1 - i] = byte;
        } else {
            b[at + i] = byte;
        }
    }
    true
}
/// header fields of an input as 16-bit limbs (most significant first); absent when out of range
fn header_fields(fmt: &str, b: &[u8]) -> Value {
    let mut m = Map::new();
    for f in &layout(fmt) {
        if let Some(v) = fld_read(f, b) {
            m.insert(f.name.into(), limbs(v, f.w));
        }
    }
    match fmt {
        "blte" | "blte_decompress" | "tvfs_blte" | "encoding_blte" => {
            // the chunk table as far as it is present: largest claimed compressed size, sum of the claimed decompressed sizes
            if b.len() >= 12 && b[4..8] != [0, 0, 0, 0] {
                let esz = match b[8] {
                    0x0F => 24,
                    0x10 => 40,
                    _ => 0,
                };
                if esz > 0 {
                    let count = ((u32::from(b[9]) << 16) | (u32::from(b[10]) << 8) | u32::from(b[11])) as usize;
                    let present = count.min((b.len() - 12) / esz);
                    let (mut maxc, mut sumd) = (0u64, 0u64);
                    for i in 0..present {
                        let at = 12 + i * esz;
                        let c = u64::from(u32::from_be_bytes([b[at], b[at + 1], b[at + 2], b[at + 3]]));
                        let d = u64::from(u32::from_be_bytes([b[at + 4], b[at + 5], b[at + 6], b[at + 7]]));
                        maxc = maxc.max(c);
                        sumd += d;
                    }
                    m.insert("max_csize".into(), limbs(maxc, 4));
                    m.insert("sum_dsize_kib".into(), limbs(sumd / 1024, 6));
                }
            }
        }
        "espec" => {
            // a digit run followed by K / M whose product leaves u64; the number of ':' (upper bound of the nesting depth)
            let mut mulovf = false;
            for (st, en) in digit_runs(b) {
                let v = std::str::from_utf8(&b[st..en]).ok().and_then(|t| t.parse::<u64>().ok());
                let mul: Option<u64> = match b.get(en) {
                    Some(b'K') => Some(1024),
                    Some(b'M') => Some(1024 * 1024),
                    _ => None,
                };
                if let (Some(v), Some(m)) = (v, mul) {
                    mulovf |= v.checked_mul(m).is_none();
                }
            }
            m.insert("mulovf".into(), limbs(u64::from(mulovf), 1));
            // an empty first parameter ("{,"): the zlib level slot left empty
            m.insert("emptyslot".into(), limbs(u64::from(b.windows(2).any(|w| w == b"{,")), 1));
            m.insert("colons".into(), limbs(b.iter().filter(|&&c| c == b':').count() as u64, 4));
        }
        "encoding" => {
            // is the ESpec block (as far as present) valid UTF-8?
            if let Some(n) = rd_le(b, 18, 4).map(|x| x.swap_bytes() >> 32) {
                let end = (22usize.saturating_add(n as usize)).min(b.len());
                if b.len() >= 22 {
                    m.insert("espec_utf8".into(), limbs(u64::from(std::str::from_utf8(&b[22..end]).is_ok()), 1));
                }
            }
        }
        _ => {}
    }
    Value::Object(m)
}
/// boundary class token -> concrete value for a field of width w currently holding `cur`
fn class_value(tok: &str, w: usize, cur: u64, len: usize) -> Option<u64> {
    let bits = (8 * w) as u32;
    let maxv = if bits >= 64 { u64::MAX } else { (1u64 << bits) - 1 };
    Some(match tok {
        "typ" => return None,
        "zero" => 0,
        "one" => 1,
        "two" => 2,
        "max" => maxv,
        "maxm1" => maxv - 1,
        "half" => 1u64 << (bits - 1),
        "halfm1" => (1u64 << (bits - 1)) - 1,
        "over" => cur.wrapping_add(1) & maxv,
        "under" => cur.saturating_sub(1),
        "len" => (len as u64) & maxv,
        "big" => 0x0100_0000u64.min(maxv),
        "bad" => cur ^ (0xFFu64 << (bits - 8)),
        t => t.strip_prefix("n:")?.parse::<u64>().ok()? & maxv,
    })
}
/// re-seal the checksums a parser verifies before it looks at the fields (so that patched / mutated
/// fields are reached); returns false when the format has none
fn reseal(fmt: &str, b: &mut Vec<u8>) -> bool {
    match fmt {
        "archive_index" | "archive_group" => {
            let n = b.len();
            if n < 28 {
                return false;
            }
            // footer hash = md5(version..element_count padded to 20 bytes)[..8], stored in the last 8 bytes
            let mut d = b[n - 20..n - 8].to_vec();
            d.resize(20, 0);
            let h = md5::compute(&d);
            b[n - 8..].copy_from_slice(&h.0[..8]);
            true
        }
        "lru" | "lru_ops" => {
            if b.len() < 28 {
                return false;
            }
            b[4..20].fill(0);
            let h = md5::compute(&b[..]);
            b[4..20].copy_from_slice(&h.0);
            true
        }
        "encoding" => {
            // page checksums in the two page indices
            let rd = |at: usize, w: usize| -> Option<usize> { b.get(at..at + w).map(|s| s.iter().fold(0usize, |a, &x| (a << 8) | x as usize)) };
            let (Some(ckb), Some(ekb), Some(cn), Some(en), Some(es)) = (rd(5, 2), rd(7, 2), rd(9, 4), rd(13, 4), rd(18, 4)) else { return false };
            if cn > 64 || en > 64 {
                return false;
            }
            let mut pos = 22 + es;
            for (cnt, kb) in [(cn, ckb), (en, ekb)] {
                let idx = pos;
                let pages = idx + cnt * 32;
                for i in 0..cnt {
                    let p0 = pages + i * kb * 1024;
                    let p1 = p0 + kb * 1024;
                    if p1 > b.len() {
                        return false;
                    }
                    let h = md5::compute(&b[p0..p1]);
                    b[idx + i * 32 + 16..idx + i * 32 + 32].copy_from_slice(&h.0);
                }
                pos = pages + cnt * kb * 1024;
            }
            true
        }
        _ => false,
    }
}

// ------------------------------------------------------------------------------------------------
// seeded mutation generator
// ------------------------------------------------------------------------------------------------
const INTERESTING: &[u64] = &[0, 1, 2, 7, 8, 9, 15, 16, 17, 0x7F, 0x80, 0xFF, 0x100, 0x3FF, 0x400, 0x1000, 0x7FFF, 0x8000, 0xFFFF, 0x1_0000, 0xFF_FFFF, 0x100_0000, 0x7FFF_FFFF, 0x8000_0000, 0xFFFF_FFFF];
const TEXT_BITS: &[&str] = &["|", "\n", "\r\n", " = ", "=", ":", "!", "{", "}", ",", "*", "\u{e9}", "\u{20ac}", "\u{0}", "##", "# ", " ", "\t", "\u{a0}", "\"", "[", "]", "e:{", "b:{", "z:{", "K", "M", "{,", ",}", "{}", "{,}", ",,", "{,15}", "{,mpq}", "{,9}", "0*5=z,", "0K*3=n,", "0M=z,", "*=n", "*5=z,", "0*", "0K", "0M", ",*=z}", "-", "0x", "9999999999999999999999", "STRING:0", "HEX:16", "DEC:4", "seqn", "key-", "patch-entry", "Content-Type:", "multipart/mixed", "boundary=", "--", "Checksum: "];

fn pick_offset(rng: &mut Rng, len: usize) -> usize {
    if len == 0 {
        return 0;
    }
    match rng.below(10) {
        0..=3 => rng.below(len.min(64) as u64) as usize,             // header
        4..=5 => len - 1 - rng.below(len.min(40) as u64) as usize,  // footer
        _ => rng.below(len as u64) as usize,
    }
}
fn mutate_once(rng: &mut Rng, b: &mut Vec<u8>, fmt: &Fmt, other: &[u8], how: &mut String) {
    let len = b.len();
    let choice = rng.below(if fmt.text { 18 } else { 12 });
    match choice {
        0 if len > 0 => {
            let o = pick_offset(rng, len);
            let bit = rng.below(8);
            b[o] ^= 1 << bit;
            how.push_str(&format!("flip@{o}.{bit},"));
        }
        1 if len > 0 => {
            let o = pick_offset(rng, len);
            let v = *rng.pick(INTERESTING) as u8;
            b[o] = v;
            how.push_str(&format!("set8@{o}={v},"));
        }
        2 | 3 if len > 0 => {
            // overwrite a 2/3/4/8-byte word with an interesting value, either endianness
            let w = *rng.pick(&[2usize, 3, 4, 4, 4, 8]);
            let o = pick_offset(rng, len);
            let be = rng.chance(1, 2);
            let v = match rng.below(5) {
                0 => len as u64,
                1 => (len as u64).wrapping_add(1),
                2 => rng.next(),
                _ => *rng.pick(INTERESTING),
            };
            for i in 0..w {
                let byte = ((v >> (8 * i)) & 0xFF) as u8;
                let p = if be { o + w - 1 - i } else { o + i };
                if p < len {
                    b[p] = byte;
                }
            }
            how.push_str(&format!("set{}{}@{o}={v},", 8 * w, if be { "be" } else { "le" }));
        }
        4 if len > 0 => {
            // tweak a known length/count field of the format
            let lay = layout(fmt.name);
            if lay.is_empty() {
                let o = pick_offset(rng, len);
                b[o] = b[o].wrapping_add(1);
                how.push_str(&format!("inc@{o},"));
            } else {
                let f = rng.pick(&lay);
                if let Some(cur) = fld_read(f, b) {
                    let tok = *rng.pick(&["zero", "one", "max", "maxm1", "half", "halfm1", "over", "under", "len", "big", "n:12", "n:13", "n:24"]);
                    if let Some(v) = class_value(tok, f.w, cur, len) {
                        fld_write(f, b, v);
                        how.push_str(&format!("fld:{}={tok},", f.name));
                    }
                }
            }
        }
        5 if len > 0 => {
            let at = if rng.chance(1, 3) { rng.below(len.min(64) as u64 + 1) as usize } else { rng.below(len as u64 + 1) as usize };
            b.truncate(at);
            how.push_str(&format!("trunc@{at},"));
        }
        6 => {
            let n = 1 + rng.below(32) as usize;
            let extra = if rng.chance(1, 2) { vec![*rng.pick(&[0u8, 0xFF, 0x41]); n] } else { rng.bytes(n) };
            b.extend_from_slice(&extra);
            how.push_str(&format!("append{n},"));
        }
        7 if len > 1 => {
            // delete a chunk
            let o = pick_offset(rng, len);
            let n = (1 + rng.below(64) as usize).min(len - o);
            b.drain(o..o + n);
            how.push_str(&format!("del@{o}+{n},"));
        }
        8 if len > 0 => {
            // duplicate / move a chunk inside the input
            let s = rng.below(len as u64) as usize;
            let n = (1 + rng.below(128) as usize).min(len - s);
            let chunk = b[s..s + n].to_vec();
            let d = rng.below(len as u64 + 1) as usize;
            if rng.chance(1, 2) {
                let _ = b.splice(d..d, chunk);
                how.push_str(&format!("dup@{s}+{n}->{d},"));
            } else {
                let e = (d + n).min(b.len());
                b[d..e].copy_from_slice(&chunk[..e - d]);
                how.push_str(&format!("copy@{s}+{n}->{d},"));
            }
        }
        9 if !other.is_empty() => {
            // splice: head of this input + tail of another seed of the format (or the reverse)
            let a = rng.below(len as u64 + 1) as usize;
            let c = rng.below(other.len() as u64 + 1) as usize;
            if rng.chance(1, 2) {
                b.truncate(a);
                b.extend_from_slice(&other[c..]);
            } else {
                let mut n = other[..c].to_vec();
                n.extend_from_slice(&b[a..]);
                *b = n;
            }
            how.push_str(&format!("splice@{a}/{c},"));
        }
        10 if len > 0 => {
            let o = pick_offset(rng, len);
            let n = (1 + rng.below(16) as usize).min(len - o);
            let r = rng.bytes(n);
            b[o..o + n].copy_from_slice(&r);
            how.push_str(&format!("rand@{o}+{n},"));
        }
        11 if len > 0 => {
            let o = pick_offset(rng, len);
            let d = if rng.chance(1, 2) { 1u8 } else { 0xFF };
            b[o] = b[o].wrapping_add(d);
            how.push_str(&format!("inc@{o},"));
        }
        12 => {
            // text: insert a token
            let t = rng.pick(TEXT_BITS).as_bytes().to_vec();
            let reps = if rng.chance(1, 8) { 1 + rng.below(600) as usize } else { 1 };
            let o = rng.below(len as u64 + 1) as usize;
            let ins: Vec<u8> = t.iter().copied().cycle().take(t.len() * reps).collect();
            let _ = b.splice(o..o, ins);
            how.push_str(&format!("tok@{o}x{reps},"));
        }
        13 if len > 0 => {
            // text: duplicate or delete a line
            let lines: Vec<(usize, usize)> = {
                let mut v = Vec::new();
                let mut s = 0;
                for (i, &c) in b.iter().enumerate() {
                    if c == b'\n' {
                        v.push((s, i + 1));
                        s = i + 1;
                    }
                }
                if s < b.len() {
                    v.push((s, b.len()));
                }
                v
            };
            if !lines.is_empty() {
                let (s, e) = *rng.pick(&lines);
                if rng.chance(1, 2) {
                    let l = b[s..e].to_vec();
                    let _ = b.splice(e..e, l);
                    how.push_str(&format!("dupline@{s},"));
                } else {
                    b.drain(s..e);
                    how.push_str(&format!("delline@{s},"));
                }
            }
        }
        14 | 15 if len > 0 => {
            // text: replace one run of digits (or insert at a random place) by a boundary literal
            let runs = digit_runs(b);
            let lit = rng.pick(NUM_LITS).to_string();
            let unit = *rng.pick(&["", "", "", "K", "M", "*4294967295", "*4294967296", "K*", "M*18446744073709551615"]);
            let ins = format!("{lit}{unit}").into_bytes();
            if runs.is_empty() || rng.chance(1, 6) {
                let o = rng.below(len as u64 + 1) as usize;
                let _ = b.splice(o..o, ins);
                how.push_str(&format!("numins@{o}={lit}{unit},"));
            } else {
                let (s, e) = *rng.pick(&runs);
                let _ = b.splice(s..e, ins);
                how.push_str(&format!("numlit@{s}={lit}{unit},"));
            }
        }
        16 | 17 => {
            // text: nesting / repetition of one of the format's openers
            let ops = openers(fmt.name);
            let (open, close) = *rng.pick(ops);
            let n = *rng.pick(&[33usize, 65, 129, 1000, 10_000, 100_000, 250_000]);
            let n = n.min((1 << 20) / open.len().max(1) / 2);
            let o = if rng.chance(1, 2) { 0 } else { rng.below(len as u64 + 1) as usize };
            let mut ins = open.repeat(n).into_bytes();
            if rng.chance(1, 2) {
                ins.extend_from_slice(&b[o..]);
                ins.extend_from_slice(close.repeat(n).as_bytes());
                b.truncate(o);
                b.extend_from_slice(&ins);
            } else {
                let _ = b.splice(o..o, ins);
            }
            how.push_str(&format!("nest@{o}:{open:?}x{n},"));
        }
        _ => {}
    }
}
/// numeric boundary literals of text formats
const NUM_LITS: &[&str] = &[
    "0", "1", "255", "256", "65535", "65536", "2147483647", "2147483648", "4294967295", "4294967296", "9007199254740992", "18014398509481984",
    "9223372036854775807", "9223372036854775808", "18446744073709551615", "18446744073709551616", "36028797018963968", "340282366920938463463374607431768211456",
    "-1", "-9223372036854775808", "-9223372036854775809", "00000000000000000000000000000000000000001", "1e400", "0x7fffffffffffffff", "99999999999999999999999999999999999999999999999999999999999999999999999999999999",
];
fn digit_runs(b: &[u8]) -> Vec<(usize, usize)> {
    let mut v = Vec::new();
    let mut i = 0;
    while i < b.len() {
        if b[i].is_ascii_digit() {
            let s = i;
            while i < b.len() && b[i].is_ascii_digit() {
                i += 1;
            }
            v.push((s, i));
        } else {
            i += 1;
        }
    }
    v
}
/// (opener, closer) pairs whose repetition nests (or widens) an input of a text format
fn openers(fmt: &str) -> &'static [(&'static str, &'static str)] {
    match fmt {
        "espec" => &[("b:", ""), ("b:{", "}"), ("b:{1=", "}"), ("e:{0123456789ABCDEF,01020304,", "}"), ("b:{*=", "}"), ("z:{", "}")],
        "product_config" => &[("[", "]"), ("{\"a\":", "}"), ("{\"all\":{\"config\":{\"opaque_complex_data\":[", "]}}}")],
        "mime" => &[("--b\r\nContent-Type: multipart/mixed; boundary=b\r\n\r\n", "--b--\r\n"), ("Content-Type: multipart/mixed; boundary=\"x\"\r\n\r\n--x\r\n", "\r\n--x--\r\n"), ("(", ")"), ("<", ">")],
        "bpsv" | "build_info" => &[("|", ""), ("\n", ""), ("x!STRING:0|", ""), ("## ", ""), ("a|", "")],
        _ => &[(" ", ""), ("\n", ""), (" = ", ""), ("a = b\n", ""), ("key-", ""), ("patch-entry = ", "")],
    }
}
fn mutate(rng: &mut Rng, seed: &[u8], fmt: &Fmt, other: &[u8]) -> (Vec<u8>, String) {
    let mut b = seed.to_vec();
    let mut how = String::new();
    let n = match rng.below(10) {
        0..=4 => 1,
        5..=7 => 2,
        8 => 3,
        _ => 4 + rng.below(5),
    };
    for _ in 0..n {
        mutate_once(rng, &mut b, fmt, other, &mut how);
    }
    if b.len() > (1 << 20) {
        b.truncate(1 << 20);
    }
    if rng.chance(1, 2) && reseal(fmt.name, &mut b) {
        how.push_str("reseal,");
    }
    (b, how)
}

// ------------------------------------------------------------------------------------------------
// builder programs (C08, binding G): TLC enumerates [fmt, ver, es: sequence of entries with distinct
// abstract keys]; an entry is [k, s, a, t] = key id, size class, auxiliary class, tag bitmask.  The
// program is executed on the crate's builder, serialised, parsed back, and the parsed content is mapped
// back to abstract entries through the (injective) concretisation below.  The model (RoundTrip.tla)
// says: the set of entries read back equals the set of entries of the program.
// ------------------------------------------------------------------------------------------------
struct AEntry {
    k: u64,
    s: u64,
    a: u64,
    t: u64,
}
const PA_FILLERS: u64 = 300;
const SIZE_CLASS: [u64; 4] = [0, 1, 4113, 0xFFFF_FFFF];
fn c_size(s: u64) -> u64 {
    SIZE_CLASS[(s as usize).min(3)]
}
fn a_size(v: u64) -> i64 {
    SIZE_CLASS.iter().position(|&x| x == v).map_or(-1, |p| p as i64)
}
fn bk16(k: u64) -> [u8; 16] {
    k16(0x50, k)
}
fn a_key16(b: &[u8]) -> i64 {
    (1..=8u64).find(|&k| b.len() <= 16 && !b.is_empty() && bk16(k)[..b.len()] == *b).map_or(-1, |k| k as i64)
}
fn bpath(k: u64) -> String {
    format!("dir{k}/file_{k}.dat")
}
fn a_path(p: &str) -> i64 {
    (1..=8u64).find(|&k| bpath(k) == p).map_or(-1, |k| k as i64)
}
const TAGS: [&str; 2] = ["Windows", "enUS"];
fn parse_entries(p: &Value) -> Vec<AEntry> {
    p["es"].as_array().map(|a| a.iter().map(|e| AEntry { k: e["k"].as_u64().unwrap_or(0), s: e["s"].as_u64().unwrap_or(0), a: e["a"].as_u64().unwrap_or(0), t: e["t"].as_u64().unwrap_or(0) }).collect()).unwrap_or_default()
}
fn ae(k: i64, s: i64, a: i64, t: i64) -> Value {
    json!({"k": k, "s": s, "a": a, "t": t})
}
fn tagmask(tags: &[cascette_formats::install::InstallTag], i: usize) -> i64 {
    let mut m = 0i64;
    for (j, name) in TAGS.iter().enumerate() {
        match tags.iter().find(|t| t.name == *name) {
            Some(t) if t.has_file(i) => m |= 1 << j,
            Some(_) => {}
            None => return -1,
        }
    }
    if tags.len() != TAGS.len() { -1 } else { m }
}

/// archive-index capacity family: ver = 10000 + key size * 100 + offset size * 10 + c; the entry count is
/// capacity - 1, capacity, capacity + 1 or 2 * capacity (c = 0..3) of a 4 KiB block
fn aidx_capacity(ver: u64) -> (usize, usize, usize) {
    let ks = ((ver - 10_000) / 100) as usize;
    let ow = ((ver / 10) % 10) as usize;
    let cap = 4096 / (ks + 4 + ow);
    let target = match ver % 10 {
        0 => cap - 1,
        1 => cap,
        2 => cap + 1,
        _ => 2 * cap,
    };
    (ks, ow, target)
}
/// encoding page-size family: (CKey page KB, EKey page KB) by version, and the number of filler entries
const ENC_PAGES: [(u16, u16); 6] = [(1, 1), (1, 1), (4, 4), (4, 8), (8, 4), (1, 16)];
const ENC_FILLERS: u64 = 10;
fn bp_build(fmt: &str, ver: u64, es: &[AEntry]) -> Result<Vec<u8>, String> {
    use cascette_crypto::md5::FileDataId;
    use cascette_crypto::{ContentKey, EncodingKey};
    use cascette_formats::install::TagType;
    match fmt {
        "install" => {
            use cascette_formats::install::InstallManifestBuilder;
            let mut b = InstallManifestBuilder::new().add_tag(TAGS[0].into(), TagType::Platform).add_tag(TAGS[1].into(), TagType::Locale);
            for (i, e) in es.iter().enumerate() {
                b = b.add_file(bpath(e.k), ContentKey::from_bytes(bk16(e.k)), c_size(e.s) as u32);
                for (j, name) in TAGS.iter().enumerate() {
                    if e.t & (1 << j) != 0 {
                        b = b.associate_file_with_tag(i, name).map_err(es_)?;
                    }
                }
            }
            b.build().map_err(es_)?.build().map_err(es_)
        }
        "download" => {
            use cascette_formats::download::DownloadManifestBuilder;
            let mut b = DownloadManifestBuilder::new(ver as u8).map_err(es_)?;
            if ver >= 2 {
                b = b.with_flags(1).map_err(es_)?;
            }
            if ver >= 3 {
                b = b.with_base_priority(-2).map_err(es_)?;
            }
            b = b.add_tag(TAGS[0].into(), TagType::Platform).add_tag(TAGS[1].into(), TagType::Locale);
            for (i, e) in es.iter().enumerate() {
                // aux class 1: a size above 4 GiB (40-bit field) and a negative priority
                let size = if e.a == 1 { c_size(e.s) + (1u64 << 32) } else { c_size(e.s) };
                b = b.add_file(EncodingKey::from_bytes(bk16(e.k)), size, if e.a == 1 { -3 } else { 2 }).map_err(es_)?;
                for (j, name) in TAGS.iter().enumerate() {
                    if e.t & (1 << j) != 0 {
                        b = b.associate_file_with_tag(i, name).map_err(es_)?;
                    }
                }
            }
            b.build().map_err(es_)?.build().map_err(es_)
        }
        "size" => {
            use cascette_formats::size::SizeManifestBuilder;
            let mut b = SizeManifestBuilder::new().version(ver as u8).ekey_size(9).add_tag(TAGS[0].into(), TagType::Platform).add_tag(TAGS[1].into(), TagType::Locale);
            if ver == 1 {
                b = b.esize_bytes(4);
            }
            for (i, e) in es.iter().enumerate() {
                b = b.add_entry(bk16(e.k)[..9].to_vec(), c_size(e.s));
                for j in 0..TAGS.len() {
                    if e.t & (1 << j) != 0 {
                        b = b.tag_file(j, i);
                    }
                }
            }
            b.build().map_err(es_)?.build().map_err(es_)
        }
        "archive_index" => {
            use cascette_formats::archive::{ArchiveGroupBuilder, ArchiveGroupEntry, ArchiveIndexBuilder};
            let mut out = Vec::new();
            if ver >= 10_000 {
                // capacity family: key size x offset size, entry count at a boundary of the block capacity
                let (ks, ow, target) = aidx_capacity(ver);
                let mut b = ArchiveIndexBuilder::with_config(ks as u8, ow as u8, 4);
                for e in es {
                    b.add_entry(bk16(e.k)[..ks].to_vec(), c_size(e.s) as u32, e.k * 64);
                }
                for i in 0..target.saturating_sub(es.len()) as u64 {
                    b.add_entry(k16(0x73, i + 100)[..ks].to_vec(), 9, 7);
                }
                b.build(std::io::Cursor::new(&mut out)).map_err(es_)?;
            } else if ver == 6 {
                let mut b = ArchiveGroupBuilder::new();
                for e in es {
                    b.add_entry(ArchiveGroupEntry::new(bk16(e.k).to_vec(), (e.a * 513) as u16, (e.k * 64) as u32, c_size(e.s) as u32));
                }
                b.build(std::io::Cursor::new(&mut out)).map_err(es_)?;
            } else {
                let mut b = ArchiveIndexBuilder::with_config(16, ver as u8, 4);
                for e in es {
                    let off = if e.a == 1 { if ver == 5 { 0xFF_0000_0000u64 + e.k } else { 0xFFFF_0000 + e.k } } else { e.k * 64 };
                    b.add_entry(bk16(e.k).to_vec(), c_size(e.s) as u32, off);
                }
                b.build(std::io::Cursor::new(&mut out)).map_err(es_)?;
            }
            Ok(out)
        }
        "encoding" => {
            use cascette_formats::encoding::{CKeyEntryData, EKeyEntryData, EncodingBuilder};
            let (ckb, ekb) = ENC_PAGES[(ver as usize).min(5)];
            let mut b = EncodingBuilder::new().with_page_sizes(ckb, ekb);
            if ver >= 2 {
                for i in 0..ENC_FILLERS {
                    let ek = EncodingKey::from_bytes(k16(0x75, i));
                    b.add_ckey_entry(CKeyEntryData { content_key: ContentKey::from_bytes(k16(0x74, i)), file_size: 11 + i, encoding_keys: vec![ek] });
                    b.add_ekey_entry(EKeyEntryData { encoding_key: ek, espec: "n".into(), file_size: 11 + i });
                }
            }
            for e in es {
                let ek = EncodingKey::from_bytes(k16(0x60, e.k));
                let mut eks = vec![ek];
                if e.t & 1 != 0 {
                    eks.push(EncodingKey::from_bytes(k16(0x61, e.k)));
                }
                let size = if e.a == 1 { c_size(e.s) + (1u64 << 32) } else { c_size(e.s) };
                b.add_ckey_entry(CKeyEntryData { content_key: ContentKey::from_bytes(bk16(e.k)), file_size: size, encoding_keys: eks });
                b.add_ekey_entry(EKeyEntryData { encoding_key: ek, espec: if e.t & 2 != 0 { "b:{256K*=z}".into() } else { "z".into() }, file_size: size });
            }
            b.build().map_err(es_)?.build().map_err(es_)
        }
        "root" => {
            use cascette_formats::root::{ContentFlags, LocaleFlags, RootBuilder, RootVersion};
            let v = match ver {
                1 => RootVersion::V1,
                2 => RootVersion::V2,
                3 => RootVersion::V3,
                _ => RootVersion::V4,
            };
            let mut b = RootBuilder::new(v);
            for e in es {
                let locale = if e.a == 1 { LocaleFlags::DEDE } else { LocaleFlags::ENUS };
                let path = bpath(e.k);
                // size class: spacing of the FileDataIDs (delta encoding); tag bit 0: named file
                let fdid = e.k as u32 * 1_000_000 + c_size(e.s).min(100_000) as u32;
                let named = e.t & 1 != 0 || ver == 1;
                let content = if named { ContentFlags::INSTALL } else { ContentFlags::INSTALL | ContentFlags::NO_NAME_HASH };
                b.add_file(FileDataId::new(fdid), ContentKey::from_bytes(bk16(e.k)), if named { Some(path.as_str()) } else { None }, LocaleFlags::new(locale), ContentFlags::new(content));
            }
            b.build().map_err(es_)
        }
        "tvfs" => {
            use cascette_formats::tvfs::TvfsBuilder;
            // capacity family: ver = 100 + n (flags 0) / 200 + n (flags 7, EST): n filler files around the program's files
            let est = ver == 1 || ver / 100 == 2;
            let nfill = if ver >= 100 { ver % 100 } else { 0 };
            let mut b = if est { TvfsBuilder::with_flags(0x7) } else { TvfsBuilder::new() };
            if est {
                b.add_est_spec("z".into());
                b.add_est_spec("n".into());
            }
            for i in 0..nfill {
                let path = format!("fill/f{i:03}.bin");
                if est {
                    b.add_file_with_est(path, k9(0x76, i), 500 + i as u32, 60 + i as u32, Some(k16(0x77, i)), (i % 2) as u32);
                } else {
                    b.add_file(path, k9(0x76, i), 500 + i as u32, 60 + i as u32, Some(k16(0x77, i)));
                }
            }
            let ver = u64::from(est);
            for e in es {
                let mut ek = [0u8; 9];
                ek.copy_from_slice(&bk16(e.k)[..9]);
                let ck = if e.t & 1 != 0 || ver == 1 { Some(k16(0x62, e.k)) } else { None };
                if ver == 1 {
                    b.add_file_with_est(bpath(e.k), ek, c_size(e.s) as u32, 77, ck, e.a as u32);
                } else {
                    b.add_file(bpath(e.k), ek, c_size(e.s) as u32, if e.a == 1 { 0xFFFF_FFFF } else { 77 }, ck);
                }
            }
            b.build().map_err(es_)
        }
        "patch_archive" => {
            use cascette_formats::patch_archive::{PatchArchiveBuilder, PatchArchiveEncodingInfo};
            let mut b = PatchArchiveBuilder::new();
            if ver == 2 {
                // several blocks: 4 KiB blocks and 300 filler entries around the entries of the program
                b = b.block_size_bits(12);
                for i in 0..PA_FILLERS {
                    b.add_file_entry(k16(0x70, i), 9, vec![(k16(0x71, i), 8, k16(0x72, i), 7, 1)]);
                }
            }
            if ver == 1 {
                b = b.encoding_info(PatchArchiveEncodingInfo { encoding_ckey: k16(0x63, 1), encoding_ekey: k16(0x64, 1), decoded_size: 10, encoded_size: 9, espec: "z".into() });
            }
            for e in es {
                let size = if e.a == 1 { c_size(e.s) + (1u64 << 32) } else { c_size(e.s) };
                let mut patches = vec![(k16(0x65, e.k), size, k16(0x66, e.k), c_size(e.s) as u32, 1u8)];
                if e.t & 1 != 0 {
                    patches.push((k16(0x67, e.k), 5, k16(0x68, e.k), 6, 2u8));
                }
                b.add_file_entry(bk16(e.k), size, patches);
            }
            b.sort_entries();
            b.build().map_err(es_)
        }
        "patch_index" => {
            use cascette_formats::patch_index::{PatchIndexBuilder, PatchIndexEntry};
            let mut b = PatchIndexBuilder::new().key_size(16);
            for e in es {
                b.add_entry(PatchIndexEntry { source_ekey: bk16(e.k), source_size: c_size(e.s) as u32, target_ekey: k16(0x69, e.k), target_size: if e.a == 1 { 0xFFFF_FFFF } else { 7 }, encoded_size: 50, suffix_offset: e.t as u8, patch_ekey: k16(0x6A, e.k) });
            }
            b.build().map_err(es_)
        }
        "bpsv" => {
            use cascette_formats::bpsv::{BpsvDocument, BpsvSchema};
            let schema = BpsvSchema::parse("Name!STRING:0|Hash!HEX:4|Size!DEC:4").map_err(es_)?;
            let mut d = BpsvDocument::new(schema);
            if ver == 1 {
                d.set_sequence_number(4113);
            }
            for e in es {
                d.add_raw_row(vec![bpath(e.k), if e.a == 1 { "deadbeef".into() } else { String::new() }, c_size(e.s).to_string()]).map_err(es_)?;
            }
            <BpsvDocument as CascFormat>::build(&d).map_err(es_)
        }
        "build_config" | "cdn_config" => {
            let vals = |e: &AEntry| -> Vec<String> {
                let mut v = vec![hex::encode(bk16(e.k))];
                if e.a == 1 {
                    v.push(c_size(e.s).to_string());
                }
                if e.t & 1 != 0 {
                    v.push("x".into());
                }
                v
            };
            let key = |e: &AEntry| -> String {
                // size class selects a key the serialiser orders explicitly vs. an unknown key
                match (fmt, e.s) {
                    ("build_config", 0) => ["root", "install", "download", "encoding"][(e.k as usize - 1) % 4].to_string(),
                    ("cdn_config", 0) => ["archives", "archive-group", "patch-archives", "file-index"][(e.k as usize - 1) % 4].to_string(),
                    _ => format!("vfs-{}-{}", e.k, e.s),
                }
            };
            if fmt == "build_config" {
                let mut c = BuildConfig::new();
                for e in es {
                    c.set(key(e), vals(e));
                }
                Ok(c.build())
            } else {
                let mut c = CdnConfig::new();
                for e in es {
                    c.set(key(e), vals(e));
                }
                Ok(c.build())
            }
        }
        "espec" => {
            // a block table built in code: one chunk per entry (level = key id, size class incl. an explicit 0,
            // counted or not, zlib variant), ver 1: plus the final variable chunk
            use cascette_formats::espec::{BlockChunk, BlockSizeSpec, ZLibVariant};
            let mut chunks: Vec<BlockChunk> = es
                .iter()
                .map(|e| BlockChunk {
                    size_spec: Some(BlockSizeSpec { size: c_size(e.s), count: if e.a == 1 { Some(5) } else { None } }),
                    spec: ESpec::ZLib { level: Some(e.k as u8), variant: if e.t & 1 != 0 { Some(ZLibVariant::MPQ) } else { None }, window_bits: None },
                })
                .collect();
            if ver == 1 {
                chunks.push(BlockChunk { size_spec: None, spec: ESpec::None });
            }
            if chunks.is_empty() {
                return Err("an empty block table is not a value of the format".into());
            }
            <ESpec as CascFormat>::build(&ESpec::BlockTable { chunks }).map_err(es_)
        }
        "keyring_config" => {
            let mut c = KeyringConfig::new();
            for e in es {
                c.add_entry(hex::encode(&bk16(e.k)[..8]), hex::encode(k16(0x6B, e.k * 4 + e.s)));
            }
            Ok(c.build())
        }
        _ => Err(format!("no builder program for {fmt}")),
    }
}
fn es_<E: std::fmt::Display>(e: E) -> String {
    e.to_string()
}

fn bp_extract(fmt: &str, ver: u64, bytes: &[u8]) -> Result<Vec<Value>, String> {
    let mut out = Vec::new();
    match fmt {
        "install" => {
            let m = InstallManifest::parse(bytes).map_err(es_)?;
            for (i, e) in m.entries.iter().enumerate() {
                let k = a_path(&e.path);
                let kk = a_key16(e.content_key.as_bytes());
                out.push(ae(if k == kk { k } else { -1 }, a_size(u64::from(e.file_size)), 0, tagmask(&m.tags, i)));
            }
        }
        "download" => {
            let m = DownloadManifest::parse(bytes).map_err(es_)?;
            for (i, e) in m.entries.iter().enumerate() {
                let sz = e.file_size.as_u64();
                let (s, a) = if sz >= (1u64 << 32) { (a_size(sz - (1u64 << 32)), 1) } else { (a_size(sz), 0) };
                let a = if (a == 1 && e.priority == -3) || (a == 0 && e.priority == 2) { a } else { -1 };
                out.push(ae(a_key16(e.encoding_key.as_bytes()), s, a, tagmask(&m.tags, i)));
            }
        }
        "size" => {
            let m = SizeManifest::parse(bytes).map_err(es_)?;
            for (i, e) in m.entries.iter().enumerate() {
                out.push(ae(a_key16(&e.key), a_size(e.esize), 0, tagmask(&m.tags, i)));
            }
        }
        "archive_index" => {
            let m = <ArchiveIndex as CascFormat>::parse(bytes).map_err(es_)?;
            let (cks, _, ctarget) = if ver >= 10_000 { aidx_capacity(ver) } else { (16, 0, 0) };
            let fillers: std::collections::HashSet<Vec<u8>> = if ver >= 10_000 { (0..ctarget as u64).map(|i| k16(0x73, i + 100)[..cks].to_vec()).collect() } else { std::collections::HashSet::new() };
            let mut nfill = 0usize;
            for e in &m.entries {
                if fillers.contains(&e.encoding_key) {
                    nfill += usize::from(e.size == 9 && e.offset == 7);
                    continue;
                }
                let k = a_key16(&e.encoding_key);
                let ku = k.max(0) as u64;
                let a = if ver >= 10_000 {
                    if e.offset == ku * 64 && e.encoding_key.len() == cks { 0 } else { -1 }
                } else if ver == 6 {
                    match (e.archive_index, e.offset == ku * 64) {
                        (Some(0), true) => 0,
                        (Some(513), true) => 1,
                        _ => -1,
                    }
                } else if e.offset == ku * 64 {
                    0
                } else if e.offset == (if ver == 5 { 0xFF_0000_0000u64 + ku } else { 0xFFFF_0000 + ku }) {
                    1
                } else {
                    -1
                };
                out.push(ae(k, a_size(u64::from(e.size)), a, 0));
            }
            if ver >= 10_000 && nfill + out.len() != ctarget.max(out.len()) {
                out.push(ae(-1, -1, -1, nfill as i64));
            }
        }
        "encoding" => {
            let m = EncodingFile::parse(bytes).map_err(es_)?;
            let mut eks: std::collections::HashMap<[u8; 16], (u64, String)> = std::collections::HashMap::new();
            for p in &m.ekey_pages {
                for e in &p.entries {
                    let spec = m.espec_table.entries.get(e.espec_index as usize).cloned().unwrap_or_default();
                    eks.insert(*e.encoding_key.as_bytes(), (e.file_size, spec));
                }
            }
            let mut n_ekeys = 0usize;
            let mut nfill = 0u64;
            if ver >= 2 {
                let (ckb, ekb) = ENC_PAGES[(ver as usize).min(5)];
                if m.header.ckey_page_size_kb != ckb || m.header.ekey_page_size_kb != ekb {
                    out.push(ae(-1, -1, -1, -3));
                }
                // every filler: CKey -> its EKey, EKey entry with its size and spec "n"
                for i in 0..ENC_FILLERS {
                    if eks.remove(&k16(0x75, i)).is_some_and(|(fs, spec)| fs == 11 + i && spec == "n") {
                        nfill += 1;
                    }
                }
            }
            for p in &m.ckey_pages {
                for e in &p.entries {
                    if ver >= 2 && (0..ENC_FILLERS).any(|i| *e.content_key.as_bytes() == k16(0x74, i) && e.file_size == 11 + i && e.encoding_keys.len() == 1 && *e.encoding_keys[0].as_bytes() == k16(0x75, i)) {
                        nfill += 1;
                        continue;
                    }
                    let k = a_key16(e.content_key.as_bytes());
                    let ku = k.max(0) as u64;
                    let (s, a) = if e.file_size >= (1u64 << 32) { (a_size(e.file_size - (1u64 << 32)), 1) } else { (a_size(e.file_size), 0) };
                    let mut t: i64 = 0;
                    let first_ok = e.encoding_keys.first().is_some_and(|x| *x.as_bytes() == k16(0x60, ku));
                    match e.encoding_keys.len() {
                        1 => {}
                        2 if *e.encoding_keys[1].as_bytes() == k16(0x61, ku) => t |= 1,
                        _ => t = -1,
                    }
                    match eks.get(&k16(0x60, ku)) {
                        Some((fs, spec)) if *fs == e.file_size && t >= 0 => {
                            n_ekeys += 1;
                            if spec == "b:{256K*=z}" {
                                t |= 2;
                            } else if spec != "z" {
                                t = -1;
                            }
                        }
                        _ => t = -1,
                    }
                    out.push(ae(if first_ok { k } else { -1 }, s, a, t));
                }
            }
            if n_ekeys != eks.len() {
                out.push(ae(-1, -1, -1, -1));
            }
            if ver >= 2 && nfill != 2 * ENC_FILLERS {
                out.push(ae(-1, -1, -1, nfill as i64 + 100));
            }
        }
        "root" => {
            use cascette_formats::root::{ContentFlags, LocaleFlags, calculate_name_hash};
            let m = RootFile::parse(bytes).map_err(es_)?;
            for b in &m.blocks {
                for r in &b.records {
                    let k = a_key16(r.content_key.as_bytes());
                    let ku = k.max(0) as u64;
                    let fd = r.file_data_id.get();
                    let s = (0..4i64).find(|&s| fd == ku as u32 * 1_000_000 + c_size(s as u64).min(100_000) as u32).unwrap_or(-1);
                    let a = if b.locale_flags().value() == LocaleFlags::DEDE {
                        1
                    } else if b.locale_flags().value() == LocaleFlags::ENUS {
                        0
                    } else {
                        -1
                    };
                    let t = match r.name_hash {
                        Some(h) if h == calculate_name_hash(&bpath(ku)) => 1,
                        None if ver != 1 && b.content_flags().value & ContentFlags::NO_NAME_HASH != 0 => 0,
                        _ => -1,
                    };
                    out.push(ae(k, s, a, t));
                }
            }
        }
        "tvfs" => {
            let m = TvfsFile::parse(bytes).map_err(es_)?;
            let nfill = if ver >= 100 { ver % 100 } else { 0 };
            let ver = u64::from(ver == 1 || ver / 100 == 2);
            let mut fill_ok = 0u64;
            for f in &m.path_table.files {
                if let Some(i) = f.path.strip_prefix("fill/f").and_then(|r| r.strip_suffix(".bin")).and_then(|r| r.parse::<u64>().ok()) {
                    // a filler must resolve to its own container entry (EKey, encoded size, span length)
                    let vfs = m.vfs_table.entries.iter().find(|v| v.offset == f.vfs_offset);
                    let clen = vfs.and_then(|v| v.spans.first().map(|s| s.span_length));
                    if m.resolve_path(&f.path).is_some_and(|c| c.ekey == k9(0x76, i) && c.encoded_size == 500 + i as u32) && clen == Some(60 + i as u32) {
                        fill_ok += 1;
                    }
                    continue;
                }
                let k = a_path(&f.path);
                let ku = k.max(0) as u64;
                match m.resolve_path(&f.path) {
                    None => out.push(ae(k, -1, -1, -1)),
                    Some(c) => {
                        let kk = a_key16(&c.ekey);
                        let t = match &c.content_key {
                            // the table stores pkey_size (9) bytes of the content key
                            Some(ck) if ck.len() >= 9 && ck.len() <= 16 && ck.as_slice() == &k16(0x62, ku)[..ck.len()] => 1,
                            None => 0,
                            _ => -1,
                        };
                        let vfs = m.vfs_table.entries.iter().find(|v| v.offset == f.vfs_offset);
                        let clen = vfs.and_then(|v| v.spans.first().map(|s| s.span_length));
                        let a = if ver == 1 {
                            match (c.est_index, clen) {
                                (Some(x), Some(77)) if x < 2 => i64::from(x),
                                _ => -1,
                            }
                        } else {
                            match clen {
                                Some(77) => 0,
                                Some(0xFFFF_FFFF) => 1,
                                _ => -1,
                            }
                        };
                        out.push(ae(if k == kk { k } else { -1 }, a_size(u64::from(c.encoded_size)), a, t));
                    }
                }
            }
            if fill_ok != nfill {
                out.push(ae(-1, -1, -1, fill_ok as i64 + 100));
            }
        }
        "patch_archive" => {
            let m = <PatchArchive as CascFormat>::parse(bytes).map_err(es_)?;
            if ver == 1 && m.encoding_info.as_ref().is_none_or(|i| i.espec != "z" || i.decoded_size != 10 || i.encoded_size != 9 || i.encoding_ckey != k16(0x63, 1) || i.encoding_ekey != k16(0x64, 1)) {
                out.push(ae(-1, -1, -1, -1));
            }
            let mut fillers = 0u64;
            for e in m.all_file_entries() {
                if ver == 2 && (0..PA_FILLERS).any(|i| e.target_ckey == k16(0x70, i)) {
                    fillers += 1;
                    continue;
                }
                let k = a_key16(&e.target_ckey);
                let ku = k.max(0) as u64;
                let (s, a) = if e.decoded_size >= (1u64 << 32) { (a_size(e.decoded_size - (1u64 << 32)), 1) } else { (a_size(e.decoded_size), 0) };
                let p0 = e.patches.first().is_some_and(|p| p.source_ekey == k16(0x65, ku) && p.source_decoded_size == e.decoded_size && p.patch_ekey == k16(0x66, ku) && i64::from(a_size(u64::from(p.patch_size)) == s) == 1 && p.patch_index == 1);
                let t = match e.patches.len() {
                    1 => 0,
                    2 if e.patches[1].source_ekey == k16(0x67, ku) && e.patches[1].source_decoded_size == 5 && e.patches[1].patch_ekey == k16(0x68, ku) && e.patches[1].patch_size == 6 && e.patches[1].patch_index == 2 => 1,
                    _ => -1,
                };
                out.push(ae(if p0 { k } else { -1 }, s, a, t));
            }
            if ver == 2 && fillers != PA_FILLERS {
                out.push(ae(-1, -1, -1, fillers as i64));
            }
        }
        "patch_index" => {
            let m = <PatchIndex as CascFormat>::parse(bytes).map_err(es_)?;
            for e in &m.entries {
                let k = a_key16(&e.source_ekey);
                let ku = k.max(0) as u64;
                let ok = e.target_ekey == k16(0x69, ku) && e.patch_ekey == k16(0x6A, ku) && e.encoded_size == 50;
                let a = match e.target_size {
                    7 => 0,
                    0xFFFF_FFFF => 1,
                    _ => -1,
                };
                out.push(ae(if ok { k } else { -1 }, a_size(u64::from(e.source_size)), a, i64::from(e.suffix_offset)));
            }
        }
        "bpsv" => {
            let d = <BpsvDocument as CascFormat>::parse(bytes).map_err(es_)?;
            if d.sequence_number() != if ver == 1 { Some(4113) } else { None } || d.schema().field_names() != ["Name", "Hash", "Size"] {
                out.push(ae(-1, -1, -1, -1));
            }
            for r in d.rows() {
                let raw = r.raw_values();
                let k = raw.first().map_or(-1, |p| a_path(p));
                let a = match raw.get(1).map(String::as_str) {
                    Some("") => 0,
                    Some("deadbeef") => 1,
                    _ => -1,
                };
                let s = raw.get(2).and_then(|x| x.parse::<u64>().ok()).map_or(-1, a_size);
                out.push(ae(k, s, a, 0));
            }
        }
        "build_config" | "cdn_config" => {
            // every key the program can have produced is probed
            let get = |k: &str| -> Option<Vec<String>> {
                if fmt == "build_config" { BuildConfig::parse(bytes).ok()?.get(k).cloned() } else { CdnConfig::parse(bytes).ok()?.get(k).cloned() }
            };
            if fmt == "build_config" {
                BuildConfig::parse(bytes).map_err(es_)?;
            } else {
                CdnConfig::parse(bytes).map_err(es_)?;
            }
            for k in 1..=8u64 {
                for s in 0..4u64 {
                    let key = match (fmt, s) {
                        ("build_config", 0) => ["root", "install", "download", "encoding"][(k as usize - 1) % 4].to_string(),
                        ("cdn_config", 0) => ["archives", "archive-group", "patch-archives", "file-index"][(k as usize - 1) % 4].to_string(),
                        _ => format!("vfs-{k}-{s}"),
                    };
                    if let Some(v) = get(&key) {
                        if v.first().map(String::as_str) != Some(hex::encode(bk16(k)).as_str()) {
                            continue; // the well-known key belongs to another abstract key (k mod 4)
                        }
                        let rest: Vec<&str> = v[1..].iter().map(String::as_str).collect();
                        let sz = c_size(s).to_string();
                        let (a, t) = if rest.is_empty() {
                            (0, 0)
                        } else if rest == [sz.as_str()] {
                            (1, 0)
                        } else if rest == ["x"] {
                            (0, 1)
                        } else if rest == [sz.as_str(), "x"] {
                            (1, 1)
                        } else {
                            (-1, -1)
                        };
                        out.push(ae(k as i64, s as i64, a, t));
                    }
                }
            }
        }
        "espec" => {
            use cascette_formats::espec::ZLibVariant;
            let v = <ESpec as CascFormat>::parse(bytes).map_err(es_)?;
            let ESpec::BlockTable { chunks } = v else { return Ok(vec![ae(-1, -1, -1, -1)]) };
            let n = chunks.len();
            for (i, c) in chunks.iter().enumerate() {
                match (&c.size_spec, &c.spec) {
                    (None, ESpec::None) if ver == 1 && i + 1 == n => {}
                    (Some(ss), ESpec::ZLib { level: Some(l), variant, window_bits: None }) => {
                        let a = match ss.count {
                            None => 0,
                            Some(5) => 1,
                            _ => -1,
                        };
                        let t = match variant {
                            None => 0,
                            Some(ZLibVariant::MPQ) => 1,
                            _ => -1,
                        };
                        out.push(ae(i64::from(*l), a_size(ss.size), a, t));
                    }
                    _ => out.push(ae(-1, -1, -1, -1)),
                }
            }
            if ver == 1 && !chunks.last().is_some_and(|c| c.size_spec.is_none()) {
                out.push(ae(-1, -1, -1, -2));
            }
        }
        "keyring_config" => {
            let c = KeyringConfig::parse(bytes).map_err(es_)?;
            for e in c.entries() {
                let k = (1..=8u64).find(|&k| hex::encode(&bk16(k)[..8]) == e.key_id).map_or(-1, |k| k as i64);
                let s = (0..4u64).find(|&s| hex::encode(k16(0x6B, k.max(0) as u64 * 4 + s)) == e.key_value).map_or(-1, |s| s as i64);
                out.push(ae(k, s, 0, 0));
            }
        }
        _ => return Err(format!("no extractor for {fmt}")),
    }
    Ok(out)
}

fn run_bprog(p: &Value, env: &Env) -> Value {
    let fmt = p["fmt"].as_str().unwrap_or("").to_string();
    let ver = p["ver"].as_u64().unwrap_or(0);
    let es = parse_entries(p);
    let mut o = Map::new();
    let (s, bytes) = stage_out(guarded(|| bp_build(&fmt, ver, &es)));
    o.insert("build".into(), s);
    let Some(bytes) = bytes else { return Value::Object(o) };
    o.insert("n".into(), json!(bytes.len()));
    o.insert("d".into(), json!(md5hex(&bytes)));
    let (s, got) = stage_out(guarded(|| bp_extract(&fmt, ver, &bytes)));
    o.insert("parse".into(), s);
    if let Some(g) = got {
        o.insert("got".into(), Value::Array(g));
    }
    // the builder's output is also an accepted input: the four round-trip equations on it
    if let Some(fi) = fmt_index(&fmt)
        && let Some(rt) = FORMATS[fi].rt
    {
        if let Ok(Ok(v)) = guarded(|| (FORMATS[fi].parse)(&bytes, env)) {
            o.insert("rt".into(), rt(v, &bytes, env));
        }
    }
    Value::Object(o)
}

// ------------------------------------------------------------------------------------------------
// parent: planning, child management, events
// ------------------------------------------------------------------------------------------------
struct Job {
    vector: Option<Value>,
    idx: u64,
    fi: usize,
    src: &'static str,
    seed: String,
    how: String,
    bytes: Vec<u8>,
    exact: bool,
    prog: Option<Value>,
}
struct Plan {
    seeds: Vec<Vec<Seed>>,
    fixtures: Vec<(usize, usize)>,
    model: Vec<(usize, usize, usize)>, // (vector, format, seed)
    vectors: Vec<Value>,
    bprogs: Vec<Value>,
    nmut: u64,
    seed: u64,
    enabled: Vec<usize>,
}
fn family_members(fam: &str) -> Vec<&'static str> {
    match fam {
        "blte" => vec!["blte", "blte_decompress"],
        "archive_index" => vec!["archive_index", "archive_group"],
        "zbsdiff" => vec!["zbsdiff", "zbsdiff_apply"],
        "zbsdiff_ctl" => vec!["zbsdiff_apply"],
        "blte_echunk" => vec!["blte_decrypt_chunk", "blte_decompress"],
        "lru" => vec!["lru", "lru_ops"],
        "shmem" => vec!["shmem", "shmem_ops"],
        "local_idx" => vec!["local_idx", "local_idx_ops"],
        other => FORMATS.iter().filter(|f| f.name == other).map(|f| f.name).collect(),
    }
}
impl Plan {
    fn new(tmp: &Path, vectors: Vec<Value>, bprogs: Vec<Value>, nmut: u64, seed: u64, only: Option<Vec<String>>, no_fixtures: bool, bombs: bool) -> Self {
        let mut seeds = all_seeds(tmp);
        if bombs {
            // decompression bombs beyond the 1 GiB cap (generated, ~1.2 MB each): the decoder must refuse them
            for (f, g) in [("zbsdiff_apply", "zbomb:1200"), ("blte_decompress", "bltebomb:1200")] {
                if let Some(fi) = fmt_index(f) {
                    seeds[fi].push(Seed { name: format!("generated/{g}"), bytes: generate(g), real: false });
                }
            }
        }
        let enabled: Vec<usize> = (0..FORMATS.len()).filter(|&i| only.as_ref().is_none_or(|o| o.iter().any(|n| n == FORMATS[i].name))).collect();
        let mut fixtures = Vec::new();
        if !no_fixtures {
            for &fi in &enabled {
                for si in 0..seeds[fi].len() {
                    fixtures.push((fi, si));
                }
            }
        }
        let mut model = Vec::new();
        for (vi, v) in vectors.iter().enumerate() {
            for name in family_members(v["fmt"].as_str().unwrap_or("")) {
                let Some(fi) = fmt_index(name) else { continue };
                if !enabled.contains(&fi) {
                    continue;
                }
                // patch into the first three builder-made seeds and into the first real fixture
                let mut used: Vec<usize> = (0..seeds[fi].len()).filter(|&k| !seeds[fi][k].real && !seeds[fi][k].name.starts_with("generated/")).take(3).collect();
                if let Some(r) = seeds[fi].iter().position(|s| s.real) {
                    used.push(r);
                }
                if used.is_empty() {
                    used.push(0);
                }
                if name == "dirnames" || name == "zbsdiff_apply" && v["fmt"].as_str() == Some("zbsdiff_ctl") || v["fmt"].as_str() == Some("blte_echunk") {
                    used = vec![0];
                } else if FORMATS[fi].text {
                    // text vectors: up to three seeds that contain a number
                    used = (0..seeds[fi].len()).filter(|&k| seeds[fi][k].bytes.iter().any(u8::is_ascii_digit)).take(3).collect();
                    if used.is_empty() {
                        used = vec![0];
                    }
                }
                // an explicit seed selector of the vector (e.g. the extended-header variants)
                if let Some(want) = v["seed"].as_str() {
                    used = seeds[fi].iter().enumerate().filter(|(_, s)| s.name.ends_with(want)).map(|(i, _)| i).collect();
                }
                for si in used {
                    model.push((vi, fi, si));
                }
            }
        }
        Plan { seeds, fixtures, model, vectors, bprogs, nmut, seed, enabled }
    }
    fn total(&self) -> u64 {
        (self.fixtures.len() + self.model.len() + self.bprogs.len()) as u64 + self.nmut
    }
    fn job(&self, i: u64) -> Job {
        let mut j = i as usize;
        if j < self.fixtures.len() {
            let (fi, si) = self.fixtures[j];
            let s = &self.seeds[fi][si];
            return Job { vector: None, idx: i, fi, src: "fixture", seed: s.name.clone(), how: String::new(), bytes: s.bytes.clone(), exact: s.real, prog: None };
        }
        j -= self.fixtures.len();
        if j < self.model.len() {
            let (vi, fi, si) = self.model[j];
            let s = &self.seeds[fi][si];
            let v = &self.vectors[vi];
            if FORMATS[fi].name == "dirnames" {
                // a name vector is not patched into a seed: it *is* the hostile name
                let n = name_of_vector(&v["v"]);
                let how = format!("name={}", String::from_utf8_lossy(&n));
                return Job { vector: Some(v["v"].clone()), idx: i, fi, src: "model", seed: "vector".into(), how, bytes: n, exact: false, prog: None };
            }
            if v["fmt"].as_str() == Some("blte_echunk") {
                let (p, how) = echunk_of_vector(&v["v"]);
                let b = if FORMATS[fi].name == "blte_decompress" { blte_with_echunk(&p) } else { p };
                return Job { vector: Some(v["v"].clone()), idx: i, fi, src: "model", seed: "vector".into(), how, bytes: b, exact: false, prog: None };
            }
            if v["fmt"].as_str() == Some("zbsdiff_ctl") {
                let (b, how) = zbs_of_vector(&v["v"]);
                return Job { vector: Some(v["v"].clone()), idx: i, fi, src: "model", seed: "vector".into(), how, bytes: b, exact: false, prog: None };
            }
            if FORMATS[fi].text && v["v"].get("lit").is_some() {
                let (b, how) = text_of_vector(FORMATS[fi].name, &v["v"], &s.bytes);
                return Job { vector: Some(v["v"].clone()), idx: i, fi, src: "model", seed: s.name.clone(), how, bytes: b, exact: false, prog: None };
            }
            let mut b = s.bytes.clone();
            let lay = layout(FORMATS[fi].name);
            let len = b.len();
            let mut how = String::new();
            if let Some(m) = v["v"].as_object() {
                // fields are applied in layout order (a dynamic location sees the fields before it already patched)
                for f in &lay {
                    if let Some(tok) = m.get(f.name).and_then(Value::as_str)
                        && let Some(cur) = fld_read(f, &b)
                        && let Some(val) = class_value(tok, f.w, cur, len)
                    {
                        fld_write(f, &mut b, val);
                        how.push_str(&format!("{}={tok},", f.name));
                    }
                }
            }
            if v["seal"].as_str() == Some("fix") && reseal(FORMATS[fi].name, &mut b) {
                how.push_str("reseal,");
            }
            return Job { vector: Some(v["v"].clone()), idx: i, fi, src: "model", seed: s.name.clone(), how, bytes: b, exact: false, prog: None };
        }
        j -= self.model.len();
        if j < self.bprogs.len() {
            let p = self.bprogs[j].clone();
            let fi = fmt_index(p["fmt"].as_str().unwrap_or("")).unwrap_or(0);
            return Job { vector: None, idx: i, fi, src: "bprog", seed: String::new(), how: String::new(), bytes: Vec::new(), exact: false, prog: Some(p) };
        }
        j -= self.bprogs.len();
        let mut rng = Rng::new(self.seed.wrapping_mul(0x1_0000_0001).wrapping_add(j as u64).wrapping_mul(0xD6E8_FEB8_6659_FD93));
        let total_w: u64 = self.enabled.iter().map(|&f| u64::from(FORMATS[f].weight)).sum();
        let mut pick = rng.below(total_w.max(1));
        let mut fi = self.enabled[0];
        for &f in &self.enabled {
            let w = u64::from(FORMATS[f].weight);
            if pick < w {
                fi = f;
                break;
            }
            pick -= w;
        }
        // generated bombs are inputs of their own, not mutation bases
        let ss: Vec<&Seed> = self.seeds[fi].iter().filter(|s| !s.name.starts_with("generated/")).collect();
        let small: Vec<usize> = (0..ss.len()).filter(|&k| ss[k].bytes.len() <= 4096).collect();
        let si = if !small.is_empty() && rng.chance(7, 10) { *rng.pick(&small) } else { rng.below(ss.len() as u64) as usize };
        let oi = rng.below(ss.len() as u64) as usize;
        let (bytes, how) = mutate(&mut rng, &ss[si].bytes, &FORMATS[fi], &ss[oi].bytes);
        Job { vector: None, idx: i, fi, src: "mut", seed: ss[si].name.clone(), how, bytes, exact: false, prog: None }
    }
}

struct Kid {
    proc: std::process::Child,
    stdin: std::process::ChildStdin,
    rx: std::sync::mpsc::Receiver<String>,
    err: std::sync::Arc<std::sync::Mutex<Vec<u8>>>,
    err_thread: Option<std::thread::JoinHandle<()>>,
}
fn spawn_kid(tmp: &Path) -> Kid {
    use std::process::{Command, Stdio};
    let exe = std::env::current_exe().expect("current exe");
    let mut proc = Command::new(exe)
        .arg("--child")
        .arg("--tmp")
        .arg(tmp)
        .env("RUST_LOG", "off")
        .env("RUST_BACKTRACE", "0")
        .stdin(Stdio::piped())
        .stdout(Stdio::piped())
        .stderr(Stdio::piped())
        .spawn()
        .expect("spawn child");
    let stdin = proc.stdin.take().expect("child stdin");
    let stdout = proc.stdout.take().expect("child stdout");
    let mut stderr = proc.stderr.take().expect("child stderr");
    let (tx, rx) = std::sync::mpsc::channel::<String>();
    std::thread::spawn(move || {
        let rd = BufReader::with_capacity(1 << 16, stdout);
        for line in rd.lines() {
            let Ok(line) = line else { break };
            if tx.send(line).is_err() {
                break;
            }
        }
    });
    let err = std::sync::Arc::new(std::sync::Mutex::new(Vec::new()));
    let e2 = err.clone();
    let err_thread = std::thread::spawn(move || {
        let mut buf = [0u8; 4096];
        loop {
            match stderr.read(&mut buf) {
                Ok(0) | Err(_) => break,
                Ok(n) => {
                    let mut g = e2.lock().expect("stderr buffer");
                    g.extend_from_slice(&buf[..n]);
                    if g.len() > 16384 {
                        let cut = g.len() - 8192;
                        g.drain(..cut);
                    }
                }
            }
        }
    });
    Kid { proc, stdin, rx, err, err_thread: Some(err_thread) }
}
enum Got {
    Line(Value),
    Timeout,
    Dead,
}
impl Kid {
    fn send(&mut self, kind: u8, fi: usize, payload: &[u8]) -> bool {
        let mut h = Vec::with_capacity(7 + payload.len());
        h.push(kind);
        h.extend_from_slice(&(fi as u16).to_le_bytes());
        h.extend_from_slice(&(payload.len() as u32).to_le_bytes());
        h.extend_from_slice(payload);
        self.stdin.write_all(&h).and_then(|()| self.stdin.flush()).is_ok()
    }
    fn recv(&self, t: Duration) -> Got {
        use std::sync::mpsc::RecvTimeoutError;
        match self.rx.recv_timeout(t) {
            Ok(l) => match serde_json::from_str::<Value>(&l) {
                Ok(v) => Got::Line(v),
                Err(_) => {
                    eprintln!("driver: unreadable line from child: {}", trunc(&l, 200));
                    Got::Dead
                }
            },
            Err(RecvTimeoutError::Timeout) => Got::Timeout,
            Err(RecvTimeoutError::Disconnected) => Got::Dead,
        }
    }
    /// kill (if still running) and describe the death
    fn reap(mut self, hang: bool) -> Value {
        use std::os::unix::process::ExitStatusExt;
        if hang {
            let _ = self.proc.kill();
        }
        let st = self.proc.wait().ok();
        // the child is gone: its stderr pipe is at EOF, the reader thread ends
        if let Some(h) = self.err_thread.take() {
            let _ = h.join();
        }
        let tail = String::from_utf8_lossy(&self.err.lock().expect("stderr buffer")).to_string();
        let sig = st.and_then(|s| s.signal()).unwrap_or(0);
        let code = st.and_then(|s| s.code()).unwrap_or(-1);
        let mut why = "other";
        let mut req: u64 = 0;
        if let Some(p) = tail.rfind("memory allocation of ") {
            why = "alloc";
            req = tail[p + 21..].split(' ').next().and_then(|x| x.parse().ok()).unwrap_or(0);
        } else if tail.contains("has overflowed its stack") || tail.contains("stack overflow") {
            why = "stack";
        } else if tail.contains("capacity overflow") {
            why = "capacity";
        }
        let last = tail.lines().rev().find(|l| !l.trim().is_empty()).unwrap_or("").to_string();
        json!({"kind": if hang { "hang" } else { "abort" }, "sig": sig, "code": code, "why": if hang { "timeout" } else { why }, "req_kib": kib(req as usize), "stderr": trunc(&last, 160)})
    }
}
struct Exec {
    p: Option<Value>,
    r: Option<Value>,
    b: Option<Value>,
    death: Option<(Value, &'static str)>, // (description, stage)
}
fn exec(kid: &mut Option<Kid>, tmp: &Path, job: &Job, t: Duration) -> Exec {
    if kid.is_none() {
        let k = spawn_kid(tmp);
        // wait for the child's initialisation (not part of any input's time budget)
        match k.recv(Duration::from_secs(120)) {
            Got::Line(v) if v["k"].as_str() == Some("ready") => {}
            _ => eprintln!("driver: child did not report ready"),
        }
        *kid = Some(k);
    }
    let mut ex = Exec { p: None, r: None, b: None, death: None };
    let k = kid.as_mut().expect("kid");
    let sent = match &job.prog {
        Some(p) => k.send(b'B', job.fi, p.to_string().as_bytes()),
        None => k.send(b'P', job.fi, &job.bytes),
    };
    let mut stage: &'static str = if job.prog.is_some() { "bprog" } else { "parse" };
    if !sent {
        ex.death = Some((kid.take().expect("kid").reap(false), stage));
        return ex;
    }
    loop {
        match kid.as_ref().expect("kid").recv(t) {
            Got::Line(v) => match v["k"].as_str() {
                Some("b") => {
                    ex.b = Some(v);
                    return ex;
                }
                Some("p") => {
                    let more = v["more"].as_bool().unwrap_or(false);
                    ex.p = Some(v);
                    if !more {
                        return ex;
                    }
                    stage = "rt";
                }
                Some("r") => {
                    ex.r = Some(v);
                    return ex;
                }
                _ => {}
            },
            Got::Timeout => {
                ex.death = Some((kid.take().expect("kid").reap(true), stage));
                return ex;
            }
            Got::Dead => {
                ex.death = Some((kid.take().expect("kid").reap(false), stage));
                return ex;
            }
        }
    }
}

#[derive(Default)]
struct Stats {
    skipped: u64,
    hangs: u64,
    jobs: u64,
    events: u64,
    by_src: std::collections::BTreeMap<String, u64>,
    outcomes: std::collections::BTreeMap<String, u64>,
    by_fmt: std::collections::BTreeMap<String, [u64; 3]>, // inputs, accepted, not ok/err
    rt: u64,
    reruns: u64,
    flaky: u64,
    distinct: std::collections::HashSet<[u8; 16]>,
}
fn copy_keys(dst: &mut Map<String, Value>, src: &Value, keys: &[&str]) {
    for k in keys {
        if let Some(v) = src.get(*k) {
            dst.insert((*k).into(), v.clone());
        }
    }
}
fn events_of(job: &Job, ex: &Exec, rerun: bool, first: Option<&Value>, st: &mut Stats) -> Vec<Value> {
    let f = &FORMATS[job.fi];
    let mut out = Vec::new();
    let mut base = Map::new();
    base.insert("id".into(), json!(job.idx));
    base.insert("src".into(), json!(job.src));
    base.insert("fmt".into(), json!(f.name));
    if let Some(p) = &job.prog {
        let mut e = base.clone();
        e.insert("op".into(), json!("bprog"));
        e.insert("ver".into(), p["ver"].clone());
        e.insert("es".into(), p["es"].clone());
        match (&ex.b, &ex.death) {
            (Some(b), _) => {
                e.insert("o".into(), json!("done"));
                copy_keys(&mut e, b, &["build", "parse", "got", "n", "d", "rt"]);
            }
            (None, Some((d, _))) => {
                e.insert("o".into(), d["kind"].clone());
                e.insert("death".into(), d.clone());
            }
            _ => {
                e.insert("o".into(), json!("abort"));
            }
        }
        *st.outcomes.entry(format!("bprog:{}", e["o"].as_str().unwrap_or("?"))).or_default() += 1;
        out.push(Value::Object(e));
        return out;
    }
    base.insert("seed".into(), json!(job.seed));
    base.insert("how".into(), json!(trunc(&job.how, 200)));
    base.insert("dg".into(), json!(md5hex(&job.bytes)));
    base.insert("len".into(), json!(job.bytes.len()));
    st.distinct.insert(md5::compute(&job.bytes).0);
    // ---- parse event
    let mut e = base.clone();
    e.insert("op".into(), json!("parse"));
    e.insert("decomp".into(), json!(f.decomp));
    e.insert("h".into(), header_fields(f.name, &job.bytes));
    e.insert("rerun".into(), json!(rerun));
    if let Some(v) = &job.vector {
        e.insert("v".into(), v.clone());
    }
    e.insert("more".into(), json!(ex.p.as_ref().is_some_and(|p| p["more"].as_bool().unwrap_or(false))));
    if let Some(fd) = first {
        e.insert("first".into(), fd["kind"].clone());
    }
    let o: String;
    match (&ex.p, &ex.death) {
        (Some(p), _) => {
            o = p["o"].as_str().unwrap_or("?").to_string();
            e.insert("o".into(), json!(o));
            e.insert("msg".into(), p["msg"].clone());
            e.insert("mc".into(), p["mc"].clone());
            e.insert("loc".into(), p["loc"].clone());
            e.insert("peak_kib".into(), json!(kib(p["peak"].as_u64().unwrap_or(0) as usize)));
            e.insert("largest_kib".into(), json!(kib(p["largest"].as_u64().unwrap_or(0) as usize)));
            e.insert("ms".into(), json!(p["us"].as_u64().unwrap_or(0) / 1000));
            e.insert("why".into(), json!(""));
            if let Some(ob) = p.get("obs") {
                e.insert("obs".into(), ob.clone());
            }
        }
        (None, Some((d, _))) => {
            o = d["kind"].as_str().unwrap_or("abort").to_string();
            e.insert("o".into(), json!(o));
            e.insert("msg".into(), d["stderr"].clone());
            e.insert("mc".into(), json!(""));
            e.insert("loc".into(), json!(""));
            e.insert("peak_kib".into(), json!(0));
            e.insert("largest_kib".into(), d["req_kib"].clone());
            e.insert("ms".into(), json!(0));
            e.insert("sig".into(), d["sig"].clone());
            e.insert("why".into(), d["why"].clone());
        }
        _ => {
            o = "abort".into();
            e.insert("o".into(), json!("abort"));
            e.insert("why".into(), json!("other"));
            e.insert("mc".into(), json!(""));
            e.insert("loc".into(), json!(""));
            e.insert("peak_kib".into(), json!(0));
            e.insert("largest_kib".into(), json!(0));
        }
    }
    *st.outcomes.entry(o.clone()).or_default() += 1;
    let fe = st.by_fmt.entry(f.name.to_string()).or_default();
    fe[0] += 1;
    if o == "ok" {
        fe[1] += 1;
    }
    if o != "ok" && o != "err" {
        fe[2] += 1;
    }
    out.push(Value::Object(e));
    // ---- round-trip event
    let rt_started = ex.p.as_ref().is_some_and(|p| p["more"].as_bool().unwrap_or(false));
    if rt_started {
        let mut e = base.clone();
        e.insert("op".into(), json!("rt"));
        e.insert("exact".into(), json!(job.exact));
        e.insert("h".into(), header_fields(f.name, &job.bytes));
        match (&ex.r, &ex.death) {
            (Some(r), _) => {
                e.insert("o".into(), json!("done"));
                copy_keys(&mut e, r, &["b2", "l1", "p2", "l2", "b3", "l1_text", "l2_text", "hm", "dang"]);
            }
            (None, Some((d, _))) => {
                e.insert("o".into(), d["kind"].clone());
                e.insert("death".into(), d.clone());
            }
            _ => {
                e.insert("o".into(), json!("abort"));
            }
        }
        st.rt += 1;
        out.push(Value::Object(e));
    }
    out
}

fn run_jobs(plan: &Plan, tmp: &Path, out_path: &str, workers: usize, timeout: Duration, only_job: Option<u64>) -> Stats {
    let total = plan.total();
    let plan = std::sync::Arc::new(plan);
    let mut stats = Stats::default();
    // confirmed hangs per entry point: after MAX_HANGS the entry point is not fed any more (every further input would
    // cost the full watchdog time twice); its remaining inputs are logged as skipped
    let hangs: std::sync::Arc<Vec<std::sync::atomic::AtomicU32>> = std::sync::Arc::new((0..FORMATS.len()).map(|_| std::sync::atomic::AtomicU32::new(0)).collect());
    let results: Vec<Stats> = std::thread::scope(|sc| {
        let mut hs = Vec::new();
        for w in 0..workers {
            let plan = plan.clone();
            let hangs = hangs.clone();
            let wtmp = tmp.join(format!("w{w}"));
            let part = format!("{out_path}.part{w}");
            hs.push(sc.spawn(move || {
                std::fs::create_dir_all(&wtmp).expect("worker tmp");
                let mut st = Stats::default();
                let mut f = std::io::BufWriter::with_capacity(1 << 20, std::fs::File::create(&part).expect("part file"));
                let mut kid: Option<Kid> = None;
                let mut i = w as u64;
                while i < total {
                    if only_job.is_some_and(|o| o != i) {
                        i += workers as u64;
                        continue;
                    }
                    let job = plan.job(i);
                    if hangs[job.fi].load(Relaxed) >= MAX_HANGS {
                        let e = json!({"op": "skip", "id": job.idx, "src": job.src, "fmt": FORMATS[job.fi].name, "why": "entry point stopped after confirmed hangs"});
                        serde_json::to_writer(&mut f, &e).expect("write event");
                        f.write_all(b"\n").expect("write event");
                        st.events += 1;
                        st.skipped += 1;
                        st.jobs += 1;
                        *st.by_src.entry(job.src.to_string()).or_default() += 1;
                        i += workers as u64;
                        continue;
                    }
                    // generated decompression bombs legitimately take seconds
                    let timeout = if job.seed.starts_with("generated/") { timeout * 20 } else { timeout };
                    let mut ex = exec(&mut kid, &wtmp, &job, timeout);
                    let mut rerun = false;
                    let mut first = None;
                    if let Some((d, _)) = &ex.death {
                        // re-run alone in a fresh child, three times the budget: only a reproducible death counts
                        first = Some(d.clone());
                        rerun = true;
                        st.reruns += 1;
                        kid = None;
                        ex = exec(&mut kid, &wtmp, &job, timeout * 3);
                        if ex.death.is_none() {
                            st.flaky += 1;
                        }
                        if ex.death.as_ref().is_some_and(|(d, _)| d["kind"].as_str() == Some("hang")) {
                            hangs[job.fi].fetch_add(1, Relaxed);
                            st.hangs += 1;
                        }
                    }
                    for e in events_of(&job, &ex, rerun, first.as_ref(), &mut st) {
                        serde_json::to_writer(&mut f, &e).expect("write event");
                        f.write_all(b"\n").expect("write event");
                        st.events += 1;
                    }
                    st.jobs += 1;
                    *st.by_src.entry(job.src.to_string()).or_default() += 1;
                    i += workers as u64;
                }
                f.flush().expect("flush part");
                drop(kid);
                st
            }));
        }
        hs.into_iter().map(|h| h.join().expect("worker")).collect()
    });
    let mut out = std::io::BufWriter::with_capacity(1 << 20, std::fs::File::create(out_path).expect("out file"));
    for w in 0..workers {
        let part = format!("{out_path}.part{w}");
        let mut f = std::fs::File::open(&part).expect("part");
        std::io::copy(&mut f, &mut out).expect("concat");
        let _ = std::fs::remove_file(&part);
    }
    out.flush().expect("flush out");
    for s in results {
        stats.jobs += s.jobs;
        stats.events += s.events;
        stats.rt += s.rt;
        stats.reruns += s.reruns;
        stats.flaky += s.flaky;
        stats.skipped += s.skipped;
        stats.hangs += s.hangs;
        for (k, v) in s.by_src {
            *stats.by_src.entry(k).or_default() += v;
        }
        for (k, v) in s.outcomes {
            *stats.outcomes.entry(k).or_default() += v;
        }
        for (k, v) in s.by_fmt {
            let e = stats.by_fmt.entry(k).or_default();
            for j in 0..3 {
                e[j] += v[j];
            }
        }
        stats.distinct.extend(s.distinct);
    }
    stats
}

fn read_ndjson(path: Option<String>) -> Vec<Value> {
    match path {
        Some(p) => verif_harness::read_programs(&p),
        None => Vec::new(),
    }
}

fn parent_main(args: &[String]) {
    let out = arg(args, "--out").unwrap_or_else(|| "/dev/stdout".into());
    let tmp = PathBuf::from(arg(args, "--tmp").unwrap_or_else(|| format!("/verif/.work/drv_parse.{}", std::process::id())));
    std::fs::create_dir_all(&tmp).expect("tmp dir");
    let workers = arg_u64(args, "--jobs", 4).max(1) as usize;
    let timeout = Duration::from_secs(arg_u64(args, "--timeout", 10));
    let only = arg(args, "--formats").map(|s| s.split(',').map(str::to_string).collect::<Vec<_>>());
    // --replay FILE: {"fmt":..,"hex":..,"exact":..} or {"prog":{..}}: exactly that input, one child
    if let Some(rp) = arg(args, "--replay") {
        let obj: Value = serde_json::from_slice(&std::fs::read(&rp).expect("replay file")).expect("replay json");
        let obj = if obj.get("input").is_some() { obj["input"].clone() } else { obj };
        let fi = fmt_index(obj["fmt"].as_str().unwrap_or("")).expect("format of the replay file");
        let job = match obj.get("prog") {
            Some(p) if !p.is_null() => Job { vector: None, idx: 0, fi, src: "bprog", seed: String::new(), how: String::new(), bytes: Vec::new(), exact: false, prog: Some(p.clone()) },
            _ => Job {
                vector: obj.get("v").filter(|v| v.is_object()).cloned(),
                idx: obj["id"].as_u64().unwrap_or(0),
                fi,
                src: match obj["src"].as_str() {
                    Some("model") => "model",
                    Some("fixture") => "fixture",
                    Some("mut") => "mut",
                    _ => "replay",
                },
                seed: obj["seed"].as_str().unwrap_or("").to_string(),
                how: obj["how"].as_str().unwrap_or("").to_string(),
                bytes: match obj["gen"].as_str() {
                    Some(g) => generate(g),
                    None => hex::decode(obj["hex"].as_str().unwrap_or("")).expect("hex input"),
                },
                exact: obj["exact"].as_bool().unwrap_or(false),
                prog: None,
            },
        };
        let mut kid = None;
        let mut st = Stats::default();
        let mut ex = exec(&mut kid, &tmp, &job, timeout * 3);
        let mut first = None;
        if let Some((d, _)) = &ex.death {
            first = Some(d.clone());
            kid = None;
            ex = exec(&mut kid, &tmp, &job, timeout * 3);
        }
        let mut f = std::fs::File::create(&out).expect("out");
        for e in events_of(&job, &ex, first.is_some(), first.as_ref(), &mut st) {
            writeln!(f, "{e}").expect("write");
            st.events += 1;
        }
        drop(kid);
        let _ = std::fs::remove_dir_all(&tmp);
        eprintln!("{}", json!({"programs": 1, "events": st.events}));
        return;
    }
    let vectors = read_ndjson(arg(args, "--vectors"));
    let bprogs = read_ndjson(arg(args, "--bprogs"));
    let nmut = arg_u64(args, "--mutations", 0);
    let plan = Plan::new(&tmp, vectors, bprogs, nmut, seed_from_env(), only, has_flag(args, "--no-fixtures"), has_flag(args, "--bombs"));
    if let Some(i) = arg(args, "--dump-job").and_then(|s| s.parse::<u64>().ok()) {
        let j = plan.job(i);
        println!("{}", json!({"id": j.idx, "fmt": FORMATS[j.fi].name, "src": j.src, "seed": j.seed, "how": j.how, "exact": j.exact, "hex": hex::encode(&j.bytes), "prog": j.prog, "v": j.vector}));
        let _ = std::fs::remove_dir_all(&tmp);
        return;
    }
    if has_flag(args, "--list-seeds") {
        for (fi, ss) in plan.seeds.iter().enumerate() {
            for s in ss {
                println!("{}\t{}\t{}\t{}", FORMATS[fi].name, s.name, s.bytes.len(), s.real);
            }
        }
        let _ = std::fs::remove_dir_all(&tmp);
        return;
    }
    let only_job = arg(args, "--only-job").and_then(|s| s.parse::<u64>().ok());
    let t0 = Instant::now();
    let st = run_jobs(&plan, &tmp, &out, workers, timeout, only_job);
    let _ = std::fs::remove_dir_all(&tmp);
    let by_fmt: Map<String, Value> = st.by_fmt.iter().map(|(k, v)| (k.clone(), json!(v))).collect();
    eprintln!(
        "{}",
        json!({"programs": st.jobs, "events": st.events, "by_src": st.by_src, "outcomes": st.outcomes, "by_fmt": by_fmt, "rt": st.rt, "reruns": st.reruns, "flaky": st.flaky, "hangs": st.hangs, "skipped": st.skipped,
               "distinct_inputs": st.distinct.len(), "fixtures": plan.fixtures.len(), "model_jobs": plan.model.len(), "bprogs": plan.bprogs.len(), "mutations": plan.nmut,
               "wall_ms": t0.elapsed().as_millis() as u64})
    );
}


// ------------------------------------------------------------------------------------------------
// child
// ------------------------------------------------------------------------------------------------
fn child_main(args: &[String]) {
    quiet_panics();
    let tmp = PathBuf::from(arg(args, "--tmp").expect("--tmp"));
    std::fs::create_dir_all(&tmp).expect("tmp dir");
    let valid_idx = build_local_idx_seed(&tmp, true).unwrap_or_default();
    let env = Env { valid_idx, tmp, rt: verif_harness::rt(), olds: zbs_olds() };
    let stdin = std::io::stdin();
    let mut rd = stdin.lock();
    let stdout = std::io::stdout();
    let mut out = stdout.lock();
    // initialisation (seed files, runtime) is over: the per-input watchdog of the parent starts with the first frame
    writeln!(out, "{}", json!({"k": "ready"})).expect("child stdout");
    out.flush().expect("child stdout");
    loop {
        let mut h = [0u8; 7];
        if rd.read_exact(&mut h).is_err() {
            break;
        }
        let kind = h[0];
        let fi = u16::from_le_bytes([h[1], h[2]]) as usize;
        let len = u32::from_le_bytes([h[3], h[4], h[5], h[6]]) as usize;
        let mut payload = vec![0u8; len];
        if rd.read_exact(&mut payload).is_err() {
            break;
        }
        if kind == b'B' {
            let prog: Value = serde_json::from_slice(&payload).expect("builder program json");
            let base = meter_reset();
            let t0 = Instant::now();
            let mut res = run_bprog(&prog, &env);
            let (peak, largest, _) = meter_read(base);
            res["k"] = json!("b");
            res["peak"] = json!(peak);
            res["largest"] = json!(largest);
            res["us"] = json!(t0.elapsed().as_micros() as u64);
            writeln!(out, "{res}").expect("child stdout");
            out.flush().expect("child stdout");
            continue;
        }
        let f = &FORMATS[fi];
        OBS.with(|o| *o.borrow_mut() = None);
        let base = meter_reset();
        let t0 = Instant::now();
        let r = guarded(|| (f.parse)(&payload, &env));
        let us = t0.elapsed().as_micros() as u64;
        let (peak, largest, na) = meter_read(base);
        let (o, msg, val) = match r {
            Ok(Ok(v)) => ("ok", String::new(), Some(v)),
            Ok(Err(e)) => ("err", e, None),
            Err(p) => ("panic", p, None),
        };
        let more = val.is_some() && f.rt.is_some();
        let (mc, loc) = if o == "panic" { panic_class(&msg) } else { (String::new(), String::new()) };
        let mut line = json!({"k": "p", "o": o, "msg": trunc(&msg, 200), "mc": mc, "loc": loc, "peak": peak, "largest": largest, "na": na, "us": us, "more": more});
        if let Some(ob) = OBS.with(|o| o.borrow_mut().take()) {
            line["obs"] = ob;
        }
        writeln!(out, "{line}").expect("child stdout");
        out.flush().expect("child stdout");
        if more {
            let t1 = Instant::now();
            let mut res = (f.rt.expect("rt"))(val.expect("val"), &payload, &env);
            res["k"] = json!("r");
            res["us"] = json!(t1.elapsed().as_micros() as u64);
            writeln!(out, "{res}").expect("child stdout");
            out.flush().expect("child stdout");
        }
    }
}

fn main() {
    let args: Vec<String> = std::env::args().collect();
    if has_flag(&args, "--child") {
        // the code under test runs on a thread with the stack Rust gives every spawned thread (2 MiB; tokio
        // workers too): unbounded recursion overflows it, the runtime aborts the process, the parent records it
        let a = args.clone();
        let h = std::thread::Builder::new().name("parser".into()).stack_size(CHILD_STACK).spawn(move || child_main(&a)).expect("spawn parser thread");
        let _ = h.join();
        return;
    }
    parent_main(&args);
}
