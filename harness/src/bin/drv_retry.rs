//! C14 driver: executes retry programs on the real `RetryPolicy` (cascette-protocol) and, for the
//! `cdn` family, on the real `CdnClient::download` against a loopback mock HTTP server.
//!
//! usage: drv_retry --programs <file> --out <file>            exec / env programs (virtual clock)
//!        drv_retry --cdn <file> --out <file> [--par N]       cdn programs (real clock, real sockets)
//!        drv_retry --random N --out <file> [--dump-programs <file>]
//!        drv_retry --env-child                               (internal) one env program on stdin
//!
//! Programs (one JSON object per line, produced by TLC from spec/mc/MC_Retry.tla):
//!   {"fam":"exec","pol":{"max":3,"init":100,"maxb":1000,"mult":"2","jit":false},
//!    "outs":[{"kind":"Timeout","code":0,"h":-1,"dur":0}, ...]}
//!   {"fam":"env","env":{"MAX_RETRIES":"abc","RETRY_BACKOFF":"unset",...},"outs":[...]}
//!   {"fam":"cdn","resp":[{"code":503,"ra":"none"},{"code":429,"ra":"1"},{"code":200,"ra":"none"}]}
//! Durations are integers in milliseconds; -1 = "no hint", -2 = "as large as the type allows".
//!
//! Events (judged by spec/trace/T_Retry.tla; nothing is decided here):
//!   {"op":"new","fam":..,"clock":"virtual"|"real","pol":{..}[,"env":{..}]}
//!   {"op":"from_env","seq":n,"res":{"kind":"Ok"|"Err"|"panic"},"pol":{..}}          (env family)
//!   {"op":"call","seq":n,"i":i,"gap":ms,"o":{"kind":..,"code":..,"h":ms,"dur":ms}}  one per invocation of the closure /
//!                                                                                   per request seen by the mock
//!   {"op":"ret","seq":n,"res":{"kind":..,"code":..,"h":ms,"id":i}}                  what execute()/download() returned
//! `gap` = time between the end of the previous attempt (start of execute for the first one) and this
//! invocation, on tokio's paused clock (virtual) or the monotonic clock (real), saturated at SAT_MS.
use cascette_protocol::error::ProtocolError;
use cascette_protocol::retry::RetryPolicy;
use serde_json::{Value, json};
use std::cell::{Cell, RefCell};
use std::io::{Read, Write};
use std::time::Duration;
use verif_harness::*;

const SAT_MS: u128 = 100_000_000;
const ENV_VARS: [(&str, &str); 5] = [
    ("MAX_RETRIES", "CASCETTE_MAX_RETRIES"),
    ("RETRY_BACKOFF", "CASCETTE_RETRY_BACKOFF"),
    ("MAX_BACKOFF", "CASCETTE_MAX_BACKOFF"),
    ("MULT", "CASCETTE_BACKOFF_MULTIPLIER"),
    ("JITTER", "CASCETTE_RETRY_JITTER"),
];

fn sat_ms(d: Duration) -> u64 {
    d.as_millis().min(SAT_MS) as u64
}

/// -2 = the largest value the configuration path can produce for this field
fn dur_of(ms: i64, huge: Duration) -> Duration {
    if ms == -2 { huge } else { Duration::from_millis(ms.max(0) as u64) }
}

fn mult_token(f: f64) -> String {
    if f.is_nan() {
        "nan".into()
    } else if f.is_infinite() {
        if f > 0.0 { "inf".into() } else { "-inf".into() }
    } else if f.abs() >= 1e300 {
        if f > 0.0 { "1e308".into() } else { "-1e308".into() }
    } else if f == f.trunc() && f.abs() < 1e9 {
        if f == 0.0 && f.is_sign_negative() { "-0".into() } else { format!("{}", f as i64) }
    } else {
        format!("{f}")
    }
}

/// The policy as read back from the public fields of the struct (never copied from the program).
fn pol_json(p: &RetryPolicy) -> Value {
    json!({"max": (p.max_attempts as u64).min(2_000_000_000), "init": sat_ms(p.initial_backoff),
           "maxb": sat_ms(p.max_backoff), "mult": mult_token(p.multiplier), "jit": p.jitter})
}

fn pol_of(v: &Value) -> RetryPolicy {
    RetryPolicy {
        max_attempts: v["max"].as_u64().expect("pol.max") as u32,
        initial_backoff: dur_of(v["init"].as_i64().expect("pol.init"), Duration::from_millis(u64::MAX)),
        max_backoff: dur_of(v["maxb"].as_i64().expect("pol.maxb"), Duration::from_secs(u64::MAX)),
        multiplier: v["mult"].as_str().expect("pol.mult").parse::<f64>().expect("multiplier token"),
        jitter: v["jit"].as_bool().expect("pol.jit"),
    }
}

fn status<T: TryFrom<u16>>(code: u64) -> T
where
    T::Error: std::fmt::Debug,
{
    T::try_from(code as u16).expect("status code")
}

/// Concrete outcome of attempt `i` for an outcome record of the program.
fn make_outcome(o: &Value, i: u64) -> Result<u64, ProtocolError> {
    let code = o["code"].as_u64().unwrap_or(0);
    let tag = format!("c{i}");
    Err(match o["kind"].as_str().expect("kind") {
        "Ok" => return Ok(i),
        "Timeout" => ProtocolError::Timeout,
        "Network" => ProtocolError::Network(std::io::Error::other(tag)),
        "ServiceUnavailable" => ProtocolError::ServiceUnavailable,
        "ServerError" => ProtocolError::ServerError(status(code)),
        "HttpStatus" => ProtocolError::HttpStatus(status(code)),
        "RateLimited" => {
            let h = o["h"].as_i64().unwrap_or(-1);
            ProtocolError::RateLimited { retry_after: if h == -1 { None } else { Some(dur_of(h, Duration::from_secs(u64::MAX))) } }
        }
        "Parse" => ProtocolError::Parse(tag),
        "AllHostsFailed" => ProtocolError::AllHostsFailed,
        "InvalidKey" => ProtocolError::InvalidKey,
        "InvalidEndpoint" => ProtocolError::InvalidEndpoint(tag),
        "RangeNotSupported" => ProtocolError::RangeNotSupported,
        "Other" => ProtocolError::Other(tag),
        "UnsupportedOnWasm" => ProtocolError::UnsupportedOnWasm(tag),
        "Utf8" => ProtocolError::Utf8(String::from_utf8(vec![0xff]).unwrap_err()),
        "Cache" => ProtocolError::Cache(cascette_protocol::cache::CacheError::Other(tag)),
        "Beyond" => ProtocolError::Other(format!("beyond{i}")),
        other => panic!("driver: unknown outcome kind {other}"),
    })
}

fn tag_id(s: &str) -> u64 {
    s.trim_start_matches(|c: char| !c.is_ascii_digit()).parse().unwrap_or(0)
}

/// Projection of what execute()/download() returned.
fn describe(r: &Result<u64, ProtocolError>) -> Value {
    let (kind, code, h, id): (&str, u64, i64, u64) = match r {
        Ok(i) => ("Ok", 0, -1, *i),
        Err(e) => match e {
            ProtocolError::Timeout => ("Timeout", 0, -1, 0),
            ProtocolError::Network(e) => ("Network", 0, -1, tag_id(&e.to_string())),
            ProtocolError::ServiceUnavailable => ("ServiceUnavailable", 0, -1, 0),
            ProtocolError::ServerError(s) => ("ServerError", s.as_u16() as u64, -1, 0),
            ProtocolError::HttpStatus(s) => ("HttpStatus", s.as_u16() as u64, -1, 0),
            ProtocolError::RateLimited { retry_after } => ("RateLimited", 0, retry_after.map_or(-1, |d| sat_ms(d) as i64), 0),
            ProtocolError::Parse(s) => ("Parse", 0, -1, tag_id(s)),
            ProtocolError::AllHostsFailed => ("AllHostsFailed", 0, -1, 0),
            ProtocolError::InvalidKey => ("InvalidKey", 0, -1, 0),
            ProtocolError::InvalidEndpoint(s) => ("InvalidEndpoint", 0, -1, tag_id(s)),
            ProtocolError::RangeNotSupported => ("RangeNotSupported", 0, -1, 0),
            ProtocolError::Other(s) if s.starts_with("beyond") => ("Beyond", 0, -1, tag_id(s)),
            ProtocolError::Other(s) => ("Other", 0, -1, tag_id(s)),
            ProtocolError::UnsupportedOnWasm(s) => ("UnsupportedOnWasm", 0, -1, tag_id(s)),
            ProtocolError::Utf8(_) => ("Utf8", 0, -1, 0),
            ProtocolError::Cache(e) => ("Cache", 0, -1, tag_id(&e.to_string())),
            ProtocolError::Http(e) => {
                (if e.is_connect() { "HttpConnect" } else if e.is_timeout() { "HttpTimeout" } else { "HttpOther" }, 0, -1, 0)
            }
        },
    };
    json!({"kind": kind, "code": code, "h": h, "id": id})
}

/// Run `policy.execute` over the scripted outcomes on a paused tokio clock; one "call" event per
/// invocation of the closure, one "ret" event for the result (or the panic).
fn run_script(policy: &RetryPolicy, outs: &[Value], seq: &Cell<u64>, emit: &dyn Fn(Value)) {
    let rt = tokio::runtime::Builder::new_current_thread()
        .enable_time()
        .start_paused(true)
        .build()
        .expect("paused runtime");
    let beyond = json!({"kind": "Beyond", "code": 0, "h": -1, "dur": 0});
    let n = Cell::new(0u64);
    let r = guarded(|| {
        rt.block_on(async {
            let last_end = Cell::new(tokio::time::Instant::now());
            let patience = Duration::from_millis(SAT_MS as u64 + 1000);
            let exec = policy
                .execute(|| {
                    let t0 = tokio::time::Instant::now();
                    let i = n.get() + 1;
                    n.set(i);
                    // a runaway loop of the code under test must end: recorded as a panic of the run
                    assert!(i <= outs.len() as u64 + 8, "driver: more than script+8 attempts (runaway retry loop)");
                    let o = outs.get(i as usize - 1).unwrap_or(&beyond).clone();
                    seq.set(seq.get() + 1);
                    emit(json!({"op": "call", "seq": seq.get(), "i": i, "gap": sat_ms(t0 - last_end.get()), "o": o}));
                    let last_end = &last_end;
                    async move {
                        let dur = o["dur"].as_u64().unwrap_or(0);
                        if dur > 0 {
                            tokio::time::sleep(Duration::from_millis(dur)).await;
                        }
                        last_end.set(tokio::time::Instant::now());
                        make_outcome(&o, i)
                    }
                });
            tokio::pin!(exec);
            // A delay longer than SAT_MS of virtual time cannot be told from "forever": the run is
            // recorded as still waiting (the paused clock makes this instantaneous).
            loop {
                let deadline = last_end.get() + patience;
                tokio::select! {
                    biased;
                    r = &mut exec => break Some(r),
                    () = tokio::time::sleep_until(deadline) => {
                        if tokio::time::Instant::now() >= last_end.get() + patience {
                            break None;
                        }
                    }
                }
            }
        })
    });
    seq.set(seq.get() + 1);
    let res = match r {
        Ok(Some(r)) => describe(&r),
        Ok(None) => json!({"kind": "waiting", "code": 0, "h": -1, "id": 0}),
        Err(m) => {
            let mut p = outcome_panic(&m);
            p["kind"] = json!("panic");
            p["code"] = json!(0);
            p["h"] = json!(-1);
            p["id"] = json!(0);
            p
        }
    };
    emit(json!({"op": "ret", "seq": seq.get(), "res": res}));
}

fn run_exec(prog: &Value, emit: &dyn Fn(Value)) {
    let policy = pol_of(&prog["pol"]);
    emit(json!({"op": "new", "fam": "exec", "clock": "virtual", "pol": pol_json(&policy)}));
    let seq = Cell::new(0);
    run_script(&policy, prog["outs"].as_array().expect("outs"), &seq, emit);
}

/// env family, child side: the environment of this process was set by the parent.
fn run_env_child(prog: &Value, emit: &dyn Fn(Value)) {
    let seq = Cell::new(1);
    let dflt = pol_json(&RetryPolicy::default());
    emit(json!({"op": "new", "fam": "env", "clock": "virtual", "pol": dflt, "env": prog["env"]}));
    match guarded(RetryPolicy::from_env) {
        Ok(Ok(policy)) => {
            emit(json!({"op": "from_env", "seq": 1, "res": {"kind": "Ok"}, "pol": pol_json(&policy)}));
            run_script(&policy, prog["outs"].as_array().expect("outs"), &seq, emit);
        }
        Ok(Err(_)) => emit(json!({"op": "from_env", "seq": 1, "res": {"kind": "Err"}, "pol": dflt})),
        Err(m) => emit(json!({"op": "from_env", "seq": 1, "res": {"kind": "panic", "msg": m}, "pol": dflt})),
    }
}

/// env family, parent side: environment variables are process-global, so each row runs in a child.
fn run_env(prog: &Value, emit: &dyn Fn(Value)) {
    let exe = std::env::current_exe().expect("current_exe");
    let mut cmd = std::process::Command::new(exe);
    cmd.arg("--env-child").stdin(std::process::Stdio::piped()).stdout(std::process::Stdio::piped()).stderr(std::process::Stdio::null());
    for (short, var) in ENV_VARS {
        cmd.env_remove(var);
        match prog["env"][short].as_str() {
            Some("unset") | None => {}
            Some(v) => {
                cmd.env(var, v);
            }
        }
    }
    let mut child = cmd.spawn().expect("spawn env child");
    child.stdin.take().expect("stdin").write_all(prog.to_string().as_bytes()).expect("write program");
    let mut s = String::new();
    child.stdout.take().expect("stdout").read_to_string(&mut s).expect("read child");
    let st = child.wait().expect("wait child");
    let mut n = 0;
    for line in s.lines().filter(|l| !l.trim().is_empty()) {
        emit(serde_json::from_str(line).expect("child event"));
        n += 1;
    }
    if !st.success() || n == 0 {
        // the child died (abort / signal): that is an outcome of the code under test
        if n == 0 {
            emit(json!({"op": "new", "fam": "env", "clock": "virtual", "pol": pol_json(&RetryPolicy::default()), "env": prog["env"]}));
        }
        emit(json!({"op": "ret", "seq": 1_000_000, "res": {"kind": "abort", "code": st.code().unwrap_or(-1), "h": -1, "id": 0}}));
    }
}

fn run_program(prog: &Value, out: &Emit) {
    let emit = |v: Value| out.ev(v);
    out.begin(prog);
    match prog["fam"].as_str() {
        Some("exec") => run_exec(prog, &emit),
        Some("env") => run_env(prog, &emit),
        other => panic!("driver: unknown program family {other:?}"),
    }
}

// ------------------------------------------------------------------------------------------------
// cdn family: real CdnClient::download against a scripted loopback HTTP/1.1 server, real clock.
// ------------------------------------------------------------------------------------------------
mod cdn {
    use super::*;
    use cascette_protocol::{CacheConfig, CdnClient, CdnConfig, CdnEndpoint, ContentType};
    use std::collections::HashMap;
    use std::sync::{Arc, Mutex};
    use std::time::Instant;
    use tokio::io::{AsyncReadExt, AsyncWriteExt};

    pub struct Row {
        pub resp: Vec<Value>,
        /// (arrival, instant just before the response was written) per request, in arrival order
        pub log: Vec<(Instant, Instant)>,
    }
    type Rows = Arc<Mutex<HashMap<String, Row>>>;

    fn body_of(hex_key: &str, i: usize) -> Vec<u8> {
        format!("body-{hex_key}-{i}").into_bytes()
    }

    async fn serve(mut sock: tokio::net::TcpStream, rows: Rows) {
        let arrival = Instant::now();
        let mut buf = Vec::new();
        let mut tmp = [0u8; 2048];
        while !buf.windows(4).any(|w| w == b"\r\n\r\n") {
            match sock.read(&mut tmp).await {
                Ok(0) | Err(_) => return,
                Ok(n) => buf.extend_from_slice(&tmp[..n]),
            }
        }
        let head = String::from_utf8_lossy(&buf);
        let path = head.split_whitespace().nth(1).unwrap_or("");
        let hex_key = path.rsplit('/').next().unwrap_or("").to_string();
        // One critical section at arrival: the position of this request in the row's script and the log
        // entry are fixed before a single byte is answered, so a client that comes back quickly (a
        // descheduled server task under load) can never be served the same script position twice.
        // `sent` is taken BEFORE the bytes leave: the client cannot have the answer earlier than this
        // instant, so "next arrival - sent" is never shorter than the time the client waited in between.
        let (code, ra, idx) = {
            let mut g = rows.lock().unwrap();
            match g.get_mut(&hex_key) {
                Some(r) => {
                    let idx = r.log.len();
                    // beyond the script: a definitive answer, so that a runaway client stops
                    let o = r.resp.get(idx).cloned().unwrap_or(json!({"code": 410, "ra": "none"}));
                    r.log.push((arrival, Instant::now()));
                    (o["code"].as_u64().unwrap_or(500), o["ra"].as_str().unwrap_or("none").to_string(), idx)
                }
                None => (404, "none".to_string(), 0),
            }
        };
        let body = if code == 204 || code == 304 { vec![] } else { body_of(&hex_key, idx + 1) };
        let mut resp = format!("HTTP/1.1 {code} Scripted\r\nContent-Length: {}\r\nConnection: close\r\n", body.len());
        if ra != "none" {
            resp.push_str(&format!("Retry-After: {ra}\r\n"));
        }
        resp.push_str("\r\n");
        let mut bytes = resp.into_bytes();
        bytes.extend_from_slice(&body);
        let _ = sock.write_all(&bytes).await;
        let _ = sock.flush().await;
        let _ = sock.shutdown().await;
    }

    pub fn run(programs: Vec<Value>, out: &mut Out, par: usize, patience_s: u64) -> (u64, u64) {
        let rt = tokio::runtime::Builder::new_multi_thread().worker_threads(4).enable_all().build().expect("runtime");
        let rows: Rows = Arc::new(Mutex::new(HashMap::new()));
        let dir = tempfile::tempdir().expect("tempdir");
        let dflt = pol_json(&RetryPolicy::default());
        let mut hangs = 0u64;
        let results: Vec<(String, Instant, Value)> = rt.block_on(async {
            let listener = tokio::net::TcpListener::bind("127.0.0.1:0").await.expect("bind loopback");
            let host = format!("127.0.0.1:{}", listener.local_addr().unwrap().port());
            let rows2 = rows.clone();
            tokio::spawn(async move {
                loop {
                    if let Ok((sock, _)) = listener.accept().await {
                        tokio::spawn(serve(sock, rows2.clone()));
                    }
                }
            });
            let cache = Arc::new(
                cascette_protocol::cache::ProtocolCache::new(&CacheConfig { cache_dir: Some(dir.path().to_path_buf()), ..CacheConfig::default() })
                    .expect("protocol cache"),
            );
            let client = Arc::new(CdnClient::new(cache, CdnConfig::default()).expect("cdn client"));
            let sem = Arc::new(tokio::sync::Semaphore::new(par));
            let mut handles = vec![];
            for (n, prog) in programs.iter().enumerate() {
                let hex_key = format!("{:032x}", 0xC14_0000_0000u64 + n as u64);
                rows.lock().unwrap().insert(hex_key.clone(), Row { resp: prog["resp"].as_array().expect("resp").clone(), log: vec![] });
                let (client, sem, host) = (client.clone(), sem.clone(), host.clone());
                handles.push(tokio::spawn(async move {
                    let _permit = sem.acquire_owned().await.expect("semaphore");
                    let endpoint = CdnEndpoint {
                        host,
                        path: "tpr/verif".to_string(),
                        product_path: None,
                        scheme: Some("http".to_string()),
                        is_fallback: false,
                        strict: false,
                        max_hosts: None,
                    };
                    let key = hex::decode(&hex_key).expect("hex");
                    let start = Instant::now();
                    let fut = std::panic::AssertUnwindSafe(client.download(&endpoint, ContentType::Data, &key));
                    // patience_s stays below reqwest's 45 s request timeout of HttpClient: a stalled machine can
                    // then never turn into a client-side timeout error that would look like an extra attempt
                    let r = tokio::time::timeout(Duration::from_secs(patience_s), futures::FutureExt::catch_unwind(fut)).await;
                    let res = match r {
                        // not back after `patience_s` of real time: recorded as still waiting
                        Err(_) => json!({"kind": "waiting", "code": 0, "h": -1, "id": 0}),
                        Ok(Err(_)) => json!({"kind": "panic", "code": 0, "h": -1, "id": 0}),
                        Ok(Ok(Ok(body))) => {
                            // which scripted response does the returned body belong to (0 = none of them)
                            let id = (1..=12).find(|i| body == body_of(&hex_key, *i)).unwrap_or(if body.is_empty() { 1000 } else { 0 });
                            json!({"kind": "Ok", "code": 0, "h": -1, "id": id})
                        }
                        Ok(Ok(Err(e))) => describe(&Err(e)),
                    };
                    (hex_key, start, res)
                }));
            }
            let mut v = vec![];
            for h in handles {
                v.push(h.await.expect("row task"));
            }
            v
        });
        let g = rows.lock().unwrap();
        for (hex_key, start, res) in &results {
            let row = &g[hex_key];
            out.ev(&json!({"op": "new", "fam": "cdn", "clock": "real", "pol": dflt}));
            let mut seq = 0u64;
            let mut prev_end = *start;
            for (i, (arr, sent)) in row.log.iter().enumerate() {
                seq += 1;
                let gap = sat_ms(arr.saturating_duration_since(prev_end));
                let o = row.resp.get(i).cloned().unwrap_or(json!({"code": 410, "ra": "none"}));
                out.ev(&json!({"op": "call", "seq": seq, "i": i + 1, "gap": gap,
                               "o": {"kind": "Status", "code": o["code"], "ra": o["ra"], "h": -1, "dur": 0}}));
                prev_end = *sent;
            }
            seq += 1;
            if res["kind"] == "waiting" {
                hangs += 1;
            }
            out.ev(&json!({"op": "ret", "seq": seq, "res": res}));
        }
        (results.len() as u64, hangs)
    }
}

// ------------------------------------------------------------------------------------------------
fn random_program(rng: &mut Rng) -> Value {
    const MULTS: [&str; 12] = ["0", "0.5", "1", "1.5", "2", "3", "10", "2", "nan", "-1", "inf", "1e308"];
    const RETRY: [&str; 6] = ["Timeout", "Network", "ServiceUnavailable", "ServerError", "RateLimited", "HttpStatus"];
    const FATAL: [&str; 8] = ["Parse", "InvalidKey", "InvalidEndpoint", "RangeNotSupported", "Utf8", "UnsupportedOnWasm", "HttpStatus", "Ok"];
    const EITHER: [&str; 4] = ["Other", "AllHostsFailed", "Cache", "HttpStatus"];
    let max = rng.below(13);
    let init = 10 * rng.below(201) as i64;
    let maxb = if rng.chance(1, 4) { 10 * rng.below(1 + init as u64 / 10) as i64 } else { 10 * rng.below(501) as i64 };
    let mult = if rng.chance(1, 8) { MULTS[8 + rng.below(4) as usize] } else { MULTS[rng.below(8) as usize] };
    let len = max + 2;
    let mut outs = vec![];
    for i in 0..len {
        let r = rng.below(100);
        let (kind, code) = if r < 78 && i + 1 < len {
            let k = *rng.pick(&RETRY);
            (k, match k { "ServerError" => *rng.pick(&[500u64, 503, 599]), "HttpStatus" => *rng.pick(&[429u64, 500, 502, 503, 504]), _ => 0 })
        } else if r < 95 {
            let k = *rng.pick(&FATAL);
            (k, if k == "HttpStatus" { *rng.pick(&[400u64, 401, 403, 404, 410]) } else { 0 })
        } else {
            let k = *rng.pick(&EITHER);
            (k, if k == "HttpStatus" { *rng.pick(&[408u64, 418, 501, 505]) } else { 0 })
        };
        let h: i64 = if kind == "RateLimited" && rng.chance(2, 3) { 10 * rng.below(301) as i64 } else { -1 };
        let dur = if rng.chance(1, 4) { 10 * rng.below(20) } else { 0 };
        outs.push(json!({"kind": kind, "code": code, "h": h, "dur": dur}));
    }
    json!({"fam": "exec", "pol": {"max": max, "init": init, "maxb": maxb, "mult": mult, "jit": rng.chance(1, 2)}, "outs": outs})
}

fn main() {
    quiet_panics();
    let args: Vec<String> = std::env::args().collect();
    if has_flag(&args, "--env-child") {
        let mut s = String::new();
        std::io::stdin().read_to_string(&mut s).expect("read program");
        let prog: Value = serde_json::from_str(&s).expect("program");
        let out = RefCell::new(Out::stdout());
        run_env_child(&prog, &|v| out.borrow_mut().ev(&v));
        out.borrow_mut().flush();
        return;
    }
    let mut out = Out::from_arg(arg(&args, "--out").as_ref());
    if let Some(p) = arg(&args, "--cdn") {
        let programs = read_programs(&p);
        let (n, hangs) = cdn::run(programs, &mut out, arg_u64(&args, "--par", 32) as usize, arg_u64(&args, "--patience", 40));
        out.flush();
        eprintln!("{}", json!({"programs": n, "events": out.events, "hangs": hangs, "skipped": 0}));
        return;
    }
    let mut programs = vec![];
    if let Some(p) = arg(&args, "--programs") {
        programs = read_programs(&p);
    }
    let nrand = arg_u64(&args, "--random", 0);
    if nrand > 0 {
        let mut rng = Rng::new(seed_from_env());
        let mut dump = arg(&args, "--dump-programs").map(|p| Out::to_path(std::path::Path::new(&p)));
        for _ in 0..nrand {
            let prog = random_program(&mut rng);
            if let Some(d) = dump.as_mut() {
                d.ev(&prog);
            }
            programs.push(prog);
        }
    }
    // programs take microseconds (virtual clock) or a few milliseconds (env: one child process): a minute
    // without any event is a hang of the code under test, not a slow machine
    let st = run_with_watchdog(programs, &mut out, Duration::from_secs(60), run_program);
    out.flush();
    eprintln!("{}", json!({"programs": st.programs, "events": out.events, "hangs": st.hangs, "skipped": st.skipped}));
    if st.skipped > 0 {
        std::process::exit(3);
    }
}
