//! C09 driver: calls the cipher / hash primitives and the SIMD helpers of cascette-rs on the inputs a
//! program describes and records {fn, args, result} events.  It never compares anything: every event is
//! judged by spec/trace/T_Crypto.tla (executable TLA+ definitions evaluated by TLC).
//!
//! usage: drv_crypto --programs <file|-> --out <file|->
//!
//! Program (one JSON object per line): {"fam": <family>, "seed": n, ...}.  All pseudo-random content is
//! derived from the program's own "seed", so a program is a complete, replayable description.
//!   lookup3   {len, fill, level}            hashlittle / hashlittle2 / Jenkins96::hash
//!   salsa20   {len, fill, ivlen, blk:[hi,lo]} encrypt_salsa20, decrypt_salsa20, round trip
//!   arc4      {len, fill, keylen}           Arc4Cipher::encrypt, decrypt, round trip
//!   split     {kind, len, keylen, ivlen, blk, [kseed], points:[..] | cuts:[..]}   streaming API, piecewise
//!   md5       {len, fill}                   ContentKey::from_data, EncodingKey::from_data
//!   memcmp    {len, points:[..]}            vectorized_memcmp / simd_memcmp under every feature subset
//!   memeq     {len, points:[..]}            batch_mem_equal
//!   memmem    {hlen, nlen, points:[..]}     vectorized_memmem / simd_search
//!   memset    {len}, memcpy {len}           simd_memset / simd_memcpy (inside a guard band)
//!   batch     {kind, lens:[..]}             batch_content_keys / batch_jenkins96_data / batch_jenkins96_paths
//!   users     {n, idx}                      LocalHeader::new().to_bytes(), UpdateEntry::new().to_bytes(); idx > 0: an
//!                                         index of `idx` entries saved by IndexManager, the guarded blocks read back
//!
//! Events: {"op":"new","prog":<program>,...} starts a run; then per call
//!   {"op":"f","seq":n,"fn":..,args..,"ok":bool,"res":..}            stateless call
//!   {"op":"init","seq":n,"kind":..,"key":..,"iv":..,"blk":..}       a cipher instance is created
//!   {"op":"apply","seq":n,"via":..,"data":..,"ok":bool,"res":..}    keystream applied to the next chunk
//! 32-bit values are logged as [hi16, lo16] (TLC integers are 32-bit signed); byte strings as arrays.
//! SIMD helpers are called once per subset of the host's CPU features; "res" is then the list of distinct
//! outcomes, each with the subsets (bit masks: 1 sse2, 2 sse4.1, 4 avx2, 8 avx512) that produced it.
use cascette_cache::simd::{CpuFeatures, SimdHashOperations, SimdMemoryOps, detect_cpu_features};
use cascette_client_storage::index::{ArchiveLocation, IndexManager};
use cascette_client_storage::index::update::{UpdateEntry, UpdateStatus};
use cascette_client_storage::storage::LocalHeader;
use cascette_crypto::arc4::Arc4Cipher;
use cascette_crypto::jenkins::{Jenkins96, hashlittle, hashlittle2};
use cascette_crypto::md5::{ContentKey, EncodingKey};
use cascette_crypto::salsa20::{Salsa20Cipher, decrypt_salsa20, encrypt_salsa20};
use serde_json::{Value, json};
use std::sync::atomic::{AtomicU64, Ordering};
use verif_harness::*;

static CALLS: AtomicU64 = AtomicU64::new(0);

/// The test-only constructor `Salsa20Cipher::new_with_counter` (feature `verif-hooks` of cascette-crypto,
/// committed in /repo as 229170a) is compiled in: programs with a preset block counter ("ctr") run.
const HOOK_COUNTER: bool = true;

fn w32(x: u32) -> Value {
    json!([x >> 16, x & 0xffff])
}
fn w32_of(v: &Value) -> u32 {
    let a = v.as_array().expect("[hi,lo]");
    ((a[0].as_u64().unwrap() as u32) << 16) | (a[1].as_u64().unwrap() as u32)
}
fn bytes_json(b: &[u8]) -> Value {
    Value::Array(b.iter().map(|x| json!(*x)).collect())
}
fn u(p: &Value, k: &str) -> usize {
    p.get(k).and_then(Value::as_u64).unwrap_or(0) as usize
}
fn list(p: &Value, k: &str) -> Vec<usize> {
    p.get(k).and_then(Value::as_array).map(|a| a.iter().map(|x| x.as_u64().unwrap() as usize).collect()).unwrap_or_default()
}
fn fill(rng: &mut Rng, how: &str, n: usize) -> Vec<u8> {
    match how {
        "zero" => vec![0; n],
        "ff" => vec![0xff; n],
        _ => rng.bytes(n),
    }
}

struct Run<'a> {
    out: &'a Emit,
    seq: u64,
}
impl Run<'_> {
    fn ev(&mut self, mut v: Value) {
        self.seq += 1;
        v["seq"] = json!(self.seq);
        self.out.ev(v);
    }
    /// a stateless call: `call` returns the logged form of the result
    fn f(&mut self, fname: &str, mut args: Value, call: impl FnOnce() -> Value) {
        args["op"] = json!("f");
        args["fn"] = json!(fname);
        self.out.begin(&json!({"fn": fname}));
        CALLS.fetch_add(1, Ordering::Relaxed);
        match guarded(call) {
            Ok(r) => {
                args["ok"] = json!(true);
                args["res"] = r;
            }
            Err(m) => {
                args["ok"] = json!(false);
                args["res"] = json!(format!("panic: {}", m.chars().take(200).collect::<String>()));
            }
        }
        self.ev(args);
    }
}

// ------------------------------------------------------------------------------------------- hashes
fn j96_json(h: Jenkins96) -> Value {
    json!({"h64": [(h.hash64 >> 48) & 0xffff, (h.hash64 >> 32) & 0xffff, (h.hash64 >> 16) & 0xffff, h.hash64 & 0xffff],
           "h32": w32(h.hash32)})
}

fn fam_lookup3(p: &Value, r: &mut Run) {
    let mut rng = Rng::new(p["seed"].as_u64().unwrap_or(1));
    let n = u(p, "len");
    let how = p["fill"].as_str().unwrap_or("rand");
    let level = u(p, "level");
    let data = fill(&mut rng, how, n);
    let dj = bytes_json(&data);
    let seed = rng.next() as u32;
    let (pc, pb) = (rng.next() as u32, rng.next() as u32);
    let hl = |r: &mut Run, s: u32| {
        let d = data.clone();
        r.f("hashlittle", json!({"data": dj, "seed": w32(s)}), move || w32(hashlittle(&d, s)));
    };
    let hl2 = |r: &mut Run, c: u32, b: u32| {
        let d = data.clone();
        r.f("hashlittle2", json!({"data": dj, "pc": w32(c), "pb": w32(b)}), move || {
            let (mut x, mut y) = (c, b);
            hashlittle2(&d, &mut x, &mut y);
            json!([w32(x), w32(y)])
        });
    };
    if level >= 2 {
        hl(r, 0);
        hl(r, seed);
        hl2(r, 0, 0);
        hl2(r, pc, pb);
        hl2(r, pc, 0);
        let d = data.clone();
        r.f("jenkins96", json!({"data": dj}), move || j96_json(Jenkins96::hash(&d)));
    } else if n % 2 == 0 {
        hl(r, seed);
    } else {
        hl2(r, pc, pb);
    }
}

fn fam_md5(p: &Value, r: &mut Run) {
    let mut rng = Rng::new(p["seed"].as_u64().unwrap_or(1));
    let data = fill(&mut rng, p["fill"].as_str().unwrap_or("rand"), u(p, "len"));
    let d = data.clone();
    r.f("md5keys", json!({"data": bytes_json(&data)}), move || {
        CALLS.fetch_add(1, Ordering::Relaxed);
        json!({"content": bytes_json(ContentKey::from_data(&d).as_bytes()),
               "encoding": bytes_json(EncodingKey::from_data(&d).as_bytes())})
    });
}

// ------------------------------------------------------------------------------------------ ciphers
fn key16(rng: &mut Rng) -> [u8; 16] {
    let mut k = [0u8; 16];
    k.copy_from_slice(&rng.bytes(16));
    k
}

fn fam_salsa20(p: &Value, r: &mut Run) {
    let mut rng = Rng::new(p["seed"].as_u64().unwrap_or(1));
    let data = fill(&mut rng, p["fill"].as_str().unwrap_or("rand"), u(p, "len"));
    let key = key16(&mut rng);
    let iv = rng.bytes(u(p, "ivlen"));
    let blk = w32_of(&p["blk"]);
    let args = |d: &[u8]| json!({"key": bytes_json(&key), "iv": bytes_json(&iv), "blk": w32(blk), "data": bytes_json(d)});
    // encrypt
    let enc = guarded(|| encrypt_salsa20(&data, &key, &iv, blk as usize));
    let (d, i) = (data.clone(), iv.clone());
    r.f("salsa20", args(&data), move || match encrypt_salsa20(&d, &key, &i, blk as usize) {
        Ok(o) => bytes_json(&o),
        Err(e) => panic!("encrypt_salsa20 failed: {e}"),
    });
    // decrypt of other bytes (the two entry points must be the same function)
    let other = rng.bytes(data.len());
    let (d, i) = (other.clone(), iv.clone());
    r.f("salsa20", args(&other), move || match decrypt_salsa20(&d, &key, &i, blk as usize) {
        Ok(o) => bytes_json(&o),
        Err(e) => panic!("decrypt_salsa20 failed: {e}"),
    });
    // decrypt(encrypt(x))
    if let Ok(Ok(enc)) = enc {
        let i = iv.clone();
        r.f("roundtrip", json!({"kind": "salsa20", "data": bytes_json(&data)}), move || match decrypt_salsa20(&enc, &key, &i, blk as usize) {
            Ok(o) => bytes_json(&o),
            Err(e) => panic!("decrypt_salsa20 failed: {e}"),
        });
    }
}

fn fam_arc4(p: &Value, r: &mut Run) {
    let mut rng = Rng::new(p["seed"].as_u64().unwrap_or(1));
    let data = fill(&mut rng, p["fill"].as_str().unwrap_or("rand"), u(p, "len"));
    let key = rng.bytes(u(p, "keylen").clamp(1, 256));
    let (d, k) = (data.clone(), key.clone());
    r.f("arc4", json!({"key": bytes_json(&key), "data": bytes_json(&data), "via": "encrypt"}), move || {
        bytes_json(&Arc4Cipher::new(&k).expect("arc4 key").encrypt(&d))
    });
    let other = rng.bytes(data.len());
    let (d, k) = (other.clone(), key.clone());
    r.f("arc4", json!({"key": bytes_json(&key), "data": bytes_json(&other), "via": "decrypt"}), move || {
        bytes_json(&Arc4Cipher::new(&k).expect("arc4 key").decrypt(&d))
    });
    let (d, k) = (data.clone(), key.clone());
    r.f("roundtrip", json!({"kind": "arc4", "data": bytes_json(&data)}), move || {
        let enc = Arc4Cipher::new(&k).expect("arc4 key").encrypt(&d);
        bytes_json(&Arc4Cipher::new(&k).expect("arc4 key").decrypt(&enc))
    });
}

enum Stream {
    Salsa(Salsa20Cipher),
    Arc4(Arc4Cipher),
}
impl Stream {
    fn apply(&mut self, chunk: &[u8], idx: usize) -> (&'static str, Vec<u8>) {
        match self {
            Stream::Salsa(c) => {
                let mut b = chunk.to_vec();
                c.apply_keystream(&mut b);
                ("apply_keystream", b)
            }
            Stream::Arc4(c) => match idx % 3 {
                0 => {
                    let mut b = chunk.to_vec();
                    c.apply_keystream(&mut b);
                    ("apply_keystream", b)
                }
                1 => ("encrypt", c.encrypt(chunk)),
                _ => ("decrypt", c.decrypt(chunk)),
            },
        }
    }
}

/// Test-only constructor presetting the 64-bit block counter (cascette-crypto feature `verif-hooks`).
fn salsa_with_counter(key: &[u8; 16], iv: &[u8], blk: usize, ctr: u64) -> Salsa20Cipher {
    Salsa20Cipher::new_with_counter(key, iv, blk, ctr).expect("salsa20 iv")
}

fn fam_split(p: &Value, r: &mut Run) {
    let mut rng = Rng::new(p["seed"].as_u64().unwrap_or(1));
    let kind = p["kind"].as_str().unwrap_or("salsa20").to_string();
    let n = u(p, "len");
    let data = fill(&mut rng, p["fill"].as_str().unwrap_or("rand"), n);
    // key and IV come from "kseed" when given (programs of one group share the cipher parameters, so
    // the monitor computes their keystream once)
    let mut krng = Rng::new(p.get("kseed").and_then(Value::as_u64).unwrap_or_else(|| rng.next()));
    let key = if kind == "arc4" { krng.bytes(u(p, "keylen").clamp(1, 256)) } else { krng.bytes(16) };
    let iv = krng.bytes(u(p, "ivlen"));
    let blk = p.get("blk").map(w32_of).unwrap_or(0);
    // optional preset block counter [[hi,lo] low word, [hi,lo] high word] - needs the hook
    let ctr: Option<u64> = p.get("ctr").map(|c| u64::from(w32_of(&c[0])) | (u64::from(w32_of(&c[1])) << 32));
    if ctr.is_some() && !HOOK_COUNTER {
        return; // sub-case skipped: no public way to preset the counter
    }
    // list of cuttings: each a list of chunk lengths
    let mut cuttings: Vec<Vec<usize>> = vec![];
    if let Some(c) = p.get("cuts") {
        let mut v: Vec<usize> = c.as_array().unwrap().iter().map(|x| x.as_u64().unwrap() as usize).collect();
        let used: usize = v.iter().sum();
        assert!(used <= n, "cuts exceed len");
        if used < n {
            v.push(n - used);
        }
        cuttings.push(v);
    }
    for s in list(p, "points") {
        let s = s.min(n);
        cuttings.push(vec![s, n - s]);
    }
    for cut in cuttings {
        let mut init = json!({"op": "init", "kind": kind, "key": bytes_json(&key), "iv": bytes_json(&iv), "blk": w32(blk)});
        if let Some(c) = ctr {
            init["ctr"] = json!([w32(c as u32), w32((c >> 32) as u32)]);
        }
        r.out.begin(&init);
        CALLS.fetch_add(1, Ordering::Relaxed);
        let made = guarded(|| match kind.as_str() {
            "arc4" => Stream::Arc4(Arc4Cipher::new(&key).expect("arc4 key")),
            _ => {
                let mut k = [0u8; 16];
                k.copy_from_slice(&key);
                match ctr {
                    Some(c) => Stream::Salsa(salsa_with_counter(&k, &iv, blk as usize, c)),
                    None => Stream::Salsa(Salsa20Cipher::new(&k, &iv, blk as usize).expect("salsa20 iv")),
                }
            }
        });
        init["ok"] = json!(made.is_ok());
        r.ev(init);
        let Ok(mut c) = made else { continue };
        let mut at = 0usize;
        for (i, len) in cut.iter().enumerate() {
            let chunk = &data[at..at + len];
            at += len;
            CALLS.fetch_add(1, Ordering::Relaxed);
            let res = guarded(|| c.apply(chunk, i));
            let mut e = json!({"op": "apply", "data": bytes_json(chunk)});
            match res {
                Ok((via, o)) => {
                    e["via"] = json!(via);
                    e["ok"] = json!(true);
                    e["res"] = bytes_json(&o);
                }
                Err(m) => {
                    e["ok"] = json!(false);
                    e["res"] = json!(format!("panic: {m}"));
                }
            }
            r.ev(e);
        }
    }
}

// --------------------------------------------------------------------------------------------- SIMD
fn subsets() -> Vec<(u32, CpuFeatures)> {
    let h = detect_cpu_features();
    let mut v = vec![];
    for m in 0u32..16 {
        let f = CpuFeatures { sse2: m & 1 != 0, sse4_1: m & 2 != 0, avx2: m & 4 != 0, avx512: m & 8 != 0 };
        // only subsets of what the host really has (anything else would execute unsupported instructions)
        if (f.sse2 && !h.sse2) || (f.sse4_1 && !h.sse4_1) || (f.avx2 && !h.avx2) || (f.avx512 && !h.avx512) {
            continue;
        }
        v.push((m, f));
    }
    v
}
fn host_mask() -> u32 {
    let h = detect_cpu_features();
    u32::from(h.sse2) | u32::from(h.sse4_1) << 1 | u32::from(h.avx2) << 2 | u32::from(h.avx512) << 3
}

/// Call `call` under every feature subset; group the subsets by outcome (a lossless inverse map).
fn per_subset(call: impl Fn(&CpuFeatures) -> Value) -> Value {
    let mut groups: Vec<(bool, Value, Vec<u32>)> = vec![];
    for (m, f) in subsets() {
        CALLS.fetch_add(1, Ordering::Relaxed);
        let (ok, r) = match guarded(|| call(&f)) {
            Ok(v) => (true, v),
            Err(msg) => (false, json!(format!("panic: {}", msg.chars().take(200).collect::<String>()))),
        };
        match groups.iter_mut().find(|g| g.0 == ok && g.1 == r) {
            Some(g) => g.2.push(m),
            None => groups.push((ok, r, vec![m])),
        }
    }
    Value::Array(groups.into_iter().map(|(ok, r, ms)| json!({"ok": ok, "r": r, "feats": ms})).collect())
}

impl Run<'_> {
    fn simd(&mut self, fname: &str, mut args: Value, call: impl Fn(&CpuFeatures) -> Value) {
        args["op"] = json!("f");
        args["fn"] = json!(fname);
        self.out.begin(&json!({"fn": fname}));
        args["ok"] = json!(true);
        args["res"] = per_subset(call);
        self.ev(args);
    }
}

fn ord(o: std::cmp::Ordering) -> i32 {
    match o {
        std::cmp::Ordering::Less => -1,
        std::cmp::Ordering::Equal => 0,
        std::cmp::Ordering::Greater => 1,
    }
}
fn opt(o: Option<usize>) -> i64 {
    o.map_or(-1, |x| x as i64)
}

fn fam_memcmp(p: &Value, r: &mut Run) {
    let mut rng = Rng::new(p["seed"].as_u64().unwrap_or(1));
    let n = u(p, "len");
    let a = rng.bytes(n);
    let mut cases: Vec<(Vec<u8>, Vec<u8>)> = vec![(a.clone(), a.clone())];
    for (i, pt) in list(p, "points").into_iter().enumerate() {
        if pt < n {
            let mut b = a.clone();
            // a differing byte at pt, alternately smaller / larger, followed by bytes of the opposite order
            b[pt] = if i % 2 == 0 { a[pt].wrapping_add(1 + (rng.below(200) as u8)) } else { a[pt] ^ 0x80 };
            if pt + 1 < n && rng.chance(1, 2) {
                b[pt + 1] = !a[pt + 1];
            }
            cases.push((a.clone(), b));
        }
    }
    if n > 0 {
        cases.push((a.clone(), a[..n - 1].to_vec()));
        let mut longer = a.clone();
        longer.push(0);
        cases.push((a.clone(), longer));
    }
    for (i, (x, y)) in cases.into_iter().enumerate() {
        let args = json!({"a": bytes_json(&x), "b": bytes_json(&y)});
        if i % 2 == 0 {
            r.simd("memcmp", args, |f| json!(ord(f.vectorized_memcmp(&x, &y))));
        } else {
            r.simd("memcmp", args, |f| json!(ord(f.simd_memcmp(&x, &y))));
        }
    }
}

fn fam_memeq(p: &Value, r: &mut Run) {
    let mut rng = Rng::new(p["seed"].as_u64().unwrap_or(1));
    let n = u(p, "len");
    let a = rng.bytes(n);
    let mut pairs: Vec<(Vec<u8>, Vec<u8>)> = vec![(a.clone(), a.clone())];
    for pt in list(p, "points") {
        if pt < n {
            let mut b = a.clone();
            b[pt] ^= 1 << rng.below(8);
            pairs.push((a.clone(), b));
        }
    }
    if n > 0 {
        pairs.push((a.clone(), a[..n - 1].to_vec()));
    }
    pairs.push((vec![], a.clone()));
    let pj = Value::Array(pairs.iter().map(|(x, y)| json!([bytes_json(x), bytes_json(y)])).collect());
    r.simd("memeq", json!({"pairs": pj}), |f| {
        let refs: Vec<(&[u8], &[u8])> = pairs.iter().map(|(x, y)| (x.as_slice(), y.as_slice())).collect();
        json!(f.batch_mem_equal(&refs))
    });
}

fn fam_memmem(p: &Value, r: &mut Run) {
    let mut rng = Rng::new(p["seed"].as_u64().unwrap_or(1));
    let (hl, nl) = (u(p, "hlen"), u(p, "nlen"));
    // needle: first byte 0xAA; the haystack filler contains many 0xAA (false candidates) and, now and
    // then, a proper prefix of the needle
    let mut needle = rng.bytes(nl);
    if nl > 0 {
        needle[0] = 0xAA;
    }
    let filler = |rng: &mut Rng| -> Vec<u8> {
        let mut h = Vec::with_capacity(hl);
        while h.len() < hl {
            match rng.below(8) {
                0 | 1 => h.push(0xAA),
                2 if nl > 1 => h.extend_from_slice(&needle[..1 + rng.below(nl as u64 - 1) as usize]),
                _ => h.push(rng.below(4) as u8),
            }
        }
        h.truncate(hl);
        h
    };
    let mut cases: Vec<Vec<u8>> = vec![];
    cases.push(filler(&mut rng)); // needle most likely absent
    for pt in list(p, "points") {
        if pt + nl <= hl {
            let mut h = filler(&mut rng);
            h[pt..pt + nl].copy_from_slice(&needle);
            cases.push(h);
        }
    }
    if nl > 1 && hl >= nl {
        // a proper prefix of the needle at the very end (candidate that runs off the haystack)
        let mut h = filler(&mut rng);
        let k = nl - 1;
        h[hl - k..].copy_from_slice(&needle[..k]);
        cases.push(h);
    }
    for (i, h) in cases.into_iter().enumerate() {
        let args = json!({"h": bytes_json(&h), "n": bytes_json(&needle)});
        if i % 2 == 0 {
            r.simd("memmem", args, |f| json!(opt(f.vectorized_memmem(&h, &needle))));
        } else {
            r.simd("memmem", args, |f| json!(opt(f.simd_search(&h, &needle))));
        }
    }
}

const GUARD: usize = 40;

fn fam_memset(p: &Value, r: &mut Run) {
    let mut rng = Rng::new(p["seed"].as_u64().unwrap_or(1));
    let n = u(p, "len");
    let buf = rng.bytes(n + 2 * GUARD);
    let v = rng.next() as u8;
    r.simd("memset", json!({"buf": bytes_json(&buf), "off": GUARD, "n": n, "v": v}), |f| {
        let mut b = buf.clone();
        f.simd_memset(&mut b[GUARD..GUARD + n], v);
        bytes_json(&b)
    });
}

fn fam_memcpy(p: &Value, r: &mut Run) {
    let mut rng = Rng::new(p["seed"].as_u64().unwrap_or(1));
    let n = u(p, "len");
    let buf = rng.bytes(n + 2 * GUARD);
    // source lengths: equal, shorter, longer
    for sl in [n, n.saturating_sub(1 + rng.below(20) as usize), n + 1 + rng.below(20) as usize] {
        let src = rng.bytes(sl);
        r.simd("memcpy", json!({"buf": bytes_json(&buf), "off": GUARD, "n": n, "src": bytes_json(&src)}), |f| {
            let mut b = buf.clone();
            f.simd_memcpy(&mut b[GUARD..GUARD + n], &src);
            bytes_json(&b)
        });
    }
}

fn fam_batch(p: &Value, r: &mut Run) {
    let mut rng = Rng::new(p["seed"].as_u64().unwrap_or(1));
    let kind = p["kind"].as_str().unwrap_or("content_keys");
    let lens = list(p, "lens");
    match kind {
        "j96_paths" => {
            let inputs: Vec<String> = lens
                .iter()
                .map(|&n| (0..n).map(|_| (0x20 + rng.below(0x5f) as u8) as char).collect())
                .collect();
            let ij = Value::Array(inputs.iter().map(|s| bytes_json(s.as_bytes())).collect());
            r.simd("batch_j96_paths", json!({"inputs": ij}), |f| {
                let refs: Vec<&str> = inputs.iter().map(String::as_str).collect();
                Value::Array(f.batch_jenkins96_paths(&refs).into_iter().map(j96_json).collect())
            });
        }
        _ => {
            let inputs: Vec<Vec<u8>> = lens.iter().map(|&n| rng.bytes(n)).collect();
            let ij = Value::Array(inputs.iter().map(|s| bytes_json(s)).collect());
            if kind == "j96_data" {
                r.simd("batch_j96_data", json!({"inputs": ij}), |f| {
                    let refs: Vec<&[u8]> = inputs.iter().map(Vec::as_slice).collect();
                    Value::Array(f.batch_jenkins96_data(&refs).into_iter().map(j96_json).collect())
                });
            } else {
                r.simd("batch_content_keys", json!({"inputs": ij}), |f| {
                    let refs: Vec<&[u8]> = inputs.iter().map(Vec::as_slice).collect();
                    Value::Array(f.batch_content_keys(&refs).iter().map(|k| bytes_json(k.as_bytes())).collect())
                });
            }
        }
    }
}

// -------------------------------------------------------------------------------------------- users
fn fam_users(p: &Value, r: &mut Run) {
    let mut rng = Rng::new(p["seed"].as_u64().unwrap_or(1));
    for _ in 0..u(p, "n").max(1) {
        let mut key = [0u8; 16];
        key.copy_from_slice(&rng.bytes(16));
        let size = (rng.next() as u32) >> (rng.below(24) as u32 + 1); // + 30 cannot overflow
        let base = rng.below(64) as usize;
        r.f("local_header", json!({"key": bytes_json(&key), "size": w32(size), "base": base}), move || {
            bytes_json(&LocalHeader::new(key, size, base).to_bytes())
        });
        let mut ekey = [0u8; 9];
        ekey.copy_from_slice(&rng.bytes(9));
        let loc = ArchiveLocation { archive_id: rng.below(1024) as u16, archive_offset: (rng.next() as u32) & 0x3FFF_FFFF };
        let esize = rng.next() as u32;
        let (st, stn) = *rng.pick(&[(UpdateStatus::Normal, 0), (UpdateStatus::Delete, 3), (UpdateStatus::HeaderNonResident, 6), (UpdateStatus::DataNonResident, 7)]);
        r.f("update_entry", json!({"ekey": bytes_json(&ekey), "archive": loc.archive_id, "offset": w32(loc.archive_offset), "size": w32(esize), "status": stn}), move || {
            bytes_json(&UpdateEntry::new(ekey, loc, esize, st).to_bytes())
        });
    }
    let nent = u(p, "idx");
    if nent > 0 {
        for n in [0, 1, nent] {
            let mut r2 = Rng::new(rng.next());
            r.f("idx_blocks", json!({"entries": n}), move || idx_blocks(n, &mut r2));
        }
    }
}

/// Guarded blocks of the .idx files an `IndexManager` writes: for each file the header block and the
/// entry block with the size and hash fields that precede them (projection of the file bytes only).
fn idx_blocks(nent: usize, rng: &mut Rng) -> Value {
    let dir = tempfile::tempdir().expect("tempdir");
    let mut ix = IndexManager::new(dir.path());
    for _ in 0..nent {
        let mut k = [0u8; 16];
        k.copy_from_slice(&rng.bytes(16));
        // bucket 0: fold the XOR of the first nine bytes to zero
        let x = k[..9].iter().fold(0u8, |a, b| a ^ b);
        let fold = (x & 0x0f) ^ (x >> 4);
        k[8] ^= fold;
        ix.add_entry(&EncodingKey::from_bytes(k), rng.below(1000) as u16, (rng.next() as u32) & 0x3FFF_FFFF, rng.next() as u32 >> 8)
            .expect("add_entry");
    }
    ix.flush_all_updates().expect("flush_all_updates");
    ix.save_all().expect("save_all");
    let mut files = vec![];
    let mut names: Vec<_> = std::fs::read_dir(dir.path()).expect("read_dir").flatten().map(|e| e.path()).collect();
    names.sort();
    for path in names {
        if path.extension().and_then(|e| e.to_str()) != Some("idx") {
            continue;
        }
        let b = std::fs::read(&path).expect("read idx");
        let le = |o: usize| u32::from_le_bytes([b[o], b[o + 1], b[o + 2], b[o + 3]]);
        let hsize = le(0) as usize;
        let eoff = 8 + hsize + 8;
        let esize = le(eoff) as usize;
        files.push(json!({"hsize": hsize, "hhash": w32(le(4)), "header": bytes_json(&b[8..8 + hsize]),
                          "esize": esize, "ehash": w32(le(eoff + 4)), "entries": bytes_json(&b[eoff + 8..eoff + 8 + esize])}));
    }
    Value::Array(files)
}

fn run_program(p: &Value, out: &Emit) {
    let mut head = json!({"op": "new", "prog": p});
    let fam = p["fam"].as_str().unwrap_or("");
    if matches!(fam, "memcmp" | "memeq" | "memmem" | "memset" | "memcpy" | "batch") {
        head["host"] = json!(host_mask());
        head["subsets"] = json!(subsets().len());
    }
    out.ev(head);
    let mut r = Run { out, seq: 0 };
    match fam {
        "lookup3" => fam_lookup3(p, &mut r),
        "md5" => fam_md5(p, &mut r),
        "salsa20" => fam_salsa20(p, &mut r),
        "arc4" => fam_arc4(p, &mut r),
        "split" => fam_split(p, &mut r),
        "memcmp" => fam_memcmp(p, &mut r),
        "memeq" => fam_memeq(p, &mut r),
        "memmem" => fam_memmem(p, &mut r),
        "memset" => fam_memset(p, &mut r),
        "memcpy" => fam_memcpy(p, &mut r),
        "batch" => fam_batch(p, &mut r),
        "users" => fam_users(p, &mut r),
        other => panic!("unknown program family {other:?}"),
    }
}

fn main() {
    let args: Vec<String> = std::env::args().collect();
    quiet_panics();
    let progs = read_programs(&arg(&args, "--programs").expect("--programs"));
    let mut out = Out::from_arg(arg(&args, "--out").as_ref());
    let st = run_with_watchdog(progs, &mut out, std::time::Duration::from_secs(60), run_program);
    out.flush();
    eprintln!(
        "{}",
        json!({"programs": st.programs, "events": out.events, "calls": CALLS.load(Ordering::Relaxed), "hangs": st.hangs,
               "skipped": st.skipped, "host_features": host_mask(), "subsets": subsets().len(), "hook_counter": HOOK_COUNTER})
    );
    if st.skipped > 0 {
        std::process::exit(3);
    }
}
