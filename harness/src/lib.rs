//! Shared helpers for the conformance drivers.
//!
//! A driver executes *programs* (ndjson, one JSON object per line, produced by
//! TLC from `spec/mc/MC_*.tla` or by the driver's own seeded generator) against
//! the real cascette-rs crates and writes one ndjson *event* per API call: the
//! operation, its arguments, the result and the abstract state projected back
//! through the public API.  The events are judged by `spec/trace/T_*.tla`.
//!
//! Nothing in here decides a property; verdicts are computed by TLC.

use serde_json::{Value, json};
use std::io::{BufRead, BufWriter, Write};
use std::panic::{AssertUnwindSafe, catch_unwind};
use std::path::Path;

/// Deterministic 64-bit generator (SplitMix64); seeded from `VERIF_SEED`.
#[derive(Clone)]
pub struct Rng(pub u64);
impl Rng {
    pub fn new(seed: u64) -> Self {
        Rng(seed ^ 0x9E37_79B9_7F4A_7C15)
    }
    pub fn next(&mut self) -> u64 {
        self.0 = self.0.wrapping_add(0x9E37_79B9_7F4A_7C15);
        let mut z = self.0;
        z = (z ^ (z >> 30)).wrapping_mul(0xBF58_476D_1CE4_E5B9);
        z = (z ^ (z >> 27)).wrapping_mul(0x94D0_49BB_1331_11EB);
        z ^ (z >> 31)
    }
    /// Uniform in 0..n (n > 0).
    pub fn below(&mut self, n: u64) -> u64 {
        self.next() % n
    }
    pub fn chance(&mut self, num: u64, den: u64) -> bool {
        self.below(den) < num
    }
    pub fn bytes(&mut self, n: usize) -> Vec<u8> {
        let mut v = Vec::with_capacity(n);
        while v.len() < n {
            let x = self.next().to_le_bytes();
            let take = (n - v.len()).min(8);
            v.extend_from_slice(&x[..take]);
        }
        v
    }
    pub fn pick<'a, T>(&mut self, xs: &'a [T]) -> &'a T {
        &xs[self.below(xs.len() as u64) as usize]
    }
}

pub fn seed_from_env() -> u64 {
    std::env::var("VERIF_SEED")
        .ok()
        .and_then(|s| s.parse::<u64>().ok())
        .unwrap_or(1)
}

/// ndjson event sink.
pub struct Out {
    w: BufWriter<Box<dyn Write + Send>>,
    pub events: u64,
}
impl Out {
    pub fn to_path(p: &Path) -> Self {
        let f = std::fs::File::create(p).expect("create trace file");
        Out { w: BufWriter::with_capacity(1 << 20, Box::new(f)), events: 0 }
    }
    pub fn stdout() -> Self {
        Out { w: BufWriter::with_capacity(1 << 20, Box::new(std::io::stdout())), events: 0 }
    }
    pub fn from_arg(arg: Option<&String>) -> Self {
        match arg {
            Some(p) if p != "-" => Self::to_path(Path::new(p)),
            _ => Self::stdout(),
        }
    }
    pub fn ev(&mut self, v: &Value) {
        serde_json::to_writer(&mut self.w, v).expect("write event");
        self.w.write_all(b"\n").expect("write event");
        self.events += 1;
    }
    pub fn flush(&mut self) {
        self.w.flush().expect("flush trace");
    }
}
impl Drop for Out {
    fn drop(&mut self) {
        let _ = self.w.flush();
    }
}

/// Read programs: one JSON value per non-empty line.
pub fn read_programs(path: &str) -> Vec<Value> {
    let rd: Box<dyn BufRead> = if path == "-" {
        Box::new(std::io::BufReader::new(std::io::stdin()))
    } else {
        Box::new(std::io::BufReader::new(
            std::fs::File::open(path).unwrap_or_else(|e| panic!("open {path}: {e}")),
        ))
    };
    let mut v = Vec::new();
    for line in rd.lines() {
        let line = line.expect("read program line");
        let t = line.trim();
        if t.is_empty() {
            continue;
        }
        v.push(serde_json::from_str(t).unwrap_or_else(|e| panic!("bad program line {t}: {e}")));
    }
    v
}

thread_local! { static GUARD_DEPTH: std::cell::Cell<u32> = const { std::cell::Cell::new(0) }; }
thread_local! { static LAST_PANIC_LOC: std::cell::RefCell<String> = const { std::cell::RefCell::new(String::new()) }; }

/// Run `f`; a panic of the code under test is data, not a tool failure.
/// The message is followed by the source location when `quiet_panics` is installed.
pub fn guarded<T>(f: impl FnOnce() -> T) -> Result<T, String> {
    GUARD_DEPTH.with(|d| d.set(d.get() + 1));
    let r = catch_unwind(AssertUnwindSafe(f));
    GUARD_DEPTH.with(|d| d.set(d.get() - 1));
    r.map_err(|e| {
        let msg = if let Some(s) = e.downcast_ref::<&str>() {
            (*s).to_string()
        } else if let Some(s) = e.downcast_ref::<String>() {
            s.clone()
        } else {
            "panic".to_string()
        };
        let loc = LAST_PANIC_LOC.with(|l| l.borrow().clone());
        if loc.is_empty() { msg } else { format!("{msg} @ {loc}") }
    })
}

/// Silence the default panic hook's backtrace spam (panics are recorded as outcomes) and remember
/// the location of the last panic of the current thread.
pub fn quiet_panics() {
    std::panic::set_hook(Box::new(|info| {
        let loc = info.location().map(|l| format!("{}:{}", l.file(), l.line())).unwrap_or_default();
        if GUARD_DEPTH.with(std::cell::Cell::get) == 0 {
            // not inside `guarded`: a bug of the driver itself (or a library thread) - make it visible
            eprintln!("PANIC outside guarded code at {loc}: {info}");
        }
        LAST_PANIC_LOC.with(|l| *l.borrow_mut() = loc);
    }));
}

pub fn outcome_panic(msg: &str) -> Value {
    let m: String = msg.chars().take(240).collect();
    json!({"outcome": "panic", "msg": m})
}

/// Simple `--name value` argument lookup.
pub fn arg(args: &[String], name: &str) -> Option<String> {
    args.iter().position(|a| a == name).and_then(|i| args.get(i + 1).cloned())
}
pub fn arg_u64(args: &[String], name: &str, default: u64) -> u64 {
    arg(args, name).and_then(|s| s.parse().ok()).unwrap_or(default)
}
pub fn has_flag(args: &[String], name: &str) -> bool {
    args.iter().any(|a| a == name)
}

pub fn hex(b: &[u8]) -> String {
    hex::encode(b)
}
pub fn md5hex(b: &[u8]) -> String {
    format!("{:x}", md5::compute(b))
}

/// Current-thread tokio runtime for drivers of async APIs.
pub fn rt() -> tokio::runtime::Runtime {
    tokio::runtime::Builder::new_current_thread().enable_all().build().expect("tokio runtime")
}

// ---------------------------------------------------------------------------
// Watchdog runner: a hang of the code under test is an *outcome*, not a driver
// failure.  Programs are executed on a worker thread that streams events to the
// main thread; if nothing arrives for `timeout`, the main thread records
// {"op":"hang", ...} for the program in flight, abandons the worker (it keeps
// spinning or stays blocked - it cannot be killed) and starts a fresh worker at
// the next program.  After `MAX_ABANDONED` hangs the remaining programs are
// reported as skipped and the driver exits with code 3 (inconclusive).
// ---------------------------------------------------------------------------
pub enum Msg {
    Ev(Value),
    /// the worker is about to execute operation `op` of program `prog`
    Begin { prog: usize, op: Value },
    ProgramDone(usize),
    AllDone,
}
pub struct Emit {
    tx: std::sync::mpsc::Sender<Msg>,
    pub prog: usize,
}
impl Emit {
    pub fn ev(&self, v: Value) {
        let _ = self.tx.send(Msg::Ev(v));
    }
    pub fn begin(&self, op: &Value) {
        let _ = self.tx.send(Msg::Begin { prog: self.prog, op: op.clone() });
    }
}
pub const MAX_ABANDONED: usize = 12;

pub struct WatchdogStats {
    pub programs: u64,
    pub hangs: u64,
    pub skipped: u64,
}

pub fn run_with_watchdog<F>(programs: Vec<Value>, out: &mut Out, timeout: std::time::Duration, f: F) -> WatchdogStats
where
    F: Fn(&Value, &Emit) + Send + Sync + 'static,
{
    use std::sync::Arc;
    use std::sync::mpsc::{RecvTimeoutError, channel};
    let programs = Arc::new(programs);
    let f = Arc::new(f);
    let mut start = 0usize;
    let mut stats = WatchdogStats { programs: 0, hangs: 0, skipped: 0 };
    'outer: while start < programs.len() {
        let (tx, rx) = channel::<Msg>();
        let progs = programs.clone();
        let ff = f.clone();
        let s0 = start;
        std::thread::Builder::new()
            .stack_size(64 << 20)
            .spawn(move || {
                for i in s0..progs.len() {
                    let em = Emit { tx: tx.clone(), prog: i };
                    ff(&progs[i], &em);
                    if tx.send(Msg::ProgramDone(i)).is_err() {
                        return;
                    }
                }
                let _ = tx.send(Msg::AllDone);
            })
            .expect("spawn worker");
        let mut cur_prog = start;
        let mut cur_op = Value::Null;
        loop {
            match rx.recv_timeout(timeout) {
                Ok(Msg::Ev(v)) => out.ev(&v),
                Ok(Msg::Begin { prog, op }) => {
                    cur_prog = prog;
                    cur_op = op;
                }
                Ok(Msg::ProgramDone(i)) => {
                    stats.programs += 1;
                    cur_prog = i + 1;
                    cur_op = Value::Null;
                }
                Ok(Msg::AllDone) => break 'outer,
                Err(RecvTimeoutError::Timeout) => {
                    out.ev(&json!({"op": "hang", "during": cur_op, "prog": cur_prog, "res": {"outcome": "hang"}}));
                    stats.hangs += 1;
                    stats.programs += 1;
                    start = cur_prog + 1;
                    drop(rx);
                    if stats.hangs as usize >= MAX_ABANDONED {
                        stats.skipped = (programs.len() - start.min(programs.len())) as u64;
                        break 'outer;
                    }
                    continue 'outer;
                }
                Err(RecvTimeoutError::Disconnected) => {
                    // worker died outside `guarded` (driver bug): treat as tool failure
                    eprintln!("driver worker thread died at program {cur_prog}");
                    std::process::exit(4);
                }
            }
        }
    }
    stats
}
