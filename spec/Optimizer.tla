------------------------------ MODULE Optimizer ------------------------------
(***************************************************************************)
(* X09: the optimisation layer of the CDN streaming module                  *)
(* (cascette-protocol, feature `streaming`, cdn/streaming/optimizer.rs:     *)
(* AdvancedRangeCoalescer, PriorityRequestQueue, ZeroCopyBuffer,            *)
(* BandwidthMonitor; and cdn/streaming/blte.rs StreamingBlteProcessor).     *)
(* Growth check beyond the twenty listed properties; related: X02           *)
(* (RangePlan.tla, whose interval arithmetic and judge are reused here),    *)
(* C13 / C14 (fail-over, retry), C01-C03 (BLTE).                            *)
(*                                                                         *)
(* The properties, stated at the level of the public API.  Each is exactly  *)
(* as strict as its wording; what is left open is said so.                  *)
(*                                                                         *)
(* -- AdvancedRangeCoalescer::coalesce_ranges, statistics ("coal") --------- *)
(* For every request R (any order; overlapping, adjacent, nested,           *)
(* duplicated ranges; offsets up to u64::MAX), every configuration accepted *)
(* by StreamingConfig::validate and every measured bandwidth:               *)
(*  C1 = P1, P2, P3, P6, P7 of RangePlan.tla (coverage, no byte fetched     *)
(*     outside holes of at most the threshold, a planned range longer than  *)
(*     max_range_size is a requested range, small holes are bridged when    *)
(*     everything fits one range, no panic), with the threshold that        *)
(*     calculate_dynamic_threshold documents for the measured bandwidth:    *)
(*     none measured -> the configured one; < 2 MiB/s -> half; 2..10 ->     *)
(*     the configured one; 11..50 -> twice; above -> three times.           *)
(*  C2 no planned range lies inside another planned range (a request is     *)
(*     not fetched twice in full; partial overlaps at the size limit are    *)
(*     left open).                                                          *)
(*  C3 statistics() = (ranges submitted, sum of submitted - planned, sum    *)
(*     of the bytes of bridged holes = planned bytes nobody asked for),     *)
(*     accumulated over the calls ("bytes_saved ... gap between ranges").   *)
(*                                                                         *)
(* -- PriorityRequestQueue ("queue") --------------------------------------- *)
(* For every history of enqueue / completion of a request by the HTTP       *)
(* client (Ok or Err, in any order, arbitrarily late or never) / recv /     *)
(* try_recv / shutdown, max_concurrent >= 1:                                *)
(*  Q1 ids       enqueue returns an identifier no other request has.        *)
(*  Q2 results   every request handed to the HTTP client is handed over     *)
(*               once; when it completes, exactly one (id, result) with     *)
(*               ITS id and ITS outcome is delivered by recv / try_recv -   *)
(*               none lost, none duplicated, none invented; recv does not   *)
(*               block while an undelivered result exists; try_recv never   *)
(*               blocks ("get next completed request").                     *)
(*  Q3 priority  a request is started only if no request waiting at that    *)
(*               moment orders before it: lower RequestPriority value       *)
(*               first ("higher priority first"), within a priority the     *)
(*               earlier created_at (Ord for PrioritizedRequest); ties open.*)
(*  Q4 limit     at no time are more than max_concurrent requests in the    *)
(*               hands of the HTTP client ("maximum concurrent requests",   *)
(*               "backpressure"); statistics() = (waiting, in flight).      *)
(*  Q5 progress  no request waits while fewer than max_concurrent are in    *)
(*               flight (unless the queue was shut down): whenever every    *)
(*               task is blocked, waiting > 0 => in flight >= max.  Hence   *)
(*               every request is eventually started and answered.          *)
(*  Q6 shutdown  after shutdown() no request is started; recv() returns     *)
(*               None instead of blocking once nothing is in flight and     *)
(*               nothing is undelivered (callers do not hang).  What        *)
(*               happens to waiting requests is left open.                  *)
(*  Q7 metrics   StreamingMetrics.bytes_downloaded = bytes of the Ok bodies.*)
(*                                                                         *)
(* -- ZeroCopyBuffer ("buf") ----------------------------------------------- *)
(* For every history of get_buffer / return_buffer (of a pool buffer - as   *)
(* is, filled, grown, shrunk - or of any other vector):                     *)
(*  Z1 a buffer handed out is empty and has capacity >= buffer_size         *)
(*     ("buffer size for pooled buffers");                                  *)
(*  Z2 the pool never holds more than max_pooled buffers; a returned        *)
(*     buffer of capacity >= buffer_size is pooled iff there is room;       *)
(*  Z3 get_buffer takes from the pool whenever it is not empty;             *)
(*  Z4 statistics() = (pooled, allocated = gets served by allocation,       *)
(*     reused = gets served from the pool, returned = returns that went     *)
(*     into the pool); pooled = returned - reused.                          *)
(*     Which pooled buffer is handed out is left open.                      *)
(*                                                                         *)
(* -- BandwidthMonitor ("bw") ---------------------------------------------- *)
(* For every sequence of record_sample(bytes, duration) - including zero    *)
(* durations, u64::MAX bytes, one-nanosecond durations - and windows far    *)
(* above / far below the time that passes:                                  *)
(*  B1 a sample of zero duration changes nothing; no call panics;           *)
(*  B2 current = bytes / seconds of the last sample (rounded down, +-1 for  *)
(*     floating point; saturating);                                         *)
(*  B3 peak = the largest sample so far (>= current);                       *)
(*  B4 average = the mean of all samples (within [mean - n, mean + 1]: the  *)
(*     incremental formula truncates at every step);                        *)
(*  B5 moving average = mean (rounded down) of the samples recorded within  *)
(*     the window before the latest sample: all of them when the window     *)
(*     exceeds the elapsed time, none recorded more than 3 windows before   *)
(*     it; 0 without samples.  What it reports after a pause without a new  *)
(*     sample (stale or 0) is left open.  It does not panic however large   *)
(*     the samples are.                                                     *)
(*  B6 recommend_range_size(t) = moving average x t clamped to              *)
(*     [64 KiB, 32 MiB]; 1 MiB when the moving average is 0.                *)
(*                                                                         *)
(* -- StreamingBlteProcessor ("sblte") ------------------------------------- *)
(* For every well-formed BLTE file (single chunk, or a chunk table of 1..n  *)
(* chunks, modes N / Z) served by an HttpClient that honours ranges:        *)
(*  S1 decompress_from_url = the in-memory decoder (BlteFile::decompress)   *)
(*     on the same bytes; decompress_chunk_range(a, n) = the plain bytes    *)
(*     of chunks a..a+n-1 (clipped);                                        *)
(*  S2 get_header_info reports single/multi, the number of chunks and the   *)
(*     header size of the file (the decompressed size of a single-chunk     *)
(*     file is documented as an estimate: open);                            *)
(*  S3 reading the header does not ask for bytes beyond the header ("without*)
(*     loading the entire file"): no request before the first chunk request *)
(*     ends after the header (12 bytes are allowed for the probe).          *)
(*                                                                         *)
(* Known deviations of the code are accepted only when their finding id is  *)
(* in KnownDeviations; each has a precise guard below.                      *)
(***************************************************************************)
EXTENDS RangePlan, TLC

CONSTANT KnownDeviations
ODev(id) == id \in KnownDeviations
OVerdict(ok, dev, st) == [ok |-> ok, dev |-> dev, st |-> st]
SeqSet(q) == {q[i] : i \in 1..Len(q)}
SAT == 2000000000

\* ===========================================================================
\* coal
\* ===========================================================================
MiB == 1048576
\* calculate_dynamic_threshold as documented in its comments
ScaledThr(thr, bw) ==
  IF bw = 0 THEN thr
  ELSE LET m == bw \div MiB IN
       IF m <= 1 THEN thr \div 2 ELSE IF m <= 10 THEN thr ELSE IF m <= 50 THEN 2 * thr ELSE 3 * thr
RECURSIVE SetSumLen(_)
SetSumLen(B) == IF B = {} THEN 0 ELSE LET b == CHOOSE x \in B : TRUE IN RLen(b) + SetSumLen(B \ {b})
UnionBytes(q) == SetSumLen(Blocks(RSet(q)))
Bridged(Rq, P) == UnionBytes(P) - UnionBytes(Rq)                    \* planned bytes nobody asked for
NestedIn(P) == \E a, b \in 1..Len(P) : a # b /\ P[a][1] <= P[b][1] /\ P[b][2] <= P[a][2]

\* a correct coalescer: RangePlan!AdvIdeal (which is what the code does since the fix of FX02a/b) that, when the size
\* limit forbids the merge, does not plan a range lying inside the running range (or the running range inside it) again
RECURSIVE AdvFixedFold(_, _, _, _, _)
AdvFixedFold(q, n, cur, out, cfg) ==
  IF n > Len(q) THEN Append(out, cur)
  ELSE LET r == q[n]
           m == <<cur[1], RMax(cur[2], r[2])>>
       IN IF GapAfter(cur, r) <= cfg.thr /\ RLen(m) <= cfg.max THEN AdvFixedFold(q, n + 1, m, out, cfg)
          ELSE IF r[2] <= cur[2] THEN AdvFixedFold(q, n + 1, cur, out, cfg)        \* r lies inside the running range
          ELSE IF r[1] = cur[1] THEN AdvFixedFold(q, n + 1, r, out, cfg)            \* r covers the running range
          ELSE AdvFixedFold(q, n + 1, r, Append(out, cur), cfg)
AdvFixed(cfg, Rq) == IF Rq = <<>> THEN <<>> ELSE LET q == SortSt(Rq) IN AdvFixedFold(q, 2, q[1], <<>>, cfg)

\* the fold of the code as written today, with its own gap counter; hit = the size test refused a range lying inside
\* the running range, or covering it (the running range, or that range, is planned again)
RECURSIVE AdvNowFold(_, _, _, _, _, _, _)
AdvNowFold(q, n, cur, out, saved, hit, cfg) ==
  IF n > Len(q) THEN [plan |-> Append(out, cur), saved |-> saved, hit |-> hit]
  ELSE LET r == q[n]
           g == GapAfter(cur, r)
           m == <<cur[1], RMax(cur[2], r[2])>>
       IN IF g <= cfg.thr /\ RLen(m) <= cfg.max THEN AdvNowFold(q, n + 1, m, out, saved + g, hit, cfg)
          ELSE AdvNowFold(q, n + 1, r, Append(out, cur), saved, hit \/ r[2] <= cur[2] \/ r[1] = cur[1], cfg)
AdvNow(cfg, Rq) == IF Rq = <<>> THEN [plan |-> <<>>, saved |-> 0, hit |-> FALSE]
                   ELSE LET q == SortSt(Rq) IN AdvNowFold(q, 2, q[1], <<>>, 0, FALSE, cfg)

CoalCfg(cfg) == [cfg EXCEPT !.thr = ScaledThr(cfg.thr, cfg.bw), !.bw = 0]
CoalSt0 == [proc |-> 0, coal |-> 0, saved |-> 0]
(* FX09h: when the size test refuses a merge the code always pushes the running range and restarts from the next one -
   also when that range lies inside the running range (a duplicate of, or nested in, a request longer than
   max_range_size) or covers it: the request is planned again, and the gaps counted from the restarted range are not
   holes of the request.  Accepted when the plan and the counter are exactly what the fold as coded produces and the
   fold went through that branch. *)
JudgeCoal(cfg, st, e) ==
  IF e.op # "coalesce" THEN OVerdict(FALSE, "", st)
  ELSE LET Rq   == e.reqs
           c2   == CoalCfg(cfg)
           isOk == e.res.kind = "Ok"
           P    == IF isOk THEN e.res.plan ELSE <<>>
           c1   == CoalesceOK(c2, Rq, e.res)                                           \* C1
           nest == isOk /\ NestedIn(P)                                                  \* C2
           np   == st.proc + Len(Rq)
           nc   == st.coal + (IF isOk THEN Len(Rq) - Len(P) ELSE 0)
           c3a  == e.obs.stats[1] = np /\ (isOk => e.obs.stats[2] = nc)                 \* C3
           ideal == c1 /\ ~nest /\ c3a /\ e.obs.stats[3] = st.saved + Bridged(Rq, P)
           now  == AdvNow(c2, Rq)
           dH   == ~ideal /\ ODev("FX09h") /\ c1 /\ c3a /\ now.hit /\ P = now.plan /\ e.obs.stats[3] = st.saved + now.saved
       IN OVerdict(ideal \/ dH, IF dH THEN "FX09h" ELSE "",
                   [proc |-> e.obs.stats[1], coal |-> e.obs.stats[2], saved |-> e.obs.stats[3]])

\* ===========================================================================
\* queue
\* ===========================================================================
\* st = [reqs    |-> <<[id, p, c], ..>>   request k = 1, 2, .. in the order of the enqueue calls,
\*       started |-> <<k, ..>>            in the order the HTTP client was called,
\*       fin     |-> {<<k, ok>>, ..}      completed by the HTTP client with this outcome,
\*       dlv     |-> {k, ..}              delivered by recv / try_recv,
\*       shut    |-> BOOLEAN]
QSt0 == [reqs |-> <<>>, started |-> <<>>, fin |-> {}, dlv |-> {}, shut |-> FALSE]
QStarted(st) == SeqSet(st.started)
QFin(st)     == {f[1] : f \in st.fin}
QInFl(st)    == QStarted(st) \ QFin(st)
QPend(st)    == (1..Len(st.reqs)) \ QStarted(st)
QUndl(st)    == QFin(st) \ st.dlv
QOutcome(st, k) == (CHOOSE f \in st.fin : f[1] = k)[2]
BodyLen(k)   == 8 + k
RECURSIVE SumBody(_)
SumBody(K) == IF K = {} THEN 0 ELSE LET k == CHOOSE x \in K : TRUE IN BodyLen(k) + SumBody(K \ {k})
\* x orders strictly before y (Q3)
QBefore(st, x, y) == \/ st.reqs[x].p < st.reqs[y].p
                     \/ st.reqs[x].p = st.reqs[y].p /\ st.reqs[x].c < st.reqs[y].c
QSorted(st, S) == \A a \in 1..(Len(S) - 1) : ~QBefore(st, S[a + 1], S[a])
QFree(st, max) == IF st.shut THEN 0 ELSE RMax(0, max - Cardinality(QInFl(st)))
\* Q3-Q6 for the requests S started during one operation, st = the state after the operation's own effect
QStartOK(st, S, max) ==
  LET pend == QPend(st)  SS == SeqSet(S) IN
  /\ SS \subseteq pend /\ Cardinality(SS) = Len(S)
  /\ Len(S) = RMin(QFree(st, max), Cardinality(pend))
  /\ QSorted(st, S)
  /\ \A x \in SS, y \in pend \ SS : ~QBefore(st, y, x)
\* the code as written: try_process_requests reads the number of active requests ONCE (so its loop empties the
\* whole heap when that number was below the limit), runs only inside enqueue, and nobody reads the shutdown flag
QCodeStarts(st0, st1, op, max) == IF op = "enq" /\ Cardinality(QInFl(st0)) < max THEN QPend(st1) ELSE {}
(* FX09a: enqueue with fewer than max_concurrent requests in flight starts EVERY waiting request: more than
          max_concurrent are in flight afterwards.
   FX09b: nothing starts waiting requests when a request completes: they wait although fewer than max_concurrent
          are in flight - for ever unless somebody enqueues again; their callers never get a result.
   FX09c: shutdown() only stores a flag nobody reads: requests are started after it, recv() blocks for ever.
   FX09d: recv() keeps the receiver's write lock while it waits, so try_recv() blocks behind a waiting recv(). *)
QStartVerdict(st0, st1, S, op, max) ==
  LET ideal == QStartOK(st1, S, max)
      SS    == SeqSet(S)
      code  == SS = QCodeStarts(st0, st1, op, max) /\ Cardinality(SS) = Len(S) /\ QSorted(st1, S)
      over  == Len(S) > 0 /\ Cardinality(QInFl(st1)) + Len(S) > max
      stuck == Len(S) < RMin(QFree(st1, max), Cardinality(QPend(st1)))
      after == st1.shut /\ Len(S) > 0
      devOK == /\ code /\ (over \/ stuck \/ after)
               /\ (over => ODev("FX09a")) /\ (stuck => ODev("FX09b")) /\ (after => ODev("FX09c"))
  IN [ok |-> ideal \/ devOK,
      dev |-> IF ideal \/ ~devOK THEN "" ELSE IF after THEN "FX09c" ELSE IF over THEN "FX09a" ELSE "FX09b"]

\* a delivered result r = [r |-> "some", id, k, ok, len] is the result of an undelivered completed request (Q2)
QDelivers(st, r, U) ==
  /\ r.r = "some" /\ r.k \in U /\ r.id = st.reqs[r.k].id /\ r.ok = QOutcome(st, r.k)
  /\ r.ok => r.len = BodyLen(r.k) /\ r.uniform
QObsOK(st, e) ==
  /\ e.obs.infl = Cardinality(QInFl(st)) /\ e.obs.act = e.obs.infl                                   \* Q4 (statistics)
  /\ ~st.shut => e.obs.pend = Cardinality(QPend(st))
  /\ e.obs.bad_range = 0
  /\ e.obs.dl = SumBody({f[1] : f \in {g \in st.fin : g[2]}})                                       \* Q7
QNewStarts(st, e) == IF Len(e.obs.started) >= Len(st.started) /\ SubSeq(e.obs.started, 1, Len(st.started)) = st.started
                     THEN SubSeq(e.obs.started, Len(st.started) + 1, Len(e.obs.started)) ELSE <<>>
QPrefixOK(st, e) == Len(e.obs.started) >= Len(st.started) /\ SubSeq(e.obs.started, 1, Len(st.started)) = st.started

JudgeQueue(cfg, st, e) ==
  LET max == cfg.max
      S   == QNewStarts(st, e)
      U   == QUndl(st)
      idle == st.shut /\ QInFl(st) = {}                      \* Q6: nothing can arrive any more
      \* result of the operation itself: [ok, dev, st1]
      own ==
        CASE e.op = "enq" ->
               LET fresh == e.res.kind = "Ok" /\ \A j \in 1..Len(st.reqs) : st.reqs[j].id # e.res.id       \* Q1
                   okk   == e.k = Len(st.reqs) + 1
               IN [ok |-> fresh /\ okk, dev |-> "",
                   st1 |-> [st EXCEPT !.reqs = Append(@, [id |-> IF e.res.kind = "Ok" THEN e.res.id ELSE -1, p |-> e.p, c |-> e.c])]]
          [] e.op = "fin" ->
               LET was == e.k \in QInFl(st) IN
               [ok |-> e.res.kind = "Ok" /\ e.res.was = was, dev |-> "",
                st1 |-> IF was THEN [st EXCEPT !.fin = @ \cup {<<e.k, e.ok>>}] ELSE st]
          [] e.op = "recv" ->
               LET r == e.res.r IN
               IF e.res.kind # "Ok" THEN [ok |-> FALSE, dev |-> "", st1 |-> st]
               ELSE IF r.r = "some" THEN [ok |-> QDelivers(st, r, U), dev |-> "", st1 |-> [st EXCEPT !.dlv = @ \cup {r.k}]]
               ELSE IF r.r = "blocked" THEN
                    IF U # {} THEN [ok |-> FALSE, dev |-> "", st1 |-> st]
                    ELSE IF idle THEN [ok |-> ODev("FX09c"), dev |-> "FX09c", st1 |-> st]
                    ELSE [ok |-> TRUE, dev |-> "", st1 |-> st]
               ELSE [ok |-> r.r = "none" /\ U = {} /\ idle, dev |-> "", st1 |-> st]
          [] e.op = "try" ->
               LET r == e.res.r IN
               IF e.res.kind # "Ok" THEN [ok |-> FALSE, dev |-> "", st1 |-> st]
               ELSE IF r.r = "some" THEN [ok |-> QDelivers(st, r, U), dev |-> "", st1 |-> [st EXCEPT !.dlv = @ \cup {r.k}]]
               ELSE [ok |-> r.r = "none" /\ U = {}, dev |-> "", st1 |-> st]
          [] e.op = "rtry" ->
               IF e.res.kind # "Ok" THEN [ok |-> FALSE, dev |-> "", st1 |-> st]
               ELSE
               LET bg == e.res.bg   tr == e.res.try
                   bgSome == bg.r = "some"
                   bgI == IF U # {} THEN QDelivers(st, bg, U) ELSE IF idle THEN bg.r = "none" ELSE bg.r = "blocked"
                   bgC == U = {} /\ idle /\ bg.r = "blocked" /\ ODev("FX09c")
                   U2  == IF bgSome THEN U \ {bg.k} ELSE U
                   trI == IF U2 # {} THEN QDelivers(st, tr, U2) ELSE tr.r = "none"
                   trD == U2 = {} /\ bg.r = "blocked" /\ tr.r = "blocked" /\ ODev("FX09d")
                   d1  == IF bgSome THEN {bg.k} ELSE {}
                   d2  == IF tr.r = "some" THEN {tr.k} ELSE {}
               IN [ok |-> (bgI \/ bgC) /\ (trI \/ trD),
                   dev |-> IF ~bgI /\ bgC THEN "FX09c" ELSE IF ~trI /\ trD THEN "FX09d" ELSE "",
                   st1 |-> [st EXCEPT !.dlv = @ \cup d1 \cup d2]]
          [] e.op = "shutdown" -> [ok |-> e.res.kind = "Ok", dev |-> "", st1 |-> [st EXCEPT !.shut = TRUE]]
          [] OTHER -> [ok |-> FALSE, dev |-> "", st1 |-> st]
      sv  == QStartVerdict(st, own.st1, S, e.op, max)
      st2 == [own.st1 EXCEPT !.started = e.obs.started]
      ok  == own.ok /\ QPrefixOK(st, e) /\ sv.ok /\ QObsOK(st2, e)
  IN OVerdict(ok, IF ~ok THEN "" ELSE IF own.dev # "" THEN own.dev ELSE sv.dev, st2)

\* drain: every gate is opened (Ok) and try_recv is called until nothing moves.  Judged as a whole: everything that
\* was started is completed and delivered exactly once (Q2); unless the queue was shut down every waiting request
\* was started, in priority order (Q3, Q5).
JudgeDrain(cfg, st, e) ==
  LET S    == QNewStarts(st, e)
      SS   == SeqSet(S)
      st1  == [st EXCEPT !.started = e.obs.started]
      newf == QStarted(st1) \ QFin(st)
      st2  == [st1 EXCEPT !.fin = @ \cup {<<k, TRUE>> : k \in newf}]
      due  == QUndl(st2)
      dl   == IF e.res.kind = "Ok" THEN e.res.dl ELSE <<>>
      dks  == {dl[j].k : j \in 1..Len(dl)}
      q2   == /\ e.res.kind = "Ok" /\ Cardinality(dks) = Len(dl) /\ dks = due
              /\ \A j \in 1..Len(dl) : QDelivers(st2, dl[j], due)
      shape == SS \subseteq QPend(st) /\ Cardinality(SS) = Len(S) /\ QSorted(st, S)
      ideal == shape /\ SS = (IF st.shut THEN {} ELSE QPend(st))
      stuck == ~st.shut /\ QPend(st) # {} /\ S = <<>>
      dB    == ~ideal /\ stuck /\ ODev("FX09b")
      st3   == [st2 EXCEPT !.dlv = @ \cup dks]
      ok    == QPrefixOK(st, e) /\ q2 /\ (ideal \/ dB) /\ QObsOK(st3, e)
  IN OVerdict(ok, IF ok /\ dB THEN "FX09b" ELSE "", st3)

\* ===========================================================================
\* buf
\* ===========================================================================
\* st = [pool |-> sequence of the capacities of the pooled buffers (a bag), a, r, t |-> allocated, reused, returned]
BSt0 == [pool |-> <<>>, a |-> 0, r |-> 0, t |-> 0]
RECURSIVE DropOne(_, _)
DropOne(q, x) == IF q = <<>> THEN <<>> ELSE IF q[1] = x THEN Tail(q) ELSE <<q[1]>> \o DropOne(Tail(q), x)
(* FX09e: return_buffer pools whatever vector it is given: a buffer that lost its capacity (or never had it) is
   handed out again by get_buffer - capacity below buffer_size. *)
JudgeBuf(cfg, st, e) ==
  CASE e.op = "get" ->
         IF e.res.kind # "Ok" THEN OVerdict(FALSE, "", st)
         ELSE IF st.pool = <<>>
         THEN LET s1 == [st EXCEPT !.a = @ + 1] IN                                                   \* Z3 / Z4: allocation
              OVerdict(e.res.len = 0 /\ e.res.cap >= cfg.size /\ e.obs.stats = <<0, s1.a, s1.r, s1.t>>, "", s1)
         ELSE LET from == e.res.cap \in SeqSet(st.pool)
                  s1   == [st EXCEPT !.r = @ + 1, !.pool = IF from THEN DropOne(@, e.res.cap) ELSE Tail(@)]
                  z1   == e.res.cap >= cfg.size
                  dE   == ~z1 /\ from /\ ODev("FX09e")
                  ok   == e.res.len = 0 /\ from /\ (z1 \/ dE) /\ e.obs.stats = <<Len(s1.pool), s1.a, s1.r, s1.t>>
              IN OVerdict(ok, IF ok /\ dE THEN "FX09e" ELSE "", s1)
    [] e.op \in {"ret", "retf"} ->
         IF e.res.kind = "Skip" THEN OVerdict(e.obs.stats = <<Len(st.pool), st.a, st.r, st.t>>, "", st)
         ELSE IF e.res.kind # "Ok" THEN OVerdict(FALSE, "", st)
         ELSE LET room  == Len(st.pool) < cfg.maxp
                  took  == e.obs.stats[1] = Len(st.pool) + 1
                  s1    == IF took THEN [st EXCEPT !.pool = Append(@, e.res.cap), !.t = @ + 1] ELSE st
                  z2    == /\ took => room                                                           \* never above max_pooled
                           /\ (room /\ e.res.cap >= cfg.size) => took                                \* a good buffer is kept
              IN OVerdict(z2 /\ e.obs.stats = <<Len(s1.pool), s1.a, s1.r, s1.t>>, "", s1)
    [] OTHER -> OVerdict(FALSE, "", st)

\* ===========================================================================
\* bw
\* ===========================================================================
\* st = [samples |-> <<[v, ep], ..>> every sample so far (v saturated at SAT; ep = number of long pauses before it),
\*       ep |-> pauses so far, peak, last |-> the previous observation]
Obs0 == [cur |-> 0, peak |-> 0, avg |-> 0, mavg |-> 0]
WSt0 == [samples |-> <<>>, ep |-> 0, last |-> Obs0]
RECURSIVE SumV(_, _, _)
SumV(q, a, b) == IF a > b THEN 0 ELSE q[a].v + SumV(q, a + 1, b)
MeanLast(q, j) == SumV(q, Len(q) - j + 1, Len(q)) \div j          \* mean of the last j samples, rounded down
Huge(q, a, b) == {x \in a..b : q[x].v >= SAT}
\* bytes / seconds; b = -1: u64::MAX bytes; ms = -1: one nanosecond
ExpSample(b, ms) == IF b = -1 THEN SAT
                    ELSE IF ms = -1 THEN (IF b >= 2 THEN SAT ELSE b * 1000000000)
                    ELSE (b * 1000) \div ms
Near(x, y) == x - y \in {-1, 0, 1}
KiB64 == 65536
MiB32 == 33554432
Clamp(x) == RMax(KiB64, RMin(MiB32, x))
\* the window of samples behind the moving average after the latest sample: the last j samples
\*   "1h" / "max": every sample (nothing is older than the window);
\*   "20ms": at least the newest, at most those recorded since the last pause (a pause is >= 4 windows long)
WCands(cfg, q) ==
  IF q = <<>> THEN {0}
  ELSE IF cfg.win = "20ms" THEN 1..Cardinality({x \in 1..Len(q) : q[x].ep = q[Len(q)].ep})
  ELSE {Len(q)}
\* the u64 sum of the window overflows: u64::MAX plus anything positive
SumOverflows(q, j) == LET h == Huge(q, Len(q) - j + 1, Len(q)) IN
                      Cardinality(h) >= 2 \/ (Cardinality(h) = 1 /\ \E x \in (Len(q) - j + 1)..Len(q) : x \notin h /\ q[x].v > 0)
MavgIdeal(cfg, q, m) ==
  \E j \in WCands(cfg, q) : IF j = 0 THEN m = 0
                            ELSE IF Huge(q, Len(q) - j + 1, Len(q)) # {} THEN m >= SAT \div j - 1 /\ m <= SAT
                            ELSE m = MeanLast(q, j)
(* FX09f: the window is so long that `now - window` is not representable (Duration::MAX; on platforms whose Instant
          starts at boot: any window longer than the uptime): the cut-off falls back to `now` and every older sample
          is dropped - the moving average is the latest sample (or the latest few).
   FX09g: moving_average_bandwidth sums its samples in u64 without protection: a window holding a saturated sample
          and any other positive one overflows - a panic with overflow checks, a wrapped sum without. *)
MavgDevF(cfg, q, m) == cfg.win = "max" /\ q # <<>> /\ \E j \in 1..(Len(q) - 1) : Huge(q, Len(q) - j + 1, Len(q)) = {} /\ m = MeanLast(q, j)
MavgDevG(cfg, q, m) == m = -1 /\ \E j \in WCands(cfg, q) \cup (IF cfg.win = "max" THEN 1..Len(q) ELSE {}) : j > 0 /\ SumOverflows(q, j)
MavgVerdict(cfg, q, m) ==
  LET i == MavgIdeal(cfg, q, m)
      f == ~i /\ ODev("FX09f") /\ MavgDevF(cfg, q, m)
      g == ~i /\ ODev("FX09g") /\ MavgDevG(cfg, q, m)
  IN [ok |-> i \/ f \/ g, dev |-> IF i THEN "" ELSE IF f THEN "FX09f" ELSE IF g THEN "FX09g" ELSE ""]

JudgeBw(cfg, st, e) ==
  LET o == e.obs IN
  CASE e.op = "rec" ->
         IF e.res.kind # "Ok" THEN OVerdict(FALSE, "", [st EXCEPT !.last = o])
         ELSE IF e.ms = 0 THEN OVerdict(o = st.last, "", st)                                          \* B1
         ELSE LET x  == ExpSample(e.b, e.ms)
                  v  == o.cur
                  b2 == IF x >= SAT THEN v = SAT ELSE Near(v, x)                                      \* B2
                  q  == Append(st.samples, [v |-> v, ep |-> st.ep])
                  n  == Len(q)
                  b3 == o.peak = RMax(st.last.peak, v)                                                \* B3
                  hg == Huge(q, 1, n) # {}
                  sm == SumV(q, 1, n)
                  b4 == IF hg THEN o.avg <= o.peak ELSE sm - n * n <= n * o.avg /\ n * o.avg <= sm + n   \* B4
                  mv == MavgVerdict(cfg, q, o.mavg)                                                   \* B5
                  ok == b2 /\ b3 /\ b4 /\ mv.ok
              IN OVerdict(ok, IF ok THEN mv.dev ELSE "", [samples |-> q, ep |-> st.ep, last |-> o])
    [] e.op = "sleep" ->      \* what the moving average reports after a pause without a new sample is left open: stale or 0
         LET same == o.cur = st.last.cur /\ o.peak = st.last.peak /\ o.avg = st.last.avg /\ o.mavg \in {st.last.mavg, 0}
         IN OVerdict(e.res.kind = "Ok" /\ same, "", [st EXCEPT !.ep = IF e.ms >= 80 THEN @ + 1 ELSE @, !.last = o])
    [] e.op = "rng" ->                                                                                \* B6
         LET m    == o.mavg
             same == o = st.last
             tt   == IF e.tms = -1 THEN 100000 ELSE e.tms \div 100          \* tenths of a second
             \* 32-bit arithmetic: exact below 2e7 B/s and 10 s, the clamp decides above
             exact == m <= 20000000 /\ tt <= 100
             want == IF m = 0 THEN {MiB}
                     ELSE IF tt = 0 THEN {KiB64}
                     ELSE IF m >= SAT \/ e.tms = -1 \/ (m > 20000000 /\ tt >= 20) THEN {MiB32}
                     ELSE IF exact THEN LET t == (m * tt) \div 10 IN {Clamp(t - 1), Clamp(t), Clamp(t + 1)}
                     ELSE KiB64..MiB32
             ideal == m # -1 /\ e.res.kind = "Ok" /\ (IF m # 0 /\ tt # 0 /\ ~exact /\ m < SAT /\ e.tms # -1 /\ ~(m > 20000000 /\ tt >= 20)
                                                      THEN e.res.v >= KiB64 /\ e.res.v <= MiB32 ELSE e.res.v \in want)
             dG    == m = -1 /\ e.res.kind = "panic" /\ ODev("FX09g")
         IN OVerdict(same /\ (ideal \/ dG), IF same /\ ~ideal /\ dG THEN "FX09g" ELSE "", st)
    [] OTHER -> OVerdict(FALSE, "", st)

\* ===========================================================================
\* sblte
\* ===========================================================================
\* cfg = [chunks |-> <<[m, n], ..>>, multi]; the "new" event adds total (bytes of the file) and plain
RECURSIVE SumChunks(_, _, _)
SumChunks(ch, a, b) == IF a > b THEN 0 ELSE ch[a].n + SumChunks(ch, a + 1, b)
PlainLen(cfg) == SumChunks(cfg.chunks, 1, Len(cfg.chunks))
HeaderLen(cfg) == IF cfg.multi THEN 12 + 24 * Len(cfg.chunks) ELSE 8
ClipLen(cfg, a, n) == SumChunks(cfg.chunks, a + 1, RMin(a + n, Len(cfg.chunks)))
\* S3: the requests made before the first one that starts at or after the end of the header stay within the header
HeaderReadsOK(cfg, calls) ==
  \A j \in 1..Len(calls) : (\A x \in 1..j : calls[x][1] < HeaderLen(cfg)) => calls[j][2] < RMax(HeaderLen(cfg), 12)
(* FX09i: read_blte_header takes header_size = 0 for "multi-chunk" (it is the single-chunk marker), reads the chunk
          count from bytes 12..15 and reckons 12 bytes per chunk (the table has a flag byte, a 24-bit count and 24
          bytes per chunk).  A file with a chunk table is never decoded: the header is cut off after 12 bytes and does
          not parse.  A single-chunk file is decoded, after a "header" request whose length comes from payload bytes. *)
SblteDevMulti(cfg, e) == cfg.multi /\ e.res.kind = "Err" /\ e.res.err = "BlteError" /\ e.obs.calls = <<<<0, 11>>>>
SblteDevProbe(cfg, e) ==
  LET c == e.obs.calls
      nh == IF e.obs.total >= 16 THEN 3 ELSE 2       \* the third "header" request is made when 16 bytes could be read
  IN /\ ~cfg.multi /\ Len(c) >= nh /\ c[1] = <<0, 11>> /\ c[2] = <<0, 15>> /\ (nh = 3 => c[3][1] = 0)
     /\ \A j \in (nh + 1)..Len(c) : c[j][1] >= HeaderLen(cfg)
JudgeSblte(cfg, st, e) ==
  LET okRes == CASE e.op = "all"   -> e.res.kind = "Ok" /\ e.res.same /\ e.res.len = PlainLen(cfg)                       \* S1
                 [] e.op = "range" -> e.res.kind = "Ok" /\ e.res.same /\ e.res.len = ClipLen(cfg, e.a, e.n)
                 [] e.op = "info"  -> /\ e.res.kind = "Ok" /\ e.res.single = ~cfg.multi /\ e.res.hdr = HeaderLen(cfg)     \* S2
                                      /\ e.res.chunks = Len(cfg.chunks) /\ (cfg.multi => e.res.plain = PlainLen(cfg))
                 [] OTHER -> FALSE
      s3    == HeaderReadsOK(cfg, e.obs.calls)
      ideal == okRes /\ s3
      dM    == ~ideal /\ ODev("FX09i") /\ SblteDevMulti(cfg, e)
      dP    == ~ideal /\ ODev("FX09i") /\ okRes /\ SblteDevProbe(cfg, e)
  IN OVerdict(ideal \/ dM \/ dP, IF ~ideal /\ (dM \/ dP) THEN "FX09i" ELSE "", st)

\* ===========================================================================
\* one entry point for the monitor and the machines
\* ===========================================================================
OSt0(fam, cfg) == CASE fam = "coal" -> CoalSt0 [] fam = "queue" -> QSt0 [] fam = "buf" -> BSt0 [] fam = "bw" -> WSt0 [] OTHER -> 0
OJudge(fam, cfg, st, e) ==
  CASE fam = "coal"  -> JudgeCoal(cfg, st, e)
    [] fam = "queue" -> IF e.op = "drain" THEN JudgeDrain(cfg, st, e) ELSE JudgeQueue(cfg, st, e)
    [] fam = "buf"   -> JudgeBuf(cfg, st, e)
    [] fam = "bw"    -> JudgeBw(cfg, st, e)
    [] fam = "sblte" -> JudgeSblte(cfg, st, e)
    [] OTHER -> OVerdict(FALSE, "", st)
=============================================================================
