----------------------------- MODULE TypedCache -----------------------------
(***************************************************************************)
(* X04 - the typed / content-addressed cache layer of cascette-cache ABOVE *)
(* the basic caches: typed keys (key.rs), the counters (stats.rs,          *)
(* AtomicCacheMetrics), the NGDP wrappers (ngdp.rs: ContentAddressedCache, *)
(* BlteBlockCache, ArchiveCache, NgdpResolutionCache), the CDN-backed      *)
(* read-through caches (cdn.rs), InvalidationStrategy (traits.rs) and the  *)
(* warming configuration (config.rs).  The basic caches themselves are     *)
(* Cache.tla (C10); this module EXTENDS it and reuses its functional core  *)
(* (PutR/GetR/RemoveR, MayHit/MustHit/Expired, HitOf, GetOk ...) for every *)
(* cache a wrapper sits on: a wrapper is specified as a translation of its *)
(* calls into core operations on TYPED abstract keys plus the books it     *)
(* keeps itself.  A roomy inner cache (limits far above the population,    *)
(* 1 h TTL) is a core configuration of kind "disk" in Cache.tla's sense    *)
(* (an unexpired value MUST be retrievable); a tiny one is kind "mem" (may *)
(* always miss).                                                           *)
(*                                                                         *)
(* PROPERTIES (each with its quantifier; all at the level of the public    *)
(* API; T_TypedCache is exactly this strict)                               *)
(*                                                                         *)
(* K - typed keys.  For every key type, every history of constructing,     *)
(*   cloning and modifying (public fields) key objects, and every pair of  *)
(*   key objects alive at any two moments of the history:                  *)
(*   K1  a == b  <=>  their fields are equal  <=>  as_cache_key() equal;   *)
(*       equal fields => equal std Hash, fast_hash(), hash_key().          *)
(*       (The FORMAT of the string is left open.)                          *)
(*   K2  Display = as_cache_key(); fast_hash().hash64 = hash_key().hash64. *)
(*   K3  consequently, in EVERY cache backend (keyed by Eq/Hash like       *)
(*       MemoryCache or by the string like DiskCache), for every history   *)
(*       of put/get/contains/remove through such objects: a get returns    *)
(*       the latest value put under a key with EQUAL FIELDS, or nothing    *)
(*       (nothing is not allowed for an unexpired value in a roomy cache); *)
(*       size()/stats() at a probe equal what is retrievable; get_count /  *)
(*       hit_count / miss_count equal the number of gets / hits / misses.  *)
(*                                                                         *)
(* S - AtomicCacheMetrics.  For every history of record_* / reset calls    *)
(*   (also histories that remove more than was put):                       *)
(*   S1  no call panics;                                                   *)
(*   S2  after every call, snapshot(): get = hit + miss = number of gets   *)
(*       recorded since the last reset; hit, put, remove, eviction,        *)
(*       expiration counts likewise; fast_snapshot() agrees;               *)
(*   S3  as long as the history since the last reset never removed more    *)
(*       entries / bytes than it had put: entry_count = puts - (removes +  *)
(*       evictions + expirations), memory_usage_bytes = bytes put - bytes  *)
(*       removed, max_memory_usage_bytes = the maximum of that over time.  *)
(*                                                                         *)
(* W - wrappers (every history of the listed calls, every configuration    *)
(*   of the grid, TTL logical as in Cache.tla):                            *)
(*   W1  get_block / get_range / get_validated return the latest bytes     *)
(*       stored for exactly that (content, index, decompressed?) /         *)
(*       (archive, offset, length) / content key, or nothing; the block    *)
(*       namespace and the validated-content namespace are disjoint;       *)
(*   W2  put_validated stores iff md5(data) = key, else reports            *)
(*       ContentValidationFailed and changes nothing; get_validated never  *)
(*       returns bytes whose md5 is not the key; successful/failed         *)
(*       validation counters = number of such answers, <= total;           *)
(*   W3  CacheFull is reported only if the content / archive really has    *)
(*       its maximum of other cached blocks / ranges, and a put is         *)
(*       accepted only if it has not; is_range_cached and the metadata     *)
(*       lists agree with what a get returns (judged at probes), and       *)
(*       block_sizes[i] is the size of a put of block i;                   *)
(*       evict_old_entries(age) makes the blocks of every content not      *)
(*       accessed within `age` unretrievable, and nothing else;            *)
(*   W4  find_overlapping_ranges returns exactly the cached ranges of the  *)
(*       archive that intersect the query (half-open intervals, the test   *)
(*       ro < o+l /\ o < ro+rl in unbounded integers), for all u64         *)
(*       offsets, and never panics;                                        *)
(*   W5  read-through (get_with_fallback, get_range_with_fallback,         *)
(*       resolve_with_fallback): a request is sent to the backend only     *)
(*       when the cache does not hold the entry, at most one per call;     *)
(*       what the backend delivered is returned and stored iff it is valid *)
(*       (content: md5 = key); after a failed fetch the cache is as it was *)
(*       before; a successful fetch never ends in an error of the cache;   *)
(*   W6  resolution: resolve_file_to_content(r, p) = the content key the   *)
(*       root file cached for r maps p to, None if r is not cached or has  *)
(*       no such path, ContentValidationFailed iff the bytes cached for r  *)
(*       do not hash to r; resolve_content_to_encoding likewise over the   *)
(*       cached encoding file; the counters count those outcomes.          *)
(*                                                                         *)
(* I - InvalidationStrategy::should_invalidate / get_ttl and the warming   *)
(*   configuration are pure decision tables (executable definitions        *)
(*   below).  Nothing in the crate CONSUMES an InvalidationStrategy or a   *)
(*   CacheWarmingConfig (no cache reads them, CacheWarming has no          *)
(*   implementation), so there is no behaviour beyond these tables.        *)
(*                                                                         *)
(* PART K / S / W / I below hold the definitions; the as-is (code-shaped)  *)
(* variants used to name known deviations are marked "AsIs".               *)
(***************************************************************************)
EXTENDS Cache, Integers, TLC

\* ============================ PART K: typed keys ============================
\* A key is the tuple of its public fields in declaration order.  Strings are
\* strings, Option<_> is <<>> | <<x>>, numbers are canonical decimal strings,
\* booleans are booleans, content / encoding keys are the ids "c1".."c9".
KeyTypes == {"ribbit", "config", "index", "manifest", "range", "root", "encoding", "block", "blte", "content"}
HexOf(id) == CASE id = "c1" -> "11111111111111111111111111111111"
               [] id = "c2" -> "22222222222222222222222222222222"
               [] id = "c3" -> "33333333333333333333333333333333"
               [] OTHER     -> "99999999999999999999999999999999"
OptS(pre, o) == IF o = <<>> THEN "" ELSE pre \o o[1]
PR(parsed)   == IF parsed THEN "parsed" ELSE "raw"

\* as_cache_key() as documented by key.rs and its unit tests (AsIs: plain
\* concatenation with ':' - used to PREDICT collisions, never to judge a name)
NameOf(kt, f) ==
  CASE kt = "ribbit"   -> "ribbit:" \o f[2] \o OptS(":", f[3]) \o ":" \o f[1]
    [] kt = "config"   -> "config:" \o f[1] \o ":" \o f[2]
    [] kt = "index"    -> "index:" \o f[1] \o ":" \o f[2]
    [] kt = "manifest" -> "manifest:" \o f[1] \o ":" \o HexOf(f[2]) \o OptS(":", f[3])
    [] kt = "range"    -> "archive:" \o f[1] \o ":" \o f[2] \o "+" \o f[3]
    [] kt = "root"     -> "root:" \o PR(f[2]) \o ":" \o HexOf(f[1]) \o OptS(":v", f[3])
    [] kt = "encoding" -> "encoding:" \o PR(f[3]) \o ":" \o HexOf(f[1]) \o OptS(":p", f[2])
    [] kt = "block"    -> "blte:" \o (IF f[3] THEN "decompressed" ELSE "raw") \o ":" \o HexOf(f[1]) \o ":b" \o f[2]
    [] kt = "blte"     -> "blte:" \o HexOf(f[1]) \o OptS(":", f[2])
    [] kt = "content"  -> "content:" \o HexOf(f[1])

\* the field values the bounded instances draw from (separator characters,
\* empty strings, None vs Some(""), a string field that looks like a key)
H1 == HexOf("c1")
H2 == HexOf("c2")
FieldVals(kt) ==
  CASE kt = "ribbit"   -> << {"c", "b:c"}, {"a", "a:b"}, {<<>>, <<"b">>} >>
    [] kt = "config"   -> << {"t", "t:u"}, {"h", "u:h"} >>
    [] kt = "index"    -> << {"n", "n:m", ""}, {"h", "m:h", ":h"} >>
    [] kt = "manifest" -> << {"a", "a:" \o H1}, {"c1", "c2"}, {<<>>, <<H2>>, <<"">>} >>
    [] kt = "range"    -> << {"a", "a:1+2"}, {"1", "3"}, {"2", "4"} >>
    [] kt = "root"     -> << {"c1", "c2"}, BOOLEAN, {<<>>, <<"1">>} >>
    [] kt = "encoding" -> << {"c1", "c2"}, {<<>>, <<"0">>}, BOOLEAN >>
    [] kt = "block"    -> << {"c1", "c2"}, {"0", "1"}, BOOLEAN >>
    [] kt = "blte"     -> << {"c1", "c2"}, {<<>>, <<"0">>, <<"1">>} >>
    [] kt = "content"  -> << {"c1", "c2", "c3"} >>
Universe(kt) ==
  LET V == FieldVals(kt) IN
  CASE Len(V) = 1 -> {<<a>> : a \in V[1]}
    [] Len(V) = 2 -> {<<a, b>> : a \in V[1], b \in V[2]}
    [] Len(V) = 3 -> {<<a, b, c>> : a \in V[1], b \in V[2], c \in V[3]}
NameInjective(kt) == \A a, b \in Universe(kt) : NameOf(kt, a) = NameOf(kt, b) => a = b

\* Key OBJECTS: o = [f |-> current fields, nf |-> the fields at the moment the
\* string was first asked for (AsIs: it is cached in a OnceLock), NoName if never]
NoName == <<>>
MkObj(f)        == [f |-> f, nf |-> NoName]
SetField(o, i, v) == [o EXCEPT !.f = [@ EXCEPT ![i] = v]]
Touch(o)        == IF o.nf = NoName THEN [o EXCEPT !.nf = o.f] ELSE o
IdealName(kt, o) == NameOf(kt, o.f)
AsIsName(kt, o)  == NameOf(kt, Touch(o).nf)
Stale(o)        == o.nf # NoName /\ o.nf # o.f

\* Observations of names: N is a set of [f |-> fields, n |-> string].  K1 for
\* names: equal fields <=> equal strings, over ALL observations of a run.
Conflicts(N, f, n) == {p \in N : (p.f = f) # (p.n = n)}
\* AsIs explanations of a conflict between an earlier observation p and (f, n)
CollisionExplains(kt, p, f, n) ==           \* the documented concatenations of two different keys coincide
  p.f # f /\ p.n = n /\ NameOf(kt, p.f) = n /\ NameOf(kt, f) = n
StaleExplains(N, o, n) ==                   \* the object still reports the string of its earlier fields
  Stale(o) /\ [f |-> o.nf, n |-> n] \in N

\* ---- the cache core configuration a typed run uses ---------------------------
CoreCfg(roomy, dttl) ==
  [kind |-> IF roomy THEN "disk" ELSE "mem", policy |-> "lru", maxe |-> 100000, maxb |-> 0, dttl |-> dttl]

\* ============================ PART S: the counters ============================
R0 == [gets |-> 0, hits |-> 0, puts |-> 0, rems |-> 0, evis |-> 0, exps |-> 0,
       n |-> 0, mem |-> 0, max |-> 0, bal |-> TRUE]
RECURSIVE CountTrue(_)
CountTrue(q) == IF q = <<>> THEN 0 ELSE (IF Head(q) THEN 1 ELSE 0) + CountTrue(Tail(q))
Take(c, field, k) ==      \* remove one entry of k bytes
  LET c1 == [c EXCEPT ![field] = @ + 1] IN
  IF c.bal /\ c.n >= 1 /\ c.mem >= k THEN [c1 EXCEPT !.n = @ - 1, !.mem = @ - k]
  ELSE [c1 EXCEPT !.bal = FALSE]
MetR(c, e) ==
  CASE e.op = "mget"   -> [c EXCEPT !.gets = @ + 1, !.hits = IF e.hit THEN @ + 1 ELSE @]
    [] e.op = "mbatch" -> [c EXCEPT !.gets = @ + Len(e.hits), !.hits = @ + CountTrue(e.hits)]
    [] e.op = "mput"   -> LET m == c.mem + e.n IN
                          [c EXCEPT !.puts = @ + 1, !.n = @ + 1, !.mem = m, !.max = IF m > @ THEN m ELSE @]
    [] e.op = "mrem"   -> Take(c, "rems", e.n)
    [] e.op = "mevi"   -> Take(c, "evis", e.n)
    [] e.op = "mexp"   -> Take(c, "exps", e.n)
    [] e.op = "mreset" -> R0
    [] OTHER           -> c
\* S2 / S3 against snapshot() = sn and fast_snapshot() = fa
CountsOk(c, sn, fa) ==
  /\ sn.gets = c.gets /\ sn.hits = c.hits /\ sn.miss = c.gets - c.hits
  /\ sn.puts = c.puts /\ sn.rems = c.rems /\ sn.evis = c.evis /\ sn.exps = c.exps
  /\ fa.gets = c.gets /\ fa.hits = c.hits
BalanceOk(c, sn, fa) ==
  c.bal => /\ sn.n = c.n /\ sn.mem = c.mem /\ sn.max = c.max
           /\ fa.n = c.n /\ fa.mb = c.mem \div 1048576
\* AsIs (stats.rs): the counters are unsigned and wrap; record_put adds the size
\* to the value fetch_add returned with overflow checks on: it panics iff the
\* wrapped byte counter plus the size passes 2^64, i.e. iff mem < 0 <= mem + size
\* in unbounded integers.
AsIsPutPanics(memInt, size) == memInt < 0 /\ memInt + size >= 0

\* ============================ PART W: the wrappers ============================
IsErr(r, c)   == "err" \in DOMAIN r /\ r.err = c
IsPanic(r)    == "outcome" \in DOMAIN r
IsOkUnit(r)   == "ok" \in DOMAIN r
\* results of the resolution calls
IsSome(r)     == "some" \in DOMAIN r
IsNone(r)     == "none" \in DOMAIN r

\* ---- W3: the per-content / per-archive limit ------------------------------------
\* G = the group (content or archive) as the set of core keys of the universe that
\* belong to it; Unit(k) = what the limit counts (block index / range).  s = core
\* state, cfg = core cfg.  May/Must = units that may / must still be retrievable.
MayUnits(s, G, Unit(_))       == {Unit(k) : k \in {x \in G : MayHit(s, x)}}
MustUnits(s, cfg, G, Unit(_)) == {Unit(k) : k \in {x \in G : MustHit(s, cfg, x)}}
\* a refusal with CacheFull is justified / an acceptance is justified
FullJustified(s, cfg, G, Unit(_), u, max) ==
  Cardinality(MayUnits(s, G, Unit) \ {u}) >= max /\ u \notin MustUnits(s, cfg, G, Unit)
AcceptJustified(s, cfg, G, Unit(_), u, max) ==
  u \in MayUnits(s, G, Unit) \/ Cardinality(MustUnits(s, cfg, G, Unit) \ {u}) < max
\* AsIs: the metadata list md (sequence of units in order of first successful put)
\* is never shortened when the inner cache evicts or expires an entry
SeqHas(q, u)     == \E i \in 1..Len(q) : q[i] = u
AsIsFull(md, u, max) == Len(md) >= max /\ ~SeqHas(md, u)
AsIsListed(md, u)    == IF SeqHas(md, u) THEN md ELSE Append(md, u)
SeqSet(q)        == {q[i] : i \in 1..Len(q)}

\* ---- W4: overlap of ranges over u64 (offset -1 stands for u64::MAX) ---------------
Big == 1073741824
OffVal(o) == IF o = -1 THEN Big ELSE o
Overlaps(ro, rl, o, l) == OffVal(ro) < OffVal(o) + l /\ OffVal(o) < OffVal(ro) + rl
\* AsIs: offset + length is computed in u64 with overflow checks on
AsIsOverlapPanics(ranges, o, l) ==
  (o = -1 /\ l >= 1) \/ \E r \in ranges : r[1] = -1 /\ r[2] >= 1

\* ---- W6: resolution tables ---------------------------------------------------------
\* blobs: sequence of [id, tab (sequence of <<from, to>>), junk]
BlobOf(blobs, id) == blobs[CHOOSE i \in 1..Len(blobs) : blobs[i].id = id]
Lookup(tab, x) == LET S == {i \in 1..Len(tab) : tab[i][1] = x}
                  IN IF S = {} THEN <<>> ELSE <<tab[CHOOSE i \in S : TRUE][2]>>
\* possible outcomes of resolving x through the entry cached under key id `key`
\* (s = core state of the root / encoding cache; the stored value's identity h is
\* the id of the blob that was stored).  validate = TRUE: the bytes must hash to
\* the key (root files); FALSE: nothing to validate against (encoding files are
\* cached under their ENCODING key, which is not a hash of the cached bytes).
ResolveOutcomes(s, cfg, blobs, key, x, validate) ==
  (IF MustHit(s, cfg, key) THEN {} ELSE {"miss"}) \cup
  (IF ~MayHit(s, key) THEN {}
   ELSE LET b == BlobOf(blobs, s.latest[key].h) IN
        IF validate /\ b.id # key THEN {"validation"}
        ELSE IF b.junk THEN {"parse", "none"}
        ELSE IF Lookup(b.tab, x) = <<>> THEN {"none"} ELSE {"some"})
OutcomeOf(r) == IF IsSome(r) THEN "some" ELSE IF IsNone(r) THEN "none"
                ELSE IF "err" \in DOMAIN r THEN r.err ELSE "panic"

\* ============================ PART I: decision tables ============================
RECURSIVE ShouldInvalidate(_, _, _, _)
ShouldInvalidate(st, ent, size, bytes) ==
  CASE st.t \in {"never", "lru", "lfu"} -> FALSE          \* "handled by the cache implementation, not here"
    [] st.t = "ttl"  -> ent = "dead"                        \* the entry's own expiry has passed
    [] st.t = "size" -> size > st.max
    [] st.t = "mem"  -> bytes > st.max
    [] st.t = "comb" -> \E i \in 1..Len(st.of) : ShouldInvalidate(st.of[i], ent, size, bytes)
RECURSIVE TtlOf(_)
TtlOf(st) ==      \* first Ttl in depth-first order, -1 = None
  CASE st.t = "ttl"  -> st.ms
    [] st.t = "comb" -> LET S == {i \in 1..Len(st.of) : TtlOf(st.of[i]) # -1}
                        IN IF S = {} THEN -1 ELSE TtlOf(st.of[CHOOSE i \in S : \A j \in S : i <= j])
    [] OTHER         -> -1
WarmingValid(en, maxe) == ~(en /\ maxe = 0)
=============================================================================
