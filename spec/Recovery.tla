------------------------------ MODULE Recovery ------------------------------
(***************************************************************************)
(* X02, part (b): retry, server fail-over and the recovery loop of the CDN  *)
(* streaming layer (cascette-protocol, feature `streaming`, recovery.rs:    *)
(* RetryManager, FailoverManager, ErrorRecoverySystem).                     *)
(*                                                                         *)
(* RetryManager (RetryConfig: max_attempts, base_delay "initial delay ...   *)
(* exponential backoff with jitter", max_delay "caps the exponential        *)
(* backoff", jitter_factor 0..1 "up to 100% variation", retry_on_status):   *)
(*  D1 calculate_delay(0, _) = 0; for attempt a >= 1 the delay is           *)
(*     min(base * 2^(a-1), max) scaled by a network-condition factor        *)
(*     ("network condition adaptation": exactly 1 for Fair, between 1/2     *)
(*     and 1 for Excellent / Good, between 1 and 2 for Poor / VeryPoor -    *)
(*     the table itself is the implementation's), within +- jitter_factor   *)
(*     of that value;                                                       *)
(*  D2 and it never exceeds max_delay (plus the jitter allowance);          *)
(*  D3 no panic for any attempt number;                                     *)
(*  D4 is_retryable: an HTTP status is retried iff it is listed in          *)
(*     retry_on_status; time-outs, fail-over, unavailable / limited / rate- *)
(*     limited / lagging servers are; malformed requests, configuration,    *)
(*     format and verification errors are not.                              *)
(*                                                                         *)
(* FailoverManager ("servers are never permanently excluded ... only        *)
(* temporarily unavailable"; ServerHealth::Unavailable {until}):            *)
(*  F1 mark_server_failed makes the server Unavailable for a positive,      *)
(*     bounded time, except for a 404 (content missing, server fine);       *)
(*     only that server changes; failure weight never decreases, grows      *)
(*     on every failure except 429 / 2xx;                                   *)
(*  F2 select_best_server returns a member of the list it was given that    *)
(*     is not inside its unavailability window, and None only when there    *)
(*     is no such member (the breaker stops traffic until its time-out);    *)
(*  F3 mark_server_healthy (a success) makes it selectable at once and      *)
(*     counts one recovery iff it was Unavailable; once the window is over  *)
(*     the server is selectable again and cleanup_expired reports Healthy.  *)
(*                                                                         *)
(* ErrorRecoverySystem::execute_with_recovery(url, range, servers, _):      *)
(*  R1 makes at most max_attempts requests (one more is tolerated: "retry   *)
(*     attempts"), each for the byte range it was given;                    *)
(*  R2 stops at the first success and returns that response;                *)
(*  R3 stops at the first error that is not retryable (D4) and returns it;  *)
(*  R4 otherwise goes on, and gives up (Err) only when the attempts are     *)
(*     used up or no server of the list is available (F2);                  *)
(*  R5 every attempt is made on a server selected by F2, the request is     *)
(*     addressed to that server, and its outcome is booked on that server   *)
(*     (F1/F3, per-server request and failure counts);                      *)
(*  R6 waits D1/D2 between attempts (attempt a+1 after delay(a), any        *)
(*     network-condition factor); a request that does not answer is         *)
(*     abandoned after request_timeout and counts as a time-out;            *)
(*  R7 never panics.                                                        *)
(*                                                                         *)
(* ReqwestHttpClient::get_cdn_content ("get CDN content with automatic      *)
(* failover"; CdnConfig::servers "are tried in priority order (lower        *)
(* priority values first)"; http.rs):                                       *)
(*  H1 servers are contacted in ascending priority (equal priorities in any  *)
(*     order), each at most once, the next one only after the one before    *)
(*     failed (error status, no answer);                                    *)
(*  H2 the result is the answer of the first server that succeeds; Err only *)
(*     after every server failed;                                           *)
(*  H3 with a range every request carries `Range: bytes=s-e` and Ok means   *)
(*     exactly the requested bytes of the resource (RangePlan!Body); a      *)
(*     server that ignores Range and sends the whole resource either counts *)
(*     as failed (StreamingError::RangeNotSupported exists for it) or its   *)
(*     answer is cut to the range.                                          *)
(*                                                                         *)
(* Quantifier: every outcome script (success, time-out, hang, HTTP status,  *)
(* limit / unavailable / malformed errors) x server lists x valid retry     *)
(* configurations x histories of calls on one system (health persists).     *)
(* Library module without constants or variables; durations are integer     *)
(* milliseconds.  Reuses C14's PowCap / Min2r / CeilDiv / Tol (Retry.tla)   *)
(* and C13's status classes (Failover.tla).                                 *)
(***************************************************************************)
EXTENDS Integers, Sequences, FiniteSets

Rt == INSTANCE Retry WITH KnownDeviations <- {}, pol <- 0, script <- <<>>, st <- 0, calls <- <<>>,
                          waited <- 0, phase <- "", result <- 0
Fv == INSTANCE Failover WITH KnownDeviations <- {}

SeqSet(q) == Fv!SetOfSeq(q)

\* ---- D1-D3: delays ---------------------------------------------------------------------------
JitPct(tok) == CASE tok = "0" -> 0 [] tok = "0.1" -> 10 [] tok = "0.5" -> 50 [] tok = "1" -> 100
\* the range <<lowest factor, highest factor>> (rationals <<num, den>>) a network condition may apply
Half == <<1, 2>>   One == <<1, 1>>   Two == <<2, 1>>
CondRange(c) == CASE c \in {"Excellent", "Good"} -> <<Half, One>> [] c = "Fair" -> <<One, One>>
                  [] c \in {"Poor", "VeryPoor"} -> <<One, Two>>
AnyCond == <<Half, Two>>
\* min(base * 2^(a-1), max), multiplied step by step under the cap (C14's operator; TLC integers are 32 bit)
Backoff(cfg, a) == Rt!PowCap(cfg.base_ms, 2, a - 1, cfg.max_ms)
ScaledLo(cfg, a, f) == (Backoff(cfg, a) * f[1]) \div f[2]
ScaledHi(cfg, a, f) == Rt!CeilDiv(Backoff(cfg, a) * f[1], f[2])
JLo(cfg, x) == (x * (100 - JitPct(cfg.jit))) \div 100
JHi(cfg, x) == Rt!CeilDiv(x * (100 + JitPct(cfg.jit)), 100)
\* d lies between the smallest and the largest admissible delay for factors in fr; capped: D2 applies to the scaled value
DelayIn(cfg, a, fr, d, tol, capped) ==
  /\ d >= JLo(cfg, Rt!Min2r(ScaledLo(cfg, a, fr[1]), cfg.max_ms)) - tol
  /\ d <= JHi(cfg, IF capped THEN Rt!Min2r(ScaledHi(cfg, a, fr[2]), cfg.max_ms) ELSE ScaledHi(cfg, a, fr[2])) + tol
\* the delay d before attempt a+1 (a >= 1)
DelayOK(cfg, a, fr, d, tol) == DelayIn(cfg, a, fr, d, tol, TRUE)
(* FX02f: the network-condition factor (x1.5, x2) is applied AFTER min(.., max_delay), so the wait is the
   scaled capped value and exceeds max_delay. *)
DelayOverCap(cfg, a, fr, d, tol) ==
  /\ ~DelayOK(cfg, a, fr, d, tol) /\ fr[2] = Two /\ ScaledHi(cfg, a, Two) > cfg.max_ms
  /\ DelayIn(cfg, a, fr, d, tol, FALSE)
(* FX02g: 2_u32.pow(attempt - 1) overflows from attempt 33 on (panic with overflow checks, delay 0 without). *)
PowOverflow(a) == a >= 33

\* ---- D4: which errors are retried --------------------------------------------------------------
TransientKinds == {"Timeout", "Hang", "CdnFailover", "ServerUnavailable", "ConnectionLimit",
                   "ConnectionPoolExhausted", "RateLimitExceeded", "MirrorSyncLag"}
Retryable(cfg, o) == IF o.kind = "HttpStatus" THEN o.code \in SeqSet(cfg.ros) ELSE o.kind \in TransientKinds
IsOkOut(o) == o.kind \in {"Ok", "Slow"}
\* the default list is a list of statuses C13/C14 call transient
DefaultRos == {429, 500, 502, 503, 504}
DefaultRosTransient == \A c \in DefaultRos : Fv!CdnRetryable(c)

\* ---- F1-F3: FailoverManager, judged on consecutive observations -------------------------------
\* obs = [health |-> [h |-> <<"H"|"D"|"U", remaining seconds>>], w10 |-> [h |-> weight x 10], stats |-> <<failovers, recoveries>>]
NoTrip(err)     == err.kind = "HttpStatus" /\ err.code = 404
ZeroWeight(err) == err.kind = "HttpStatus" /\ (err.code \in 200..299 \/ err.code = 429)
MaxWindowS == 900          \* no failure makes a server unavailable for longer than 15 minutes
ClockSlackS == 20          \* real seconds that may pass between two operations of a program (loaded machine)

Down(ob, h)     == ob.health[h][1] = "U"
MustAvail(ob, h) == ~Down(ob, h) \/ ob.health[h][2] = 0               \* window certainly over
MayAvail(ob, h)  == ~Down(ob, h) \/ ob.health[h][2] <= ClockSlackS     \* window over or about to be
SameHealth(prev, ob, h, waited) ==
  /\ ob.health[h][1] = prev.health[h][1]
  /\ Down(prev, h) => LET exp == prev.health[h][2] - waited IN
                      /\ ob.health[h][2] <= (IF exp + 1 < 0 THEN 0 ELSE exp + 1)
                      /\ ob.health[h][2] >= (IF exp - ClockSlackS < 0 THEN 0 ELSE exp - ClockSlackS)
FoOK(prev, e) ==
  LET ob == e.obs
      hosts == DOMAIN ob.health
      others(S) == \A h \in hosts \ S : SameHealth(prev, ob, h, 0) /\ ob.w10[h] = prev.w10[h]
  IN
  /\ e.res.kind = "Ok"
  /\ CASE e.op = "fail" ->
            /\ others({e.h})
            /\ e.h \in hosts =>
                 /\ IF NoTrip(e.err) THEN SameHealth(prev, ob, e.h, 0)
                    ELSE Down(ob, e.h) /\ ob.health[e.h][2] \in 1..MaxWindowS
                 /\ IF ZeroWeight(e.err) THEN ob.w10[e.h] = prev.w10[e.h] ELSE ob.w10[e.h] > prev.w10[e.h]
            /\ ob.stats = <<prev.stats[1] + 1, prev.stats[2]>>
       [] e.op = "healthy" ->
            /\ others({e.h})
            /\ e.h \in hosts => ob.health[e.h][1] = "H" /\ ob.w10[e.h] = prev.w10[e.h]
            /\ ob.stats = <<prev.stats[1], prev.stats[2] + (IF e.h \in hosts /\ Down(prev, e.h) THEN 1 ELSE 0)>>
       [] e.op = "select" ->
            /\ others({}) /\ ob.stats = prev.stats
            /\ LET S == SeqSet(e.set) \cap hosts IN
               IF e.res.h = "none" THEN \A h \in S : ~MustAvail(prev, h)
               ELSE e.res.h \in S /\ MayAvail(prev, e.res.h)
       [] e.op = "cleanup" ->
            /\ ob.stats = prev.stats
            /\ \A h \in hosts :
                 /\ ob.w10[h] = prev.w10[h]
                 /\ IF Down(prev, h) /\ prev.health[h][2] = 0 THEN ob.health[h][1] = "H"
                    ELSE IF Down(prev, h) /\ prev.health[h][2] <= ClockSlackS THEN TRUE
                    ELSE SameHealth(prev, ob, h, 0)
       [] e.op = "wait" ->
            /\ ob.stats = prev.stats
            /\ \A h \in hosts : ob.w10[h] = prev.w10[h] /\ SameHealth(prev, ob, h, e.ms \div 1000)
       [] OTHER -> FALSE
FoObs0(hosts) == [health |-> [h \in hosts |-> <<"H", 0>>], w10 |-> [h \in hosts |-> 0], stats |-> <<0, 0>>]

\* ---- R1-R7: the recovery loop -------------------------------------------------------------------
\* what the system remembers between calls, as far as the statement fixes it: which servers are inside their
\* unavailability window, and the per-server request / failure counts
RecX0(hosts) == [down |-> {}, tot |-> [h \in hosts |-> 0], fl |-> [h \in hosts |-> 0]]
AvailIn(x, S) == S \ x.down
\* attempt c = [i, t, to, range_ok, o] made on server s
Booked(x, s, o) ==
  [down |-> IF IsOkOut(o) THEN x.down \ {s} ELSE IF NoTrip(o) THEN x.down ELSE x.down \cup {s},
   tot  |-> [x.tot EXCEPT ![s] = @ + 1],
   fl   |-> IF IsOkOut(o) THEN x.fl ELSE [x.fl EXCEPT ![s] = @ + 1]]
\* redirect = TRUE: R5 in full (the request goes to the selected server); FALSE: every request goes to `urlhost`
RecStep(x, S, c, redirect, urlhost) ==
  {Booked(x, s, c.o) : s \in {h \in AvailIn(x, S) : IF redirect THEN c.to = h ELSE c.to = urlhost}}
RECURSIVE RecReach(_, _, _, _, _, _)
RecReach(X, S, calls, i, redirect, urlhost) ==
  IF i > Len(calls) THEN X
  ELSE RecReach(UNION {RecStep(x, S, calls[i], redirect, urlhost) : x \in X}, S, calls, i + 1, redirect, urlhost)

OutDur(cfg, o) == IF o.kind = "Hang" THEN cfg.timeout_ms ELSE IF o.kind = "Slow" THEN o.ms ELSE 0
GapBefore(cfg, calls, i) == calls[i].t - calls[i - 1].t - OutDur(cfg, calls[i - 1].o)
TimerTol == Rt!Tol + 1
CallsOK(cfg, calls, strictCap) ==
  LET k == Len(calls) IN
  /\ k <= cfg.maxatt + 1                                                           \* R1
  /\ \A i \in 1..k : calls[i].i = i /\ calls[i].range_ok
  /\ \A i \in 1..(k - 1) : ~IsOkOut(calls[i].o) /\ Retryable(cfg, calls[i].o)      \* R2, R3
  /\ \A i \in 2..k :                                                               \* R6
       \/ DelayOK(cfg, i - 1, AnyCond, GapBefore(cfg, calls, i), TimerTol)
       \/ ~strictCap /\ DelayOverCap(cfg, i - 1, AnyCond, GapBefore(cfg, calls, i), TimerTol)
ErrName(o) == IF o.kind = "Beyond" THEN "Configuration" ELSE IF o.kind = "Hang" THEN "Timeout" ELSE o.kind
ResultOK(cfg, calls, res, x, S) ==
  LET k == Len(calls) IN
  IF k = 0 THEN res.kind = "Err" /\ (cfg.maxatt = 0 \/ AvailIn(x, S) = {})
  ELSE LET o == calls[k].o IN
       IF IsOkOut(o) THEN res.kind = "Ok" /\ res.id = k                             \* R2
       ELSE IF ~Retryable(cfg, o)
            THEN res.kind = "Err" /\ res.err = ErrName(o)                           \* R3
                 /\ res.code = (IF o.kind = "HttpStatus" THEN o.code ELSE 0)
            ELSE res.kind = "Err" /\ (k >= cfg.maxatt \/ AvailIn(x, S) = {})        \* R4
ObsMatches(x, ob) == \A h \in DOMAIN x.tot : ob.srv[h][1] = x.tot[h] /\ ob.srv[h][2] = x.fl[h]
\* the states of the system that explain one recorded call of execute_with_recovery
RecExplained(cfg, X, e, calls, redirect, strictCap) ==
  IF ~CallsOK(cfg, calls, strictCap) THEN {}
  ELSE {x \in RecReach(X, SeqSet(e.set), calls, 1, redirect, e.urlhost) :
          ObsMatches(x, e.obs) /\ (e.res.kind = "panic" \/ ResultOK(cfg, calls, e.res, x, SeqSet(e.set)))}
\* every state compatible with the observed counts (after an unexplained call)
RecResync(hosts, ob) == {[down |-> D, tot |-> [h \in hosts |-> ob.srv[h][1]], fl |-> [h \in hosts |-> ob.srv[h][2]]] :
                           D \in SUBSET hosts}

\* ---- H1-H3: ordered fail-over of ReqwestHttpClient::get_cdn_content ---------------------------------
\* cfg.servers = <<[h, prio, beh], ..>>; beh: "ok206" honours Range, "ok200" ignores it (whole resource),
\* "h404" | "h429" | "h500" | "h503" error statuses, "close" no answer.  Resource: ResLen bytes, byte x = x.
ResLen == 32
\* the orders in which the servers may be tried: ascending priority, servers of equal priority in any order
CdnChains(cfg) ==
  LET n == Len(cfg.servers)
      perms == {f \in [1..n -> 1..n] : \A i, j \in 1..n : i # j => f[i] # f[j]}
  IN {[i \in 1..n |-> cfg.servers[f[i]]] : f \in {g \in perms : \A i \in 1..(n - 1) : cfg.servers[g[i]].prio <= cfg.servers[g[i + 1]].prio}}
CdnFails(b) == b \in {"h404", "h429", "h500", "h503", "close"}
\* the bytes a correct client returns for `range` (<<>>: the whole resource), as a sequence of byte values
Wanted(range) == IF range = <<>> THEN [j \in 1..ResLen |-> j - 1] ELSE [j \in 1..(range[2] - range[1] + 1) |-> range[1] + j - 1]
Whole == [j \in 1..ResLen |-> j - 1]
\* outcomes the statement permits from position i of the chain on: [n |-> servers contacted, ok, body, dev]
RECURSIVE CdnWalk(_, _, _)
CdnWalk(chain, range, i) ==
  IF i > Len(chain) THEN {[n |-> Len(chain), ok |-> FALSE, body |-> <<>>, dev |-> ""]}
  ELSE LET b == chain[i].beh
           stop(body, dev) == [n |-> i, ok |-> TRUE, body |-> body, dev |-> dev]
       IN IF CdnFails(b) THEN CdnWalk(chain, range, i + 1)
          ELSE IF b = "ok206" \/ range = <<>> THEN {stop(Wanted(range), "")}
          \* a whole-resource answer to a range request: cut it, or count the server as failed;
          \* FX02i: the whole resource is returned as if it were the range
          ELSE {stop(Wanted(range), ""), stop(Whole, "FX02i")} \cup CdnWalk(chain, range, i + 1)
CdnMatches(chain, e, w) ==
  /\ e.obs.contacted = [j \in 1..w.n |-> chain[j].h]                                \* H1
  /\ e.obs.hdr_ok                                                                   \* H3 (request)
  /\ IF w.ok THEN e.res.kind = "Ok" /\ e.res.body = w.body /\ e.res.len = Len(w.body)   \* H2, H3
     ELSE e.res.kind = "Err"
CdnExplained(cfg, e, devs) ==
  UNION {{w \in CdnWalk(chain, e.range, 1) : w.dev \in devs /\ CdnMatches(chain, e, w)} : chain \in CdnChains(cfg)}
=============================================================================
