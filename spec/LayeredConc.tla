---------------------------- MODULE LayeredConc ----------------------------
(***************************************************************************)
(* Code-shaped model of MultiLayerCacheImpl (cascette-cache) under         *)
(* concurrent tasks, for ONE key and two layers (property C11): one action *)
(* per call into a layer.  The layers themselves are atomic maps here -    *)
(* MemoryCache and DiskCache have their own models (CacheConc, DiskConc).  *)
(*                                                                         *)
(*   put     stores into the first layer, then takes the key out of the    *)
(*           slower one                                                    *)
(*   get     looks into the first layer, then into the second; after       *)
(*           missing both it looks into the first once more                *)
(*   remove  removes from the slower layer first, then from the first      *)
(*                                                                         *)
(* What must hold (and what the linearizability monitor T_Lin demands of   *)
(* the recorded histories of the real cache): a lookup that answers        *)
(* "nothing", and a remove that answers "was not there", must have been in *)
(* flight at a moment when the key really was in no layer - a key that     *)
(* only changes layers is never reported absent (NoSpuriousMiss); and a    *)
(* get never returns a value that a completed put had already replaced     *)
(* when the get started (NoStaleRead); a put never makes a key that is     *)
(* somewhere disappear, not even for a moment (PutKeepsKey).               *)
(*                                                                         *)
(* Variant re-introduces earlier designs so that TLC regenerates their     *)
(* counterexamples (all three are refuted on every run of the check):      *)
(*   "no_second_look"   get gives up after one walk (F11h, pinned code)    *)
(*   "remove_top_down"  remove walks first layer, then the slower one      *)
(*                      (F11h, pinned code)                                *)
(*   "put_invalidates_first"  put takes the key out of the slower layer    *)
(*                      before it stores into the first (seeded change     *)
(*                      C11-d3)                                            *)
(***************************************************************************)
EXTENDS Integers, Sequences, FiniteSets, TLC

CONSTANTS Tasks,     \* e.g. {1, 2, 3}
          Variant,
          InitKinds  \* subset of {"none", "l1", "l2"}

VARIABLES prog,     \* task -> "get" | "put" | "remove"
          pc,       \* task -> program counter
          l1, l2,   \* the key's value in each layer (0 = not there); values are put ids
          res,      \* task -> result (get: value or 0; remove: 1 = found, 0 = not found; put: 0)
          found,    \* task -> remove's "found" flag so far
          absent,   \* task -> while the operation was in flight the key was, at some moment, in no layer
          done0     \* task -> for a get: the value of the latest put that had COMPLETED when the get started (0 = none)
vars == <<prog, pc, l1, l2, res, found, absent, done0>>

ValueOf(t) == 10 + t                    \* what task t's put writes
Nowhere == l1 = 0 /\ l2 = 0
InFlight(t) == pc[t] \notin {"start", "done"}

Init ==
  /\ prog \in [Tasks -> {"get", "put", "remove"}]
  /\ pc = [t \in Tasks |-> "start"]
  /\ \E k \in InitKinds : /\ l1 = (IF k = "l1" THEN 1 ELSE 0) /\ l2 = (IF k = "l2" THEN 1 ELSE 0)
  /\ res = [t \in Tasks |-> 0] /\ found = [t \in Tasks |-> FALSE]
  /\ absent = [t \in Tasks |-> FALSE] /\ done0 = [t \in Tasks |-> 0]

\* ghost bookkeeping: evaluated on the state AFTER the step, for every operation in flight (or just started)
Track(t) ==
  absent' = [u \in Tasks |-> absent[u] \/ ((pc'[u] \notin {"start", "done"} \/ u = t) /\ l1' = 0 /\ l2' = 0)]

Go(t, to) == pc' = [pc EXCEPT ![t] = to]

\* ---- put -----------------------------------------------------------------------
PutA(t) == /\ prog[t] = "put" /\ pc[t] = "start"
           /\ IF "put_invalidates_first" \in Variant THEN l2' = 0 /\ l1' = l1 ELSE l1' = ValueOf(t) /\ l2' = l2
           /\ Go(t, "put2") /\ UNCHANGED <<res, found, done0>>
PutB(t) == /\ pc[t] = "put2"
           /\ IF "put_invalidates_first" \in Variant THEN l1' = ValueOf(t) /\ l2' = l2 ELSE l2' = 0 /\ l1' = l1
           /\ Go(t, "done") /\ UNCHANGED <<res, found, done0>>

\* ---- get -----------------------------------------------------------------------
LastCompletedPut == IF \E u \in Tasks : prog[u] = "put" /\ pc[u] = "done" THEN 1 ELSE 0   \* a flag is enough here
GetA(t) == /\ prog[t] = "get" /\ pc[t] = "start"
           /\ done0' = [done0 EXCEPT ![t] = LastCompletedPut]
           /\ IF l1 # 0 THEN res' = [res EXCEPT ![t] = l1] /\ Go(t, "done") ELSE res' = res /\ Go(t, "get2")
           /\ UNCHANGED <<l1, l2, found>>
GetB(t) == /\ pc[t] = "get2"
           /\ IF l2 # 0 THEN res' = [res EXCEPT ![t] = l2] /\ Go(t, "done")
              ELSE /\ res' = res
                   /\ Go(t, IF "no_second_look" \in Variant THEN "done" ELSE "get3")
           /\ UNCHANGED <<l1, l2, found, done0>>
GetC(t) == /\ pc[t] = "get3"
           /\ res' = [res EXCEPT ![t] = l1] /\ Go(t, "done")
           /\ UNCHANGED <<l1, l2, found, done0>>

\* ---- remove --------------------------------------------------------------------
First(t)  == IF "remove_top_down" \in Variant THEN 1 ELSE 2
RemLayer(t, n) ==
  /\ found' = [found EXCEPT ![t] = @ \/ (IF n = 1 THEN l1 # 0 ELSE l2 # 0)]
  /\ IF n = 1 THEN l1' = 0 /\ l2' = l2 ELSE l2' = 0 /\ l1' = l1
RemA(t) == /\ prog[t] = "remove" /\ pc[t] = "start"
           /\ RemLayer(t, First(t)) /\ Go(t, "rem2") /\ UNCHANGED <<res, done0>>
RemB(t) == /\ pc[t] = "rem2"
           /\ RemLayer(t, 3 - First(t))
           /\ res' = [res EXCEPT ![t] = IF found'[t] THEN 1 ELSE 0]
           /\ Go(t, "done") /\ UNCHANGED done0

Step(t) == (PutA(t) \/ PutB(t) \/ GetA(t) \/ GetB(t) \/ GetC(t) \/ RemA(t) \/ RemB(t)) /\ UNCHANGED prog /\ Track(t)
Next == \E t \in Tasks : Step(t)
Spec == Init /\ [][Next]_vars

\* ---- properties ----------------------------------------------------------------
\* "nothing" / "was not there" only if the key really was nowhere at some moment of the operation
NoSpuriousMiss ==
  \A t \in Tasks : (pc[t] = "done" /\ prog[t] \in {"get", "remove"} /\ res[t] = 0) => absent[t]
\* a get that started after a put had completed never returns the initial value (1) - unless ... nothing: once a put
\* has completed the initial value is gone from the first layer for good and from the second as well
NoStaleRead ==
  \A t \in Tasks : (pc[t] = "done" /\ prog[t] = "get" /\ done0[t] = 1) => res[t] # 1
\* a put never hides the key: no step of a put takes a key that is somewhere to nowhere
PutKeepsKey == [][\A t \in Tasks : (pc[t] # pc'[t] /\ prog[t] = "put") => (Nowhere' => Nowhere)]_vars
\* at quiescence the key sits in at most one layer, and if no remove ran and some put did, it is there
Settled ==
  (\A t \in Tasks : pc[t] = "done") =>
     /\ ~(l1 # 0 /\ l2 # 0)
     /\ ((\E t \in Tasks : prog[t] = "put") /\ (\A t \in Tasks : prog[t] # "remove") => l1 # 0)
=============================================================================
