------------------------------ MODULE Streaming ------------------------------
(***************************************************************************)
(* X02: CDN streaming - range planning and failure recovery                 *)
(* (cascette-protocol, feature `streaming`: cdn/streaming/{range, optimizer,*)
(* recovery, pool}.rs).  Growth check beyond the twenty listed properties;  *)
(* related: C13 (Failover.tla), C14 (Retry.tla).                            *)
(*                                                                         *)
(* The properties, each with its quantifier, are stated in the headers of   *)
(*   RangePlan.tla  P1-P10  range coalescing / splitting / constructors     *)
(*   Recovery.tla   D1-D4   retry delays and retryable errors               *)
(*                  F1-F3   fail-over bookkeeping (the server breaker)      *)
(*                  R1-R7   the recovery loop                               *)
(*                  H1-H3   ordered fail-over of the reqwest client         *)
(* and here for part (c), the connection pool (pool.rs ConnectionPool,      *)
(* ConnectionGuard "RAII guard for connection permits", ConnectionPoolConfig*)
(* max_connections_per_host "maximum connections per individual host"):     *)
(*                                                                         *)
(*  L1 limit     at no time are more than max_connections_per_host guards   *)
(*               of one server alive; get_client fails rather than exceed;  *)
(*  L2 reuse     dropping a guard gives its permit back: get_client on a    *)
(*               registered, healthy server succeeds iff fewer than the     *)
(*               limit of its guards are alive;                             *)
(*  L3 books     active_request_count() and metrics().active_connections    *)
(*               equal the number of guards alive, per-server statistics    *)
(*               count exactly the recorded results, pool metrics count     *)
(*               every recorded success / failure / removal;                *)
(*  L4 breaker   a server's circuit opens when a failure is recorded, at    *)
(*               least 10 results are on record and fewer than half are     *)
(*               successes - and at no other record; a failed health check  *)
(*               opens it, a passed one closes it; while it is open         *)
(*               get_client fails (a recorded success does not close it);   *)
(*               after its time-out (60 s) the server is served again and   *)
(*               the next cleanup tick reports it Healthy;                  *)
(*  L5 lifecycle unknown and removed servers are refused; removing a server *)
(*               does not disturb guards that are alive; add_client on a    *)
(*               known server makes it healthy with fresh statistics and    *)
(*               does not forget guards that are alive; after shutdown      *)
(*               every server is unknown;                                   *)
(*  L6 no panic.                                                            *)
(* Quantifier: all histories of add / get / drop / record / remove / health *)
(* check / clock advance / shutdown over two or three servers, limits 1-3.  *)
(* Which error variant a refusal carries is left open.  The pool-wide       *)
(* max_total_connections is NOT claimed (StreamingConfig documents the      *)
(* missing total cap as a known limitation).                                *)
(*                                                                         *)
(* Known deviations of the code are accepted only when their finding id is  *)
(* in KnownDeviations; each has a precise guard below or in the libraries.  *)
(***************************************************************************)
EXTENDS RangePlan, Recovery, TLC

CONSTANT KnownDeviations
Dev(id) == id \in KnownDeviations

Verdict(ok, dev, st) == [ok |-> ok, dev |-> dev, st |-> st]

\* ===========================================================================
\* plan family
\* ===========================================================================
PlanSt0 == [proc |-> 0, coal |-> 0]
JudgePlan(cfg, st, e) ==
  CASE e.op = "coalesce" ->
         LET Rq    == e.reqs
             ideal == CoalesceOK(cfg, Rq, e.res)
             bugs  == IF ideal THEN {} ELSE AdvBugs(cfg, Rq, e.res)
             dAB   == bugs # {} /\ \A b \in bugs : Dev(IF b = "a" THEN "FX02a" ELSE "FX02b")
             dC    == ~ideal /\ Dev("FX02c") /\ OverflowAtTop(cfg, Rq, e.res)
             \* P10 (advanced): counters follow the calls; a panicking call has counted its input
             np    == st.proc + Len(Rq)
             nc    == st.coal + (IF e.res.kind = "Ok" THEN Len(Rq) - Len(e.res.plan) ELSE 0)
             stOK  == cfg.impl = "adv" => e.obs.stats[1] = np /\ (e.res.kind = "Ok" => e.obs.stats[2] = nc)
             \* P9 (basic, Ok, both non-empty)
             hasE  == "eff" \in DOMAIN e.obs
             effI  == hasE => EffInRange(e.obs.eff)
             effD  == hasE /\ ~EffInRange(e.obs.eff) /\ Dev("FX02d") /\ EffOutOfRange(Rq, e.res.plan, e.obs.eff)
             ok    == (ideal \/ dAB \/ dC) /\ stOK /\ (effI \/ effD)
             dev   == IF ~ok THEN "" ELSE IF dAB THEN (IF "a" \in bugs THEN "FX02a" ELSE "FX02b")
                      ELSE IF dC THEN "FX02c" ELSE IF effD THEN "FX02d" ELSE ""
         IN Verdict(ok, dev, IF cfg.impl = "adv" THEN [proc |-> e.obs.stats[1], coal |-> e.obs.stats[2]] ELSE st)
    [] e.op = "mk" -> Verdict(MkOK(cfg, e), "", st)
    [] e.op = "split" ->
         LET ideal == SplitOK(e)
             dC    == ~ideal /\ Dev("FX02c") /\ SplitOverflow(cfg, e)
         IN Verdict(ideal \/ dC, IF dC THEN "FX02c" ELSE "", st)
    [] OTHER -> Verdict(FALSE, "", st)

\* ===========================================================================
\* rm family (RetryManager)
\* ===========================================================================
JudgeRm(cfg, st, e) ==
  CASE e.op = "delay" ->
         LET fr    == CondRange(e.cond)
             ideal == e.res.kind = "Ok" /\ IF e.a = 0 THEN e.res.ms = 0 ELSE DelayOK(cfg, e.a, fr, e.res.ms, 1)
             dF    == ~ideal /\ Dev("FX02f") /\ e.res.kind = "Ok" /\ e.a >= 1 /\ DelayOverCap(cfg, e.a, fr, e.res.ms, 1)
             dG    == ~ideal /\ Dev("FX02g") /\ e.res.kind = "panic" /\ PowOverflow(e.a)
         IN Verdict(ideal \/ dF \/ dG, IF dF THEN "FX02f" ELSE IF dG THEN "FX02g" ELSE "", st)
    [] e.op = "retryable" -> Verdict(e.res.kind = "Ok" /\ e.res.b = Retryable(cfg, e.err), "", st)
    [] OTHER -> Verdict(FALSE, "", st)

\* ===========================================================================
\* fo family (FailoverManager): the state is the previous observation
\* ===========================================================================
JudgeFo(cfg, st, e) == Verdict(FoOK(st, e), "", e.obs)

\* ===========================================================================
\* rec family (ErrorRecoverySystem)
\* ===========================================================================
RecHosts(cfg) == {cfg.servers[i].h : i \in 1..Len(cfg.servers)}
RecSt0(cfg) == [poss |-> {RecX0(RecHosts(cfg))}, calls |-> <<>>]
JudgeRec(cfg, st, e) ==
  CASE e.op = "call" -> Verdict(TRUE, "", [st EXCEPT !.calls = Append(@, e)])      \* judged with the exec event
    [] e.op = "exec" ->
         LET calls == st.calls
             \* (redirect, strict cap): ideal first, then the listed deviations
             X(rd, sc) == RecExplained(cfg, st.poss, e, calls, rd, sc)
             ideal == X(TRUE, TRUE)
             dE    == IF ideal # {} \/ ~Dev("FX02e") THEN {} ELSE X(FALSE, TRUE)
             dF    == IF ideal # {} \/ ~Dev("FX02f") THEN {}
                      ELSE X(TRUE, FALSE) \cup (IF Dev("FX02e") THEN X(FALSE, FALSE) ELSE {})
             got   == IF ideal # {} THEN ideal ELSE IF dE # {} THEN dE ELSE dF
             \* R7 / FX02g: a panic is only explained by the power overflow of the delay of attempt >= 34
             panOK == e.res.kind = "panic" => Dev("FX02g") /\ PowOverflow(Len(calls))
             ok    == got # {} /\ panOK
             dev   == IF ~ok THEN "" ELSE IF e.res.kind = "panic" THEN "FX02g"
                      ELSE IF ideal # {} THEN "" ELSE IF dE # {} THEN "FX02e" ELSE "FX02f"
         IN Verdict(ok, dev, [poss |-> IF got # {} THEN got ELSE RecResync(RecHosts(cfg), e.obs), calls |-> <<>>])
    [] e.op = "cleanup" -> Verdict(e.res.kind = "Ok" /\ \E x \in st.poss : ObsMatches(x, e.obs), "", st)
    [] OTHER -> Verdict(FALSE, "", st)

\* ===========================================================================
\* pool family: functional core PoolR(s, cfg, e) -> [st, ok] and its reading of the observation
\* ===========================================================================
\* s = [reg   |-> [h |-> "-" | "H" | "O" | "R"],      unknown / healthy / circuit open / removed
\*      cnt   |-> [h |-> <<requests, successes, failures>>],
\*      live  |-> set of <<guard id, host>>,  nextg |-> guards handed out so far,
\*      open  |-> [h |-> <<real ms waited since it opened, window ms>>],
\*      m     |-> <<successes, failures, breakers activated, breakers recovered, servers removed>>,
\*      closed |-> BOOLEAN, taint |-> set of hosts re-added while guards were alive (FX02h)]
PoolHosts(cfg) == {cfg.hosts[i] : i \in 1..Len(cfg.hosts)}
PoolSt0(cfg) == [reg |-> [h \in PoolHosts(cfg) |-> "-"], cnt |-> [h \in PoolHosts(cfg) |-> <<0, 0, 0>>],
                 live |-> {}, nextg |-> 0, open |-> [h \in PoolHosts(cfg) |-> <<0, 0>>],
                 m |-> <<0, 0, 0, 0, 0>>, closed |-> FALSE, taint |-> {}]
LiveOn(s, h) == Cardinality({g \in s.live : g[2] = h})
BreakerWindow == 60000
CheckWindow == 300000
WinOver(s, h)      == s.reg[h] = "O" /\ s.open[h][1] >= s.open[h][2] + 2000     \* certainly over
WinMaybeOver(s, h) == s.reg[h] = "O" /\ s.open[h][1] >= s.open[h][2] - 2000
Counted(c, ok) == <<c[1] + 1, c[2] + (IF ok THEN 1 ELSE 0), c[3] + (IF ok THEN 0 ELSE 1)>>
TripsAt(c, ok) == ~ok /\ c[1] >= 10 /\ 2 * c[2] < c[1]                           \* L4, on the counts after the record

\* may get_client(h) succeed / fail in s ?
GetMayOk(s, cfg, h)  == /\ ~s.closed /\ h \in DOMAIN s.reg
                        /\ s.reg[h] = "H" \/ WinMaybeOver(s, h)
                        /\ LiveOn(s, h) < cfg.per_host
GetMayErr(s, cfg, h) == ~(/\ ~s.closed /\ h \in DOMAIN s.reg
                          /\ s.reg[h] = "H" \/ WinOver(s, h)
                          /\ LiveOn(s, h) < cfg.per_host)

PoolNext(s, cfg, e) ==
  CASE e.op = "add" -> [s EXCEPT !.reg[e.h] = "H", !.cnt[e.h] = <<0, 0, 0>>, !.open[e.h] = <<0, 0>>]
    [] e.op = "get" -> IF e.res.kind = "Ok" THEN [s EXCEPT !.live = @ \cup {<<s.nextg + 1, e.h>>}, !.nextg = @ + 1] ELSE s
    [] e.op = "drop" -> [s EXCEPT !.live = {g \in @ : g[1] # e.g}]
    [] e.op = "record" ->
         LET known == s.reg[e.h] # "-"
             c == Counted(s.cnt[e.h], e.ok)
             trip == known /\ TripsAt(c, e.ok)
         IN [s EXCEPT !.cnt[e.h] = IF known THEN c ELSE @,
                      !.reg[e.h] = IF trip THEN "O" ELSE @,
                      !.open[e.h] = IF trip THEN <<0, BreakerWindow>> ELSE @,
                      !.m = <<@[1] + (IF e.ok THEN 1 ELSE 0), @[2] + (IF e.ok THEN 0 ELSE 1), @[3] + (IF trip THEN 1 ELSE 0), @[4], @[5]>>]
    [] e.op = "remove" ->      \* whether removing an unknown server is counted is left open (read from the observation)
         [s EXCEPT !.reg[e.h] = IF @ = "-" THEN "-" ELSE "R",
                   !.m[5] = IF s.reg[e.h] = "-" /\ e.obs.m[5] = @ THEN @ ELSE @ + 1]
    [] e.op = "check" ->
         LET failing == {e.fail[i] : i \in 1..Len(e.fail)}
             probed(h) == s.reg[h] \in {"H", "O"} IN
         [s EXCEPT !.cnt = [h \in DOMAIN @ |-> IF probed(h) THEN Counted(@[h], h \notin failing) ELSE @[h]],
                   !.reg = [h \in DOMAIN @ |-> IF probed(h) THEN (IF h \in failing THEN "O" ELSE "H") ELSE @[h]],
                   !.open = [h \in DOMAIN @ |-> IF probed(h) THEN (IF h \in failing THEN <<0, CheckWindow>> ELSE <<0, 0>>) ELSE @[h]]]
    [] e.op = "wait" -> [s EXCEPT !.open = [h \in DOMAIN @ |-> IF s.reg[h] = "O" THEN <<@[h][1] + e.ms, @[h][2]>> ELSE @[h]]]
    [] e.op = "advance" ->      \* a cleanup tick may have run: what it did to an expired breaker is read from the observation
         LET rec == {h \in DOMAIN s.reg : WinMaybeOver(s, h) /\ e.obs.srv[h][1] = "H"} IN
         [s EXCEPT !.reg = [h \in DOMAIN @ |-> IF h \in rec THEN "H" ELSE @[h]], !.m[4] = @ + Cardinality(rec)]
    [] e.op = "shutdown" -> [s EXCEPT !.reg = [h \in DOMAIN @ |-> "-"], !.cnt = [h \in DOMAIN @ |-> <<0, 0, 0>>], !.closed = TRUE]
    [] OTHER -> s

PoolObsOK(s, e, books) ==
  /\ \A h \in DOMAIN s.reg : e.obs.srv[h] = <<s.reg[h], s.cnt[h][1], s.cnt[h][2], s.cnt[h][3]>>
  /\ e.obs.m = s.m
  /\ e.obs.live = Cardinality(s.live)
  /\ books => e.obs.active = Cardinality(s.live) /\ e.obs.mactive = Cardinality(s.live)

JudgePool(cfg, st, e) ==
  LET resOK == CASE e.op = "get" ->
                      \/ e.res.kind = "Ok" /\ GetMayOk(st, cfg, e.h) /\ e.res.g = st.nextg + 1
                      \/ e.res.kind = "Err" /\ GetMayErr(st, cfg, e.h)
                 [] e.op = "advance" ->     \* L4: an expired breaker is reported Healthy by the tick after the window
                      e.res.kind = "Ok" /\ \A h \in DOMAIN st.reg : (WinOver(st, h) /\ e.ms >= 31000) => e.obs.srv[h][1] = "H"
                 [] OTHER -> e.res.kind = "Ok"
      \* FX02h: add_client on a server whose guards are alive installs a fresh semaphore and counter
      readd  == e.op = "add" /\ LiveOn(st, e.h) > 0
      taint  == IF readd THEN st.taint \cup {e.h} ELSE st.taint
      s1     == [PoolNext(st, cfg, e) EXCEPT !.taint = taint]
      booksI == ~s1.closed
      ideal  == resOK /\ PoolObsOK(s1, e, booksI)
      \* under the taint: the limit of a re-added server counts only guards handed out since, the books are off
      dH     == /\ ~ideal /\ Dev("FX02h") /\ taint # {}
                /\ resOK \/ (e.op = "get" /\ e.h \in taint /\ e.res.kind \in {"Ok", "Err"})
                /\ PoolObsOK(s1, e, FALSE)
  IN Verdict(ideal \/ dH, IF dH THEN "FX02h" ELSE "", s1)

\* ===========================================================================
\* cdn family (ReqwestHttpClient::get_cdn_content against loopback mocks)
\* ===========================================================================
JudgeCdn(cfg, st, e) ==
  IF e.op # "get" THEN Verdict(FALSE, "", st)
  ELSE LET ideal == CdnExplained(cfg, e, {""})
           dI    == IF ideal # {} \/ ~Dev("FX02i") THEN {} ELSE CdnExplained(cfg, e, {"FX02i"})
       IN Verdict(ideal # {} \/ dI # {}, IF ideal = {} /\ dI # {} THEN "FX02i" ELSE "", st)

\* ===========================================================================
\* one entry point for the monitor and the machines
\* ===========================================================================
St0(fam, cfg) == CASE fam = "plan" -> PlanSt0 [] fam = "rm" -> 0 [] fam = "fo" -> FoObs0(RecHosts(cfg))
                   [] fam = "rec" -> RecSt0(cfg) [] fam = "pool" -> PoolSt0(cfg) [] OTHER -> 0
Judge(fam, cfg, st, e) ==
  CASE fam = "plan" -> JudgePlan(cfg, st, e)
    [] fam = "rm"   -> JudgeRm(cfg, st, e)
    [] fam = "fo"   -> JudgeFo(cfg, st, e)
    [] fam = "rec"  -> JudgeRec(cfg, st, e)
    [] fam = "pool" -> JudgePool(cfg, st, e)
    [] fam = "cdn"  -> JudgeCdn(cfg, st, e)
    [] OTHER -> Verdict(FALSE, "", st)
\* a run may only end between calls of execute_with_recovery
OpenAtEnd(fam, st) == fam = "rec" /\ st.calls # <<>>
=============================================================================
