----------------------------- MODULE ArchClient -----------------------------
(***************************************************************************)
(* X10 (growth): the archive-client layer of cascette-protocol (feature     *)
(* `streaming`) - cdn/streaming/archive.rs (StreamingArchiveReader,         *)
(* BatchArchiveExtractor) and cdn/streaming/integration.rs                  *)
(* (CdnResolutionConfig, StreamingCdnResolver, BatchContentResolver,        *)
(* CancellationToken).  Related: C13 (Failover.tla), C14 (Retry.tla), C20   *)
(* (Paths.tla), X02 (RangePlan.tla - EXTENDed here for the interval         *)
(* arithmetic), X04 (TypedCache.tla: the cache-side CdnBackedCache is       *)
(* judged there).  crates/cascette-protocol/src/archive_client.rs, the file *)
(* this check was first aimed at, is not part of any crate (FX10a).         *)
(*                                                                         *)
(* THE WORLD of a run (cfg, written by the program generator and            *)
(* materialised by the driver; ArcBytes below is its executable meaning):   *)
(* key ids with a payload and an encoding (a one-chunk BLTE container or    *)
(* raw bytes; the real 16-byte key is the MD5 of the blob, as on a CDN),    *)
(* archives = byte strings in which blobs lie at the offsets an index       *)
(* names, the same key possibly in several archives at different offsets,   *)
(* entries of size 0, an entry that claims more bytes than the archive      *)
(* holds.  A scripted HttpClient answers every GET from the world according *)
(* to the operation's outcome script: ok | short | long | flip (last byte   *)
(* inverted) | junk | e503 | e404 | tmo.  Every GET is an observed event.   *)
(*                                                                         *)
(* PROPERTIES (each exactly as strict as worded; quantifier: every world of *)
(* the catalogue / every seeded random world x every operation of the       *)
(* alphabet x every outcome script up to the bounds of MC_ArchClient; for   *)
(* the resolver every history of operations on one object):                 *)
(*                                                                         *)
(*  E1 window      extract_range(url, off, size) and extract_by_key issue   *)
(*                 exactly one GET, for the URL given and for exactly       *)
(*                 bytes [off, off+size-1] (the index entry's window);      *)
(*                 extract_multiple / extract_all_indexed ("optimized range *)
(*                 requests") may fetch as they like inside the hull of the *)
(*                 requested entries of that URL and nothing else; a key    *)
(*                 that is not in the index costs no request.               *)
(*  E2 content     Ok(content) of a keyed extraction (by_key, multiple,     *)
(*                 all_indexed, the resolver's resolve_x) is exactly the     *)
(*                 blob the key names in the archive - its raw bytes, or    *)
(*                 its BLTE-decoded payload when decoding was asked for     *)
(*                 (is_blte / decompress / a key store and a BLTE body) -   *)
(*                 with size = len(content), archive_offset = the entry's   *)
(*                 offset, was_compressed/was_decompressed = "it was        *)
(*                 decoded"; StreamingArchiveConfig::verify_checksums       *)
(*                 ("whether to verify content checksums", default true)    *)
(*                 and expected_size ("for verification"): a body that is   *)
(*                 not that blob (cut, extended, corrupted) or contradicts  *)
(*                 expected_size is an ERROR, never content.  When every    *)
(*                 GET was answered honestly and the request is sound the   *)
(*                 result is Ok.  extract_range itself has no key: it       *)
(*                 returns what was delivered (decoded under a key store).  *)
(*  E3 errors      a failed GET fails the operation (or is retried): Ok is  *)
(*                 never built from an error; a key missing from the index  *)
(*                 is an error (by_key) / is left out of the map (multiple).*)
(*  E4 no panic    for every offset/size (0, overflow of u64) and every     *)
(*                 index a server can send (entries of size 0).             *)
(*  B1 batch       BatchArchiveExtractor: more jobs than readers is an      *)
(*                 error without traffic, otherwise the union of the jobs'  *)
(*                 maps; BatchContentResolver never panics (no resolvers).  *)
(*  R1 urls        the resolver asks for scheme://host/path/data/h0h1/h2h3/ *)
(*                 hash (lower case; + ".index" for the index), path without*)
(*                 trailing slash; a hash that is not 32 hex digits, a      *)
(*                 malformed or loopback host is refused without traffic;   *)
(*                 the SSRF guard refuses hosts that ARE private addresses  *)
(*                 and no URL because of text in its path or a public name. *)
(*  R2 index cache resolve_from_archive / preload_indices download the      *)
(*                 index of an archive at most once per named hash until    *)
(*                 the caches are cleared (clear_caches, update_config,     *)
(*                 update_cdn_host to another host, prepare_for_shutdown);  *)
(*                 a failed or unparsable download caches nothing;          *)
(*                 cache_stats().cached_indices_count = number cached.      *)
(*  R3 resolve     resolve_from_archive(h, k) = E1-E4 on archive h;         *)
(*                 resolve_content(k) / resolve_multiple ("look up content  *)
(*                 location in indices") answer from an archive whose       *)
(*                 cached index has k (any of them), decoded; a key in no   *)
(*                 cached index is an error / left out; archive_url names   *)
(*                 the archive used.                                        *)
(*  R4 preload     returns how many of the listed, not yet cached indices   *)
(*                 it loaded (a hash listed twice may be counted twice);    *)
(*                 failures are skipped; a cancelled token loads nothing;   *)
(*                 a live token changes nothing and does not hang.          *)
(*  R5 config      CdnResolutionConfig::new / with_cdn_host /               *)
(*                 update_cdn_host accept exactly well-formed non-loopback  *)
(*                 hosts, products and paths of the documented alphabets    *)
(*                 and lengths.                                             *)
(* Left open: error variants; the order of GETs of a multi-key operation;   *)
(* which of several archives serves a key; whether an index entry whose     *)
(* size disagrees with the (authentic) blob is served or refused; whether   *)
(* resolve_from_archive without key store decodes (it does not; the flag    *)
(* must say what happened); verify_checksums = false.                       *)
(*                                                                         *)
(* STRUCTURE.  OpOK(dv, ..) is the judge of one operation and the GETs it   *)
(* issued, relative to a set dv of deviation switches: dv = {} is the       *)
(* property above, a switch replaces the ideal clause by the code's         *)
(* behaviour UNDER THE CONDITION OF THAT FINDING ONLY.  Judge accepts an     *)
(* event if OpOK({}) holds, or OpOK(S) for some S of KnownDeviations (the   *)
(* smallest; its first id labels the event).  Sim(dv, ..) is the sequential *)
(* implementation with the same switches (Sim({}) = a correct one,          *)
(* Sim(AllIds) = the code as it is): MC_ArchClient checks Judge against     *)
(* both on every program it emits.                                          *)
(*   FX10b extract_range panics for size 0 / offset+size overflow; hence    *)
(*         every keyed operation on an index entry of size 0                *)
(*   FX10c verify_checksums / expected_size are never consulted, the body's *)
(*         length is not compared with the request: any delivered body is   *)
(*         served (was_compressed of by_key = "length differs")             *)
(*   FX10d get_archive_index hands "<hash>.index" to a URL builder that     *)
(*         demands 32 hex digits: no index can ever be loaded               *)
(*   FX10e resolve_content / resolve_multiple look in the placeholder       *)
(*         archive "default_archive": always InvalidHashFormat              *)
(*   FX10f validate_url searches the WHOLE url for "10.", "172.", ..: a     *)
(*         public host cdn10.x or an index of a hash ending in 10 is        *)
(*         refused as private network                                       *)
(*   FX10g BatchContentResolver without resolvers divides by zero           *)
(***************************************************************************)
EXTENDS RangePlan, TLC

CONSTANT KnownDeviations
AllIds == {"FX10b", "FX10c", "FX10d", "FX10e", "FX10f", "FX10g"}

Verdict(ok, dev, st) == [ok |-> ok, dev |-> dev, st |-> st]
R2(ok, st) == [ok |-> ok, st |-> st]

\* ===========================================================================
\* the world
\* ===========================================================================
Hdr == <<66, 76, 84, 69, 0, 0, 0, 0, 78>>          \* "BLTE", header size 0 (one chunk), mode 'N'
KeyDef(cfg, k) == cfg.keys[CHOOSE i \in 1..Len(cfg.keys) : cfg.keys[i].k = k]
Payload(cfg, k) == [i \in 1..KeyDef(cfg, k).plen |-> (16 * k + i - 1) % 256]
Blob(cfg, k) == LET d == KeyDef(cfg, k) IN
                IF d.enc = "blte" THEN Hdr \o Payload(cfg, k) ELSE IF d.enc = "raw" THEN Payload(cfg, k) ELSE <<>>
Fill(p) == 200 + (p % 50)
ArcBytes(cfg, a) ==
  LET A == cfg.arcs[a] IN
  [p1 \in 1..A.len |->
     LET p == p1 - 1
         S == {i \in 1..Len(A.ents) : A.ents[i].size > 0 /\ A.ents[i].off <= p /\ p < A.ents[i].off + Len(Blob(cfg, A.ents[i].src))}
     IN IF S = {} THEN Fill(p)
        ELSE LET i == CHOOSE j \in S : \A m \in S : j >= m IN Blob(cfg, A.ents[i].src)[p - A.ents[i].off + 1]]
NArcs(cfg) == Len(cfg.arcs)
NewOK(e) == /\ Len(e.arcs) = NArcs(e.cfg)
            /\ \A a \in 1..NArcs(e.cfg) : e.arcs[a] = ArcBytes(e.cfg, a) /\ e.nidx[a] = Len(e.cfg.arcs[a].ents)

EntIdx(cfg, a, k) == {i \in 1..Len(cfg.arcs[a].ents) : cfg.arcs[a].ents[i].k = k}
HasKey(cfg, a, k) == EntIdx(cfg, a, k) # {}
Ent(cfg, a, k) == cfg.arcs[a].ents[CHOOSE i \in EntIdx(cfg, a, k) : TRUE]       \* at most one entry per key and archive
Rng(en) == <<en.off, en.off + en.size - 1>>

\* the server
ErrOuts == {"e503", "e404", "tmo", "nf", "e416"}
Honest(bytes, r) == IF r[1] + 1 > Len(bytes) THEN <<>> ELSE SubSeq(bytes, r[1] + 1, RMin(r[2] + 1, Len(bytes)))
Deliver(o, h) == CASE o = "ok" -> h
                   [] o = "short" -> SubSeq(h, 1, Len(h) - 1)
                   [] o = "long" -> Append(h, 238)
                   [] o = "flip" -> IF h = <<>> THEN h ELSE [h EXCEPT ![Len(h)] = 255 - @]
                   [] o = "junk" -> [i \in 1..64 |-> 90]
                   [] OTHER -> <<>>
OutAt(outs, i) == IF i <= Len(outs) THEN outs[i] ELSE "ok"
EffOut(o, bytes, r) == IF o \in {"e503", "e404", "tmo"} THEN o
                       ELSE IF r # <<>> /\ r[1] >= Len(bytes) THEN "e416" ELSE o
IsBlte(d) == Len(d) >= 8 /\ SubSeq(d, 1, 4) = <<66, 76, 84, 69>>
Decodable(d) == Len(d) >= 10 /\ SubSeq(d, 1, 9) = Hdr
Decode(d) == SubSeq(d, 10, Len(d))

MkCall(i, url, r, o) == [op |-> "call", i |-> i, url |-> url, range |-> r, o |-> o]
ErrRes == [kind |-> "Err", err |-> "?"]
ErrK(k) == [kind |-> "Err", err |-> k]
PanicRes == [kind |-> "panic"]
RECURSIVE SortInts(_)
SortInts(S) == IF S = {} THEN <<>> ELSE LET m == MinS(S) IN <<m>> \o SortInts(S \ {m})
KeysOfMap(m) == [i \in 1..Len(m) |-> m[i].k]
EntryOf(m, k) == m[CHOOSE i \in 1..Len(m) : m[i].k = k]
IsErr(o) == o \in ErrOuts

\* ===========================================================================
\* E2: what a keyed extraction may make of the delivered body d for index entry en
\*     dec = decoding is applied, r = the observed result, wcm = how the code derives the flag
\* ===========================================================================
OkRec(r, C, off, wc) == r.kind = "Ok" /\ r.body = C /\ r.size = Len(C) /\ r.off = off /\ r.wc = wc
KeyedOK(cfg, dv, en, d, dec, r, wcm) ==
  LET genuine == d = Blob(cfg, en.src)
      sizeok  == Len(d) = en.size
      C       == IF dec THEN Decode(d) ELSE d
  IN IF dec /\ ~Decodable(d) THEN r.kind = "Err"
     ELSE IF "FX10c" \in dv THEN OkRec(r, C, en.off, IF wcm = "flag" THEN dec ELSE Len(C) # en.size)
     ELSE IF genuine /\ sizeok THEN OkRec(r, C, en.off, dec)
     ELSE IF genuine THEN OkRec(r, C, en.off, dec) \/ r.kind = "Err"
     ELSE r.kind = "Err"
KeyedSim(cfg, dv, en, d, dec, wcm) ==
  LET C == IF dec THEN Decode(d) ELSE d
      rec(wc) == [kind |-> "Ok", body |-> C, size |-> Len(C), off |-> en.off, wc |-> wc]
  IN IF dec /\ ~Decodable(d) THEN ErrRes
     ELSE IF "FX10c" \in dv THEN rec(IF wcm = "flag" THEN dec ELSE Len(C) # en.size)
     ELSE IF d = Blob(cfg, en.src) /\ Len(d) = en.size THEN rec(dec) ELSE ErrRes
ZeroOK(dv, en, r, cs) ==      \* E4 for an index entry of size 0
  IF "FX10b" \in dv THEN r.kind = "panic" /\ cs = <<>>
  ELSE cs = <<>> /\ r.kind \in {"Ok", "Err"} /\ (r.kind = "Ok" => r.body = <<>> /\ r.size = 0 /\ r.off = en.off)
ZeroSim(dv, en, wc) == IF "FX10b" \in dv THEN PanicRes ELSE [kind |-> "Ok", body |-> <<>>, size |-> 0, off |-> en.off, wc |-> wc]

\* ===========================================================================
\* rd: StreamingArchiveReader.  st = [bytes |-> <<archive bytes>>]
\* ===========================================================================
Overflows(e) == e.top /\ e.size > e.off + 1          \* offset = u64::MAX - off: the window ends behind u64::MAX
CodeOverflows(e) == e.top /\ e.size > e.off           \* FX10b: offset + size is computed before the - 1
XrOK(cfg, dv, st, e, cs) ==
  LET bytes == st.bytes[e.a]
      r == <<e.off, e.off + e.size - 1>>
  IN IF e.size = 0 \/ Overflows(e) THEN
        IF "FX10b" \in dv THEN e.res.kind = "panic" /\ cs = <<>>
        ELSE /\ cs = <<>> /\ e.res.kind \in {"Ok", "Err"}
             /\ e.res.kind = "Ok" => e.size = 0 /\ e.res.body = <<>>
     ELSE IF "FX10b" \in dv /\ CodeOverflows(e) THEN e.res.kind = "panic" /\ cs = <<>>
     ELSE /\ Len(cs) = 1 /\ cs[1].url = e.obs.url /\ (e.top \/ cs[1].range = r)
          /\ IF IsErr(cs[1].o) THEN e.res.kind = "Err"
             ELSE LET d == Deliver(cs[1].o, IF e.top THEN <<>> ELSE Honest(bytes, r)) IN
                  IF e.ks /\ IsBlte(d) THEN
                     \* what the BLTE decoder makes of a container that is cut inside its first ten bytes is not stated here
                     IF Decodable(d) THEN e.res.kind = "Ok" /\ e.res.body = Decode(d) ELSE e.res.kind \in {"Ok", "Err"}
                  ELSE e.res.kind = "Ok" /\ e.res.body = d
XkOK(cfg, dv, st, e, cs) ==
  IF ~HasKey(cfg, e.a, e.k) THEN e.res.kind = "Err" /\ cs = <<>>
  ELSE LET en == Ent(cfg, e.a, e.k) IN
       IF en.size = 0 THEN ZeroOK(dv, en, e.res, cs)
       ELSE /\ Len(cs) = 1 /\ cs[1].url = e.obs.url /\ cs[1].range = Rng(en)
            /\ IF IsErr(cs[1].o) THEN e.res.kind = "Err"
               ELSE LET d == Deliver(cs[1].o, Honest(st.bytes[e.a], Rng(en))) IN
                    KeyedOK(cfg, dv, en, d, e.ks /\ IsBlte(d), e.res, "size")

\* ---- extract_multiple / extract_all_indexed: reqs = <<[k, blte, exp]>>, ord = the GETs follow the request order
AllReqs(cfg, a) == [i \in 1..Len(cfg.arcs[a].ents) |-> [k |-> cfg.arcs[a].ents[i].k, blte |-> TRUE, exp |-> cfg.arcs[a].ents[i].size]]
ExpBad(cfg, en, q) == q.exp # -1 /\ q.exp # en.size /\ q.exp # KeyDef(cfg, en.src).plen
XmOK(cfg, dv, bytes, a, url, reqs, ord, cs, r) ==
  LET F  == SelectSeq(reqs, LAMBDA q : HasKey(cfg, a, q.k))
      EN(q) == Ent(cfg, a, q.k)
      P  == SelectSeq(F, LAMBDA q : EN(q).size > 0)
      FK == {F[i].k : i \in 1..Len(F)}
      n  == Len(cs)
      zero == \E i \in 1..Len(F) : EN(F[i]).size = 0
      BodyAt(i) == Deliver(cs[i].o, Honest(bytes, cs[i].range))
      shape == \A i \in 1..n : cs[i].url = url /\ Len(cs[i].range) = 2 /\ cs[i].range[1] <= cs[i].range[2]
      FlagsFor(k) == {F[i].blte : i \in {j \in 1..Len(F) : F[j].k = k}}
      LastFlag(k) == LET S == {j \in 1..Len(F) : F[j].k = k} IN F[CHOOSE j \in S : \A l \in S : j >= l].blte
  IN
  IF "FX10b" \in dv /\ zero THEN r.kind = "panic" /\ n = 0           \* the ranges are built before the first GET
  ELSE IF "FX10c" \in dv THEN
     \* as coded: one GET per found request, in order, nothing verified, the last request of a key decides the flag
     LET KeyOfRange(rg) == (CHOOSE q \in RSet(P) : Rng(EN(q)) = rg).k
         stepfail(i) == IsErr(cs[i].o) \/ (LastFlag(KeyOfRange(cs[i].range)) /\ ~Decodable(BodyAt(i)))
         prefix == /\ shape /\ n <= Len(P)
                   /\ \A i \in 1..n : \E q \in RSet(P) : Rng(EN(q)) = cs[i].range
                   /\ ord => \A i \in 1..n : cs[i].range = Rng(EN(P[i]))
                   /\ ~ord => \A i \in 1..n : Cardinality({j \in 1..n : cs[j].range = cs[i].range})
                                               <= Cardinality({j \in 1..Len(P) : Rng(EN(P[j])) = cs[i].range})
         done == n = Len(P) /\ \A i \in 1..n : ~stepfail(i)
     IN /\ prefix
        /\ \A i \in 1..(n - 1) : ~stepfail(i)
        /\ IF done THEN
              /\ r.kind = "Ok" /\ KeysOfMap(r.map) = SortInts(FK)
              /\ \A j \in 1..Len(r.map) :
                   LET x == r.map[j]
                       en == Ent(cfg, a, x.k)
                       f == LastFlag(x.k)
                   IN IF en.size = 0 THEN x.body = <<>> /\ x.size = 0 /\ x.off = en.off
                      ELSE LET S == {i \in 1..n : cs[i].range = Rng(en)}
                               i == CHOOSE i \in S : \A l \in S : i >= l
                           IN KeyedOK(cfg, dv, en, BodyAt(i), f, [kind |-> "Ok"] @@ x, "flag")
           ELSE n >= 1 /\ stepfail(n) /\ r.kind = "Err"
  ELSE
     \* the property: relational in the GETs
     LET lo == MinS({EN(P[i]).off : i \in 1..Len(P)})
         hi == MaxS({Rng(EN(P[i]))[2] : i \in 1..Len(P)})
         disc == /\ shape /\ (P = <<>> => n = 0)
                 /\ \A i \in 1..n : lo <= cs[i].range[1] /\ cs[i].range[2] <= hi
         \* a request that can be honoured; of several requests for one key any one may be (the map has one entry per key)
         Good(q) == ~ExpBad(cfg, EN(q), q) /\ (q.blte => EN(q).size = 0 \/ KeyDef(cfg, EN(q).src).enc = "blte")
         GoodFor(k) == {i \in 1..Len(F) : F[i].k = k /\ Good(F[i])}
         mustErr == \E k \in FK : GoodFor(k) = {}
         allGood == \A i \in 1..Len(F) : Good(F[i])
         lenient == \E i \in 1..Len(F) : F[i].blte /\ EN(F[i]).size = 0      \* "decode nothing": empty content or an error
         anyBad == \E i \in 1..n : cs[i].o # "ok"
         sound == \A i \in 1..Len(P) : LET en == EN(P[i]) IN Honest(bytes, Rng(en)) = Blob(cfg, en.src) /\ Len(Blob(cfg, en.src)) = en.size
         fetched == Bytes({cs[i].range : i \in {j \in 1..n : cs[j].o = "ok"}})
         okMap == /\ KeysOfMap(r.map) = SortInts(FK)
                  /\ \A j \in 1..Len(r.map) :
                       LET x == r.map[j]
                           en == Ent(cfg, a, x.k)
                       IN IF en.size = 0 THEN x.body = <<>> /\ x.size = 0 /\ x.off = en.off
                          ELSE /\ \E i \in GoodFor(x.k) :
                                    LET f == F[i].blte
                                        C == IF f THEN Payload(cfg, en.src) ELSE Blob(cfg, en.src) IN
                                    x.body = C /\ x.size = Len(C) /\ x.off = en.off /\ x.wc = f
                               /\ (Rng(en)[1]..RMin(Rng(en)[2], Len(bytes) - 1)) \subseteq fetched
     IN /\ r.kind \in {"Ok", "Err"} /\ disc
        /\ r.kind = "Ok" => okMap /\ ~mustErr
        /\ (~anyBad /\ sound /\ allGood /\ ~lenient) => r.kind = "Ok"

JudgeRdOp(cfg, dv, st, e, cs) ==
  CASE e.op = "xr" -> XrOK(cfg, dv, st, e, cs)
    [] e.op = "xk" -> XkOK(cfg, dv, st, e, cs)
    [] e.op = "xm" -> XmOK(cfg, dv, st.bytes[e.a], e.a, e.obs.url, e.reqs, TRUE, cs, e.res)
    [] e.op = "xa" -> XmOK(cfg, dv, st.bytes[e.a], e.a, e.obs.url, AllReqs(cfg, e.a), FALSE, cs, e.res)
    [] e.op \in {"sz", "sr"} ->
         /\ Len(cs) = 1 /\ cs[1].url = e.obs.url
         /\ IF cs[1].o = "head-ok" THEN e.res.kind = "Ok" /\ (IF e.op = "sz" THEN e.res.n = Len(st.bytes[e.a]) ELSE e.res.b = TRUE)
            ELSE IF cs[1].o = "head-no" /\ e.op = "sr" THEN e.res.kind = "Ok" /\ e.res.b = FALSE
            ELSE e.res.kind = "Err"
    [] e.op = "bx" ->        \* B1; the jobs name different archives and different keys
         LET J == e.jobs
             CsOf(j) == SelectSeq(cs, LAMBDA c : c.url = e.obs.urls[j])
             FKof(j) == {J[j].reqs[i].k : i \in {l \in 1..Len(J[j].reqs) : HasKey(cfg, J[j].a, J[j].reqs[l].k)}}
             MapOf(j) == SelectSeq(e.res.map, LAMBDA x : x.k \in FKof(j))
             JobOK(j, r) == XmOK(cfg, dv, st.bytes[J[j].a], J[j].a, e.obs.urls[j], J[j].reqs, TRUE, CsOf(j), r)
         IN IF Len(J) > e.readers THEN e.res.kind = "Err" /\ cs = <<>>
            ELSE /\ \A i \in 1..Len(cs) : \E j \in 1..Len(J) : cs[i].url = e.obs.urls[j]
                 /\ CASE e.res.kind = "Ok" -> /\ \A j \in 1..Len(J) : JobOK(j, [kind |-> "Ok", map |-> MapOf(j)])
                                              /\ \A i \in 1..Len(e.res.map) : \E j \in 1..Len(J) : e.res.map[i].k \in FKof(j)
                      [] e.res.kind = "Err" -> \E j \in 1..Len(J) : JobOK(j, ErrRes)
                      [] OTHER -> \E j \in 1..Len(J) : JobOK(j, e.res)
    [] OTHER -> FALSE

\* ===========================================================================
\* rs: StreamingCdnResolver.
\* st = [bytes, cached |-> set of <<archive, hash variant>>, host, hc, pathn, product, https]
\* host classes (part of the world description): pub | pub10 (a public name with "10." in it) | priv (a literal
\* private address) | local (localhost / 127.x) | bad (malformed, empty)
\* ===========================================================================
RsSt0(cfg, bytes) == [bytes |-> bytes, cached |-> {}, host |-> cfg.host, hc |-> cfg.hc, path |-> cfg.path, pathn |-> cfg.pathn,
                      product |-> cfg.product, https |-> cfg.https]
RsUrl(st, A, hv, idx) == (IF st.https THEN "https" ELSE "http") \o "://" \o st.host \o "/" \o st.pathn \o "/data/"
                         \o A.d1 \o "/" \o A.d2 \o "/" \o A.hl[hv] \o (IF idx THEN ".index" ELSE "")
ValidHv(hv) == hv \in {"n", "t", "u"}
HostOK(hc) == hc \in {"pub", "pub10", "priv"}
GuardHit(dv, hc, hv, idx) == "FX10f" \in dv /\ (hc = "pub10" \/ (idx /\ hv = "t"))     \* FX10f: text that is not the host
UrlRefused(dv, hc, hv, idx) == hc = "priv" \/ GuardHit(dv, hc, hv, idx)
\* a refusal without traffic; when it is one of the code's (a deviation switch decided it) the error is the code's
Refusal(r, cs, kind) == r.kind = "Err" /\ cs = <<>> /\ (kind # "" => r.err = kind)
RefKind(dv, hc, hv, idx) == IF hc # "priv" /\ GuardHit(dv, hc, hv, idx) THEN "Configuration" ELSE ""
ObsOK(st, e) == /\ e.obs.n = Cardinality(st.cached) /\ e.obs.host = st.host /\ e.obs.path = st.path
                /\ e.obs.product = st.product /\ e.obs.https = st.https

\* one keyed extraction through the resolver from archive a named by hash variant hv (dec/wcm as above)
RsExtractOK(cfg, dv, st, a, hv, k, decOf(_), wcm, r, cs) ==
  LET A == cfg.arcs[a] IN
  IF ~HasKey(cfg, a, k) THEN cs = <<>> /\ r.kind = "Err"
  ELSE LET en == Ent(cfg, a, k) IN
       IF en.size = 0 THEN ZeroOK(dv, en, r, cs)
       ELSE /\ Len(cs) = 1 /\ cs[1].url = RsUrl(st, A, hv, FALSE) /\ cs[1].range = Rng(en)
            /\ IF IsErr(cs[1].o) THEN r.kind = "Err"
               ELSE LET d == Deliver(cs[1].o, Honest(st.bytes[a], Rng(en))) IN
                    /\ KeyedOK(cfg, dv, en, d, decOf(d), r, wcm)
                    /\ r.kind = "Ok" => r.url = RsUrl(st, A, hv, FALSE)

RfaOK(cfg, dv, st, e, cs) ==
  LET A == cfg.arcs[e.a]
      key == <<e.a, e.hv>>
      refuse(kind) == R2(Refusal(e.res, cs, kind), st)
      Extract(cc, s1) == R2(RsExtractOK(cfg, dv, s1, e.a, e.hv, e.k, LAMBDA d : e.ks /\ IsBlte(d), "size", e.res, cc), s1)
  IN IF ~ValidHv(e.hv) \/ ~HostOK(st.hc) THEN refuse("")
     ELSE IF UrlRefused(dv, st.hc, e.hv, FALSE) THEN refuse(RefKind(dv, st.hc, e.hv, FALSE))
     ELSE IF key \in st.cached THEN Extract(cs, st)
     ELSE IF "FX10d" \in dv THEN refuse("InvalidRange")
     ELSE IF UrlRefused(dv, st.hc, e.hv, TRUE) THEN refuse(RefKind(dv, st.hc, e.hv, TRUE))
     ELSE IF cs = <<>> THEN R2(FALSE, st)
     ELSE LET c == cs[1]
              good == c.url = RsUrl(st, A, e.hv, TRUE) /\ c.range = <<>>
          IN IF c.o # "ok" THEN R2(good /\ Len(cs) = 1 /\ e.res.kind = "Err", st)
             ELSE LET x == Extract(Tail(cs), [st EXCEPT !.cached = @ \cup {key}]) IN R2(good /\ x.ok, x.st)

Cands(cfg, st, k) == {c \in st.cached : HasKey(cfg, c[1], k)}
RcOK(cfg, dv, st, e, cs) ==
  IF "FX10e" \in dv THEN R2(Refusal(e.res, cs, "InvalidHashFormat"), st)
  ELSE IF ~HostOK(st.hc) \/ UrlRefused(dv, st.hc, "n", FALSE) \/ Cands(cfg, st, e.k) = {} THEN R2(Refusal(e.res, cs, ""), st)
  ELSE R2(\E c \in Cands(cfg, st, e.k) : RsExtractOK(cfg, dv, st, c[1], c[2], e.k, LAMBDA d : TRUE, "flag", e.res, cs), st)
RmOK(cfg, dv, st, e, cs) ==
  LET Q == e.reqs
      K == {Q[i].k : i \in 1..Len(Q)}
      FK == {k \in K : Cands(cfg, st, k) # {}}
      callFor(c, k) == {i \in 1..Len(cs) : cs[i].url = RsUrl(st, cfg.arcs[c[1]], c[2], FALSE) /\ cs[i].range = Rng(Ent(cfg, c[1], k))}
      \* requests that can be honoured from candidate c (of several requests for one key any one may be)
      Good(q, c) == LET en == Ent(cfg, c[1], q.k) IN ~ExpBad(cfg, en, q) /\ (q.blte => en.size = 0 \/ KeyDef(cfg, en.src).enc = "blte")
      GoodFor(k, c) == {i \in 1..Len(Q) : Q[i].k = k /\ Good(Q[i], c)}
      allGood == \A i \in 1..Len(Q) : Q[i].k \in FK => \A c \in Cands(cfg, st, Q[i].k) : Good(Q[i], c)
      lenient == \E i \in 1..Len(Q) : Q[i].k \in FK /\ Q[i].blte /\ \E c \in Cands(cfg, st, Q[i].k) : Ent(cfg, c[1], Q[i].k).size = 0
      sound == \A k \in FK : \A c \in Cands(cfg, st, k) :
                 LET en == Ent(cfg, c[1], k) IN en.size = 0 \/ (Honest(st.bytes[c[1]], Rng(en)) = Blob(cfg, en.src) /\ Len(Blob(cfg, en.src)) = en.size)
  IN IF Q = <<>> THEN R2(e.res.kind = "Ok" /\ e.res.map = <<>> /\ cs = <<>>, st)
     ELSE IF "FX10e" \in dv THEN R2(Refusal(e.res, cs, "InvalidHashFormat"), st)
     ELSE IF FK = {} THEN R2(e.res.kind = "Ok" /\ e.res.map = <<>> /\ cs = <<>>, st)        \* no loaded index has any of the keys
     ELSE IF ~HostOK(st.hc) \/ UrlRefused(dv, st.hc, "n", FALSE) THEN R2(Refusal(e.res, cs, ""), st)
     ELSE R2(/\ e.res.kind \in {"Ok", "Err"} \/ ("FX10b" \in dv /\ e.res.kind = "panic")
             /\ \A i \in 1..Len(cs) : \E k \in FK : \E c \in Cands(cfg, st, k) : i \in callFor(c, k)
             /\ ((\A i \in 1..Len(cs) : cs[i].o = "ok") /\ sound /\ allGood /\ ~lenient) => e.res.kind = "Ok"
             /\ e.res.kind = "panic" => \E k \in FK : \E c \in Cands(cfg, st, k) : Ent(cfg, c[1], k).size = 0
             /\ e.res.kind = "Ok" =>
                  /\ KeysOfMap(e.res.map) = SortInts(FK)
                  /\ \A j \in 1..Len(e.res.map) :
                       LET x == e.res.map[j] IN
                       \E c \in Cands(cfg, st, x.k) :
                          LET en == Ent(cfg, c[1], x.k) IN
                          IF en.size = 0 THEN ZeroOK(dv \ {"FX10b"}, en, [kind |-> "Ok"] @@ x, <<>>)
                          ELSE \E i \in callFor(c, x.k) : \E q \in (IF "FX10c" \in dv THEN {j2 \in 1..Len(Q) : Q[j2].k = x.k} ELSE GoodFor(x.k, c)) :
                                 RsExtractOK(cfg, dv, st, c[1], c[2], x.k, LAMBDA d : Q[q].blte, "flag", [kind |-> "Ok"] @@ x, <<cs[i]>>),
             st)
PlOK(cfg, dv, st, e, cs) ==
  LET L == e.as
      key(i) == <<L[i].a, L[i].hv>>
      fresh == {i \in 1..Len(L) : ValidHv(L[i].hv) /\ key(i) \notin st.cached}
      can(i) == i \in fresh /\ "FX10d" \notin dv /\ ~UrlRefused(dv, st.hc, L[i].hv, TRUE)
      iurl(i) == RsUrl(st, cfg.arcs[L[i].a], L[i].hv, TRUE)
      loaded == {key(i) : i \in {j \in fresh : can(j) /\ \E c \in RSet(cs) : c.url = iurl(j) /\ c.o = "ok"}}
      s1 == [st EXCEPT !.cached = @ \cup loaded]
  IN IF e.tok = "cancelled" THEN R2(e.res.kind = "Ok" /\ e.res.n = 0 /\ cs = <<>>, st)
     ELSE R2(/\ e.res.kind = "Ok"
             /\ \A c \in RSet(cs) : c.range = <<>> /\ \E i \in fresh : can(i) /\ c.url = iurl(i)
             /\ \A i \in fresh : can(i) => \E c \in RSet(cs) : c.url = iurl(i)
             /\ Cardinality(loaded) <= e.res.n
             /\ e.res.n <= Cardinality({i \in fresh : key(i) \in loaded}),
             s1)

JudgeRsOp(cfg, dv, st, e, cs) ==
  LET x == CASE e.op = "rfa" -> RfaOK(cfg, dv, st, e, cs)
             [] e.op = "rc"  -> RcOK(cfg, dv, st, e, cs)
             [] e.op = "rm"  -> RmOK(cfg, dv, st, e, cs)
             [] e.op = "pl"  -> PlOK(cfg, dv, st, e, cs)
             [] e.op \in {"cc", "sd"} -> R2(e.res.kind = "Ok" /\ cs = <<>>, [st EXCEPT !.cached = {}])
             [] e.op = "uh"  ->
                  IF e.hc \in {"bad", "local"} THEN R2(e.res.kind = "Err" /\ cs = <<>>, st)
                  ELSE R2(e.res.kind = "Ok" /\ cs = <<>>,
                          IF e.host = st.host THEN st ELSE [st EXCEPT !.host = e.host, !.hc = e.hc, !.cached = {}])
             [] e.op = "uc"  -> R2(e.res.kind = "Ok" /\ cs = <<>>,
                                   [st EXCEPT !.host = e.host, !.hc = e.hc, !.path = e.path, !.pathn = e.pathn,
                                              !.product = e.product, !.https = e.https, !.cached = {}])
             [] OTHER -> R2(FALSE, st)
  IN R2(x.ok /\ ObsOK(x.st, e), x.st)

\* ===========================================================================
\* bt: BatchContentResolver (fresh resolvers: nothing cached)      cf: configuration decisions
\* ===========================================================================
JudgeBtOp(cfg, dv, st, e, cs) ==
  IF e.op # "br" THEN FALSE
  ELSE IF e.n = 0 /\ e.reqs # <<>> THEN
         IF "FX10g" \in dv THEN e.res.kind = "panic" /\ cs = <<>>
         ELSE cs = <<>> /\ e.res.kind \in {"Ok", "Err"} /\ (e.res.kind = "Ok" => e.res.map = <<>>)
  ELSE IF e.reqs = <<>> THEN e.res.kind = "Ok" /\ e.res.map = <<>> /\ e.res.count = e.n /\ cs = <<>>
  ELSE IF "FX10e" \in dv THEN Refusal(e.res, cs, "InvalidHashFormat")
  ELSE e.res.kind = "Ok" /\ e.res.map = <<>> /\ e.res.count = e.n /\ cs = <<>>
ClassOK(c) == c = "ok"
JudgeCfOp(e) ==
  CASE e.op = "cfg_new" ->
         IF e.hc \in {"pub", "pub10"} /\ ClassOK(e.pc) /\ ClassOK(e.tc) THEN e.res.kind = "Ok" /\ e.res.valid = TRUE
         ELSE IF e.hc = "priv" /\ ClassOK(e.pc) /\ ClassOK(e.tc) THEN e.res.kind \in {"Ok", "Err"}
         ELSE e.res.kind = "Err"
    [] e.op = "whost" ->
         IF e.hc \in {"pub", "pub10"} THEN e.res.kind = "Ok" /\ e.res.host = e.host
         ELSE IF e.hc = "priv" THEN e.res.kind \in {"Ok", "Err"} ELSE e.res.kind = "Err"
    [] OTHER -> FALSE

\* ===========================================================================
\* cm: cascette_cache::cdn::CdnClient (cache side; its HTTP layer is the crate's private mock, its read-through
\* wrappers CdnBackedCache are judged by X04).  M1 books: over any history of fetch_content / fetch_encoding /
\* fetch_config / fetch_archive_range, successful + failed = total requests, every call that is not refused for
\* its argument counts once, an Ok result adds its length to bytes_downloaded, an Err adds nothing to successes
\* or bytes; a range fetch returns exactly `length` bytes; without any CDN url every fetch is an error; a config
\* hash too short for the two directory levels is refused (no panic).  x = <<total, succ, failed, bytes>>
\* ===========================================================================
CmSt0 == <<0, 0, 0, 0>>
JudgeCmOp(cfg, x, e) ==
  LET refused == e.op = "fg" /\ e.hcl = "short"
      x1 == IF refused THEN x
            ELSE IF e.res.kind = "Ok" THEN <<x[1] + 1, x[2] + 1, x[3], x[4] + e.res.len>>
            ELSE <<x[1] + 1, x[2], x[3] + 1, x[4]>>
      resOK == IF refused \/ cfg.urls = 0 THEN e.res.kind = "Err"
               ELSE e.res.kind = "Ok" /\ (e.op = "fr" => e.res.len = e.len)
  IN R2(resOK /\ e.obs.t = x1[1] /\ e.obs.s = x1[2] /\ e.obs.f = x1[3] /\ e.obs.b = x1[4] /\ e.obs.s + e.obs.f = e.obs.t, x1)

\* ===========================================================================
\* the judge: one entry point for the monitor and the machines
\* state of a run: [x |-> family state, calls |-> GETs seen since the last operation]
\* ===========================================================================
St0(fam, e) == CASE fam \in {"rd", "bt"} -> [x |-> [bytes |-> e.arcs], calls |-> <<>>]
                 [] fam = "rs" -> [x |-> RsSt0(e.cfg, e.arcs), calls |-> <<>>]
                 [] fam = "cm" -> [x |-> CmSt0, calls |-> <<>>]
                 [] OTHER -> [x |-> 0, calls |-> <<>>]
Relevant(fam) == CASE fam = "rd" -> {"FX10b", "FX10c"}
                   [] fam = "rs" -> {"FX10b", "FX10c", "FX10d", "FX10e", "FX10f"}
                   [] fam = "bt" -> {"FX10e", "FX10g"}
                   [] OTHER -> {}
\* [ok, st] of one operation under the switches dv
OpOK(fam, cfg, dv, x, e, cs) ==
  CASE fam = "rd" -> R2(JudgeRdOp(cfg, dv, x, e, cs), x)
    [] fam = "rs" -> JudgeRsOp(cfg, dv, x, e, cs)
    [] fam = "bt" -> R2(JudgeBtOp(cfg, dv, x, e, cs), x)
    [] fam = "cf" -> R2(JudgeCfOp(e), x)
    [] fam = "cm" -> JudgeCmOp(cfg, x, e)
    [] OTHER -> R2(FALSE, x)
IdOrder == <<"FX10b", "FX10c", "FX10d", "FX10e", "FX10f", "FX10g">>
FirstId(m) == IdOrder[CHOOSE i \in 1..Len(IdOrder) : IdOrder[i] \in m /\ \A j \in 1..(i - 1) : IdOrder[j] \notin m]
JudgeK(kd, fam, cfg, st, e) ==
  IF e.op = "call" THEN Verdict(TRUE, "", [st EXCEPT !.calls = Append(@, e)])
  ELSE LET cs == st.calls
           i0 == OpOK(fam, cfg, {}, st.x, e, cs)
       IN IF i0.ok THEN Verdict(TRUE, "", [x |-> i0.st, calls |-> <<>>])
          ELSE LET cands == {S \in SUBSET (kd \cap Relevant(fam)) : S # {} /\ OpOK(fam, cfg, S, st.x, e, cs).ok} IN
               IF cands = {} THEN Verdict(FALSE, "", [x |-> i0.st, calls |-> <<>>])
               ELSE LET m == CHOOSE S \in cands : \A T \in cands : Cardinality(S) <= Cardinality(T)
                    IN Verdict(TRUE, FirstId(m), [x |-> OpOK(fam, cfg, m, st.x, e, cs).st, calls |-> <<>>])
Judge(fam, cfg, st, e) == JudgeK(KnownDeviations, fam, cfg, st, e)
OpenAtEnd(st) == st.calls # <<>>

\* ===========================================================================
\* the sequential implementation with the same switches: Sim(dv, ..) -> [evs, st]
\* (dv = {}: a correct implementation; dv = AllIds: the code as it is)
\* ===========================================================================
OpDone(op, res, extra) == [res |-> res] @@ extra @@ op
RdUrl(cfg, a) == "http://" \o cfg.host \o "/" \o cfg.path \o "/data/" \o cfg.arcs[a].d1 \o "/" \o cfg.arcs[a].d2 \o "/" \o cfg.arcs[a].hl["n"]
OkBody(b) == [kind |-> "Ok", body |-> b]
SimXr(cfg, dv, x, op) ==
  LET bytes == x.bytes[op.a]
      url == RdUrl(cfg, op.a)
      r == <<op.off, op.off + op.size - 1>>
      fin(res) == OpDone(op, res, [obs |-> [url |-> url]])
  IN IF op.size = 0 \/ Overflows(op) THEN
        <<fin(IF "FX10b" \in dv THEN PanicRes ELSE IF op.size = 0 THEN OkBody(<<>>) ELSE ErrRes)>>
     ELSE IF "FX10b" \in dv /\ CodeOverflows(op) THEN <<fin(PanicRes)>>
     ELSE LET o == IF op.top /\ OutAt(op.outs, 1) \notin {"e503", "e404", "tmo"} THEN "e416" ELSE EffOut(OutAt(op.outs, 1), bytes, r)
              d == Deliver(o, Honest(bytes, r))
              res == IF IsErr(o) THEN ErrRes
                     ELSE IF op.ks /\ IsBlte(d) THEN (IF Decodable(d) THEN OkBody(Decode(d)) ELSE ErrRes) ELSE OkBody(d)
          IN <<MkCall(1, url, IF op.top THEN <<1073741824, 1073741824>> ELSE r, o), fin(res)>>
SimXk(cfg, dv, x, op) ==
  LET url == RdUrl(cfg, op.a)
      fin(res) == OpDone(op, res, [obs |-> [url |-> url]])
  IN IF ~HasKey(cfg, op.a, op.k) THEN <<fin(ErrRes)>>
     ELSE LET en == Ent(cfg, op.a, op.k) IN
          IF en.size = 0 THEN <<fin(ZeroSim(dv, en, FALSE))>>
          ELSE LET o == EffOut(OutAt(op.outs, 1), x.bytes[op.a], Rng(en))
                   d == Deliver(o, Honest(x.bytes[op.a], Rng(en)))
               IN <<MkCall(1, url, Rng(en), o),
                    fin(IF IsErr(o) THEN ErrRes ELSE KeyedSim(cfg, dv, en, d, op.ks /\ IsBlte(d), "size"))>>
\* extract_multiple: [calls, res]; i0 = number of the first GET
RECURSIVE XmLoop(_, _, _, _, _, _, _, _, _, _)
XmLoop(cfg, dv, bytes, a, url, P, flagOf, outs, i, acc) ==      \* acc = [calls, recs: function key -> record]
  IF i > Len(P) THEN [calls |-> acc.calls, res |-> "ok", recs |-> acc.recs]
  ELSE LET en == Ent(cfg, a, P[i].k)
           o == EffOut(OutAt(outs, acc.i0 + i - 1), bytes, Rng(en))
           d == Deliver(o, Honest(bytes, Rng(en)))
           c == MkCall(acc.i0 + i - 1, url, Rng(en), o)
           r == IF IsErr(o) THEN ErrRes ELSE KeyedSim(cfg, dv, en, d, flagOf[P[i].k], "flag")
       IN IF r.kind = "Err" THEN [calls |-> Append(acc.calls, c), res |-> "err", recs |-> acc.recs]
          ELSE XmLoop(cfg, dv, bytes, a, url, P, flagOf, outs, i + 1,
                      [acc EXCEPT !.calls = Append(@, c), !.recs = (P[i].k :> r) @@ @])
MapOfRecs(recs, extra(_)) == LET ks == SortInts(DOMAIN recs) IN
  [j \in 1..Len(ks) |-> LET r == recs[ks[j]] IN [k |-> ks[j], body |-> r.body, size |-> r.size, off |-> r.off, wc |-> r.wc] @@ extra(ks[j])]
NoExtra(k) == <<>>
SimXmCore(cfg, dv, bytes, a, url, reqs, outs, i0) ==
  LET F  == SelectSeq(reqs, LAMBDA q : HasKey(cfg, a, q.k))
      EN(q) == Ent(cfg, a, q.k)
      P  == SelectSeq(F, LAMBDA q : EN(q).size > 0)
      Z  == {F[i].k : i \in {j \in 1..Len(F) : EN(F[j]).size = 0}}
      FK == {F[i].k : i \in 1..Len(F)}
      flagOf == [k \in FK |-> LET S == {j \in 1..Len(F) : F[j].k = k} IN F[CHOOSE j \in S : \A l \in S : j >= l].blte]
      badreq == \E k \in FK : LET S == {j \in 1..Len(F) : F[j].k = k}
                                   q == F[CHOOSE j \in S : \A l \in S : j >= l]
                               IN ExpBad(cfg, EN(q), q)
      zrecs == [k \in Z |-> ZeroSim({}, Ent(cfg, a, k), flagOf[k])]
  IN IF "FX10b" \in dv /\ Z # {} THEN [calls |-> <<>>, res |-> "panic", recs |-> <<>>]
     ELSE IF "FX10c" \notin dv /\ badreq THEN [calls |-> <<>>, res |-> "err", recs |-> <<>>]
     ELSE XmLoop(cfg, dv, bytes, a, url, P, flagOf, outs, 1, [calls |-> <<>>, recs |-> zrecs, i0 |-> i0])
XmRes(c) == CASE c.res = "ok" -> [kind |-> "Ok", map |-> MapOfRecs(c.recs, NoExtra)]
              [] c.res = "panic" -> PanicRes [] OTHER -> ErrRes
SimXm(cfg, dv, x, op, reqs) ==
  LET url == RdUrl(cfg, op.a)
      c == SimXmCore(cfg, dv, x.bytes[op.a], op.a, url, reqs, op.outs, 1)
  IN c.calls \o <<OpDone(op, XmRes(c), [obs |-> [url |-> url]])>>
RECURSIVE BxLoop(_, _, _, _, _, _, _)
BxLoop(cfg, dv, x, op, j, calls, recs) ==
  IF j > Len(op.jobs) THEN [calls |-> calls, res |-> "ok", recs |-> recs]
  ELSE LET J == op.jobs[j]
           c == SimXmCore(cfg, dv, x.bytes[J.a], J.a, RdUrl(cfg, J.a), J.reqs, op.outs, Len(calls) + 1)
       IN IF c.res # "ok" THEN [calls |-> calls \o c.calls, res |-> c.res, recs |-> recs]
          ELSE BxLoop(cfg, dv, x, op, j + 1, calls \o c.calls, c.recs @@ recs)
SimBx(cfg, dv, x, op) ==
  LET urls == [j \in 1..Len(op.jobs) |-> RdUrl(cfg, op.jobs[j].a)]
      fin(res, cs) == cs \o <<OpDone(op, res, [obs |-> [urls |-> urls]])>>
  IN IF Len(op.jobs) > op.readers THEN fin(ErrRes, <<>>)
     ELSE LET c == BxLoop(cfg, dv, x, op, 1, <<>>, <<>>) IN fin(XmRes(c), c.calls)
SimHead(cfg, dv, x, op) ==
  LET url == RdUrl(cfg, op.a)
      o == "head-" \o OutAt(op.outs, 1)
      res == IF o = "head-ok" THEN (IF op.op = "sz" THEN [kind |-> "Ok", n |-> Len(x.bytes[op.a])] ELSE [kind |-> "Ok", b |-> TRUE])
             ELSE IF o = "head-no" /\ op.op = "sr" THEN [kind |-> "Ok", b |-> FALSE] ELSE ErrRes
  IN <<MkCall(0, url, <<>>, o), OpDone(op, res, [obs |-> [url |-> url]])>>
SimRd(cfg, dv, x, op) ==
  CASE op.op = "xr" -> SimXr(cfg, dv, x, op)
    [] op.op = "xk" -> SimXk(cfg, dv, x, op)
    [] op.op = "xm" -> SimXm(cfg, dv, x, op, op.reqs)
    [] op.op = "xa" -> SimXm(cfg, dv, x, op, AllReqs(cfg, op.a))
    [] op.op \in {"sz", "sr"} -> SimHead(cfg, dv, x, op)
    [] op.op = "bx" -> SimBx(cfg, dv, x, op)

\* ---- resolver ------------------------------------------------------------------------------
RsObs(st) == [n |-> Cardinality(st.cached), host |-> st.host, path |-> st.path, product |-> st.product, https |-> st.https]
RsDone(op, res, st) == OpDone(op, res, [obs |-> RsObs(st)])
\* one keyed extraction: [calls, res]
RsExtractSim(cfg, dv, st, a, hv, k, decAll, flag, wcm, outs, i) ==
  IF ~HasKey(cfg, a, k) THEN [calls |-> <<>>, res |-> ErrRes]
  ELSE LET en == Ent(cfg, a, k)
           url == RsUrl(st, cfg.arcs[a], hv, FALSE)
       IN IF en.size = 0 THEN [calls |-> <<>>, res |-> (IF "FX10b" \in dv THEN PanicRes ELSE [url |-> url] @@ ZeroSim(dv, en, flag))]
          ELSE LET o == EffOut(OutAt(outs, i), st.bytes[a], Rng(en))
                   d == Deliver(o, Honest(st.bytes[a], Rng(en)))
                   r == IF IsErr(o) THEN ErrRes ELSE KeyedSim(cfg, dv, en, d, IF decAll THEN flag ELSE flag /\ IsBlte(d), wcm)
               IN [calls |-> <<MkCall(i, url, Rng(en), o)>>, res |-> IF r.kind = "Ok" THEN [url |-> url] @@ r ELSE r]
SimRfa(cfg, dv, st, op) ==
  LET A == cfg.arcs[op.a]
      key == <<op.a, op.hv>>
      hash == IF op.hv \in DOMAIN A.h THEN A.h[op.hv] ELSE op.hv
      fin(cs, res, s1) == [evs |-> cs \o <<RsDone([hash |-> hash] @@ op, res, s1)>>, st |-> s1]
      extract(i, s1, pre) == LET c == RsExtractSim(cfg, dv, s1, op.a, op.hv, op.k, FALSE, op.ks, "size", op.outs, i)
                             IN fin(pre \o c.calls, c.res, s1)
  IN IF ~ValidHv(op.hv) \/ ~HostOK(st.hc) THEN fin(<<>>, ErrRes, st)
     ELSE IF UrlRefused(dv, st.hc, op.hv, FALSE) THEN fin(<<>>, ErrK("Configuration"), st)
     ELSE IF key \in st.cached THEN extract(1, st, <<>>)
     ELSE IF "FX10d" \in dv THEN fin(<<>>, ErrK("InvalidRange"), st)
     ELSE IF UrlRefused(dv, st.hc, op.hv, TRUE) THEN fin(<<>>, ErrK("Configuration"), st)
     ELSE LET o == OutAt(op.outs, 1)
              c == MkCall(1, RsUrl(st, A, op.hv, TRUE), <<>>, o)
          IN IF o # "ok" THEN fin(<<c>>, ErrRes, st)
             ELSE extract(2, [st EXCEPT !.cached = @ \cup {key}], <<c>>)
HvRank(hv) == CASE hv = "n" -> 1 [] hv = "t" -> 2 [] OTHER -> 3
PickCand(S) == CHOOSE c \in S : \A d \in S : c[1] < d[1] \/ (c[1] = d[1] /\ HvRank(c[2]) <= HvRank(d[2]))
SimRc(cfg, dv, st, op) ==
  LET fin(cs, res) == [evs |-> cs \o <<RsDone(op, res, st)>>, st |-> st] IN
  IF "FX10e" \in dv THEN fin(<<>>, ErrK("InvalidHashFormat"))
  ELSE IF ~HostOK(st.hc) \/ UrlRefused(dv, st.hc, "n", FALSE) \/ Cands(cfg, st, op.k) = {} THEN fin(<<>>, ErrRes)
  ELSE LET c == PickCand(Cands(cfg, st, op.k))
           x == RsExtractSim(cfg, dv, st, c[1], c[2], op.k, TRUE, TRUE, "flag", op.outs, 1)
       IN fin(x.calls, x.res)
RECURSIVE RmLoop(_, _, _, _, _, _, _, _)
RmLoop(cfg, dv, st, op, ks, j, calls, recs) ==
  IF j > Len(ks) THEN [calls |-> calls, res |-> "ok", recs |-> recs]
  ELSE LET k == ks[j]
           c == PickCand(Cands(cfg, st, k))
           S == {i \in 1..Len(op.reqs) : op.reqs[i].k = k}
           flag == op.reqs[CHOOSE i \in S : \A l \in S : i >= l].blte
           x == RsExtractSim(cfg, dv, st, c[1], c[2], k, TRUE, flag, "flag", op.outs, Len(calls) + 1)
       IN IF x.res.kind # "Ok" THEN [calls |-> calls \o x.calls, res |-> x.res.kind, recs |-> recs]
          ELSE RmLoop(cfg, dv, st, op, ks, j + 1, calls \o x.calls, (k :> x.res) @@ recs)
SimRm(cfg, dv, st, op) ==
  LET fin(cs, res) == [evs |-> cs \o <<RsDone(op, res, st)>>, st |-> st]
      K == {op.reqs[i].k : i \in 1..Len(op.reqs)}
      FK == {k \in K : Cands(cfg, st, k) # {}}
  IN IF op.reqs = <<>> THEN fin(<<>>, [kind |-> "Ok", map |-> <<>>])
     ELSE IF "FX10e" \in dv THEN fin(<<>>, ErrK("InvalidHashFormat"))
     ELSE IF FK = {} THEN fin(<<>>, [kind |-> "Ok", map |-> <<>>])
     ELSE IF ~HostOK(st.hc) \/ UrlRefused(dv, st.hc, "n", FALSE) THEN fin(<<>>, ErrRes)
     ELSE IF "FX10c" \notin dv /\ \E k \in FK : LET S == {i \in 1..Len(op.reqs) : op.reqs[i].k = k}
                                                     q == op.reqs[CHOOSE i \in S : \A l \in S : i >= l]
                                                     c == PickCand(Cands(cfg, st, k))
                                                 IN ExpBad(cfg, Ent(cfg, c[1], k), q) THEN fin(<<>>, ErrRes)
     ELSE LET c == RmLoop(cfg, dv, st, op, SortInts(FK), 1, <<>>, <<>>) IN
          fin(c.calls, IF c.res = "ok" THEN [kind |-> "Ok", map |-> MapOfRecs(c.recs, LAMBDA k : [url |-> c.recs[k].url])]
                       ELSE IF c.res = "panic" THEN PanicRes ELSE ErrRes)
RECURSIVE PlLoop(_, _, _, _, _, _, _, _)
PlLoop(cfg, dv, st0, op, i, st, calls, n) ==
  IF i > Len(op.as) THEN [calls |-> calls, st |-> st, n |-> n]
  ELSE LET it == op.as[i]
           key == <<it.a, it.hv>>
       IN IF key \in st0.cached THEN PlLoop(cfg, dv, st0, op, i + 1, st, calls, n)            \* cached when the call began: no task
          ELSE IF key \in st.cached THEN PlLoop(cfg, dv, st0, op, i + 1, st, calls, n + 1)     \* listed twice: found in the cache
          ELSE IF ~ValidHv(it.hv) \/ "FX10d" \in dv \/ UrlRefused(dv, st.hc, it.hv, TRUE) THEN PlLoop(cfg, dv, st0, op, i + 1, st, calls, n)
          ELSE LET o == OutAt(op.outs, Len(calls) + 1)
                   c == MkCall(Len(calls) + 1, RsUrl(st, cfg.arcs[it.a], it.hv, TRUE), <<>>, o)
               IN IF o = "ok" THEN PlLoop(cfg, dv, st0, op, i + 1, [st EXCEPT !.cached = @ \cup {key}], Append(calls, c), n + 1)
                  ELSE PlLoop(cfg, dv, st0, op, i + 1, st, Append(calls, c), n)
SimPl(cfg, dv, st, op) ==
  IF op.tok = "cancelled" THEN [evs |-> <<RsDone(op, [kind |-> "Ok", n |-> 0], st)>>, st |-> st]
  ELSE LET c == PlLoop(cfg, dv, st, op, 1, st, <<>>, 0) IN
       [evs |-> c.calls \o <<RsDone(op, [kind |-> "Ok", n |-> c.n], c.st)>>, st |-> c.st]
SimRs(cfg, dv, st, op) ==
  LET simple(res, s1) == [evs |-> <<RsDone(op, res, s1)>>, st |-> s1] IN
  CASE op.op = "rfa" -> SimRfa(cfg, dv, st, op)
    [] op.op = "rc" -> SimRc(cfg, dv, st, op)
    [] op.op = "rm" -> SimRm(cfg, dv, st, op)
    [] op.op = "pl" -> SimPl(cfg, dv, st, op)
    [] op.op \in {"cc", "sd"} -> simple([kind |-> "Ok"], [st EXCEPT !.cached = {}])
    [] op.op = "uh" -> IF op.hc \in {"bad", "local"} THEN simple(ErrRes, st)
                       ELSE simple([kind |-> "Ok"], IF op.host = st.host THEN st ELSE [st EXCEPT !.host = op.host, !.hc = op.hc, !.cached = {}])
    [] op.op = "uc" -> simple([kind |-> "Ok"], [st EXCEPT !.host = op.host, !.hc = op.hc, !.path = op.path, !.pathn = op.pathn,
                                                          !.product = op.product, !.https = op.https, !.cached = {}])
SimBt(cfg, dv, x, op) ==
  LET fin(res) == <<OpDone(op, res, [obs |-> <<>>])>> IN
  IF op.n = 0 /\ op.reqs # <<>> THEN fin(IF "FX10g" \in dv THEN PanicRes ELSE [kind |-> "Ok", map |-> <<>>, count |-> 0])
  ELSE IF op.reqs = <<>> THEN fin([kind |-> "Ok", map |-> <<>>, count |-> op.n])
  ELSE IF "FX10e" \in dv THEN fin(ErrK("InvalidHashFormat")) ELSE fin([kind |-> "Ok", map |-> <<>>, count |-> op.n])
SimCf(op) ==
  LET fin(res) == <<OpDone(op, res, [obs |-> <<>>])>>
      good == op.hc \in {"pub", "pub10", "priv"}
  IN IF op.op = "cfg_new" THEN fin(IF good /\ op.pc = "ok" /\ op.tc = "ok" THEN [kind |-> "Ok", valid |-> TRUE] ELSE ErrRes)
     ELSE fin(IF good THEN [kind |-> "Ok", host |-> op.host] ELSE ErrRes)
SimCm(cfg, x, op) ==
  LET refused == op.op = "fg" /\ op.hcl = "short"
      len == IF op.op = "fr" THEN op.len ELSE 17
      res == IF refused \/ cfg.urls = 0 THEN ErrRes ELSE [kind |-> "Ok", len |-> len]
      x1 == IF refused THEN x ELSE IF res.kind = "Ok" THEN <<x[1] + 1, x[2] + 1, x[3], x[4] + len>> ELSE <<x[1] + 1, x[2], x[3] + 1, x[4]>>
  IN [evs |-> <<OpDone(op, res, [obs |-> [t |-> x1[1], s |-> x1[2], f |-> x1[3], b |-> x1[4], r |-> 0]])>>, st |-> x1]
Sim(fam, cfg, dv, x, op) ==
  CASE fam = "rd" -> [evs |-> SimRd(cfg, dv, x, op), st |-> x]
    [] fam = "rs" -> SimRs(cfg, dv, x, op)
    [] fam = "bt" -> [evs |-> SimBt(cfg, dv, x, op), st |-> x]
    [] fam = "cf" -> [evs |-> SimCf(op), st |-> x]
    [] fam = "cm" -> SimCm(cfg, x, op)
=============================================================================
