------------------------------ MODULE Salsa20 ------------------------------
(***************************************************************************)
(* Salsa20/20 as used by CASC/BLTE (binding E of C09).  Written from       *)
(* D. J. Bernstein, "Salsa20 specification" (quarterround, rowround,       *)
(* columnround, doubleround, Salsa20 hash, expansion with a 16-byte key):  *)
(*                                                                         *)
(*   Salsa20_k(n) = Salsa20(tau0, k, tau1, n, tau2, k, tau3)               *)
(*   tau = "expand 16-byte k"; n = 8-byte nonce followed by the 64-bit     *)
(*   little-endian number of the 64-byte block.                            *)
(*                                                                         *)
(* CASC variant: the nonce is the IV (4 or 8 bytes) zero-padded to 8 bytes,*)
(* with the 32-bit block index XOR-ed little-endian into its first four    *)
(* bytes.  The 4x4 matrix is a sequence of 16 words, position i of the     *)
(* specification being index i+1 here.                                     *)
(***************************************************************************)
EXTENDS W32

\* quarterround(y0,y1,y2,y3) applied in place to positions a,b,c,d of s
SQuarter(s, a, b, c, d) ==
  LET sb == [s  EXCEPT ![b] = WXor(s[b],  WRotl(WAdd(s[a],  s[d]),  7))]
      sc == [sb EXCEPT ![c] = WXor(sb[c], WRotl(WAdd(sb[b], sb[a]), 9))]
      sd == [sc EXCEPT ![d] = WXor(sc[d], WRotl(WAdd(sc[c], sc[b]), 13))]
  IN       [sd EXCEPT ![a] = WXor(sd[a], WRotl(WAdd(sd[d], sd[c]), 18))]

\* columnround: (y0,y4,y8,y12) (y5,y9,y13,y1) (y10,y14,y2,y6) (y15,y3,y7,y11)
\* rowround:    (y0,y1,y2,y3)  (y5,y6,y7,y4)  (y10,y11,y8,y9) (y15,y12,y13,y14)
SDoubleRound(s) ==
  LET c1 == SQuarter(s, 1, 5, 9, 13)      c2 == SQuarter(c1, 6, 10, 14, 2)
      c3 == SQuarter(c2, 11, 15, 3, 7)    c4 == SQuarter(c3, 16, 4, 8, 12)
      r1 == SQuarter(c4, 1, 2, 3, 4)      r2 == SQuarter(r1, 6, 7, 8, 5)
      r3 == SQuarter(r2, 11, 12, 9, 10)   r4 == SQuarter(r3, 16, 13, 14, 15)
  IN r4

RECURSIVE SRounds(_, _)
SRounds(s, n) == IF n = 0 THEN s ELSE SRounds(SDoubleRound(s), n - 1)

\* Salsa20(x) = x + doubleround^10(x), as 16 words
SHash(x) == LET z == SRounds(x, 10) IN [i \in 1..16 |-> WAdd(z[i], x[i])]

SKeyWord(key, i) == WFromLE(key[4 * i + 1], key[4 * i + 2], key[4 * i + 3], key[4 * i + 4])

\* "expand 16-byte k": tau0 = 0x61707865, tau1 = 0x3120646e, tau2 = 0x79622d36, tau3 = 0x6b206574
Tau0 == WFromLE(101, 120, 112, 97)     \* "expa"
Tau1 == WFromLE(110, 100, 32, 49)      \* "nd 1"
Tau2 == WFromLE(54, 45, 98, 121)       \* "6-by"
Tau3 == WFromLE(116, 101, 32, 107)     \* "te k"

\* nonce8: 8 bytes; ctr: 64-bit block number as <<lowWord, highWord>>
SInput(key, nonce8, ctr) ==
  <<Tau0, SKeyWord(key, 0), SKeyWord(key, 1), SKeyWord(key, 2), SKeyWord(key, 3),
    Tau1, WFromLE(nonce8[1], nonce8[2], nonce8[3], nonce8[4]), WFromLE(nonce8[5], nonce8[6], nonce8[7], nonce8[8]),
    ctr[1], ctr[2],
    Tau2, SKeyWord(key, 0), SKeyWord(key, 1), SKeyWord(key, 2), SKeyWord(key, 3), Tau3>>

\* CASC nonce: iv (4 or 8 bytes) zero padded, block index (a word) XOR-ed into bytes 1..4
CascNonce(iv, blk) ==
  LET b == WToLE(blk)
  IN [i \in 1..8 |-> IF i <= 4 THEN ByteOr0(iv, i) ^^ b[i] ELSE ByteOr0(iv, i)]

\* the 64 keystream bytes of block number n counted from the 64-bit start counter c0
SBlock(key, iv, blk, c0, n) ==
  LET o == SHash(SInput(key, CascNonce(iv, blk), C64Add(c0, n)))
  IN [j \in 1..64 |-> WToLE(o[((j - 1) \div 4) + 1])[((j - 1) % 4) + 1]]

Ctr0 == <<WZero, WZero>>

\* keystream bytes (1-based sequence) of blocks from..to-1 (block numbers relative to c0)
RECURSIVE SBlocks(_, _, _, _, _, _)
SBlocks(key, iv, blk, c0, from, to) ==
  IF from >= to THEN <<>> ELSE SBlock(key, iv, blk, c0, from) \o SBlocks(key, iv, blk, c0, from + 1, to)

\* one-shot encryption = decryption
Salsa20Apply(key, iv, blk, data) ==
  LET ks == SBlocks(key, iv, blk, Ctr0, 0, (Len(data) + 63) \div 64)
  IN [j \in 1..Len(data) |-> data[j] ^^ ks[j]]
=============================================================================
