------------------------------- MODULE Resolve -------------------------------
(***************************************************************************)
(* Property C03: content resolution finds exactly what was indexed.        *)
(*                                                                         *)
(* The abstract state of every resolution structure of cascette-rs         *)
(* (encoding table ckey->ekeys and ekey->espec, CDN archive index,         *)
(* archive group, root manifest V1-V4, TVFS manifest, and the              *)
(* ContentResolver chain on top of root + encoding) is a MAP:              *)
(*     model : inserted key |-> inserted value.                            *)
(* Whatever pages, tables of contents, hash tables or prefix trees the     *)
(* serialised form uses, a lookup in the built-then-serialised-then-parsed *)
(* structure must return  <<model[k]>>  for k in DOMAIN model  and  <<>>   *)
(* for every other key - for every lookup flavour the API offers.          *)
(*                                                                         *)
(* Part 1  CAPACITY ARITHMETIC of the formats, written from the format     *)
(*         descriptions: record sizes, records per page, the population    *)
(*         sizes at which a page / chunk / offset-width boundary is        *)
(*         crossed.  MC_Resolve derives the populations it sends to the    *)
(*         real code from these (so they follow the configuration), and    *)
(*         T_Resolve derives the guards of the known deviations.           *)
(* Part 2  the MAP MODEL and a code-shaped model of the paged formats      *)
(*         (greedy pagination of sorted records, page index by first key   *)
(*         or by last key, single / batch / scan lookups) with the         *)
(*         actions Insert / Build / Lookup; TLC checks on small constants  *)
(*         that every flavour agrees with the map.  Switches in `Defects`  *)
(*         make the code-shaped parts behave like the unchanged code.      *)
(* Part 3  the CONCRETE POPULATIONS used for conformance: abstract keys    *)
(*         are integers, a is inserted iff a is even and a < 2n (the odd   *)
(*         numbers are the absent neighbours), and ValueOf gives the value *)
(*         the driver inserts for a.  Expect(h, m, sp, fl, a) is what      *)
(*         flavour fl must return for key a.                               *)
(***************************************************************************)
EXTENDS Naturals, Sequences, FiniteSets, TLC

Min2(a, b)    == IF a < b THEN a ELSE b
Max2(a, b)    == IF a > b THEN a ELSE b
CeilDiv(a, b) == (a + b - 1) \div b

\* ------------------------------------------------------------------------
\* Part 1: capacity arithmetic
\* ------------------------------------------------------------------------
\* CDN archive index: record = key + 4-byte size + offset field; 4 KiB chunks
ChunkBytes       == 4096
AidxRec(ks, ow)  == ks + 4 + ow
AidxP(ks, ow)    == ChunkBytes \div AidxRec(ks, ow)
\* archive group: 16-byte key, 4-byte size, 6-byte composite offset
AGroupRec        == 16 + 4 + 6
AGroupP          == ChunkBytes \div AGroupRec
\* encoding table: ckey record = count(1) + size(5) + ckey(16) + count x ekey(16); ekey record = 16 + 4 + 5
CKeyRec(nek)     == 1 + 5 + 16 + 16 * nek
CKeyP(kb, nek)   == (1024 * kb) \div CKeyRec(nek)
EKeyRec          == 16 + 4 + 5
EKeyP(kb)        == (1024 * kb) \div EKeyRec

\* the largest number of encoding keys of one content key that still fits a page (the count is one byte)
MaxNek(kb)       == Min2(255, ((1024 * kb) - CKeyRec(0)) \div 16)

\* populations around the multiples of a page capacity P
Boundary(P) == {x \in {0, 1, 2, P - 1, P, P + 1, 2 * P, 2 * P + 1} : x >= 0}

\* chunk count of a fixed-record format: by records (the format) and by bytes (what one builder computes)
ChunksByRecords(n, P)   == CeilDiv(n, P)
ChunksByBytes(n, R, B)  == CeilDiv(n * R, B)
\* the smallest population for which the two disagree (0 if none up to 8 pages)
FirstChunkDrift(R, B) ==
  LET P == B \div R
      S == {n \in 0..(8 * P + 1) : ChunksByBytes(n, R, B) # ChunksByRecords(n, P)}
  IN IF S = {} THEN 0 ELSE CHOOSE n \in S : \A x \in S : n <= x

\* how many distinct abstract keys the driver can embed into ks key bytes (two digit bytes, even/odd scheme)
MaxPop(ks) == IF ks = 1 THEN 128 ELSE 32768

\* root manifest: a classic V2 header is magic, total_files, named_files; the extended header is magic,
\* header_size, version, total_files, named_files.  A reader has to tell them apart by the two words after
\* the magic: the plausible header sizes are 16..99 and the versions are below 10.
HdrSizeRange        == 16..99
RootCounts          == {0, 1, 15, 16, 99, 100, 101}
ClassicLooksExtended(total, named) == total \in HdrSizeRange /\ named < 10 /\ named < total

\* TVFS: offsets into a table are stored in the fewest bytes that hold the table size
OffsSize(sz) == IF sz > 16777215 THEN 4 ELSE IF sz > 65535 THEN 3 ELSE IF sz > 255 THEN 2 ELSE 1
HasFlag(flags, bit) == (flags \div bit) % 2 = 1
\* container-file-table entry: ekey(9) + encoded size(4) [+ ckey(9)] [+ EST offset] [+ patch CFT offset]
CftEntry(flags, estOffs, cftOffs) ==
  13 + (IF HasFlag(flags, 1) THEN 9 ELSE 0) + (IF HasFlag(flags, 2) THEN estOffs ELSE 0)
     + (IF HasFlag(flags, 4) THEN cftOffs ELSE 0)
\* the entry size is self-consistent when it was computed with the offset width of the table it produces
CftConsistent(flags, estOffs, n, w) == OffsSize(n * CftEntry(flags, estOffs, w)) = w
\* largest population whose table still fits a given size limit
FitCount(entry, limit) == limit \div entry
\* a path component is written as one length byte + bytes; 0xFF is the node-value marker and 0x00 the separator
MaxNameFragment == 254

\* ------------------------------------------------------------------------
\* Part 2: the map model and the paged structure
\* ------------------------------------------------------------------------
CONSTANT Defects    \* {} = the format as designed; "F03b": chunk count computed from bytes;
                    \* "F03c": a record that looks like padding ends the page for the reader

VARIABLES model,    \* the map: function inserted key -> inserted value
          built,    \* the parsed structure, NoStruct before Build, or ParseFail
          cfg,      \* configuration of the structure being built
          res       \* result of the last lookup, by flavour

NoStruct  == [st |-> "none"]
ParseFail == [st |-> "fail"]

ModelLookup(m, k) == IF k \in DOMAIN m THEN <<m[k]>> ELSE <<>>

\* -- builder -----------------------------------------------------------------
RECURSIVE SortedSeqOf(_)
SortedSeqOf(S) == IF S = {} THEN <<>>
                  ELSE LET x == CHOOSE y \in S : \A z \in S : y <= z IN <<x>> \o SortedSeqOf(S \ {x})

\* a record is <<key, value, weight>>; weight = its serialised size in bytes
Records(m, c) == LET ks == SortedSeqOf(DOMAIN m) IN [i \in 1..Len(ks) |-> <<ks[i], m[ks[i]], c.w[ks[i]]>>]

\* greedy pagination: a record goes to the current page unless it does not fit and the page is not empty
RECURSIVE Paginate(_, _, _, _)
Paginate(recs, B, cur, used) ==
  IF recs = <<>> THEN (IF cur = <<>> THEN <<>> ELSE <<cur>>)
  ELSE LET r == Head(recs) IN
       IF used + r[3] > B /\ cur # <<>>
       THEN <<cur>> \o Paginate(recs, B, <<>>, 0)
       ELSE Paginate(Tail(recs), B, Append(cur, r), used + r[3])

Flatten(pages) == LET RECURSIVE F(_)
                      F(ps) == IF ps = <<>> THEN <<>> ELSE Head(ps) \o F(Tail(ps))
                  IN F(pages)

\* fixed-record formats declare the element count; the reader derives the chunk count from it
KeepChunks(pages, c) ==
  IF "F03b" \in Defects /\ c.fixed
  THEN SubSeq(pages, 1, Min2(Len(pages), ChunksByBytes(Len(Flatten(pages)), c.R, c.B)))
  ELSE pages

\* what a reader recovers from one serialised page: a record whose image is the padding pattern stops it
ReadPage(p, c) ==
  IF "F03c" \in Defects
  THEN LET bad == {i \in 1..Len(p) : p[i][1] = c.zero /\ p[i][2] = c.zeroval}
       IN IF bad = {} THEN p ELSE SubSeq(p, 1, (CHOOSE i \in bad : \A j \in bad : i <= j) - 1)
  ELSE p

BuildR(m, c) ==
  LET recs   == Records(m, c)
      pages0 == Paginate(recs, c.B, <<>>, 0)
      pages1 == KeepChunks(pages0, c)
      pages  == [i \in 1..Len(pages1) |-> ReadPage(pages1[i], c)]
      \* the index is written by the builder from what it put into the page
      first  == [i \in 1..Len(pages1) |-> pages1[i][1][1]]
      last   == [i \in 1..Len(pages1) |-> pages1[i][Len(pages1[i])][1]]
      oversize == \E i \in 1..Len(recs) : recs[i][3] > c.B
  IN IF c.fixed /\ Len(pages1) # ChunksByRecords(Len(recs), c.B \div c.R) THEN ParseFail
     ELSE IF oversize THEN ParseFail
     ELSE [st |-> "ok", pages |-> pages, first |-> first, last |-> last, idx |-> c.idx]

\* -- lookups -------------------------------------------------------------------
ScanSeq(recs, k) == LET hits == SelectSeq(recs, LAMBDA r : r[1] = k) IN [i \in 1..Len(hits) |-> hits[i][2]]
FirstOf(q)       == IF q = <<>> THEN <<>> ELSE <<q[1]>>

\* page index by first key (encoding table): the last page whose first key is <= k
PageByFirst(s, k) == Cardinality({i \in 1..Len(s.first) : s.first[i] <= k})
\* table of contents by last key (archive index): the first chunk whose last key is >= k
PageByLast(s, k)  == LET S == {i \in 1..Len(s.last) : s.last[i] >= k}
                     IN IF S = {} THEN 0 ELSE CHOOSE i \in S : \A j \in S : i <= j
PageOf(s, k) == IF s.idx = "first" THEN PageByFirst(s, k) ELSE PageByLast(s, k)

LookupIndexed(s, k) == LET p == PageOf(s, k) IN IF p = 0 THEN <<>> ELSE FirstOf(ScanSeq(s.pages[p], k))
LookupScan(s, k)    == FirstOf(ScanSeq(Flatten(s.pages), k))
\* batch lookup of the encoding table: sorted probes are merged against the page ranges
\* [first[p], first[p+1]); keys below the first page are skipped
BatchPage(s, k) == LET S == {p \in 1..Len(s.first) :
                               s.first[p] <= k /\ (p = Len(s.first) \/ k < s.first[p + 1])}
                   IN IF S = {} THEN 0 ELSE CHOOSE p \in S : TRUE
LookupBatch(s, ks) == [i \in 1..Len(ks) |->
                         LET p == BatchPage(s, ks[i]) IN IF p = 0 THEN <<>> ELSE FirstOf(ScanSeq(s.pages[p], ks[i]))]

\* -- actions ---------------------------------------------------------------------
Insert(k, v) == /\ built = NoStruct /\ k \notin DOMAIN model
                /\ model' = [x \in DOMAIN model \cup {k} |-> IF x = k THEN v ELSE model[x]]
                /\ UNCHANGED <<built, cfg, res>>
Build        == /\ built = NoStruct
                /\ built' = BuildR(model, cfg)
                /\ UNCHANGED <<model, cfg, res>>
Lookup(k, k2) == /\ built.st = "ok"
                 /\ res' = [k |-> k, indexed |-> LookupIndexed(built, k), scan |-> LookupScan(built, k),
                            batch |-> LookupBatch(built, <<k2, k>>)[2], expect |-> ModelLookup(model, k)]
                 /\ UNCHANGED <<model, built, cfg>>

\* -- properties (on the design, Defects = {}) ---------------------------------------
\* a population whose records all fit a page is always built and parsed
BuildTotal  == (built # NoStruct /\ \A k \in DOMAIN model : cfg.w[k] <= cfg.B) => built.st = "ok"
\* nothing is lost, nothing is invented, order is kept
Stored      == built.st = "ok" =>
                 LET f == Flatten(built.pages) IN
                 /\ Len(f) = Cardinality(DOMAIN model)
                 /\ \A i \in 1..Len(f) : f[i][1] \in DOMAIN model /\ f[i][2] = model[f[i][1]]
                 /\ \A i \in 1..(Len(f) - 1) : f[i][1] < f[i + 1][1]
\* present => exactly the inserted value, absent => nothing; every flavour = scan; batch = single
ResOK       == res # <<>> => /\ res.indexed = res.expect
                             /\ res.scan = res.expect
                             /\ res.batch = res.indexed
AllKeysOK(K) == built.st = "ok" =>
                 \A k \in K : /\ LookupIndexed(built, k) = ModelLookup(model, k)
                              /\ LookupScan(built, k) = ModelLookup(model, k)

\* -- k-way merge of sorted sources with de-duplication (archive group from archive indices) ------
\* a source is a sorted sequence of <<key, value>>; the smallest head is taken, ties go to the lowest source;
\* the taken source ALWAYS advances; the record is written unless its key was the last one written
RECURSIVE MergeR(_, _)
MergeR(srcs, out) ==
  LET live == {j \in 1..Len(srcs) : srcs[j] # <<>>} IN
  IF live = {} THEN out
  ELSE LET j == CHOOSE x \in live : \A y \in live :
                    srcs[x][1][1] < srcs[y][1][1] \/ (srcs[x][1][1] = srcs[y][1][1] /\ x <= y)
           e    == srcs[j][1]
           rest == [srcs EXCEPT ![j] = Tail(srcs[j])]
       IN IF out # <<>> /\ out[Len(out)][1] = e[1] THEN MergeR(rest, out) ELSE MergeR(rest, Append(out, e))
SourceKeys(s)  == {s[i][1] : i \in 1..Len(s)}
\* the map a merge stands for: every key of any source, with the value of the first source that has it
MergeModel(srcs) ==
  LET keys == UNION {SourceKeys(srcs[j]) : j \in 1..Len(srcs)}
      home(k) == CHOOSE j \in 1..Len(srcs) : k \in SourceKeys(srcs[j]) /\ \A j2 \in 1..(j - 1) : k \notin SourceKeys(srcs[j2])
      val(s, k) == s[CHOOSE i \in 1..Len(s) : s[i][1] = k][2]
  IN [k \in keys |-> val(srcs[home(k)], k)]
MergeOK(srcs) ==
  LET out == MergeR(srcs, <<>>)
      m   == MergeModel(srcs)
  IN /\ \A i \in 1..(Len(out) - 1) : out[i][1] < out[i + 1][1]
     /\ {out[i][1] : i \in 1..Len(out)} = DOMAIN m
     /\ \A i \in 1..Len(out) : out[i][2] = m[out[i][1]]

\* ------------------------------------------------------------------------
\* Part 3: the populations of the conformance runs
\* ------------------------------------------------------------------------
\* Root files without a name (rank >= h.named) are stored either in blocks flagged NO_NAME_HASH (nnh = "flag": the
\* block has no name-hash array) or in ordinary blocks (nnh = "plain": the array is there, hash 0).  Whether a V2-V4
\* block has the array depends on the block's flags alone, never on the header's named-files count; either way every
\* FileDataID resolves and only named files resolve by path.
\* locale masks of the root blocks a population is dealt over (1 block: enUS; 2: enUS, deDE; 3: enUS, deDE, 0)
LocENUS == 2
LocDEDE == 32
BlockLocale(blocks, i) ==
  IF blocks = 1 THEN LocENUS
  ELSE IF blocks = 2 THEN (IF i % 2 = 1 THEN LocDEDE ELSE LocENUS)
  ELSE (CASE i % 3 = 0 -> LocENUS [] i % 3 = 1 -> LocDEDE [] OTHER -> 0)
Present(n, a) == a % 2 = 0 /\ a < 2 * n
PopKeys(n)    == {2 * i : i \in 0..(n - 1)}
RankOf(a)     == a \div 2                      \* position of a present key in sorted order (0-based)

HexD == <<"0", "1", "2", "3", "4", "5", "6", "7", "8", "9", "a", "b", "c", "d", "e", "f">>
Hex16(a) == HexD[((a \div 4096) % 16) + 1] \o HexD[((a \div 256) % 16) + 1] \o HexD[((a \div 16) % 16) + 1] \o HexD[(a % 16) + 1]
\* 16-byte value keys: tag byte, 13 x 5a, abstract key in two bytes
VKey(tag, a) == tag \o "5a5a5a5a5a5a5a5a5a5a5a5a5a" \o Hex16(a)
Specs == <<"z", "n", "b:{256K*=z}">>
\* the first key handed to the builder, by insertion order
FirstInserted(ord, n) == CASE ord = "asc" -> 0 [] ord = "desc" -> 2 * (n - 1) [] OTHER -> 2 * (n \div 2)

\* every value travels as text; numbers are logged relative to the value profile: lo -> the number itself,
\* hi -> its distance from the maximum of its field
ValueOf(h, sp, a) ==
  CASE h.kind = "aidx"   -> IF h.vp = "lo" THEN ToString(a + 1) \o ":" \o ToString(4096 * a + 7)
                                           ELSE ToString(a) \o ":" \o ToString(a)
    [] h.kind = "agroup" -> ToString((a \div 2) % h.srcs) \o ":" \o
                            (IF h.vp = "lo" THEN ToString(4096 * a + 7) \o ":" \o ToString(a + 1)
                                            ELSE ToString(a) \o ":" \o ToString(a))
    [] h.kind = "enc" /\ sp = "c" ->
         [eks |-> [j \in 1..h.nek |-> VKey("e" \o HexD[((j - 1) % 16) + 1], a)],
          size |-> ToString(IF h.vp = "lo" THEN a + 1 ELSE a)]
    [] h.kind = "enc" /\ sp = "e" ->
         [spec |-> Specs[((a \div 2) % 3) + 1], size |-> ToString(IF h.vp = "lo" THEN a + 1 ELSE a)]
    [] h.kind = "root"   -> [ck |-> VKey("c0", a), named |-> (a \div 2) < h.named, loc |-> BlockLocale(h.blocks, a \div 2)]
    [] h.kind = "chain"  -> [ck |-> VKey("c0", a), ek |-> VKey("e0", a), named |-> (a \div 2) < h.named,
                             inenc |-> (a \div 2) % 3 # 2, size |-> ToString(IF h.vp = "lo" THEN a + 1 ELSE a)]
    [] h.kind = "tvfs"   ->
         LET t3 == "e95a5a5a5a5a5a" \o Hex16(a) \o ":" \o ToString(a + 1) \o ":"
                     \o (IF HasFlag(h.flags, 1) THEN "c95a5a5a5a5a5a5a5a" ELSE "-")
         IN [t3 |-> t3, t4 |-> t3 \o ":" \o ToString(3 * a + 5)]

\* An archive group merges several archive indices: a key stored in more than one of them is listed once,
\* with the value of the FIRST source that holds it.  Program field dup = d > 0: every key of rank i with
\* i mod d = 0 is also handed in a second time, after the original, with another value (in a later source
\* index / by a later add_entry) - the map does not change.
ModelOf(h) ==
  [c |-> [a \in PopKeys(h.n) |-> ValueOf(h, "c", a)],
   e |-> IF h.kind = "enc" THEN [b \in PopKeys(h.m) |-> ValueOf(h, "e", b)] ELSE <<>>]

One(hit, x) == IF hit THEN <<x>> ELSE <<>>

\* locale filter of the root lookups: a block answers a request iff the two masks share a bit
\* (a block whose locale mask is 0 answers no filtered request; unfiltered flavours still see its records)

\* what flavour fl of the API must return for abstract key a (a sequence of values; <<>> = nothing)
Expect(h, m, sp, fl, a) ==
  LET hit == a \in DOMAIN m[sp]
      v   == m[sp][a]
  IN CASE h.kind \in {"aidx", "agroup"} -> One(hit, v)
       [] h.kind = "enc" /\ sp = "c" ->
            IF fl \in {"find", "bfind", "rck"} THEN One(hit, v.eks[1])
            ELSE IF fl \in {"size", "rsize"} THEN One(hit, v.size)
            ELSE IF hit THEN v.eks ELSE <<>>                                  \* all, ball, scan
       [] h.kind = "enc" /\ sp = "e" ->
            IF fl \in {"esize"} THEN One(hit, v.size) ELSE One(hit, v.spec)   \* espec, bespec, escan
       [] h.kind = "root" ->
            IF fl \in {"ents", "scan", "rfd"} THEN One(hit, v.ck)                     \* no locale parameter
            ELSE IF fl \in {"id", "idown"} THEN One(hit /\ v.loc # 0, v.ck)          \* request ALL / the block's own mask
            ELSE IF fl = "idother" THEN <<>>
            ELSE IF fl \in {"pents", "rpath"} THEN One(hit /\ v.named, v.ck)         \* no locale parameter
            ELSE One(hit /\ v.named /\ v.loc # 0, v.ck)                              \* path, hash: request ALL
       [] h.kind = "chain" ->
            IF fl \in {"f2e", "f2e2"} THEN One(hit /\ v.inenc, v.ek)
            ELSE IF fl \in {"p2e", "p2e2"} THEN One(hit /\ v.inenc /\ v.named, v.ek)
            ELSE One(hit /\ v.inenc /\ v.named, v.ck \o ":" \o v.ek \o ":" \o v.size)   \* info
       [] h.kind = "tvfs" -> IF fl = "rp" THEN One(hit, v.t3) ELSE One(hit, v.t4)                 \* enum, chain

\* can the configured format hold the population at all?  If not the builder has to refuse it.
Representable(h) ==
  CASE h.kind = "enc"  -> h.nek <= MaxNek(h.kbc)          \* a content-key record must fit its page
    [] h.kind = "aidx" -> h.vp # "over"                   \* an offset must fit the offset field
    [] OTHER -> TRUE

\* what the build event reports when everything inserted is stored
ExpectCount(h) == IF h.kind = "enc" THEN h.n * 100000 + h.m ELSE h.n
\* an empty structure may be refused (by the builder or by the parser): there is nothing to look up
RefusalAllowed(h) == h.n = 0 \/ (h.kind = "enc" /\ h.m = 0)
=============================================================================
