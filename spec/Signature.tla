------------------------------ MODULE Signature ------------------------------
(***************************************************************************)
(* X07 (growth of the specification): V1 MIME signature / certificate      *)
(* verification, request formatting and archive-index downloads of         *)
(* cascette-protocol:                                                      *)
(*   v1_mime::signature::parse_and_verify_signature,                       *)
(*   v1_mime::parse_v1_mime_response, v1_mime::is_v1_mime_response,        *)
(*   mime_parser::parse_v1_mime_response (multipart structure, signature   *)
(*   part, epilogue - the checksum *region* is C07's),                     *)
(*   v1_mime::certificate::CertificateFetcher::{fetch_by_ski,fetch_by_hash}*)
(*   RibbitClient::query_raw, TactClient::query, RibbitTactClient::query   *)
(*   (formatting and validation only - the chain is C13's),                *)
(*   cdn::CdnClient::{download_archive_index, download}.                   *)
(* (crates/cascette-protocol/src/archive_client.rs is an orphan file: no   *)
(* `mod` declares it, it is not compiled; its properties are stated for    *)
(* the live CdnClient.)                                                    *)
(*                                                                         *)
(* Cryptography is abstract: a key is an identity, a signature is the fact *)
(* "key k signed bytes b", contents are identities.  The driver turns a    *)
(* description into real DER / RSA / MIME bytes (and back: nothing) - the   *)
(* description is the quantifier domain.                                   *)
(*                                                                         *)
(* STATED PROPERTIES (sources: rustdoc of the functions, docs/src/         *)
(* protocols/ribbit.md "Certificate and Signature Verification",           *)
(* "Response Format", the crate's own V1 producer cascette-ribbit).        *)
(*                                                                         *)
(* S - parse_and_verify_signature(sig, Some(data)), for every CMS          *)
(*     description of the universe of MC_Signature and every data:         *)
(*  S1 soundness: is_valid = true only if the structure is a SignedData    *)
(*     with at least one signer and EVERY signer's signature value was     *)
(*     made by the key of an embedded certificate that the signer          *)
(*     identifier names (issuer+serial or subject key identifier), RSA     *)
(*     PKCS#1 v1.5 with SHA-256/384/512, over exactly the bytes handed in  *)
(*     as `data`: directly when the signer has no signed attributes; over  *)
(*     the DER SET of the signed attributes, whose messageDigest is the    *)
(*     digest of `data`, when it has (ribbit.md "Signed Attributes         *)
(*     Processing").  Attached content does not change what is claimed:    *)
(*     the caller learns nothing but is_valid, so it must speak about the  *)
(*     bytes the caller handed in (Authentic).                             *)
(*  S2 completeness: Authentic, unambiguous signer->certificate, supported *)
(*     digests  =>  is_valid = true.                                       *)
(*  S3 for every single-bit flip of the signature value, of the modulus or *)
(*     public exponent of the embedded certificate's key, of the signed    *)
(*     content, for every proper prefix of the blob or of the content and  *)
(*     for every extension of the content: not verified; and never a panic *)
(*     for ANY bit flip / prefix / extension of blob, content or response. *)
(*  S4 the counts reported (signers, certificates) are those of the        *)
(*     structure; certificate_chain_valid is false (nothing checks a chain,*)
(*     validity dates are not looked at: an expired certificate verifies). *)
(* M - parse_v1_mime_response(raw, signed_data) of v1_mime and of          *)
(*     mime_parser, for every envelope of the table (checksum kind x       *)
(*     signature part x encoding x part order x disposition x signed_data):*)
(*  M1 data = the text of the data part (up to surrounding white space).   *)
(*  M2 checksum: absent -> accepted, none reported; the protocol's SHA-256 *)
(*     of the preceding bytes (either case) -> accepted and reported; a    *)
(*     64-digit value that is not -> Err.  (32 digits / MD5: the module    *)
(*     doc of v1_mime promises MD5, the protocol has none: left open.)     *)
(*  M3 no signature part -> signature_info = None ("never reported as      *)
(*     signed"); a signature part that is not a CMS SignedData -> Err      *)
(*     (rustdoc: "Signature verification encounters an error (but not      *)
(*     verification failure)"); a SignedData -> Some(info) with            *)
(*     is_valid as in S over the bytes of `signed_data`.                   *)
(*  M4 signed_data = None: the signature is checked against the content of *)
(*     the data part (what the protocol signs) - a response with a valid   *)
(*     detached signature over its data is reported verified by default.   *)
(*  M5 both detectors answer true for a multipart envelope and never panic.*)
(* C - CertificateFetcher, for every identifier string and scripted answer:*)
(*  C1 an identifier of hex digits is asked for with exactly one command   *)
(*     line "v1/certs/<id>" resp. "v1/ocsp/<id>" (ribbit.md endpoint       *)
(*     table; RibbitTactClient treats exactly these prefixes as TCP-only); *)
(*     the map id -> command is injective and its two ranges are disjoint. *)
(*  C2 any other identifier: no command, or one command of one line.       *)
(*  C3 a PEM certificate in the answer (bare, inside text, inside a V1     *)
(*     MIME message) is returned with its subject, issuer, serial, SKI,    *)
(*     key; an answer without a complete PEM block is an Err; never a panic*)
(* R - request formatting, for every endpoint of the alphabet:             *)
(*  R1 RibbitClient::query_raw(e) sends exactly the line e (ended by CR LF  *)
(*     or LF) and returns the answer's bytes.                              *)
(*  R2 TactClient::query(e): one GET of TactPath(e); status table          *)
(*     200+BPSV -> Ok, 200+other -> Parse, 429 -> RateLimited,             *)
(*     503 -> ServiceUnavailable, other 5xx -> ServerError, else HttpStatus*)
(*  R3 RibbitTactClient::query(e): an endpoint with a character outside    *)
(*     [A-Za-z0-9/_.-] is refused (InvalidEndpoint) without any traffic;   *)
(*     v1/summary, v1/certs/, v1/ocsp/ go to TCP only.                     *)
(* A - CdnClient index / data downloads, for every operation sequence:     *)
(*  A1 index URL = <path>/data/<k[0..2]>/<k[2..4]>/<k>.index, data URL the *)
(*     same without ".index": they differ, and so do their cache entries.  *)
(*  A2 a cached index (data) is returned without a request; a failed fetch *)
(*     is not cached (the next call asks again); a new client keeps a disk *)
(*     cache and loses a memory cache.                                     *)
(*  A3 never a panic, whatever the key string.                             *)
(*                                                                         *)
(* Known deviations of the code are the same operators evaluated with a    *)
(* set F of finding ids that switch a clause to what the code does; the    *)
(* monitor accepts an event under F # {} only for F \subseteq              *)
(* KnownDeviations and reports the ids.                                    *)
(***************************************************************************)
EXTENDS Naturals, Sequences, FiniteSets, TLC

SeqSet(q) == {q[i] : i \in 1..Len(q)}

\* ===========================================================================
\* S. abstract CMS
\*   cert   = [key, name, serial, ski ("" = no extension), alg ("rsa"|"ec"), exp]
\*   signer = [sidt ("isn"|"ski"), sname, sserial, sski, dalg, by (the key that made the signature value),
\*             over ("content": made over content oc | "attrs": over the DER SET of the signed attributes | "junk"),
\*             oc, attrs (has signed attributes), md (content whose digest is the messageDigest attribute; 0 = junk)]
\*   cms    = [certs, signers, econtent (0 = detached), wrap ("signed" | "data": ContentInfo of another type)]
\*   data   = content id handed in by the caller (0 = None)
\* ===========================================================================
SupportedDigests == {"sha256", "sha384", "sha512"}

Matches(s, c) == IF s.sidt = "isn" THEN c.name = s.sname /\ c.serial = s.sserial
                 ELSE c.ski # "" /\ c.ski = s.sski

\* ---- the property, stated without reference to any algorithm -------------
Vouches(s, c, d) ==
  /\ c.alg = "rsa" /\ s.by = c.key /\ s.dalg \in SupportedDigests
  /\ \/ ~s.attrs /\ s.over = "content" /\ s.oc = d
     \/ s.attrs /\ s.over = "attrs" /\ s.md = d
Authentic(cms, d) ==
  /\ cms.wrap = "signed" /\ d # 0 /\ cms.signers # <<>>
  /\ \A s \in SeqSet(cms.signers) : \E c \in SeqSet(cms.certs) : Matches(s, c) /\ Vouches(s, c, d)
Unambiguous(cms) ==
  \A s \in SeqSet(cms.signers) : \A c1, c2 \in SeqSet(cms.certs) : Matches(s, c1) /\ Matches(s, c2) => c1.key = c2.key /\ c1.alg = c2.alg

\* ---- the verifier: semantic verdicts permitted for (cms, d) under the deviations F ----
\*   FX07a: attached content is verified instead of the caller's bytes (and nothing ties the two)
\*   FX07b: signed attributes are ignored: the value is always checked directly against the content
Covered(cms, d) == IF cms.econtent # 0 THEN cms.econtent ELSE d
GoodSig(s, c, cc, F) ==
  /\ c.alg = "rsa" /\ s.by = c.key /\ s.dalg \in SupportedDigests /\ cc # 0
  /\ IF s.attrs /\ "FX07b" \notin F THEN s.over = "attrs" /\ s.md = cc
                                    ELSE s.over = "content" /\ s.oc = cc
Cands(cms, s) == {c \in SeqSet(cms.certs) : Matches(s, c)}
Verdicts(cms, d, F) ==
  IF cms.wrap # "signed" THEN {"malformed"}
  ELSE IF d = 0 THEN
       \* no bytes handed in: nothing can be claimed about them; an attached content may still be checked
       {"invalid"} \cup (IF cms.econtent # 0 /\ cms.signers # <<>>
                            /\ \A s \in SeqSet(cms.signers) : \E c \in Cands(cms, s) : GoodSig(s, c, cms.econtent, F)
                         THEN {"valid"} ELSE {})
  ELSE LET cc    == Covered(cms, d)
           bound == cms.econtent = 0 \/ cms.econtent = d \/ "FX07a" \in F
           must  == cms.signers # <<>> /\ bound
                    /\ \A s \in SeqSet(cms.signers) : Cands(cms, s) # {} /\ \A c \in Cands(cms, s) : GoodSig(s, c, cc, F)
           may   == cms.signers # <<>> /\ bound
                    /\ \A s \in SeqSet(cms.signers) : \E c \in Cands(cms, s) : GoodSig(s, c, cc, F)
       IN IF must THEN {"valid"} ELSE IF may THEN {"valid", "invalid"} ELSE {"invalid"}

\* result classes of parse_and_verify_signature: "valid" = Ok(is_valid), "invalid" = Ok(!is_valid), "err" = Err
\* (rustdoc: "Returns an error if the signature cannot be parsed or verification fails": Err is accepted for a failed
\* verification, Ok(!is_valid) is what the code does)
VerifyAllowed(cms, d, F) ==
  LET v == Verdicts(cms, d, F) IN
  (IF "valid" \in v THEN {"valid"} ELSE {}) \cup (IF "invalid" \in v THEN {"invalid", "err"} ELSE {}) \cup
  (IF "malformed" \in v THEN {"err"} ELSE {})

Sound(cms, d, F)    == "valid" \in Verdicts(cms, d, F) /\ d # 0 => Authentic(cms, d)
Complete(cms, d, F) == Authentic(cms, d) /\ Unambiguous(cms) /\ cms.econtent \in {0, d} => Verdicts(cms, d, F) = {"valid"}
NeverUnsigned(cms, d, F) == cms.signers = <<>> => "valid" \notin Verdicts(cms, d, F)

\* ===========================================================================
\* M. the V1 MIME envelope
\*   env = [c (content of the data part), disp, sig ("none"|"cms"|"junk_text"|"junk_der"|"cut"), cms, enc, order, cks, mp]
\*   sd  = "none" | "part" (the bytes of the data part's content) | "other" (other bytes)
\* ===========================================================================
MSG == 99         \* the bytes of the message itself: they contain the signature part, so no signature is over them
OtherContent(c) == IF c = 1 THEN 2 ELSE 1
JunkSigs == {"junk_text", "junk_der", "cut"}

\*   FX07f: signed_data = None checks the signature against the whole message
DataId(env, sd, F) == CASE sd = "part"  -> env.c
                        [] sd = "other" -> OtherContent(env.c)
                        [] OTHER        -> IF "FX07f" \in F THEN MSG ELSE env.c

\*   FX07c: v1_mime checks MD5 where the protocol (and the crate's own server) has SHA-256
CksV1(env, F) == CASE env.cks = "none"                     -> {"absent"}
                   [] env.cks \in {"sha256", "sha256uc"}   -> IF "FX07c" \in F THEN {"err"} ELSE {"reported"}
                   [] env.cks = "md5"                      -> {"reported", "absent", "err"}
                   [] env.cks = "bad64"                    -> {"err"}
                   [] env.cks = "bad32"                    -> {"err", "absent"}
\*   FX07i: mime_parser compares the hex digits case-sensitively
CksLegacy(env, F) == CASE env.cks = "none"      -> {"absent"}
                       [] env.cks = "sha256"    -> {"reported"}
                       [] env.cks = "sha256uc"  -> IF "FX07i" \in F THEN {"err"} ELSE {"reported"}
                       [] env.cks = "md5"       -> {"reported", "absent", "err"}
                       [] env.cks = "bad64"     -> {"err"}
                       [] env.cks = "bad32"     -> {"err", "absent"}

\*   FX07g: an unparsable signature part is swallowed and reported like "no signature"
SigV1(env, sd, F) ==
  IF ~env.mp \/ env.sig = "none" THEN {"none"}
  ELSE IF env.sig \in JunkSigs THEN (IF "FX07g" \in F THEN {"none"} ELSE {"err"})
  ELSE LET v == Verdicts(env.cms, DataId(env, sd, F), F) IN
       (v \cap {"valid", "invalid"}) \cup
       (IF "malformed" \in v THEN (IF "FX07g" \in F THEN {"none"} ELSE {"err"}) ELSE {})

\* permitted results [class, sig, cks] of v1_mime::parse_v1_mime_response
MimeV1Allowed(env, sd, F) ==
  LET ck == CksV1(env, F)
      sg == SigV1(env, sd, F)
  IN (IF "err" \in ck \/ "err" \in sg THEN {[class |-> "err", sig |-> "-", cks |-> "-"]} ELSE {}) \cup
     {[class |-> "ok", sig |-> s, cks |-> k] : s \in sg \ {"err"}, k \in ck \ {"err"}}
\* permitted results of mime_parser::parse_v1_mime_response (it extracts the signature bytes, it does not verify)
MimeLegacyAllowed(env, F) ==
  LET ck == CksLegacy(env, F)
      sg == IF ~env.mp \/ env.sig = "none" THEN "none" ELSE "some"
  IN (IF "err" \in ck THEN {[class |-> "err", sig |-> "-", cks |-> "-"]} ELSE {}) \cup
     {[class |-> "ok", sig |-> sg, cks |-> k] : k \in ck \ {"err"}}

\* M3 "a response with no signature part is never reported as signed", M2 "a wrong checksum is an error"
NeverSignedWithoutPart(env, sd, F) == env.sig = "none" => \A r \in MimeV1Allowed(env, sd, F) : r.class = "ok" => r.sig = "none"
WrongChecksumRejected(env, sd, F)  == env.cks = "bad64" => \A r \in MimeV1Allowed(env, sd, F) : r.class = "err"
VerifiedMeansAuthentic(env, sd, F) ==
  \A r \in MimeV1Allowed(env, sd, F) : r.class = "ok" /\ r.sig = "valid" => Authentic(env.cms, IF sd = "other" THEN OtherContent(env.c) ELSE env.c)

\* ===========================================================================
\* fault enumeration (S3): codes 0 = Err, 1 = Ok without a verified signature (verify: !is_valid; mime: no signature
\* info), 4 = mime: Ok with signature info, !is_valid, 2 = verified, 3 = panic.  Positions and regions are 0-based,
\* regions are half-open [lo, hi).
\* ===========================================================================
InRanges(b, rs) == \E i \in 1..Len(rs) : rs[i][1] <= b /\ b < rs[i][2]
Ranges(regions, names) == {n \in names : n \in DOMAIN regions}
InRegion(b, regions, names) == \E n \in Ranges(regions, names) : InRanges(b, regions[n])
MaxHi(rs) == IF rs = <<>> THEN 0 ELSE LET S == {rs[i][2] : i \in 1..Len(rs)} IN CHOOSE x \in S : \A y \in S : y <= x

NotVerified(code) == code \in {0, 1, 4}
JudgedNames == {"sig", "mod", "exp", "data"}

\* the positions (1-based indices into codes) whose outcome is judged
FaultJudged(e) ==
  CASE e.fault = "flip"  -> {p \in 1..Len(e.codes) : InRegion((p - 1) \div 8, e.regions, JudgedNames)}
    [] e.fault = "trunc" -> IF e.target = "resp"
                            THEN {p \in 1..Len(e.codes) : "sig" \in DOMAIN e.regions /\ (p - 1) < MaxHi(e.regions["sig"])}
                            ELSE 1..Len(e.codes)
    [] e.fault = "ext"   -> IF e.target = "data" THEN 1..Len(e.codes) ELSE {}
FaultShape(e) ==
  /\ e.base = 2                                  \* the undamaged input verifies: the enumeration is not vacuous
  /\ Len(e.codes) = (CASE e.fault = "flip" -> 8 * e.n [] e.fault = "trunc" -> e.n [] OTHER -> 5)
FaultOK(e) ==
  /\ FaultShape(e)
  /\ \A p \in 1..Len(e.codes) : e.codes[p] # 3
  /\ \A p \in FaultJudged(e) : NotVerified(e.codes[p])

\* ===========================================================================
\* C. certificate / OCSP endpoint names and the fetcher
\* ===========================================================================
HexDigits == {"0", "1", "2", "3", "4", "5", "6", "7", "8", "9", "a", "b", "c", "d", "e", "f", "A", "B", "C", "D", "E", "F"}
CharAt(s, i) == SubSeq(s, i, i)
IsHexId(s) == Len(s) > 0 /\ \A i \in 1..Len(s) : CharAt(s, i) \in HexDigits
CRLF == "\r\n"
\* a command line as received by the server: the code ends it with CR LF, ribbit.md says "command + \n": both are the line
IsLine(c, x) == c = x \o CRLF \/ c = x \o "\n"
Prefix(via) == IF via = "ski" THEN "v1/certs/" ELSE "v1/ocsp/"
CertName(via, id) == Prefix(via) \o id
CertCmd(via, id) == CertName(via, id) \o CRLF
\*   FX07d: "certs/<id>" / "ocsp/<id>" (no "v1/"), and the identifier is pasted in whatever it contains
AsIsCertName(via, id) == (IF via = "ski" THEN "certs/" ELSE "ocsp/") \o id
AsIsCertCmd(via, id) == AsIsCertName(via, id) \o CRLF
OneLine(cmd) == /\ Len(cmd) >= 2 /\ CharAt(cmd, Len(cmd)) = "\n"
                /\ \A i \in 1..(Len(cmd) - 1) : CharAt(cmd, i) \in {"\r", "\n"} => (i = Len(cmd) - 1 /\ CharAt(cmd, i) = "\r")
Lines(cmd) == Cardinality({i \in 1..Len(cmd) : CharAt(cmd, i) = "\n"})

PemCmdsOK(via, id, cmds, F) ==
  \/ "FX07d" \in F /\ Len(cmds) = 1 /\ IsLine(cmds[1], AsIsCertName(via, id))
  \/ "FX07d" \notin F /\ IF IsHexId(id) THEN Len(cmds) = 1 /\ IsLine(cmds[1], CertName(via, id))
                         ELSE cmds = <<>> \/ (Len(cmds) = 1 /\ OneLine(cmds[1]))

\* the answers: which ones carry a complete PEM block of the certificate, which ones none
PemGood  == {"pem", "pem_text", "mime", "two"}
PemBad   == {"endonly", "nopem", "noend", "badb64", "cutder", "empty", "nonutf8", "close"}
PemEither == {"endfirst"}       \* a stray END marker in front of a complete block: finding the block or refusing are both fine
\*   FX07e: an END marker in front of the BEGIN marker makes the slice panic
PemAsIsPanics == {"endfirst", "endonly"}
PemClassOK(t, cmds, class, F) ==
  IF "FX07e" \in F THEN t \in PemAsIsPanics /\ class = "panic"
  ELSE IF cmds = <<>> THEN class = "err"
  ELSE CASE t \in PemGood   -> class = "ok"
         [] t \in PemBad    -> class = "err"
         [] t \in PemEither -> class \in {"ok", "err"}
PemFields == {"subject", "issuer", "serial", "ski", "alg", "key_md5", "bits"}

\* ===========================================================================
\* R. request formatting
\* ===========================================================================
StartsWith(s, p) == Len(s) >= Len(p) /\ SubSeq(s, 1, Len(p)) = p
TactPath(e) == IF StartsWith(e, "v1/products/") THEN SubSeq(e, 12, Len(e))
               ELSE IF StartsWith(e, "/") THEN e ELSE "/" \o e
EndpointChars == HexDigits \cup {"g", "h", "i", "j", "k", "l", "m", "n", "o", "p", "q", "r", "s", "t", "u", "v", "w", "x", "y", "z",
                                 "G", "H", "I", "J", "K", "L", "M", "N", "O", "P", "Q", "R", "S", "T", "U", "V", "W", "X", "Y", "Z",
                                 "/", "_", "-", "."}
ValidEndpoint(e) == Len(e) > 0 /\ \A i \in 1..Len(e) : CharAt(e, i) \in EndpointChars
TcpOnly(e) == StartsWith(e, "v1/summary") \/ StartsWith(e, "v1/certs/") \/ StartsWith(e, "v1/ocsp/")
TactClass(code, bodyOk) ==
  CASE code = 200 /\ bodyOk  -> [class |-> "ok", kind |-> "-"]
    [] code = 200 /\ ~bodyOk -> [class |-> "err", kind |-> "Parse"]
    [] code = 429            -> [class |-> "err", kind |-> "RateLimited"]
    [] code = 503            -> [class |-> "err", kind |-> "ServiceUnavailable"]
    [] code \in 500..599     -> [class |-> "err", kind |-> "ServerError"]
    [] OTHER                 -> [class |-> "err", kind |-> "HttpStatus"]

\* ===========================================================================
\* A. archive index / data downloads (URL layout; the cache machine instantiates C13's CdnExplains)
\* ===========================================================================
Level1(k) == IF Len(k) >= 2 THEN SubSeq(k, 1, 2) ELSE k
Level2(k) == IF Len(k) >= 4 THEN SubSeq(k, 3, 4) ELSE ""
DataPath(base, k)  == "/" \o base \o "/data/" \o Level1(k) \o "/" \o Level2(k) \o "/" \o k
IndexPath(base, k) == DataPath(base, k) \o ".index"
CdnPath(kind, base, k) == IF kind = "idx" THEN IndexPath(base, k) ELSE DataPath(base, k)
CdnBody(path) == "BODY:" \o path
WellFormedKey(k) == Len(k) = 32 /\ IsHexId(k)
=============================================================================
