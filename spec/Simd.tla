-------------------------------- MODULE Simd --------------------------------
(***************************************************************************)
(* What the memory helpers of cascette-cache's simd module compute, as     *)
(* definitions over byte sequences (binding E of C09).  The property is    *)
(* that every accelerated path returns exactly what the portable path      *)
(* returns; these definitions say what that common value is wherever the   *)
(* meaning of the operation leaves no choice.  Results are encoded as the  *)
(* driver logs them: orderings -1/0/1, Option<usize> as -1 or the 0-based  *)
(* index.                                                                  *)
(***************************************************************************)
EXTENDS Naturals, Integers, Sequences, FiniteSets

SimdMin(S) == CHOOSE x \in S : \A y \in S : x <= y

\* first 1-based index where a and b (same length) differ, 0 if none
FirstDiff(a, b) ==
  LET D == {i \in 1..Len(a) : a[i] # b[i]} IN IF D = {} THEN 0 ELSE SimdMin(D)

\* lexicographic comparison of byte strings of equal length
MemcmpEq(a, b) ==
  LET d == FirstDiff(a, b) IN IF d = 0 THEN 0 ELSE IF a[d] < b[d] THEN -1 ELSE 1

\* Admissible results of vectorized_memcmp.  Equal lengths: the lexicographic
\* order.  Different lengths: the API does not say whether length or content
\* decides; any answer other than "equal" is admissible for the portable path
\* (and the accelerated paths must then repeat the portable answer).
MemcmpOk(a, b, r) ==
  IF Len(a) = Len(b) THEN r = MemcmpEq(a, b) ELSE r \in {-1, 1}

MemEqual(a, b) == a = b

MatchAt(h, n, i) == \A j \in 1..Len(n) : h[i + j - 1] = n[j]

\* 0-based index of the first occurrence of n in h, -1 if there is none; the empty needle is found at 0
Memmem(h, n) ==
  IF Len(n) = 0 THEN 0
  ELSE IF Len(n) > Len(h) THEN -1
  ELSE LET C == {i \in 1..(Len(h) - Len(n) + 1) : h[i] = n[1] /\ MatchAt(h, n, i)}
       IN IF C = {} THEN -1 ELSE SimdMin(C) - 1

\* memset / memcpy are run on the window (off, off+n] (1-based: off+1..off+n) of a
\* larger buffer; the bytes around the window are a guard band that must survive.
InWindow(i, off, n) == i > off /\ i <= off + n

MemsetBuf(buf, off, n, v) == [i \in 1..Len(buf) |-> IF InWindow(i, off, n) THEN v ELSE buf[i]]

\* Source as long as the window: the window becomes the source.  Different
\* lengths are outside memcpy's meaning: whatever the portable path does (it
\* copies the common prefix) is admissible, the accelerated paths must repeat
\* it - but nothing outside the window may change in any case.
MemcpyBufOk(buf, off, n, src, r) ==
  /\ Len(r) = Len(buf)
  /\ \A i \in 1..Len(buf) : ~InWindow(i, off, n) => r[i] = buf[i]
  /\ Len(src) = n => \A i \in 1..n : r[off + i] = src[i]
=============================================================================
