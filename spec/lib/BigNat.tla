------------------------------- MODULE BigNat -------------------------------
(***************************************************************************)
(* Natural numbers of any size for specifications whose quantities are     *)
(* 64- and 128-bit machine integers (TLC integers are 32-bit signed).      *)
(*                                                                         *)
(* A number is the sequence of its base-10000 digits ("limbs"), least      *)
(* significant first, without trailing zero limbs; zero is <<>>.  The      *)
(* representation is canonical, so equality of numbers is equality of      *)
(* sequences.  Every intermediate value stays below 2^31                   *)
(* (limb * limb + limb + carry < 10^8 + 2*10^4).                           *)
(*                                                                         *)
(* Drivers log u64 / usize / u128 values in exactly this form (JSON array  *)
(* of integers), so no conversion happens inside TLC.                      *)
(***************************************************************************)
EXTENDS Naturals, Sequences

BnB == 10000

BnZero == <<>>
BnOne  == <<1>>

BnIs(a) == /\ a \in Seq(0..(BnB - 1))
           /\ (Len(a) > 0 => a[Len(a)] # 0)

RECURSIVE BnNorm(_)
BnNorm(q) == IF q = <<>> THEN q
             ELSE IF q[Len(q)] = 0 THEN BnNorm(SubSeq(q, 1, Len(q) - 1)) ELSE q

\* from a TLC integer 0 <= n < 2^31
RECURSIVE BnOfNat(_)
BnOfNat(n) == IF n = 0 THEN <<>> ELSE <<n % BnB>> \o BnOfNat(n \div BnB)

BnLimb(a, i) == IF i <= Len(a) THEN a[i] ELSE 0

\* ---- order ------------------------------------------------------------------
RECURSIVE BnCmpAt(_, _, _)
BnCmpAt(a, b, i) ==      \* compare limbs i, i-1, .., 1 of two numbers of equal length
  IF i = 0 THEN 0
  ELSE IF a[i] < b[i] THEN 0 - 1
  ELSE IF a[i] > b[i] THEN 1
  ELSE BnCmpAt(a, b, i - 1)
BnCmp(a, b) == IF Len(a) < Len(b) THEN 0 - 1
               ELSE IF Len(a) > Len(b) THEN 1
               ELSE BnCmpAt(a, b, Len(a))
BnLeq(a, b) == BnCmp(a, b) <= 0
BnLt(a, b)  == BnCmp(a, b) < 0
BnMin(a, b) == IF BnLeq(a, b) THEN a ELSE b
BnMax(a, b) == IF BnLeq(a, b) THEN b ELSE a

\* ---- addition / subtraction -----------------------------------------------------
RECURSIVE BnAddAt(_, _, _, _, _)
BnAddAt(a, b, i, c, acc) ==
  IF i > Len(a) /\ i > Len(b) THEN (IF c > 0 THEN Append(acc, c) ELSE acc)
  ELSE LET t == BnLimb(a, i) + BnLimb(b, i) + c
       IN BnAddAt(a, b, i + 1, t \div BnB, Append(acc, t % BnB))
BnAdd(a, b) == IF a = <<>> THEN b ELSE IF b = <<>> THEN a ELSE BnAddAt(a, b, 1, 0, <<>>)
BnInc(a) == BnAdd(a, BnOne)

RECURSIVE BnSubAt(_, _, _, _, _)
BnSubAt(a, b, i, br, acc) ==          \* a >= b
  IF i > Len(a) THEN acc
  ELSE LET t == a[i] - BnLimb(b, i) - br
       IN IF t < 0 THEN BnSubAt(a, b, i + 1, 1, Append(acc, t + BnB))
                   ELSE BnSubAt(a, b, i + 1, 0, Append(acc, t))
\* a - b, stopping at zero
BnSubSat(a, b) == IF BnLeq(a, b) THEN <<>> ELSE BnNorm(BnSubAt(a, b, 1, 0, <<>>))
\* |a - b|
BnDist(a, b) == IF BnLeq(a, b) THEN BnSubSat(b, a) ELSE BnSubSat(a, b)
\* min(a + b, m)
BnSatAdd(a, b, m) == BnMin(BnAdd(a, b), m)

\* ---- multiplication -------------------------------------------------------------
RECURSIVE BnMulSmallAt(_, _, _, _, _)
BnMulSmallAt(a, m, i, c, acc) ==       \* 0 <= m < BnB
  IF i > Len(a) THEN (IF c > 0 THEN Append(acc, c) ELSE acc)
  ELSE LET t == a[i] * m + c
       IN BnMulSmallAt(a, m, i + 1, t \div BnB, Append(acc, t % BnB))
BnMulSmall(a, m) == IF m = 0 \/ a = <<>> THEN <<>> ELSE BnMulSmallAt(a, m, 1, 0, <<>>)

BnShift(a, k) == IF a = <<>> THEN a ELSE [i \in 1..k |-> 0] \o a     \* a * BnB^k

RECURSIVE BnMulAt(_, _, _, _)
BnMulAt(a, b, i, acc) ==
  IF i > Len(b) THEN acc
  ELSE BnMulAt(a, b, i + 1, BnAdd(acc, BnShift(BnMulSmall(a, b[i]), i - 1)))
BnMul(a, b) == IF a = <<>> \/ b = <<>> THEN <<>> ELSE BnMulAt(a, b, 1, <<>>)

\* q = floor(t / n), stated without division
BnIsQuot(q, t, n) == /\ n # <<>>
                     /\ BnLeq(BnMul(q, n), t)
                     /\ BnLt(t, BnMul(BnInc(q), n))

\* ---- digits -> number -------------------------------------------------------------
\* most significant digit first, radix r <= 16
RECURSIVE BnOfDigitsAt(_, _, _, _)
BnOfDigitsAt(ds, r, i, acc) ==
  IF i > Len(ds) THEN acc
  ELSE BnOfDigitsAt(ds, r, i + 1, BnAdd(BnMulSmall(acc, r), BnOfNat(ds[i])))
BnOfDigits(ds, r) == BnOfDigitsAt(ds, r, 1, <<>>)

\* well-known constants
Bn2p20 == BnOfNat(1048576)
Bn2p32 == <<7296, 9496, 42>>                     \* 4 294 967 296
BnU32Max == <<7295, 9496, 42>>
BnU64Max == <<1615, 955, 737, 6744, 1844>>       \* 18 446 744 073 709 551 615
Bn2p64   == <<1616, 955, 737, 6744, 1844>>
Bn1e9    == <<0, 0, 10>>
=============================================================================
