-------------------------------- MODULE W32 --------------------------------
(***************************************************************************)
(* 32-bit machine words for executable definitions of hashes and ciphers.  *)
(*                                                                         *)
(* TLC integers are 32-bit signed, so an unsigned 32-bit word is the pair  *)
(* <<hi16, lo16>> of its 16-bit halves; every intermediate value below     *)
(* stays under 2^31.  Bytes are integers 0..255; byte strings are          *)
(* sequences of bytes.  Bitwise operators on the halves come from the      *)
(* CommunityModules `Bitwise' module (Java overrides for & | ^^).          *)
(***************************************************************************)
EXTENDS Naturals, Integers, Sequences, Bitwise

M16 == 65536

IsByte(b) == b \in 0..255
IsW32(w)  == /\ w \in Seq(Nat) /\ Len(w) = 2 /\ w[1] \in 0..65535 /\ w[2] \in 0..65535

\* word from a small non-negative integer (0 <= n < 2^31)
WOfNat(n) == <<n \div M16, n % M16>>
WZero == <<0, 0>>

WAdd(a, b) ==
  LET lo == a[2] + b[2]
      hi == a[1] + b[1] + (lo \div M16)
  IN <<hi % M16, lo % M16>>

WSub(a, b) ==
  LET lo == a[2] - b[2]
      br == IF lo < 0 THEN 1 ELSE 0
  IN <<(a[1] - b[1] - br + 2 * M16) % M16, (lo + M16) % M16>>

WXor(a, b) == <<a[1] ^^ b[1], a[2] ^^ b[2]>>
WAnd(a, b) == <<a[1] & b[1], a[2] & b[2]>>
WOr(a, b)  == <<a[1] | b[1], a[2] | b[2]>>
WNot(a)    == <<65535 - a[1], 65535 - a[2]>>

\* rotate left by k, 0 <= k < 32
RotS(a, k) ==   \* 0 <= k < 16
  IF k = 0 THEN a
  ELSE LET p == 2 ^ k
           q == 2 ^ (16 - k)
       IN <<((a[1] * p) % M16) + (a[2] \div q), ((a[2] * p) % M16) + (a[1] \div q)>>
WRotl(a, k) == IF k < 16 THEN RotS(a, k) ELSE RotS(<<a[2], a[1]>>, k - 16)

\* little-endian conversions
WFromLE(b0, b1, b2, b3) == <<b3 * 256 + b2, b1 * 256 + b0>>
WToLE(w) == <<w[2] % 256, w[2] \div 256, w[1] % 256, w[1] \div 256>>
\* big-endian byte sequence of a word
WToBE(w) == <<w[1] \div 256, w[1] % 256, w[2] \div 256, w[2] % 256>>

\* byte j (1-based) of byte string k, zero beyond its end
ByteOr0(k, j) == IF j <= Len(k) THEN k[j] ELSE 0
\* little-endian word at 1-based offset j of k, zero padded
WAtLE(k, j) == WFromLE(ByteOr0(k, j), ByteOr0(k, j + 1), ByteOr0(k, j + 2), ByteOr0(k, j + 3))

\* 64-bit counter as <<lowWord, highWord>>, plus a small natural
C64Add(c, n) ==
  LET lo  == WAdd(c[1], WOfNat(n))
      \* carry iff the 32-bit sum wrapped: lo < c[1] (as unsigned words), n < 2^31
      lt  == lo[1] < c[1][1] \/ (lo[1] = c[1][1] /\ lo[2] < c[1][2])
  IN <<lo, IF lt THEN WAdd(c[2], <<0, 1>>) ELSE c[2]>>
=============================================================================
