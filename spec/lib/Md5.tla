-------------------------------- MODULE Md5 --------------------------------
(***************************************************************************)
(* MD5 message digest, RFC 1321 (binding E of C09: ContentKey::from_data   *)
(* and EncodingKey::from_data must be the MD5 of exactly the bytes given). *)
(*                                                                         *)
(* 3.1/3.2  padding: 0x80, zeros to 56 mod 64, 64-bit little-endian bit    *)
(*          length                                                         *)
(* 3.3      A = 67452301, B = efcdab89, C = 98badcfe, D = 10325476         *)
(* 3.4      64 steps per 16-word block, a = b + ((a + f(b,c,d) + X[k] +    *)
(*          T[i]) <<< s), T[i] = floor(2^32 * abs(sin(i)))                 *)
(* 3.5      output A,B,C,D little-endian                                   *)
(* Messages are shorter than 2^28 bytes here (bit length below 2^31).      *)
(***************************************************************************)
EXTENDS W32

Md5T == <<
   <<55146, 42104>>, <<59591, 46934>>, <<9248, 28891>>, <<49597, 52974>>,
   <<62844, 4015>>, <<18311, 50730>>, <<43056, 17939>>, <<64838, 38145>>,
   <<27008, 39128>>, <<35652, 63407>>, <<65535, 23473>>, <<35164, 55230>>,
   <<27536, 4386>>, <<64920, 29075>>, <<42617, 17294>>, <<18868, 2081>>,
   <<63006, 9570>>, <<49216, 45888>>, <<9822, 23121>>, <<59830, 51114>>,
   <<54831, 4189>>, <<580, 5203>>, <<55457, 59009>>, <<59347, 64456>>,
   <<8673, 52710>>, <<49975, 2006>>, <<62677, 3463>>, <<17754, 5357>>,
   <<43491, 59653>>, <<64751, 41976>>, <<26479, 729>>, <<36138, 19594>>,
   <<65530, 14658>>, <<34673, 63105>>, <<28061, 24866>>, <<64997, 14348>>,
   <<42174, 59972>>, <<19422, 53161>>, <<63163, 19296>>, <<48831, 48240>>,
   <<10395, 32454>>, <<60065, 10234>>, <<54511, 12421>>, <<1160, 7429>>,
   <<55764, 53305>>, <<59099, 39397>>, <<8098, 31992>>, <<50348, 22117>>,
   <<62505, 8772>>, <<17194, 65431>>, <<43924, 9127>>, <<64659, 41017>>,
   <<25947, 22979>>, <<36620, 52370>>, <<65519, 62589>>, <<34180, 24017>>,
   <<28584, 32335>>, <<65068, 59104>>, <<41729, 17172>>, <<19976, 4513>>,
   <<63315, 32386>>, <<48442, 62005>>, <<10967, 53947>>, <<60294, 54161>> >>

\* per-round shift amounts (RFC 1321 S11..S44)
Md5S == << <<7, 12, 17, 22>>, <<5, 9, 14, 20>>, <<4, 11, 16, 23>>, <<6, 10, 15, 21>> >>

Md5F(x, y, z) == WOr(WAnd(x, y), WAnd(WNot(x), z))
Md5G(x, y, z) == WOr(WAnd(x, z), WAnd(y, WNot(z)))
Md5H(x, y, z) == WXor(WXor(x, y), z)
Md5I(x, y, z) == WXor(y, WOr(x, WNot(z)))

\* step i = 0..63 on registers r = <<a,b,c,d>> with block words X (16 words, 1-based)
Md5Step(r, X, i) ==
  LET rnd == i \div 16
      k   == CASE rnd = 0 -> i % 16
               [] rnd = 1 -> (5 * i + 1) % 16
               [] rnd = 2 -> (3 * i + 5) % 16
               [] rnd = 3 -> (7 * i) % 16
      f   == CASE rnd = 0 -> Md5F(r[2], r[3], r[4])
               [] rnd = 1 -> Md5G(r[2], r[3], r[4])
               [] rnd = 2 -> Md5H(r[2], r[3], r[4])
               [] rnd = 3 -> Md5I(r[2], r[3], r[4])
      s   == Md5S[rnd + 1][(i % 4) + 1]
      t   == WAdd(WAdd(WAdd(r[1], f), X[k + 1]), Md5T[i + 1])
      a2  == WAdd(r[2], WRotl(t, s))
  IN <<r[4], a2, r[2], r[3]>>       \* (a,b,c,d) <- (d, new, b, c)

\* steps i..i+3 (recursion kept shallow: TLC slows down on deep recursion)
Md5Four(r, X, i) == Md5Step(Md5Step(Md5Step(Md5Step(r, X, i), X, i + 1), X, i + 2), X, i + 3)
RECURSIVE Md5Steps(_, _, _)
Md5Steps(r, X, i) == IF i = 64 THEN r ELSE Md5Steps(Md5Four(r, X, i), X, i + 4)

\* process the 64-byte block starting at 0-based offset off of padded message p
Md5Block(r, p, off) ==
  LET X  == [w \in 1..16 |-> WFromLE(p[off + 4 * w - 3], p[off + 4 * w - 2], p[off + 4 * w - 1], p[off + 4 * w])]
      r2 == Md5Steps(r, X, 0)
  IN <<WAdd(r[1], r2[1]), WAdd(r[2], r2[2]), WAdd(r[3], r2[3]), WAdd(r[4], r2[4])>>

RECURSIVE Md5Blocks(_, _, _)
Md5Blocks(r, p, off) == IF off >= Len(p) THEN r ELSE Md5Blocks(Md5Block(r, p, off), p, off + 64)

Md5Pad(m) ==
  LET n     == Len(m)
      zeros == (55 - n) % 64                 \* n + 1 + zeros = 56 (mod 64)
      bits  == WToLE(WOfNat(8 * n))
  IN m \o <<128>> \o [z \in 1..zeros |-> 0] \o bits \o <<0, 0, 0, 0>>

Md5Init == << <<26437, 8961>>, <<61389, 43913>>, <<39098, 56574>>, <<4146, 21622>> >>

\* the 16 digest bytes
Md5Digest(m) ==
  LET r == Md5Blocks(Md5Init, Md5Pad(m), 0)
  IN WToLE(r[1]) \o WToLE(r[2]) \o WToLE(r[3]) \o WToLE(r[4])
=============================================================================
