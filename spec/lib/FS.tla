---------------------------------- MODULE FS ----------------------------------
(***************************************************************************)
(* A crash-consistent file system at the granularity of property C06.      *)
(*                                                                         *)
(* Contents are not bytes but sequences of EXTENTS <<src, off, len>>: "len *)
(* bytes starting at offset off of source src".  A source is the content   *)
(* of a file before the save started ("pre:<name>"), the data of one write *)
(* event ("w<event index>", or an abstract tag in CrashSave.tla) or "zero".*)
(* The same operators therefore serve the abstract protocol models (short  *)
(* extents, TLC checks Recover \in {Old, New}) and the trace stepper       *)
(* T_CrashFS, whose crash states are post-crash directories that the       *)
(* driver can build byte-exactly without knowing anything about crashes.   *)
(*                                                                         *)
(* Crash model = the quantifier of C06:                                    *)
(*   - directory operations executed before the crash instant HAVE happened*)
(*     (create, rename, unlink, mkdir);                                    *)
(*   - file content that was not fsync'ed is replaced by                   *)
(*       "prefix": the first j un-synced operations on the file and the    *)
(*                 first m bytes of operation j+1 (every j, m: this is the *)
(*                 crash INSIDE a write as well as between writes; for the *)
(*                 usual create/truncate + sequential writes it is exactly *)
(*                 "every prefix of the new content"),                     *)
(*       "zeros" : the new length with the un-synced bytes reading as 0,   *)
(*       "stale" : the durable bytes (none of the un-synced operations),   *)
(*       "full"  : everything arrived.                                     *)
(* Strict variant (DirOpsPrefix, informational only): additionally only a  *)
(* prefix of the directory operations since the last directory fsync has   *)
(* reached the disk.                                                       *)
(***************************************************************************)
EXTENDS Naturals, Sequences, FiniteSets, TLC

CONSTANTS FineLimit,   \* files with a volatile length <= FineLimit: every prefix length
          SampleSeed,  \* above: write boundaries +-1 and SampleN seeded lengths per write
          SampleN

Ext(src, off, len) == [src |-> src, off |-> off, len |-> len]
Zeros(n) == IF n = 0 THEN <<>> ELSE <<Ext("zero", 0, n)>>

RECURSIVE CLen(_)
CLen(c) == IF c = <<>> THEN 0 ELSE Head(c).len + CLen(Tail(c))

RECURSIVE Take(_, _)
Take(c, n) ==
  IF n = 0 \/ c = <<>> THEN <<>>
  ELSE IF Head(c).len <= n THEN <<Head(c)>> \o Take(Tail(c), n - Head(c).len)
  ELSE <<[Head(c) EXCEPT !.len = n]>>

RECURSIVE Drop(_, _)
Drop(c, n) ==
  IF c = <<>> THEN <<>>
  ELSE IF n = 0 THEN c
  ELSE IF Head(c).len <= n THEN Drop(Tail(c), n - Head(c).len)
  ELSE <<[Head(c) EXCEPT !.off = @ + n, !.len = @ - n]>> \o Tail(c)

\* canonical form: no empty extents, adjacent pieces of one source merged
Joins(a, b) == a.src = b.src /\ (a.src = "zero" \/ a.off + a.len = b.off)
RECURSIVE Norm(_)
Norm(c) ==
  IF c = <<>> THEN <<>>
  ELSE IF Head(c).len = 0 THEN Norm(Tail(c))
  ELSE IF Len(c) = 1 THEN c
  ELSE IF c[2].len = 0 THEN Norm(<<c[1]>> \o SubSeq(c, 3, Len(c)))
  ELSE IF Joins(c[1], c[2])
       THEN Norm(<<[c[1] EXCEPT !.len = @ + c[2].len]>> \o SubSeq(c, 3, Len(c)))
  ELSE <<c[1]>> \o Norm(Tail(c))

Overlay(c, off, e) ==
  IF e.len = 0 THEN c
  ELSE LET n == CLen(c)
           base == IF off > n THEN c \o Zeros(off - n) ELSE c
       IN Norm(Take(base, off) \o <<e>> \o Drop(base, off + e.len))

(* un-synced operations of an inode *)
OpWrite(off, len, src) == [k |-> "write", off |-> off, len |-> len, src |-> src]
OpTrunc(len)           == [k |-> "trunc", off |-> 0, len |-> len, src |-> ""]
OpUtime(tag)           == [k |-> "utime", off |-> 0, len |-> 0, src |-> tag]   \* set the modification time

ApplyOp(c, op, zero) ==
  IF op.k = "utime" THEN c
  ELSE IF op.k = "trunc"
  THEN IF op.len <= CLen(c) THEN Take(c, op.len) ELSE Norm(c \o Zeros(op.len - CLen(c)))
  ELSE Overlay(c, op.off, IF zero THEN Ext("zero", 0, op.len) ELSE Ext(op.src, 0, op.len))

RECURSIVE ApplyOps(_, _, _)
ApplyOps(c, ops, zero) ==
  IF ops = <<>> THEN c ELSE ApplyOps(ApplyOp(c, Head(ops), zero), Tail(ops), zero)

(***************************************************************************)
(* Modification time (DiskCache keeps an entry's expiry there): a TAG, not *)
(* a number - "pre:<name>" (what the file carried before the save),        *)
(* "t<event>" (the value an utimensat call set) or "now" (never set        *)
(* explicitly since the last change of the content: the time of the write).*)
(* It is inode metadata: durable with fsync, otherwise it follows the      *)
(* prefix of un-synced operations that reached the disk.                   *)
(***************************************************************************)
RECURSIVE MtAfter(_, _)
MtAfter(mt, ops) ==
  IF ops = <<>> THEN mt
  ELSE MtAfter(IF Head(ops).k = "utime" THEN Head(ops).src ELSE "now", Tail(ops))

Inode(dur, mt) == [dur |-> dur, pend |-> <<>>, mt |-> mt]
Vol(i) == ApplyOps(i.dur, i.pend, FALSE)
VolMt(i) == MtAfter(i.mt, i.pend)

(***************************************************************************)
(* File-system state: dir (name -> inode index), dirs (directory names),   *)
(* ino (all inodes ever created), dlog (directory states before each       *)
(* directory operation that is not yet covered by a directory fsync),      *)
(* npre (number of inodes that existed before the save).                   *)
(***************************************************************************)
DirView(f) == [dir |-> f.dir, dirs |-> f.dirs]
Logged(f) == Append(f.dlog, DirView(f))
Without(d, name) == [n \in DOMAIN d \ {name} |-> d[n]]

FsEmpty == [dir |-> <<>>, dirs |-> {}, ino |-> <<>>, dlog |-> <<>>, npre |-> 0]

\* files: sequence of [name, len] (the durable directory before the save), dirs: sequence of names
FsInit(files, dirs) ==
  [dir  |-> [n \in {files[i].name : i \in 1..Len(files)} |->
                CHOOSE i \in 1..Len(files) : files[i].name = n],
   dirs |-> {dirs[i] : i \in 1..Len(dirs)},
   ino  |-> [i \in 1..Len(files) |->
                Inode(IF files[i].len = 0 THEN <<>> ELSE <<Ext("pre:" \o files[i].name, 0, files[i].len)>>,
                      "pre:" \o files[i].name)],
   dlog |-> <<>>,
   npre |-> Len(files)]     \* inodes above npre were created by the save itself

Exists(f, name) == name \in DOMAIN f.dir
Ino(f, name) == f.ino[f.dir[name]]
AddOp(f, name, op) == [f EXCEPT !.ino[f.dir[name]].pend = Append(@, op)]

FsOpen(f, name, creat, trunc) ==
  IF Exists(f, name)
  THEN IF trunc /\ CLen(Vol(Ino(f, name))) > 0 THEN AddOp(f, name, OpTrunc(0)) ELSE f
  ELSE IF creat
       THEN [f EXCEPT !.ino = Append(@, Inode(<<>>, "now")),
                      !.dir = (name :> (Len(f.ino) + 1)) @@ @,
                      !.dlog = Logged(f)]
       ELSE f
FsWrite(f, name, off, len, src) == IF len = 0 THEN f ELSE AddOp(f, name, OpWrite(off, len, src))
FsTrunc(f, name, len) == AddOp(f, name, OpTrunc(len))
FsUtime(f, name, tag) == AddOp(f, name, OpUtime(tag))
FsSync(f, name) == [f EXCEPT !.ino[f.dir[name]] = Inode(Vol(@), VolMt(@))]
FsRename(f, a, b) == [f EXCEPT !.dir = (b :> f.dir[a]) @@ Without(@, a), !.dlog = Logged(f)]
FsUnlink(f, name) == [f EXCEPT !.dir = Without(@, name), !.dlog = Logged(f)]
FsMkdir(f, name) == [f EXCEPT !.dirs = @ \cup {name}, !.dlog = Logged(f)]
FsRmdir(f, name) == [f EXCEPT !.dirs = @ \ {name}, !.dlog = Logged(f)]
FsDirSync(f) == [f EXCEPT !.dlog = <<>>]
\* everything volatile becomes durable (a completed earlier save that has long reached the disk)
FsQuiesce(f) == [f EXCEPT !.ino = [i \in DOMAIN @ |-> Inode(Vol(@[i]), VolMt(@[i]))], !.dlog = <<>>]

(***************************************************************************)
(* Events: the vocabulary shared by the recorded system calls (T_CrashFS)  *)
(* and the protocol models (CrashSave).  Records carry the fields their op *)
(* needs: open{name,creat,trunc} write{name,off,len,src} trunc{name,len}   *)
(* fsync{name} rename{from,to} unlink{name} mkdir{name} rmdir{name} dirsync*)
(* utime{name,src}                                                         *)
(***************************************************************************)
Applicable(f, e) ==
  CASE e.op \in {"write", "trunc", "fsync", "unlink", "utime"} -> Exists(f, e.name)
    [] e.op = "rename" -> Exists(f, e.from)
    [] e.op \in {"open", "mkdir", "rmdir", "dirsync"} -> TRUE
    [] OTHER -> FALSE

ApplyEv(f, e) ==
  CASE e.op = "open"    -> FsOpen(f, e.name, e.creat, e.trunc)
    [] e.op = "write"   -> FsWrite(f, e.name, e.off, e.len, e.src)
    [] e.op = "trunc"   -> FsTrunc(f, e.name, e.len)
    [] e.op = "utime"   -> FsUtime(f, e.name, e.src)
    [] e.op = "fsync"   -> FsSync(f, e.name)
    [] e.op = "rename"  -> FsRename(f, e.from, e.to)
    [] e.op = "unlink"  -> FsUnlink(f, e.name)
    [] e.op = "mkdir"   -> FsMkdir(f, e.name)
    [] e.op = "rmdir"   -> FsRmdir(f, e.name)
    [] e.op = "dirsync" -> FsDirSync(f)

(***************************************************************************)
(* Crash outcomes                                                          *)
(***************************************************************************)
O(cls, j, m) == [cls |-> cls, j |-> j, m |-> m]
Coarse == {O("full", 0, 0), O("stale", 0, 0), O("zeros", 0, 0)}

Sample(n) == {(((SampleSeed % 997) + 1) * k * 7919 + k * k * 1013) % n : k \in 1..SampleN}
MLens(op, fine) ==
  IF op.k = "trunc" \/ op.len = 0 THEN {0}
  ELSE IF fine THEN 0..(op.len - 1)
  ELSE ({0, 1, op.len - 1} \cup Sample(op.len)) \cap (0..(op.len - 1))

IsFine(i) == CLen(Vol(i)) <= FineLimit

Outcomes(i, fine) ==
  IF i.pend = <<>> THEN {O("durable", 0, 0)}
  ELSE Coarse \cup
       (UNION {{O("prefix", j, m) : m \in MLens(i.pend[j + 1], fine)} : j \in 0..(Len(i.pend) - 1)}
          \ {O("prefix", 0, 0)})    \* (0,0) is "stale"

ContentOf(i, o) ==
  CASE o.cls \in {"durable", "stale"} -> i.dur
    [] o.cls = "full"   -> Vol(i)
    [] o.cls = "zeros"  -> ApplyOps(i.dur, i.pend, TRUE)
    [] o.cls = "prefix" -> ApplyOps(i.dur,
                             SubSeq(i.pend, 1, o.j) \o
                               (IF o.m > 0 THEN <<[i.pend[o.j + 1] EXCEPT !.len = o.m]>> ELSE <<>>),
                             FALSE)

MtimeOf(i, o) ==
  CASE o.cls \in {"durable", "stale"} -> i.mt
    [] o.cls \in {"full", "zeros"}    -> VolMt(i)
    [] o.cls = "prefix" -> MtAfter(i.mt, SubSeq(i.pend, 1, o.j) \o (IF o.m > 0 THEN <<i.pend[o.j + 1]>> ELSE <<>>))

\* directory states that may be on disk
DirViews(f, strict) == IF strict THEN {DirView(f)} \cup {f.dlog[k] : k \in 1..Len(f.dlog)} ELSE {DirView(f)}

\* per-file outcome assignments for a directory state: every outcome of one
\* file combined with the coarse outcomes of the other un-synced files
Assign(f, dv) ==
  LET names == DOMAIN dv.dir
      dirty == {n \in names : f.ino[dv.dir[n]].pend # <<>>}
      clean == [n \in names \ dirty |-> O("durable", 0, 0)]
  IN IF dirty = {} THEN {clean}
     ELSE UNION {{clean @@ (x :> o) @@ g :
                     o \in Outcomes(f.ino[dv.dir[x]], IsFine(f.ino[dv.dir[x]])),
                     g \in [dirty \ {x} -> Coarse]} : x \in dirty}

FileRec(f, dv, name, o) ==
  LET i == f.ino[dv.dir[name]]
      c == ContentOf(i, o)
  IN [name |-> name, cls |-> o.cls, len |-> CLen(c), vlen |-> CLen(Vol(i)), dlen |-> CLen(i.dur),
      born |-> dv.dir[name] > f.npre,   \* created by the save under study
      mt |-> MtimeOf(i, o),             \* modification time tag
      parts |-> c]

\* the post-crash disk: what a recovery will find
Disk(f, dv, a) == [dirs |-> dv.dirs, files |-> {FileRec(f, dv, n, a[n]) : n \in DOMAIN dv.dir}]
CrashDisks(f, strict) == UNION {{Disk(f, dv, a) : a \in Assign(f, dv)} : dv \in DirViews(f, strict)}
=============================================================================
