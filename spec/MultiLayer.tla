----------------------------- MODULE MultiLayer -----------------------------
(***************************************************************************)
(* C12 - layered caching (cascette-cache::multi_layer::MultiLayerCacheImpl) *)
(* is coherent, never serves content that fails validation, and every call *)
(* returns.                                                                *)
(*                                                                         *)
(* PART 1 - property level.  The abstract state of a layered cache is      *)
(*   L : a sequence (fastest layer first) of maps  key -> value | None,    *)
(* i.e. what get_from_layer(k, i) answers now.  The property is written as *)
(* RELATIONS  LayerOk(C, g, L, e, M)  between the state before a call, the *)
(* call with its result (event record e) and the state after it, so that   *)
(* everything the statement leaves open stays open: which entries a full   *)
(* layer evicts, whether a hit is promoted to faster layers, whether a put *)
(* also writes or invalidates slower layers, error kinds.  A ghost record  *)
(* g (a function of the operations and results only) remembers, per key,   *)
(* which values are fresh (value of the latest put), which values a        *)
(* whole-cache put left behind in some layer (stale), and the TTL / fault  *)
(* bookkeeping.  Verdict(..) classifies one call; it is the ONLY judge,    *)
(* used both by the trace monitor T_MultiLayer on executions of the real   *)
(* code and by MC_MultiLayer on the code-shaped machine of part 2.         *)
(*                                                                         *)
(* PART 2 - code-shaped machine.  One action per API call, except `get`,   *)
(* which is split into the steps of MultiLayerCacheImpl::get (scan the     *)
(* layers, take the promotion tracker's write lock, update the tracker,    *)
(* should_promote = take the tracker's read lock, release) so that TLC     *)
(* sees the self-deadlock (F12a).  `Fixed` selects the repaired variants.  *)
(***************************************************************************)
EXTENDS Naturals, Sequences, FiniteSets, TLC

None == "none"
Bad  == "bad"          \* content of a disk-layer file after corrupt(k)
Nil  == "e"            \* the empty value (zero bytes); also what trunc0(k) leaves in a disk-layer file

\* ------------------------------------------------------------------ helpers
Held(Li)        == {k \in DOMAIN Li : Li[k] # None}
LayersOf(L)     == 1..Len(L)
HitLayer(L, k)  == LET S == {i \in LayersOf(L) : L[i][k] # None}
                   IN IF S = {} THEN 0 ELSE CHOOSE i \in S : \A j \in S : i <= j
First(L, k)     == LET h == HitLayer(L, k) IN IF h = 0 THEN None ELSE L[h][k]
ValsAt(L, k)    == {L[i][k] : i \in LayersOf(L)} \ {None}
SameLayer(A, B) == \A k \in DOMAIN A : B[k] = A[k]
Same(L, M)      == \A i \in LayersOf(L) : SameLayer(L[i], M[i])
SameBut(L, M, i) == \A j \in LayersOf(L) \ {i} : SameLayer(L[j], M[j])
DiskOf(C)       == LET S == {i \in 1..Len(C.kinds) : C.kinds[i] = "disk"}
                   IN IF S = {} THEN 0 ELSE CHOOSE i \in S : TRUE
IsVal(r)        == r \notin {None, "err", "panic", "ok", "true", "false"}

\* Layer configuration C: kinds, caps (max_entries), hooks, and per layer
\*   budget[i]  max_memory_bytes of a memory layer (0 = none given)
\*   policy[i]  its eviction policy: "lru" | "lfu" | "fifo" | "random" | "ttl"
\*   sizes      value name -> bytes (as the driver concretises the names)
\* The policy only says WHICH entries go; the relations leave the victim open, so it is carried for
\* the record (and for the machine of part 2, where "ttl" evicts nothing that has not expired).
Size(C, v) == IF v \in DOMAIN C.sizes THEN C.sizes[v] ELSE 1000000      \* unknown bytes: assume large
RECURSIVE SumSizes(_, _, _)
SumSizes(C, Li, S) == IF S = {} THEN 0
                      ELSE LET k == CHOOSE x \in S : TRUE IN Size(C, Li[k]) + SumSizes(C, Li, S \ {k})
Bytes(C, Li) == SumSizes(C, Li, Held(Li))
\* A layer may evict (any entries, any number: the victim is left open) when n more entries would take
\* it over 90 % of max_entries, or inB more bytes over its byte budget.
Press(C, i, Li, n, inB) ==
  \/ Cardinality(Held(Li)) + n > (C.caps[i] * 9) \div 10
  \/ C.budget[i] > 0 /\ Bytes(C, Li) + inB > C.budget[i]
\* a value that is larger than the whole byte budget of a layer need not be stored there
TooBig(C, i, v) == C.budget[i] > 0 /\ Size(C, v) > C.budget[i]
RECURSIVE ItemsBytes(_, _, _)
ItemsBytes(C, items, n) == IF n > Len(items) THEN 0 ELSE Size(C, items[n].v) + ItemsBytes(C, items, n + 1)

KeysIn(items)     == {items[i].k : i \in 1..Len(items)}
LastVal(items, k) == items[CHOOSE i \in 1..Len(items) :
                            items[i].k = k /\ \A j \in (i+1)..Len(items) : items[j].k # k].v

\* ------------------------------------------------------------ ghost record
\* fresh[k]  values a get(k) may answer: the latest whole-cache put's value,
\*           plus values put into a named layer / produced by a file fault since
\* stale[k]  values some layer still held when a whole-cache put of another
\*           value for k completed (signature of F12b when one is served)
\* del       <<layer, key>>: the file of the key in that disk layer was deleted (an error is tolerated from
\*           that layer, and from a lookup that finds the key nowhere)
\* mayx/mustx  <<layer, key>> entries that may / must be gone by the next tick
\* trk       keys with a promotion-tracker entry, as the current code keeps it
\*           (only used in the guard of F12a)
G0(keys) == [fresh |-> [k \in keys |-> {}], stale |-> [k \in keys |-> {}],
             del |-> {}, mayx |-> {}, mustx |-> {}, trk |-> {}]

\* ------------------------------------------------ part 1: the relations
\* writing k |-> v into one layer
LayerPutOk(C, i, Li, Mi, k, v) ==
  /\ Mi[k] = v \/ (Mi[k] = None /\ TooBig(C, i, v))
  /\ \A k2 \in DOMAIN Li \ {k} :
        Mi[k2] = Li[k2] \/ (Mi[k2] = None /\ Press(C, i, Li, IF Li[k] = None THEN 1 ELSE 0, Size(C, v)))

\* whole-cache puts (put, put_with_ttl, put_with_validation, batch_put): the
\* value is stored and would be served first; slower layers may keep what they
\* had (serving it later is judged at that get), be overwritten or invalidated.
PutsOk(C, L, M, items) ==
  LET ks    == KeysIn(items)
      lastk == items[Len(items)].k
      press(i) == Press(C, i, L[i], Cardinality(ks \ Held(L[i])), ItemsBytes(C, items, 1))
  IN /\ \A k \in ks :
          LET v == LastVal(items, k)
              h == HitLayer(M, k)
          IN /\ \/ h > 0 /\ M[h][k] = v
                \/ k # lastk /\ \E i \in LayersOf(L) : press(i)   \* evicted again by a later item of the batch
                \/ h = 0 /\ \E i \in LayersOf(L) : TooBig(C, i, v)   \* too large to be stored: then nothing answers, not an older value
             /\ \A i \in LayersOf(L) : M[i][k] \in {v, None, L[i][k]}
     /\ \A i \in LayersOf(L) : \A k2 \in DOMAIN L[i] \ ks :
          M[i][k2] = L[i][k2] \/ (M[i][k2] = None /\ press(i))

\* a get may copy what it found into faster layers (promotion), evicting there
PromoFrame(C, L, M, ks) ==
  \A i \in LayersOf(L) : \A k \in DOMAIN L[i] :
     \/ M[i][k] = L[i][k]
     \/ k \in ks /\ i < HitLayer(L, k) /\ M[i][k] = First(L, k)
     \/ /\ M[i][k] = None
        /\ \E k2 \in ks \ {k} : /\ i < HitLayer(L, k2) /\ M[i][k2] = First(L, k2)
                                 /\ Press(C, i, L[i], 1, Size(C, First(L, k2)))

DelK(g, k) == \E p \in g.del : p[2] = k
\* "an entry present only in a slower layer is still found": a layer that fails (its file was deleted) does
\* not excuse the lookup while another layer holds the key; when none does, error or nothing are both fine
GetOk(C, g, L, k, r, M) ==
  \/ r = First(L, k) /\ PromoFrame(C, L, M, {k})
  \/ r = "err" /\ DelK(g, k) /\ First(L, k) = None /\ Same(L, M)

Bound(C, L, n) == n >= 0 /\ n < Len(L)       \* 0-based layer index of an event

LayerOk(C, g, L, e, M) ==
  LET r == e.res IN
  CASE e.op \in {"put", "put_ttl"} ->
         r = "ok" /\ PutsOk(C, L, M, <<[k |-> e.k, v |-> e.v]>>)
    [] e.op = "put_val" ->
         IF C.hooks /\ e.v # e.ck
         THEN r = "err" /\ Same(L, M)          \* content that does not hash to the key is not stored
         ELSE r = "ok" /\ PutsOk(C, L, M, <<[k |-> e.k, v |-> e.v]>>)
    [] e.op = "batch_put" ->
         r = "ok" /\ IF Len(e.items) = 0 THEN Same(L, M) ELSE PutsOk(C, L, M, e.items)
    [] e.op = "put_layer" ->
         IF ~Bound(C, L, e.layer) THEN r = "err" /\ Same(L, M)
         ELSE LET i == e.layer + 1 IN
              r = "ok" /\ LayerPutOk(C, i, L[i], M[i], e.k, e.v) /\ SameBut(L, M, i)
    [] e.op = "get" -> GetOk(C, g, L, e.k, r, M)
    [] e.op = "get_val" ->
         LET r0 == First(L, e.k) IN
         IF ~C.hooks \/ e.ck = None \/ r0 = None \/ r0 = e.ck
         THEN GetOk(C, g, L, e.k, r, M)
         ELSE \* found content does not hash to the key: not served, dropped everywhere
              \* (copies that do hash to the key may be kept and may be served instead)
           /\ r \in {"err", None} \cup (IF e.ck \in ValsAt(L, e.k) THEN {e.ck} ELSE {})
           /\ \A i \in LayersOf(L) :
                /\ M[i][e.k] \in {None} \cup (IF L[i][e.k] = e.ck THEN {e.ck} ELSE {})
                /\ \A k2 \in DOMAIN L[i] \ {e.k} : M[i][k2] = L[i][k2]
    [] e.op = "batch_get" ->
         \/ /\ r = "ok" /\ Len(e.rs) = Len(e.ks)
            /\ \A n \in 1..Len(e.ks) :
                 IF \E m \in 1..(n-1) : HitLayer(L, e.ks[m]) > 1
                 THEN e.rs[n] \in ValsAt(L, e.ks[n]) \cup {None}    \* an earlier promotion may have evicted
                 ELSE e.rs[n] = First(L, e.ks[n])
            /\ PromoFrame(C, L, M, {e.ks[n] : n \in 1..Len(e.ks)})
         \/ r = "err" /\ (\E n \in 1..Len(e.ks) : DelK(g, e.ks[n]) /\ First(L, e.ks[n]) = None) /\ Same(L, M)
    [] e.op = "get_layer" ->
         IF ~Bound(C, L, e.layer) THEN r = "err" /\ Same(L, M)
         ELSE /\ \/ r = L[e.layer + 1][e.k]
                 \/ r = "err" /\ <<e.layer + 1, e.k>> \in g.del
              /\ Same(L, M)
    [] e.op = "promote" ->
         IF ~Bound(C, L, e.from) \/ ~Bound(C, L, e.to) THEN r = "err" /\ Same(L, M)
         ELSE LET f == e.from + 1
                  t == e.to + 1
                  copy == /\ r = "true" /\ L[f][e.k] # None
                          /\ LayerPutOk(C, t, L[t], M[t], e.k, L[f][e.k]) /\ SameBut(L, M, t)
              IN \/ r = "err" /\ <<f, e.k>> \in g.del /\ Same(L, M)
                 \/ f > t /\ (IF L[f][e.k] # None THEN copy ELSE r = "false" /\ Same(L, M))
                 \/ f <= t /\ ((r = "false" /\ Same(L, M)) \/ (f < t /\ copy))
    [] e.op = "remove" ->
         /\ \A i \in LayersOf(L) : M[i][e.k] = None /\ \A k2 \in DOMAIN L[i] \ {e.k} : M[i][k2] = L[i][k2]
         /\ \/ r = (IF First(L, e.k) # None THEN "true" ELSE "false")
            \/ r \in {"true", "false"} /\ (DelK(g, e.k) \/ \E p \in g.mayx : p[2] = e.k)
    [] e.op = "clear" ->
         r = "ok" /\ \A i \in LayersOf(L) : \A k \in DOMAIN L[i] : M[i][k] = None
    [] e.op = "tick" -> Same(L, M)            \* expiry itself is handled by Verdict / TickOk
    [] OTHER -> FALSE

\* environment actions on the disk layer's files are not judged: they define M.  corrupt = overwrite with
\* other bytes, delete, trunc0 = truncate to zero bytes, trunc1 = drop the last byte, extend1 = append a byte.
\* The event says what the file holds afterwards (`now`, read back by the driver, None when deleted).
FaultOps == {"corrupt", "delete", "trunc0", "trunc1", "extend1"}
FaultVal(op, v, base) ==        \* the same naming as the driver's, for the machine of part 2
  CASE op = "corrupt" -> Bad
    [] op = "delete"  -> None
    [] op = "trunc0"  -> Nil
    [] op = "trunc1"  -> IF v \in base THEN v \o "-" ELSE IF v = Nil THEN Nil ELSE "other"
    [] op = "extend1" -> IF v \in base \cup {Nil} THEN v \o "+" ELSE "other"
\* the disk layer whose file is hit: the event's 0-based "layer" if given, else the first disk layer
FaultLayer(C, e) == IF "layer" \in DOMAIN e THEN e.layer + 1 ELSE DiskOf(C)
FaultNext(C, L, e) ==
  LET d == FaultLayer(C, e) IN
  IF d = 0 \/ e.res # "true" THEN L
  ELSE [L EXCEPT ![d] = [k \in DOMAIN L[d] |-> IF k = e.k THEN e.now ELSE L[d][k]]]

\* --- coherence of the answers -------------------------------------------
Answers(e) ==      \* <<key, answer>> pairs a call gives to its caller
  CASE e.op \in {"get", "get_val"} -> {<<e.k, e.res>>}
    [] e.op = "batch_get" -> IF e.res = "ok" THEN {<<e.ks[n], e.rs[n]>> : n \in 1..Len(e.ks)} ELSE {}
    [] OTHER -> {}
CohOk(g, e)       == \A a \in Answers(e) : IsVal(a[2]) => a[2] \in g.fresh[a[1]]
\* signature of F12b: every incoherent answer is a value that a whole-cache
\* put left behind in a layer it did not write
StaleServed(g, e) == \A a \in Answers(e) : IsVal(a[2]) => a[2] \in g.fresh[a[1]] \cup g.stale[a[1]]

\* --- time: entries put with a short TTL may vanish at any moment and must
\* be gone after a tick -----------------------------------------------------
Drop(L, A)       == [i \in LayersOf(L) |-> [k \in DOMAIN L[i] |-> IF <<i, k>> \in A THEN None ELSE L[i][k]]]
Restore(M, L, B) == [i \in LayersOf(M) |-> [k \in DOMAIN M[i] |-> IF <<i, k>> \in B THEN L[i][k] ELSE M[i][k]]]
TickOk(g, M)     == \A p \in g.mustx : M[p[1]][p[2]] = None

\* The judge.  "ok" | "F12b" | "viol"
SetKey(M, W, k, v) == [i \in LayersOf(M) |-> [x \in DOMAIN M[i] |-> IF i \in W /\ x = k THEN v ELSE M[i][x]]]
Verdict(C, g, L, e, M, KD) ==
  LET X == {p \in g.mayx : L[p[1]][p[2]] # None /\ M[p[1]][p[2]] = None}
      \* an entry written with a short TTL by this very call may have expired before the projection was read
      Y == IF e.op = "put_ttl" /\ e.ttl = "short" THEN {i \in LayersOf(M) : M[i][e.k] = None} ELSE {}
      layer == \E A \in SUBSET X : \E B \in SUBSET (X \ A) : \E W \in SUBSET Y :
                  LayerOk(C, g, Drop(L, A), e, IF W = {} THEN Restore(M, L, B) ELSE SetKey(Restore(M, L, B), W, e.k, e.v))
  IN IF ~layer \/ (e.op = "tick" /\ ~TickOk(g, M)) THEN "viol"
     ELSE IF CohOk(g, e) THEN "ok"
     ELSE IF "F12b" \in KD /\ StaleServed(g, e) THEN "F12b"
     ELSE "viol"

\* --- ghost update (inputs and results only) -----------------------------
PutLike(e) == e.op \in {"put", "put_ttl", "put_val", "batch_put", "put_layer", "promote"}
KeysOfOp(e) == CASE e.op = "batch_put" -> KeysIn(e.items)
                 [] e.op = "batch_get" -> {e.ks[n] : n \in 1..Len(e.ks)}
                 [] "k" \in DOMAIN e -> {e.k}
                 [] OTHER -> {}

GhostAfter(C, g, L, e, M) ==
  LET r  == e.res
      ks == KeysOfOp(e)
      items == IF e.op = "batch_put" THEN e.items ELSE <<[k |-> e.k, v |-> e.v]>>
      wput == r = "ok" /\ (e.op \in {"put", "put_ttl", "put_val"} \/ (e.op = "batch_put" /\ Len(e.items) > 0))
      dropped == e.op = "get_val" /\ C.hooks /\ e.ck # None /\ First(L, e.k) \notin {None, e.ck}
      hits == {a[1] : a \in {b \in Answers(e) : IsVal(b[2])}}
      fresh1 == [k \in DOMAIN g.fresh |->
                  IF wput /\ k \in ks THEN {LastVal(items, k)}
                  ELSE IF e.op = "put_layer" /\ r = "ok" /\ k = e.k THEN g.fresh[k] \cup {e.v}
                  ELSE IF e.op \in FaultOps /\ r = "true" /\ k = e.k THEN g.fresh[k] \cup ({e.now} \ {None})
                  ELSE IF e.op = "clear" \/ (e.op = "remove" /\ k = e.k) THEN {}
                  ELSE g.fresh[k]]
      stale1 == [k \in DOMAIN g.stale |->
                  IF wput /\ k \in ks THEN ValsAt(M, k) \ {LastVal(items, k)}
                  ELSE IF e.op = "put_layer" /\ r = "ok" /\ k = e.k THEN g.stale[k] \ {e.v}
                  ELSE IF e.op = "clear" \/ (e.op = "remove" /\ k = e.k) THEN {}
                  ELSE g.stale[k]]
      del1 == IF e.op = "delete" /\ r = "true" THEN g.del \cup {<<FaultLayer(C, e), e.k>>}
              ELSE IF e.op = "clear" THEN {}
              ELSE IF e.op = "remove" THEN {p \in g.del : p[2] # e.k}
              ELSE IF e.op = "put_layer" /\ r = "ok" THEN g.del \ {<<e.layer + 1, e.k>>}
              ELSE g.del
      trk1 == IF wput THEN g.trk \cup ks
              ELSE IF e.op = "remove" \/ dropped THEN g.trk \ {e.k}
              ELSE IF e.op = "clear" THEN {}
              ELSE g.trk \cup hits
      unch(p) == M[p[1]][p[2]] = L[p[1]][p[2]]
      may0  == {p \in g.mayx : unch(p)}
      must0 == {p \in g.mustx : unch(p) /\ ~(PutLike(e) /\ p[2] \in ks)}
      short == e.op = "put_ttl" /\ e.ttl = "short" /\ r = "ok"
      W     == IF short THEN {i \in LayersOf(M) : M[i][e.k] = e.v} ELSE {}
  IN [fresh |-> fresh1, stale |-> stale1, del |-> del1, trk |-> trk1,
      mayx  |-> IF e.op = "tick" THEN {} ELSE may0 \cup {<<i, e.k>> : i \in W},
      mustx |-> IF e.op = "tick" THEN {}
                ELSE must0 \cup {<<i, e.k>> : i \in {j \in W : L[j][e.k] # e.v \/ <<j, e.k>> \in g.mustx}}]

\* guard of F12a: the call that never returned is a plain get of a key that
\* has a promotion-tracker entry and is served by a layer other than the first
HangF12a(g, L, op) == op.op = "get" /\ HitLayer(L, op.k) > 1 /\ op.k \in g.trk

\* ------------------------------------------- part 2: code-shaped machine
CONSTANTS Keys, Vals,     \* key and value names (strings)
          Kinds, Caps,    \* per layer: "mem" | "disk", max_entries
          Budgets, Policies, Sizes,   \* per layer: max_memory_bytes (0 = none), eviction policy; value name -> bytes
          Hooks,          \* validation hooks installed
          Fixed           \* subset of {"F12a", "F12b"}: repaired variants of the code

Cfg == [kinds |-> Kinds, caps |-> Caps, hooks |-> Hooks, budget |-> Budgets, policy |-> Policies, sizes |-> Sizes]
NL  == Len(Kinds)
Dk  == DiskOf(Cfg)
DelKP(d, k) == \E p \in d : p[2] = k
\* index entries a lookup of k passes on its way to the layer that answers (h, 0 = none does): each fails once
Passed(d, k, h) == {p \in d : p[2] = k /\ (h = 0 \/ p[1] < h)}
Idle == [op |-> "idle"]

VARIABLES L,        \* the layers
          trk,      \* promotion tracker: keys with an entry
          lock,     \* tracker RwLock: "free" | "w" (write guard held by the running call)
          pc,       \* "idle" | "scan" | "acqw" | "upd" | "sp" | "rel"
          cur,      \* the running get
          at,       \* layer being scanned / layer that hit
          shortE,   \* <<layer, key>> entries stored with a short TTL
          delP,     \* <<layer, key>>: the disk layer's index has the key but its file is gone
          done,     \* last completed call with its result, Idle initially
          pre,      \* layers before the last completed call
          g, gp     \* ghost of part 1, now and before the last completed call
mvars == <<L, trk, lock, pc, cur, at, shortE, delP, done, pre, g, gp>>

Empty == [i \in 1..NL |-> [k \in Keys |-> None]]
MInit == /\ L = Empty /\ trk = {} /\ lock = "free" /\ pc = "idle" /\ cur = Idle /\ at = 0
         /\ shortE = {} /\ delP = {} /\ done = Idle /\ pre = Empty /\ g = G0(Keys) /\ gp = G0(Keys)

\* MemoryCache::put_with_ttl / perform_eviction for layer i and an incoming value v:
\*  - a value larger than the whole byte budget is not stored and the key is dropped;
\*  - at max_entries: evict down to 90 % (victims by policy = left open; policy "ttl" evicts only
\*    expired entries, i.e. none here: expiry is the tick's business);
\*  - over the byte budget: evict one entry at a time (a tenth of the entries, at least one) until the
\*    value fits or nothing is left; with policy "ttl" a round that evicts nothing ends the loop and
\*    the value is stored over budget;
\*  - then insert.
EvictSets(i, Li, v) ==
  LET H == Held(Li)
      c == Cardinality(H)
      B == Budgets[i]
      ttl == Policies[i] = "ttl"
      fits(E) == B = 0 \/ SumSizes(Cfg, Li, H \ E) + Size(Cfg, v) <= B
      S1 == IF c >= Caps[i] /\ ~ttl THEN {E \in SUBSET H : Cardinality(E) = c - ((Caps[i] * 9) \div 10)} ELSE {{}}
      S2(E1) == IF ttl \/ fits(E1) \/ E1 = H THEN {E1}
                ELSE {E \in SUBSET H : /\ E1 \subseteq E /\ E # E1 /\ (fits(E) \/ E = H)
                                        /\ \E x \in E \ E1 : ~fits(E \ {x})}
  IN UNION {S2(E1) : E1 \in S1}
LayerPutSet(i, Li, k, v) ==
  IF TooBig(Cfg, i, v) THEN {[Li EXCEPT ![k] = None]}
  ELSE {[x \in DOMAIN Li |-> IF x = k THEN v ELSE IF x \in E THEN None ELSE Li[x]] : E \in EvictSets(i, Li, v)}
WithKey(Lx, i, k, v) == [Lx EXCEPT ![i] = [@ EXCEPT ![k] = v]]
NoKey(Lx, k) == [i \in 1..NL |-> [x \in Keys |-> IF x = k THEN None ELSE Lx[i][x]]]

\* put: layer 1 only (before 36f5873) / then removing the key from every slower layer (F12b repaired)
PutSet(Lx, k, v) ==
  {[i \in 1..NL |-> IF i = 1 THEN m
                    ELSE IF "F12b" \in Fixed THEN [Lx[i] EXCEPT ![k] = None] ELSE Lx[i]]
     : m \in LayerPutSet(1, Lx[1], k, v)}
PutDelP(ks) == IF "F12b" \in Fixed THEN {p \in delP : p[2] \notin ks} ELSE delP     \* the remove also drops a disk index entry whose file is gone
RECURSIVE PutsSet(_, _, _)
PutsSet(S, items, n) ==
  IF n > Len(items) THEN S
  ELSE PutsSet(UNION {PutSet(Lx, items[n].k, items[n].v) : Lx \in S}, items, n + 1)

\* outcomes of the calls that run as one step: set of [M, res, (rs), trk, shortE, delP]
Out(M, r, t, s, d) == [M |-> M, res |-> r, trk |-> t, shortE |-> s, delP |-> d]
Touched(s, i, k) == s \ {<<i, k>>}
Atomic(e) ==
  CASE e.op \in {"put", "put_ttl"} ->
         {Out(M, "ok", trk \cup {e.k},
              IF e.op = "put_ttl" /\ e.ttl = "short" THEN shortE \cup {<<1, e.k>>} ELSE Touched(shortE, 1, e.k), PutDelP({e.k}))
            : M \in PutSet(L, e.k, e.v)}
    [] e.op = "put_val" ->
         IF Hooks /\ e.v # e.ck THEN {Out(L, "err", trk, shortE, delP)}
         ELSE {Out(M, "ok", trk \cup {e.k}, Touched(shortE, 1, e.k), PutDelP({e.k})) : M \in PutSet(L, e.k, e.v)}
    [] e.op = "batch_put" ->
         {Out(M, "ok", trk \cup KeysIn(e.items), {p \in shortE : ~(p[1] = 1 /\ p[2] \in KeysIn(e.items))}, PutDelP(KeysIn(e.items)))
            : M \in PutsSet({L}, e.items, 1)}
    [] e.op = "put_layer" ->
         IF e.layer >= NL THEN {Out(L, "err", trk, shortE, delP)}
         ELSE LET i == e.layer + 1 IN
              {Out([L EXCEPT ![i] = m], "ok", trk, Touched(shortE, i, e.k), delP \ {<<i, e.k>>})
                 : m \in LayerPutSet(i, L[i], e.k, e.v)}
    [] e.op = "get_layer" ->
         IF e.layer >= NL THEN {Out(L, "err", trk, shortE, delP)}
         ELSE IF <<e.layer + 1, e.k>> \in delP THEN {Out(L, "err", trk, shortE, delP \ {<<e.layer + 1, e.k>>})}
         ELSE {Out(L, L[e.layer + 1][e.k], trk, shortE, delP)}
    [] e.op = "promote" ->
         IF e.from >= NL \/ e.to >= NL THEN {Out(L, "err", trk, shortE, delP)}
         ELSE LET f == e.from + 1
                  t == e.to + 1
              IN IF f <= t THEN {Out(L, "false", trk, shortE, delP)}
                 ELSE IF <<f, e.k>> \in delP THEN {Out(L, "err", trk, shortE, delP \ {<<f, e.k>>})}
                 ELSE IF L[f][e.k] = None THEN {Out(L, "false", trk, shortE, delP)}
                 ELSE {Out([L EXCEPT ![t] = m], "true", trk, Touched(shortE, t, e.k), delP)
                         : m \in LayerPutSet(t, L[t], e.k, L[f][e.k])}
    [] e.op = "remove" ->
         {Out(NoKey(L, e.k), IF First(L, e.k) # None \/ DelKP(delP, e.k) THEN "true" ELSE "false",
              trk \ {e.k}, {p \in shortE : p[2] # e.k}, {p \in delP : p[2] # e.k})}
    [] e.op = "clear" -> {Out(Empty, "ok", {}, {}, {})}
    [] e.op = "get_val" ->
         LET r0 == First(L, e.k)
             d1 == delP \ Passed(delP, e.k, HitLayer(L, e.k))
         IN IF r0 = None THEN {Out(L, None, trk, shortE, d1)}
            ELSE IF Hooks /\ e.ck # None /\ r0 # e.ck
                 THEN {Out(NoKey(L, e.k), "err", trk \ {e.k}, {p \in shortE : p[2] # e.k}, {p \in delP : p[2] # e.k})}
                 ELSE {Out(L, r0, trk \cup {e.k}, shortE, d1)}
    [] e.op = "batch_get" ->
         LET ks == {e.ks[n] : n \in 1..Len(e.ks)} IN
         {Out(L, "ok", trk \cup {k \in ks : First(L, k) # None}, shortE,
              delP \ UNION {Passed(delP, k, HitLayer(L, k)) : k \in ks})
            @@ [rs |-> [n \in 1..Len(e.ks) |-> First(L, e.ks[n])]]}
    [] e.op \in FaultOps ->
         LET d == FaultLayer(Cfg, e) IN
         IF d > 0 /\ d <= NL /\ Kinds[d] = "disk" /\ L[d][e.k] # None
         THEN LET w == FaultVal(e.op, L[d][e.k], Vals) IN
              {Out(WithKey(L, d, e.k, w), "true", trk, shortE, IF e.op = "delete" THEN delP \cup {<<d, e.k>>} ELSE delP) @@ [now |-> w]}
         ELSE {Out(L, "false", trk, shortE, delP) @@ [now |-> None]}
    [] e.op = "tick" -> {Out(Drop(L, shortE), "ok", trk, {}, delP)}

Finish(e, o) ==     \* a call has returned: record it for the judge, advance the ghost
  LET ev == e @@ (IF "rs" \in DOMAIN o THEN [res |-> o.res, rs |-> o.rs]
                  ELSE IF "now" \in DOMAIN o THEN [res |-> o.res, now |-> o.now] ELSE [res |-> o.res]) IN
  /\ done' = ev /\ pre' = L /\ L' = o.M /\ trk' = o.trk /\ shortE' = o.shortE /\ delP' = o.delP
  /\ gp' = g /\ g' = GhostAfter(Cfg, g, L, ev, o.M)

\* a call that is one critical section
CallAtomic(e) ==
  /\ pc = "idle" /\ lock = "free" /\ e.op # "get"
  /\ \E o \in Atomic(e) : Finish(e, o)
  /\ UNCHANGED <<lock, pc, cur, at>>

\* MultiLayerCacheImpl::get, step by step
GetCall(e) ==
  /\ pc = "idle" /\ e.op = "get"
  /\ pc' = "scan" /\ cur' = e /\ at' = 1
  /\ UNCHANGED <<L, trk, lock, shortE, delP, done, pre, g, gp>>
GetReturn(r) == Finish(cur, Out(L, r, trk, shortE, delP)) /\ pc' = "idle" /\ cur' = Idle /\ at' = 0
\* (since e81be2a a get that found the key nowhere looks at the faster layers once more - for a caller that
\* runs alone that second look sees what the first saw, so it is not a step of its own here)
LayerGet ==        \* self.layers[at].get(key)
  /\ pc = "scan"
  /\ IF at > NL THEN GetReturn(None) /\ UNCHANGED lock
     ELSE IF L[at][cur.k] # None
          THEN pc' = "acqw" /\ UNCHANGED <<L, trk, lock, cur, at, shortE, delP, done, pre, g, gp>>
          ELSE /\ at' = at + 1
               /\ delP' = delP \ {<<at, cur.k>>}    \* a failed read drops the index entry
               /\ UNCHANGED <<L, trk, lock, pc, cur, shortE, done, pre, g, gp>>
AcquireTrackerW == \* self.promotion_tracker.write()
  /\ pc = "acqw" /\ lock = "free"
  /\ lock' = "w" /\ pc' = "upd"
  /\ UNCHANGED <<L, trk, cur, at, shortE, delP, done, pre, g, gp>>
UpdateTracker ==   \* get_mut(key) -> update_access, else insert
  /\ pc = "upd"
  /\ IF cur.k \in trk THEN pc' = "sp" /\ trk' = trk
     ELSE pc' = "rel" /\ trk' = trk \cup {cur.k}
  /\ UNCHANGED <<L, lock, cur, at, shortE, delP, done, pre, g, gp>>
ShouldPromote ==   \* should_promote(key, layer): layer 0 returns early, otherwise promotion_tracker.read()
  /\ pc = "sp"
  /\ at = 1 \/ "F12a" \in Fixed \/ lock = "free"      \* = AcquireTrackerR; the guard is still held by this call
  /\ pc' = "rel"
  /\ UNCHANGED <<L, trk, lock, cur, at, shortE, delP, done, pre, g, gp>>
Release ==         \* guard dropped, Ok(Some(value))
  /\ pc = "rel"
  /\ lock' = "free" /\ GetReturn(L[at][cur.k])

\* a call is in progress and none of its steps is enabled: it never returns
Stuck == pc = "sp" /\ ~(at = 1 \/ "F12a" \in Fixed \/ lock = "free")
EveryCallReturns == ~Stuck

StepGet == LayerGet \/ AcquireTrackerW \/ UpdateTracker \/ ShouldPromote \/ Release

\* the property on the machine: every completed call is accepted by the judge
Judged(KD) == IF done = Idle \/ done.op \in FaultOps THEN "ok" ELSE Verdict(Cfg, gp, pre, done, L, KD)
=============================================================================
