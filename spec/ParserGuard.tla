----------------------------- MODULE ParserGuard -----------------------------
(***************************************************************************)
(* C02 - parsers fail closed: for every byte string a parser returns a     *)
(* value or an error; it never panics, never aborts, never hangs, and      *)
(* never asks for memory out of proportion to the input because a count    *)
(* or size field of the input said so.                                     *)
(*                                                                         *)
(* What is modelled: per format, the header fields that drive control      *)
(* flow and allocation (magic, version, width bytes, counts, sizes, the    *)
(* two copies of the archive-index hash-size byte, page sizes ...), each   *)
(* with a boundary domain of *classes*                                     *)
(*    zero one typ over(typ+1 / one more than fits) len big half halfm1    *)
(*    maxm1 max bad n:<k>                                                   *)
(* and an abstract fail-closed parser that walks the fields:               *)
(*    Validate (magic / enumerated byte)  ->  for a count: Check that the  *)
(*    claimed amount fits the rest of the input -> Allocate(n) -> Read(n). *)
(* The functional core StepR(st, f, vec, fmt, kd) yields the *set* of      *)
(* successor states; it is used as the action of MC_ParserGuard            *)
(* (exhaustive over the boundary vectors + generation of the vectors) and  *)
(* folded by the trace monitor T_ParserGuard to decide which outcomes the  *)
(* specification allows for a recorded execution of the real parser.       *)
(*                                                                         *)
(* Known defects of cascette-rs are *named deviations*: a field carries    *)
(* the id of the finding whose guard the real parser skips; the deviation  *)
(* branch of StepR exists only when that id is in KnownDeviations.  For    *)
(* inputs that are not model vectors (seeded mutations) the same findings  *)
(* have a guard on the concrete header fields read back from the input     *)
(* (DevExplains).                                                          *)
(*                                                                         *)
(* Sizes of allocations are in KiB (TLC integers are 32-bit); header       *)
(* fields of recorded inputs travel as sequences of 16-bit limbs, most     *)
(* significant first.                                                      *)
(***************************************************************************)
EXTENDS Integers, Sequences, FiniteSets

CONSTANT KnownDeviations     \* ids of the findings listed as known

\* ------------------------------------------------------------------ bound
\* "out of proportion": more than 256 bytes per input byte plus 16 MiB; an
\* entry point that decompresses may add the documented 1 GiB cap.  (The
\* largest legitimate ratio measured over 3*10^5 inputs is 30 bytes per
\* byte; 16 MiB lets a parser pre-size from a 16-bit count.)
SlackKiB  == 16384
CapKiB    == 1048576
RefuseKiB == 2097152       \* the harness allocator refuses one request above 2 GiB
AllocBoundKiB(len, decomp) == (len \div 4) + SlackKiB + (IF decomp THEN CapKiB ELSE 0)

Closed(o) == o \in {"ok", "err"}

\* ------------------------------------------------------------- the model
L == 4096                  \* abstract input length (bytes) of a model run

C32 == {"zero", "one", "typ", "over", "len", "big", "halfm1", "half", "max"}
C16 == {"zero", "one", "typ", "over", "max"}
EN  == {"zero", "typ", "over", "max"}
WD  == {"zero", "one", "typ", "over", "max"}

Mg(n)            == [n |-> n, k |-> "magic", dom |-> {"typ", "bad"}, acc |-> {"typ"}, unit |-> 1, per |-> 0, dev |-> "-"]
En(n, dom, acc)  == [n |-> n, k |-> "enum", dom |-> dom, acc |-> acc, unit |-> 1, per |-> 0, dev |-> "-"]
EnD(n, dom, acc, d) == [n |-> n, k |-> "enum", dom |-> dom, acc |-> acc, unit |-> 1, per |-> 0, dev |-> d]
Ct(n, dom, unit, per, d) == [n |-> n, k |-> "count", dom |-> dom, acc |-> {}, unit |-> unit, per |-> per, dev |-> d]
Os(n, dom, d)    == [n |-> n, k |-> "osize", dom |-> dom, acc |-> {}, unit |-> 1, per |-> 1, dev |-> d]
Sl(n)            == [n |-> n, k |-> "seal", dom |-> {"keep", "fix"}, acc |-> {}, unit |-> 1, per |-> 0, dev |-> "-"]

TextFormats == {"espec", "bpsv", "build_config", "cdn_config", "patch_config", "product_config", "keyring_config",
                "mime", "build_info"}
NumLits == {"typ", "0", "4294967296", "18014398509481984", "9223372036854775808", "18446744073709551615",
            "18446744073709551616", "-1", "huge"}
BigLits == {"18014398509481984", "9223372036854775808", "18446744073709551615"}   \* times 1024 leaves u64
Depths == {"none", "n:33", "n:65", "n:1000", "n:10000", "n:100000", "n:250000"}
DeepDepths == {"n:1000", "n:10000", "n:100000", "n:250000"}
CutDom == {"n:0", "n:1", "n:2", "n:8", "n:9", "n:10", "n:11", "n:12", "n:13", "n:14", "n:15", "n:16", "n:17", "n:18",
           "n:19", "n:20", "n:21", "n:22", "n:23", "n:24", "n:25", "n:26", "n:27"}
SeekDom == {"zero", "typ", "under", "halfm1", "max", "maxm1"}
NameOffsets == {"n:0", "n:1", "n:2", "n:3", "n:4", "n:5", "n:6", "n:7", "n:8", "n:9", "n:10", "n:11", "n:12", "n:13",
                "n:14", "n:15", "n:16", "n:17", "n:18", "n:19", "n:20"}
BlteRow == <<Mg("magic"), Ct("header_size", C32, 1, 0, "-"),
             EnD("flags", {"zero", "typ", "over", "max"}, {"typ", "over"}, "F02a"),
             Ct("chunk_count", C16, 24, 0, "-"),
             Ct("c0_csize", C32, 1, 1, "F02e"), Os("c0_dsize", C32, "F02f")>>
AidxRow == <<EnD("hash_bytes", WD, {"typ"}, "F02b"), EnD("hash_bytes2", WD, {"typ"}, "F02b"), Sl("seal"),
             En("version", EN, {"zero", "typ"}), En("page_size_kb", EN, {"typ"}),
             En("offset_bytes", {"zero", "typ", "n:5", "n:6", "max"}, {"typ", "n:5", "n:6"}),
             En("size_bytes", EN, {"typ"}), En("ekey_length", WD, {"one", "typ"}),
             Ct("element_count", C32, 24, 0, "-")>>
ZbsRow == <<Mg("signature"), Ct("control_size", C32, 1, 1, "F02l"), Ct("diff_size", C32, 1, 1, "F02l"),
            Os("output_size", C32, "-")>>

Row(fmt) ==
  CASE fmt \in {"blte", "blte_decompress"} -> BlteRow
    [] fmt = "encoding" ->
         <<Mg("magic"), En("version", EN, {"typ"}), En("ckey_hash_size", WD, {"one", "typ"}),
           En("ekey_hash_size", WD, {"one", "typ"}),
           Ct("ckey_page_kb", C16, 1024, 1024, "F02g"), Ct("ekey_page_kb", C16, 1024, 1024, "F02g"),
           Ct("ckey_page_count", C32, 32, 32, "F02g"), Ct("ekey_page_count", C32, 32, 32, "F02g"),
           En("flags", {"typ", "one", "max"}, {"typ"}), Ct("espec_block_size", C32, 1, 1, "F02g")>>
    [] fmt \in {"archive_index", "archive_group"} -> AidxRow
    [] fmt = "root" ->
         <<En("w1", {"zero", "typ", "over", "big", "max"}, {"zero", "typ", "over", "big", "max"}),
           En("w2", {"zero", "typ", "over", "big", "max"}, {"zero", "typ", "over", "big", "max"}),
           Ct("blk0_records", C32, 28, 4, "-")>>
    [] fmt = "install" ->
         <<Mg("magic"), En("version", EN, {"typ", "over"}), En("ckey_length", WD, {"typ"}),
           Ct("tag_count", C16, 4, 56, "-"), Ct("entry_count", C32, 22, 64, "F02h")>>
    [] fmt = "download" ->
         <<Mg("magic"), En("version", {"zero", "typ", "over", "n:3", "max"}, {"typ", "over", "n:3"}),
           En("ekey_length", WD, {"one", "typ"}), En("has_checksum", {"zero", "typ", "max"}, {"zero", "typ"}),
           Ct("entry_count", C32, 22, 56, "F02i"), Ct("tag_count", C16, 4, 56, "-"),
           En("flag_size", {"zero", "typ", "max"}, {"zero", "typ", "max"})>>
    [] fmt = "size" ->
         <<Mg("magic"), En("version", EN, {"typ", "over"}), En("ekey_size", WD, {"one", "typ"}),
           Ct("entry_count", C32, 10, 40, "F02j"), Ct("tag_count", C16, 4, 56, "-"),
           En("esize_bytes", WD, {"one", "typ", "over"}),
           EnD("e0_esize", {"typ", "one", "max"}, {"typ", "one", "max"}, "F02u"),
           EnD("e1_esize", {"typ", "one", "max"}, {"typ", "one", "max"}, "F02u")>>
    [] fmt = "tvfs" ->
         <<Mg("magic"), En("format_version", EN, {"typ"}), En("header_size", EN, {"typ"}),
           En("ekey_size", WD, {"one", "typ"}), En("pkey_size", WD, {"one", "typ"}),
           En("flags", {"zero", "typ", "max"}, {"zero", "typ", "max"}),
           Ct("path_off", {"zero", "typ", "over", "max"}, 1, 0, "-"), Ct("path_size", C32, 1, 1, "-"),
           Ct("vfs_off", {"zero", "typ", "over", "max"}, 1, 0, "-"), Ct("vfs_size", C32, 1, 1, "-"),
           Ct("cft_off", {"zero", "typ", "over", "max"}, 1, 0, "-"), Ct("cft_size", C32, 1, 1, "-"),
           Ct("max_depth", C16, 1, 0, "-"),
           Ct("est_off", {"zero", "typ", "over", "max"}, 1, 0, "-"), Ct("est_size", C32, 1, 1, "-")>>
    [] fmt = "patch_archive" ->
         <<Mg("magic"), En("version", EN, {"typ"}), En("file_key_size", WD, {"one", "typ"}),
           En("old_key_size", WD, {"one", "typ"}), En("patch_key_size", WD, {"one", "typ"}),
           En("block_size_bits", EN, {"typ", "over"}), Ct("block_count", C16, 36, 64, "-"),
           En("flags", {"typ", "one", "n:2", "max"}, {"typ", "one", "n:2"})>>
    [] fmt = "patch_index" ->
         <<Ct("header_size", C32, 1, 0, "-"), En("version", EN, {"typ"}), Ct("data_size", C32, 1, 0, "-"),
           Ct("extra_len", C16, 1, 1, "-"), En("key_size", WD, {"one", "typ"}),
           Ct("block_count", C32, 8, 8, "F02k"),
           En("blk0_type", {"zero", "typ", "n:8", "max"}, {"zero", "typ", "n:8", "max"}),
           Ct("blk0_size", C32, 1, 0, "-"), Ct("blk0_entries", C32, 61, 64, "-"),
           \* the per-block headers of the entry blocks: type 2 (count, key size) and type 8 (version, key size,
           \* offset of the entries inside the block, count)
           Ct("b2_entry_count", C32, 61, 64, "-"), En("b2_key_size", WD, {"one", "typ"}),
           En("b8_version", EN, {"typ"}), En("b8_key_size", WD, {"one", "typ"}),
           Ct("b8_data_offset", C16 \cup {"len"}, 1, 0, "-"), Ct("b8_entry_count", C32, 61, 64, "-")>>
    [] fmt = "patch_index_block2" ->
         <<Ct("entry_count", C32, 61, 64, "-"), En("key_size", WD, {"one", "typ"})>>
    [] fmt = "patch_index_block8" ->
         <<En("version", EN, {"typ"}), En("key_size", WD, {"one", "typ"}),
           Ct("data_offset", C16 \cup {"len"}, 1, 0, "-"), Ct("entry_count", C32, 61, 64, "-")>>
    [] fmt \in {"zbsdiff", "zbsdiff_apply"} -> ZbsRow
    [] fmt \in {"local_idx", "local_idx_ops"} ->
         <<Ct("hdr_block_size", {"zero", "typ", "max"}, 1, 0, "-"), En("version", EN, EN),
           EnD("size_len", {"zero", "typ", "max"}, {"zero", "typ"}, "F02d"),
           EnD("off_len", {"zero", "typ", "max"}, {"zero", "typ"}, "F02d"),
           En("key_len", {"zero", "typ", "n:16", "max"}, {"typ", "n:16"}),
           En("off_bits", {"zero", "typ", "max"}, {"zero", "typ", "max"}),
           Ct("entry_block_size", C32, 1, 1, "F02m")>>
    [] fmt \in {"lru", "lru_ops"} ->
         <<En("version", EN, {"zero", "typ"}), Sl("seal"),
           Ct("mru_head", {"zero", "typ", "over", "big", "max"}, 20, 0, "F02x"),
           Ct("lru_tail", {"zero", "typ", "over", "big", "max"}, 20, 0, "-"),
           Ct("e0_prev", {"zero", "typ", "over", "big", "max"}, 20, 0, "F02x"),
           Ct("e0_next", {"zero", "typ", "over", "big", "max"}, 20, 0, "-"),
           Ct("e1_prev", {"zero", "typ", "over", "big", "max"}, 20, 0, "F02x"),
           Ct("e4_prev", {"zero", "typ", "over", "big", "max"}, 20, 0, "F02x")>>
    [] fmt = "blte_enc_header" ->
         <<En("key_name_size", {"zero", "typ", "max"}, {"zero", "typ", "max"}),
           En("iv_size", {"zero", "typ", "max"}, {"zero", "typ", "max"}),
           EnD("enc_type", {"zero", "typ", "n:65", "over", "max"}, {"typ", "n:65"}, "F02o")>>
    [] fmt \in TextFormats ->
         \* text formats: the `site`-th number of the seed text replaced by a boundary literal (with a unit suffix),
         \* or the text wrapped `depth` times into one of the format's openers (nesting / repetition)
         <<En("site", {"n:0", "n:1", "n:2", "n:3"}, {"n:0", "n:1", "n:2", "n:3"}),
           EnD("lit", NumLits, NumLits \ {"18446744073709551616", "-1", "huge"}, "F02s"),
           En("unit", {"none", "K", "M", "star32", "star33"}, {"none", "K", "M", "star32"}),
           EnD("depth", Depths, {"none", "n:33"}, "F02t"),
           En("opener", {"n:0", "n:1", "n:2"}, {"n:0", "n:1", "n:2"})>>
    [] fmt = "blte_echunk" ->
         \* the payload of an encrypted BLTE chunk whose key the store knows: IV size, encryption type, and the
         \* payload cut after `cut` bytes - every field boundary of the header (1, 9, 10, 10+iv, 11+iv) and around it
         <<En("ivs", {"n:4", "n:8"}, {"n:4", "n:8"}), En("cut", CutDom, CutDom),
           En("typ", {"typ", "n:65", "bad"}, {"typ", "n:65"})>>
    [] fmt = "zbsdiff_ctl" ->
         \* the *decoded* control block of a ZBSDIFF1 patch: seek offsets of three entries, then diff3 diff bytes
         <<En("seek0", SeekDom, SeekDom), En("seek1", SeekDom, SeekDom), En("seek2", SeekDom, SeekDom),
           EnD("diff3", {"zero", "one", "typ"}, {"zero", "one", "typ"}, "F02w")>>
    [] fmt = "dirnames" ->
         \* a directory entry name is disk input too: kind (0 .idx, 1 .lru, 2 data.NNN), a 1-byte (not UTF-8),
         \* 2-byte or 3-byte character at byte offset `off`, one byte shorter / longer than the real names, extension
         \* in upper case.  A scanner ignores a name that is not one of its own: every class is "accepted".
         <<En("kind", {"n:0", "n:1", "n:2"}, {"n:0", "n:1", "n:2"}),
           En("off", NameOffsets, NameOffsets),
           En("wid", {"n:1", "n:2", "n:3"}, {"n:1", "n:2", "n:3"}),
           En("dlen", {"under", "typ", "over"}, {"under", "typ", "over"}),
           En("ext", {"typ", "upper"}, {"typ", "upper"})>>
    [] fmt \in {"shmem", "shmem_ops"} ->
         <<En("version", {"zero", "typ", "n:4", "n:5", "max"}, {"typ", "n:4", "n:5"}),
           Ct("max_slots", C32, 8, 8, "F02n"), Ct("direct_max_slots", C32, 8, 8, "F02n")>>
    [] OTHER -> <<>>

Heads == {"blte", "blte_enc_header", "encoding", "archive_index", "root", "install", "download", "size", "tvfs",
          "patch_archive", "patch_index", "zbsdiff", "local_idx", "lru", "shmem", "dirnames", "zbsdiff_ctl",
          "patch_index_block2", "patch_index_block8", "blte_echunk"} \cup TextFormats
Decomp(fmt) == fmt \in {"blte_decompress", "encoding_blte", "tvfs_blte", "zbsdiff_apply"}

FieldNames(fmt) == {Row(fmt)[i].n : i \in 1..Len(Row(fmt))}
FieldOf(fmt, n) == CHOOSE f \in {Row(fmt)[i] : i \in 1..Len(Row(fmt))} : f.n = n

\* claimed number of units of a class (typ = 2 units, which fit; over = one more than fits)
Claim(c, unit) ==
  CASE c = "zero" -> 0
    [] c = "one"  -> 1
    [] c = "typ"  -> 2
    [] c = "over" -> (L \div unit) + 1
    [] c = "len"  -> L
    [] c = "big"  -> 16777216
    [] OTHER      -> 2147483647        \* halfm1, half, maxm1, max: saturated
KiBOf(n, per) == (n \div 1024) * per + (((n % 1024) * per) + 1023) \div 1024

Init0 == [i |-> 1, rem |-> L, peak |-> 0, steps |-> 0, out |-> "run"]
Adv(st)       == [st EXCEPT !.i = @ + 1, !.steps = @ + 1]
Fail(st, o)   == [st EXCEPT !.out = o, !.steps = @ + 1]
OffTyp(fmt, vec) == {n \in FieldNames(fmt) : vec[n] \notin {"typ", "keep", "fix"}}

\* F02b: the footer is cut with the first copy of the hash-size byte and judged with the second
SlicePanics(vec) ==
  \/ vec["hash_bytes"] \in {"zero", "one"}
  \/ vec["hash_bytes"] \in {"over", "max"} /\ vec["hash_bytes2"] \in {"over", "max"}
\* F02d: u8 + u8 + u8
ArithPanics(vec) == vec["key_len"] \in {"typ", "n:16"} /\ (vec["size_len"] = "max" \/ vec["off_len"] = "max")

StepR(st, f, vec, fmt, kd) ==
  LET c == vec[f.n] IN
  CASE f.k = "magic" -> {IF c = "typ" THEN Adv(st) ELSE Fail(st, "err")}
    [] f.k = "seal" ->
         \* an unsealed checksum is refused before the fields behind it are believed
         {IF c = "keep" /\ OffTyp(fmt, vec) # {} THEN Fail(st, "err") ELSE Adv(st)}
    [] f.k = "enum" ->
         (IF c \in f.acc /\ ~(f.n = "lit" /\ c \in BigLits /\ vec["unit"] \in {"K", "M"}) THEN {Adv(st)} ELSE {Fail(st, "err")})
         \cup (IF f.dev = "F02a" /\ "F02a" \in kd /\ c \notin f.acc /\ vec["header_size"] # "zero"
               THEN {Fail(st, "panic")} ELSE {})
         \cup (IF f.dev = "F02b" /\ "F02b" \in kd /\ SlicePanics(vec) THEN {Fail(st, "panic")} ELSE {})
         \cup (IF f.dev = "F02d" /\ "F02d" \in kd /\ ArithPanics(vec) THEN {Fail(st, "panic")} ELSE {})
         \cup (IF f.dev = "F02o" /\ "F02o" \in kd /\ c \notin f.acc
               THEN {Fail(st, "panic")} ELSE {})
         \* F02s: ESpec multiplies the size by the unit unchecked
         \cup (IF f.dev = "F02s" /\ "F02s" \in kd /\ fmt = "espec" /\ c \in BigLits /\ vec["unit"] \in {"K", "M"}
               THEN {Fail(st, "panic")} ELSE {})
         \* F02t: the ESpec parser recurses once per nested spec without a depth limit
         \cup (IF f.dev = "F02t" /\ "F02t" \in kd /\ fmt = "espec" /\ c \in DeepDepths
               THEN {Fail(st, "stack")} ELSE {})
         \* F02u: SizeManifest::validate sums the esizes with `+`
         \cup (IF f.dev = "F02u" /\ "F02u" \in kd /\ vec["e0_esize"] = "max" /\ vec["e1_esize"] = "max"
               THEN {Fail(st, "panic")} ELSE {})
         \* F02w: the patcher advances old_pos with `+= 1` after seeks that reached usize::MAX
         \cup (IF f.dev = "F02w" /\ "F02w" \in kd /\ c # "zero"
                  /\ Cardinality({n \in {"seek0", "seek1", "seek2"} : vec[n] = "max"}) >= 2
               THEN {Fail(st, "panic")} ELSE {})
    [] f.k = "count" ->
         LET n    == Claim(c, f.unit)
             fits == n <= st.rem \div f.unit
             a    == KiBOf(n, f.per)
             ideal == IF fits
                      THEN {[st EXCEPT !.i = @ + 1, !.rem = @ - n * f.unit, !.peak = @ + a, !.steps = @ + 1 + n]}
                      ELSE {Fail(st, "err")}
             \* the deviation: Allocate(n) before the claim is checked against the input
             dev == IF f.dev = "F02x"
                    \* F02x: load_from_disk walks only the `next` chain; a `prev` link / mru_head outside the table is kept
                    THEN (IF "F02x" \in kd /\ fmt = "lru_ops" /\ ~fits /\ c # "max" THEN {Fail(st, "panic")} ELSE {})
                    ELSE IF f.dev \in kd /\ ~fits
                    THEN {IF a > RefuseKiB THEN Fail(st, "abort") ELSE Fail([st EXCEPT !.peak = @ + a], "err")}
                    ELSE {}
         IN ideal \cup dev
    [] f.k = "osize" ->
         \* a claimed output size: only the decompressing entry points act on it; up to the cap is allowed
         IF ~Decomp(fmt) THEN {Adv(st)}
         ELSE LET n == Claim(c, 1)
                  a == KiBOf(n, 1)
                  ideal == IF a <= CapKiB THEN {[Adv(st) EXCEPT !.peak = @ + a]} ELSE {Fail(st, "err")}
                  dev == IF f.dev \in kd /\ a > CapKiB
                         THEN {IF a > RefuseKiB THEN Fail(st, "abort") ELSE Fail([st EXCEPT !.peak = @ + a], "err")}
                         ELSE {}
              IN ideal \cup dev

\* all final states of the abstract parser on a vector
RECURSIVE RunFrom(_, _, _, _)
RunFrom(S, fmt, vec, kd) ==
  LET row  == Row(fmt)
      live == {s \in S : s.out = "run" /\ s.i <= Len(row)}
      done == {s \in S : s.out # "run"} \cup {[s EXCEPT !.out = "ok"] : s \in {t \in S : t.out = "run" /\ t.i > Len(row)}}
  IN IF live = {} THEN done
     ELSE RunFrom(done \cup UNION {StepR(s, row[s.i], vec, fmt, kd) : s \in live}, fmt, vec, kd)
Finals(fmt, vec, kd) == RunFrom({Init0}, fmt, vec, kd)

\* the property on a final state of the model
ModelOk(st, fmt) ==
  /\ Closed(st.out)
  /\ st.peak <= AllocBoundKiB(L, Decomp(fmt))
  /\ st.steps <= 2 * Len(Row(fmt)) + L

\* ------------------------------------------------- recorded executions (T)
\* value of a limb sequence compared with a small natural (n < 2^30)
RECURSIVE HiZero(_, _)
HiZero(h, k) == IF k = 0 THEN TRUE ELSE h[k] = 0 /\ HiZero(h, k - 1)
Lo(h) == IF Len(h) = 1 THEN h[1] ELSE h[Len(h) - 1] * 65536 + h[Len(h)]
ValGT(h, n) ==
  IF Len(h) <= 1 THEN h[1] > n
  ELSE \/ ~HiZero(h, Len(h) - 2)
       \/ h[Len(h) - 1] >= 16384
       \/ Lo(h) > n
ValEQ(h, n) == ~ValGT(h, n) /\ (n = 0 \/ ValGT(h, n - 1))
Has(e, n) == n \in DOMAIN e.h
\* field n of the input claims more units of `unit` bytes than the input has bytes: value * unit > len
\* (written with a division: TLC integers are 32-bit)
Claims(e, n, unit) == Has(e, n) /\ ValGT(e.h[n], e.len \div unit)

\* directory scanners, curated and model-generated name lists: the valid file next to the hostile names
\* must still be found (mutated lists may contain a well-formed name that legitimately shadows it)
LostValid(e) ==
  /\ e.fmt = "dirnames" /\ e.src \in {"fixture", "model"} /\ e.o \in {"ok", "err"} /\ "obs" \in DOMAIN e
  /\ ~(e.obs.vf_idx /\ e.obs.vf_lru /\ e.obs.vf_data /\ e.obs.vf_cache)
Symptom(e) ==
  IF LostValid(e) THEN "lost" ELSE
  IF e.o = "panic" THEN "panic"
  ELSE IF e.o = "hang" THEN "hang"
  ELSE IF e.o = "abort" THEN (IF e.why \in {"alloc", "capacity"} THEN "alloc" ELSE IF e.why = "stack" THEN "stack" ELSE "abort")
  ELSE IF e.peak_kib > AllocBoundKiB(e.len, e.decomp) \/ e.largest_kib > AllocBoundKiB(e.len, e.decomp) THEN "alloc"
  ELSE "none"

BlteFamily == {"blte", "blte_decompress", "tvfs_blte", "encoding_blte"}

\* precise guards of the listed findings on the header fields of the input that was fed
DevExplains(fid, e) ==
  CASE fid = "F02a" ->   \* BLTE: table-format byte other than 0x0F / 0x10 reaches an expect()
         /\ e.fmt \in BlteFamily /\ Symptom(e) = "panic" /\ e.mc = "valid header flags byte"
         /\ Has(e, "header_size") /\ ValGT(e.h["header_size"], 0)
         /\ Has(e, "flags") /\ ~ValEQ(e.h["flags"], 15) /\ ~ValEQ(e.h["flags"], 16)
    [] fid = "F02b" ->   \* archive index footer: hash-size byte believed before the footer is validated
         /\ e.fmt \in {"archive_index", "archive_group"} /\ Symptom(e) = "panic"
         /\ e.mc = "range end index N out of range for slice of length N"
         /\ e.loc = "cascette-formats/src/archive/index.rs"
         /\ Has(e, "hash_bytes")
         /\ \/ ~ValGT(e.h["hash_bytes"], 7)
            \/ ValGT(e.h["hash_bytes"], 8) /\ Has(e, "hash_bytes2") /\ ValGT(e.h["hash_bytes2"], 8)
    [] fid = "F02c" ->   \* V1 MIME detection slices the lossily decoded text at byte 512
         /\ e.fmt = "mime" /\ Symptom(e) = "panic" /\ e.len > 512
         /\ e.mc \in {"end byte index N is not a char boundary; it is inside ",
                     "byte index N is not a char boundary; it is inside "}
    [] fid = "F02d" ->   \* local .idx: entry size computed in u8
         /\ e.fmt = "local_idx" /\ Symptom(e) = "panic" /\ e.mc = "attempt to add with overflow"
         /\ e.loc = "cascette-client-storage/src/index/mod.rs"
         /\ Has(e, "key_len") /\ Has(e, "off_len") /\ Has(e, "size_len")
         /\ e.h["key_len"][1] + e.h["off_len"][1] + e.h["size_len"][1] > 255
    [] fid = "F02e" ->   \* BLTE: chunk buffer sized by the chunk table before the data is there
         /\ e.fmt \in BlteFamily /\ Symptom(e) = "alloc" /\ Claims(e, "max_csize", 1)
    [] fid = "F02f" ->   \* BLTE decompress: output pre-sized with the sum of the claimed decompressed sizes
         /\ e.fmt \in BlteFamily /\ Decomp(e.fmt) /\ Symptom(e) = "alloc"
         /\ Has(e, "sum_dsize_kib") /\ ValGT(e.h["sum_dsize_kib"], CapKiB)
    [] fid = "F02g" ->   \* encoding: espec block / page index / page buffers sized by the 22-byte header
         /\ e.fmt = "encoding" /\ Symptom(e) = "alloc"
         /\ \/ Claims(e, "espec_block_size", 1)
            \/ Claims(e, "ckey_page_count", 32) \/ Claims(e, "ekey_page_count", 32)
            \/ Claims(e, "ckey_page_kb", 1024) \/ Claims(e, "ekey_page_kb", 1024)
    [] fid = "F02h" -> e.fmt = "install" /\ Symptom(e) = "alloc" /\ Claims(e, "entry_count", 1)
    [] fid = "F02i" -> e.fmt = "download" /\ Symptom(e) = "alloc" /\ Claims(e, "entry_count", 1)
    [] fid = "F02j" -> e.fmt = "size" /\ Symptom(e) = "alloc" /\ Claims(e, "entry_count", 1)
    [] fid = "F02k" -> e.fmt = "patch_index" /\ Symptom(e) = "alloc" /\ Claims(e, "block_count", 8)
    [] fid = "F02l" ->   \* ZBSDIFF1: control/diff buffers sized by the 32-byte header
         /\ e.fmt \in {"zbsdiff", "zbsdiff_apply"} /\ Symptom(e) = "alloc"
         /\ (Claims(e, "control_size", 1) \/ Claims(e, "diff_size", 1))
    [] fid = "F02m" -> e.fmt = "local_idx" /\ Symptom(e) = "alloc" /\ Claims(e, "entry_block_size", 1)
    [] fid = "F02n" ->   \* shmem PID tracking: two arrays of max_slots u32
         /\ e.fmt = "shmem" /\ Symptom(e) = "alloc"
         /\ (Claims(e, "max_slots", 8) \/ Claims(e, "direct_max_slots", 8))
    [] fid = "F02o" ->   \* BLTE EncryptedHeader: encryption-type byte other than 'S' / 'A' reaches an expect()
         /\ e.fmt = "blte_enc_header" /\ Symptom(e) = "panic" /\ e.mc = "valid encryption type byte"
         /\ Has(e, "enc_type") /\ ~ValEQ(e.h["enc_type"], 83) /\ ~ValEQ(e.h["enc_type"], 65)
    [] fid = "F02s" ->   \* ESpec: block size times K / M computed with `*=`
         /\ e.fmt = "espec" /\ Symptom(e) = "panic" /\ e.mc = "attempt to multiply with overflow"
         /\ e.loc = "cascette-formats/src/espec/parser.rs" /\ Has(e, "mulovf") /\ ValEQ(e.h["mulovf"], 1)
    [] fid = "F02t" ->   \* ESpec: one recursion per nested spec, no depth limit: stack overflow aborts the process
         /\ e.fmt = "espec" /\ Symptom(e) = "stack" /\ Has(e, "colons") /\ ValGT(e.h["colons"], 999)
    [] fid = "F02u" ->   \* size manifest: validate() sums the esizes with Iterator::sum
         /\ e.fmt = "size" /\ Symptom(e) = "panic" /\ e.mc = "attempt to add with overflow"
         /\ e.loc = "iter/traits/accum.rs"
    [] fid = "F02v" ->   \* ZBSDIFF1: decompress_zlib inflates a block without any limit
         /\ e.fmt = "zbsdiff_apply" /\ Symptom(e) = "alloc"
         /\ ~Claims(e, "control_size", 1) /\ ~Claims(e, "diff_size", 1)
    [] fid = "F02w" ->   \* ZBSDIFF1 patcher: old_pos += 1 after seeks that carried it to usize::MAX
         /\ e.fmt = "zbsdiff_apply" /\ Symptom(e) = "panic" /\ e.mc = "attempt to add with overflow"
         /\ e.loc = "cascette-formats/src/zbsdiff/patcher.rs"
    [] fid = "F02x" ->   \* LRU checkpoint: prev links / mru_head are not validated by load_from_disk; later operations index with them
         /\ e.fmt = "lru_ops" /\ Symptom(e) = "panic" /\ e.mc = "index out of bounds: the len is N but the index is N"
         /\ e.loc = "cascette-client-storage/src/lru/mod.rs"
    [] fid = "F02y" ->   \* local .idx: file_offset_bits above 63 is accepted by the loader, save_index shifts by it
         /\ e.fmt = "local_idx_ops" /\ Symptom(e) = "panic" /\ e.mc = "attempt to shift left with overflow"
         /\ e.loc = "cascette-client-storage/src/index/mod.rs" /\ Has(e, "off_bits") /\ ValGT(e.h["off_bits"], 63)
    [] fid = "F02q" ->   \* IndexManager::parse_index_filename sliced a 14-byte name at byte 2 / 10
         /\ e.fmt = "dirnames" /\ Symptom(e) = "panic" /\ e.loc = "cascette-client-storage/src/index/mod.rs"
         /\ e.mc \in {"end byte index N is not a char boundary; it is inside ",
                     "byte index N is not a char boundary; it is inside ",
                     "start byte index N is not a char boundary; it is inside "}
    [] fid = "F02r" ->   \* LruManager::find_latest_lru_file gives up at the first directory entry that is not UTF-8
         /\ e.fmt = "dirnames" /\ Symptom(e) = "lost" /\ "obs" \in DOMAIN e /\ e.obs.nonutf8
         /\ e.obs.vf_idx /\ e.obs.vf_data /\ e.obs.vf_cache /\ ~e.obs.vf_lru
    [] fid = "F02p" ->   \* patch index: key size of a block body above 16 copied into 16-byte arrays
         /\ e.fmt = "patch_index" /\ Symptom(e) = "panic"
         /\ e.mc = "range end index N out of range for slice of length N"
         /\ e.loc = "cascette-formats/src/patch_index/entry.rs"
    [] OTHER -> FALSE

FindingOrder == <<"F02a", "F02b", "F02c", "F02d", "F02e", "F02f", "F02g", "F02h", "F02i", "F02j", "F02k",
                  "F02l", "F02m", "F02n", "F02o", "F02p", "F02q", "F02r", "F02s", "F02t", "F02u", "F02v", "F02w", "F02x",
                  "F02y", "F02z">>
\* deterministic choice of the finding an event is credited to (TLC does not order strings)
FirstOf(S) == FindingOrder[CHOOSE i \in 1..Len(FindingOrder) :
                             FindingOrder[i] \in S /\ \A j \in 1..(i - 1) : FindingOrder[j] \notin S]
=============================================================================
