------------------------------- MODULE Retry -------------------------------
(***************************************************************************)
(* Property C14: an operation run under a retry policy                     *)
(* (cascette-protocol::retry::RetryPolicy::execute, and through it         *)
(* CdnClient::download_with_retry).                                        *)
(*                                                                         *)
(*   - is attempted at most max_attempts + 1 times,                        *)
(*   - stops at the first success and at the first non-retryable error and *)
(*     returns that result; gives up on a retryable error only when the    *)
(*     retries are used up, returning the last error,                      *)
(*   - between attempts waits the server's Retry-After hint when present,  *)
(*     otherwise an exponentially growing delay that never exceeds         *)
(*     max_backoff (each plus at most 30% jitter when jitter is on),       *)
(*   - never panics and never waits longer than these bounds, for every    *)
(*     policy the configuration path can build (NaN / negative / huge      *)
(*     multipliers, initial > max, zero durations, max at the top of u64). *)
(*                                                                         *)
(* The module has three parts, all from one set of definitions:            *)
(*   1. the JUDGE: predicates CallOK / RetOK / EnvOK over one observed     *)
(*      event and the abstract state of the run, exactly as permissive as  *)
(*      the statement (trace monitor T_Retry applies them to executions of *)
(*      the real code);                                                    *)
(*   2. the MACHINE: actions Call / Sleep / Return that generate every     *)
(*      behaviour the judge accepts over a finite set of candidate delays  *)
(*      (MC_Retry enumerates policies x outcome scripts = the programs);   *)
(*   3. the PROPERTY in its own words over the history `calls`             *)
(*      (invariants; TLC checks judge => property on the machine).         *)
(*                                                                         *)
(* All durations are integer milliseconds.  -1 = no hint, -2 = the largest *)
(* value of the type.  The driver saturates everything it logs at SAT.     *)
(***************************************************************************)
EXTENDS Integers, Sequences, FiniteSets

CONSTANT KnownDeviations   \* ids of findings listed as known: enables Dev_<id>

Tol       == 2            \* ms per gap: tokio's timer wheel rounds a deadline up to the next ms (DESIGN 3.2)
SAT       == 100000000    \* ms (27.7 h): durations are saturated here; ">= SAT" reads "unbounded"
RealSlack == SAT          \* gaps measured on the real clock (cdn family) are judged by their LOWER bound only:
                          \* no verdict may depend on a wall-clock upper bound (a loaded machine is not a defect)

Min2r(a, b) == IF a < b THEN a ELSE b
CeilDiv(a, b) == (a + b - 1) \div b

\* ---- policies ------------------------------------------------------------
\* [max |-> retries, init |-> ms, maxb |-> ms, mult |-> token, jit |-> BOOLEAN]
DefaultPol == [max |-> 3, init |-> 100, maxb |-> 10000, mult |-> "2", jit |-> TRUE]

\* multiplier tokens with an exact rational value <<num, den>>; den = 0: not such a number
MultRat(tok) ==
  CASE tok = "0"   -> <<0, 1>>  [] tok = "0.5" -> <<1, 2>>  [] tok = "1"  -> <<1, 1>>
    [] tok = "1.5" -> <<3, 2>>  [] tok = "2"   -> <<2, 1>>  [] tok = "3"  -> <<3, 1>>
    [] tok = "10"  -> <<10, 1>> [] OTHER -> <<0, 0>>
Growing(tok)  == MultRat(tok)[2] # 0 /\ MultRat(tok)[1] >= MultRat(tok)[2]   \* a rational >= 1
NegMult(tok)  == tok \in {"-1", "-0.5", "-inf", "-1e308"}
HugeMult(tok) == tok \in {"inf", "1e308", "nan"}
\* everything that is not Growing (0 <= m < 1, NaN, negative, infinite, unknown tokens) only has to
\* respect the upper bound - the statement's "exponentially growing" says nothing about it.

\* bounds of the j-th exponential delay min(init * mult^j, maxb) (floor / ceiling of the rational)
RECURSIVE LoB(_, _), HiB(_, _)
LoB(p, j) == IF j = 0 THEN Min2r(p.init, p.maxb)
             ELSE Min2r((LoB(p, j - 1) * MultRat(p.mult)[1]) \div MultRat(p.mult)[2], p.maxb)
HiB(p, j) == IF j = 0 THEN Min2r(p.init, p.maxb)
             ELSE Min2r(CeilDiv(HiB(p, j - 1) * MultRat(p.mult)[1], MultRat(p.mult)[2]), p.maxb)

\* "plus at most 30% jitter"
JUp(b, jit) == IF jit THEN b + (3 * b) \div 10 ELSE b
UpOK(g, b, jit, slack) == b >= SAT \/ g <= JUp(b, jit) + slack
LoOK(g, b) == g >= Min2r(b, SAT)

\* ---- outcomes of one attempt ----------------------------------------------
\* [kind |-> error variant | "Ok" | "Status" | "Beyond", code |-> n, h |-> hint ms (-1 none, -2 huge), ...]
StatusClass(c) ==
  IF c \in 200..299 THEN "ok"
  ELSE IF c = 429 \/ c \in 500..599 THEN "retry"
  ELSE IF c \in 400..499 /\ c # 408 THEN "fatal"
  ELSE "either"
\* Which errors are worth retrying.  Transient by their meaning: retry.  Deterministic failures:
\* fatal.  Everything the statement leaves open (catch-all variants, unusual status codes): either.
ClassOf(o) ==
  CASE o.kind = "Ok" -> "ok"
    [] o.kind \in {"Timeout", "Network", "ServiceUnavailable", "ServerError", "RateLimited",
                   "HttpConnect", "HttpTimeout"} -> "retry"
    [] o.kind = "HttpStatus" ->
         IF o.code \in {429, 500, 502, 503, 504} THEN "retry"
         ELSE IF o.code \in {400, 401, 403, 404, 410} THEN "fatal" ELSE "either"
    [] o.kind \in {"Parse", "InvalidKey", "InvalidEndpoint", "RangeNotSupported", "Utf8",
                   "UnsupportedOnWasm"} -> "fatal"
    [] o.kind = "Status" -> StatusClass(o.code)
    [] OTHER -> "either"     \* Other, AllHostsFailed, Cache, Beyond (= Other), HttpOther, ...

\* Retry-After header values (whole seconds) the grid uses
RaMs(ra) == CASE ra = "0" -> 0 [] ra = "1" -> 1000 [] ra = "2" -> 2000 [] ra = "3" -> 3000
              [] ra = "18446744073709551615" -> SAT [] OTHER -> -1
HintOf(o) ==
  IF o.kind = "RateLimited" THEN (IF o.h = -2 THEN SAT ELSE o.h)
  ELSE IF o.kind = "Status" /\ o.code = 429 THEN RaMs(o.ra)
  ELSE -1

NoOutcome == [kind |-> "None", code |-> 0, h |-> -1]

\* ---- the judge --------------------------------------------------------------
\* abstract state of one run
J0 == [n |-> 0,          \* attempts made so far
       k |-> 0,          \* retries so far that waited a computed backoff (no hint)
       last |-> NoOutcome,
       open |-> TRUE]    \* execute() has not returned yet

RetryDue(j, p) == j.open /\ j.n >= 1 /\ ClassOf(j.last) \in {"retry", "either"} /\ j.n <= p.max

\* the wait before retry number i+1 (i retries done, k of them without hint) after an error with
\* hint h (-1: none) may last g
DelayOK(p, i, k, h, g, slack) ==
  IF h >= 0 THEN LoOK(g, h) /\ UpOK(g, h, p.jit, slack)
  ELSE IF Growing(p.mult)
       THEN \E j \in k..i : LoOK(g, LoB(p, j)) /\ UpOK(g, HiB(p, j), p.jit, slack)
       ELSE g >= 0 /\ UpOK(g, p.maxb, p.jit, slack)

(* Dev_F14a: `backoff` starts at initial_backoff and is clamped by max_backoff only when it is
   multiplied after the first sleep, so the FIRST computed delay is the unclamped initial_backoff. *)
DevF14a(p, i, h, g, slack) ==
  /\ "F14a" \in KnownDeviations
  /\ i = 0 /\ h < 0 /\ p.init > p.maxb
  /\ LoOK(g, p.init) /\ UpOK(g, p.init, p.jit, slack)

\* e = [i |-> attempt number, gap |-> ms since the previous attempt ended, o |-> its outcome]
CallIdeal(j, p, e, slack) ==
  /\ j.open /\ e.i = j.n + 1
  /\ j.n = 0 \/ (RetryDue(j, p) /\ DelayOK(p, j.n - 1, j.k, HintOf(j.last), e.gap, slack))
CallDevA(j, p, e, slack) ==
  /\ j.open /\ e.i = j.n + 1 /\ RetryDue(j, p)
  /\ DevF14a(p, j.n - 1, HintOf(j.last), e.gap, slack)
AfterCall(j, e) ==
  [n |-> j.n + 1, k |-> IF j.n >= 1 /\ HintOf(j.last) < 0 THEN j.k + 1 ELSE j.k, last |-> e.o, open |-> TRUE]

\* the result r = [kind, code, h, id] is the outcome o of attempt number n
SameResult(r, o, n) ==
  IF o.kind = "Status" THEN          \* through CdnClient: the error variant is the client's choice
    CASE StatusClass(o.code) = "ok" -> r.kind = "Ok" /\ r.id = n
      [] o.code = 429 -> r.kind = "RateLimited" /\ r.h = RaMs(o.ra)
      [] OTHER -> /\ r.kind \notin {"Ok", "panic", "waiting", "abort"}
                  /\ r.code \in {0, o.code}
                  /\ ClassOf(r) \in {StatusClass(o.code), "either"}
  ELSE /\ r.kind = o.kind /\ r.code = o.code /\ r.id \in {0, n}
       /\ r.h = HintOf(o)
       /\ o.kind = "Ok" => r.id = n

\* a pending retry whose delay is at least SAT cannot be told from waiting forever
WaitIdeal(j, p) ==
  /\ RetryDue(j, p)
  /\ LET h == HintOf(j.last) IN
     IF h >= 0 THEN h >= SAT
     ELSE IF Growing(p.mult) THEN \E q \in j.k..(j.n - 1) : LoB(p, q) >= SAT
     ELSE p.maxb >= SAT
WaitDevA(j, p) ==
  /\ "F14a" \in KnownDeviations /\ RetryDue(j, p)
  /\ j.n = 1 /\ HintOf(j.last) < 0 /\ p.init > p.maxb /\ p.init >= SAT

RetIdeal(j, p, r) ==
  /\ j.open /\ j.n >= 1
  /\ \/ r.kind = "waiting" /\ WaitIdeal(j, p)
     \/ /\ SameResult(r, j.last, j.n)
        /\ LET c == ClassOf(j.last) IN
           \/ c \in {"ok", "fatal", "either"}
           \/ c = "retry" /\ j.n = p.max + 1       \* gives up only when the retries are used up

(* Dev_F14b: the next backoff is Duration::from_secs_f64(min(backoff * multiplier, max)), which
   panics on a negative or out-of-range float.  Negative multiplier: as soon as the backoff is
   positive (first retry when initial > 0; "-inf" with initial = 0 turns the backoff into max
   via NaN first, so the second retry).  max_backoff at the top of u64 (u64::MAX s rounds to 2^64
   as f64, which from_secs_f64 rejects): as soon as backoff * multiplier reaches it or is NaN
   (f64::min returns the other operand for NaN). *)
DevF14b(j, p, r) ==
  /\ "F14b" \in KnownDeviations /\ r.kind = "panic" /\ RetryDue(j, p)
  /\ \/ NegMult(p.mult) /\ p.init > 0 /\ j.n = 1
     \/ p.mult = "-inf" /\ p.init = 0 /\ p.maxb > 0 /\ j.n = 2
     \/ p.maxb >= SAT /\ j.n = 1 /\ \/ p.mult \in {"inf", "nan"}
                                    \/ p.mult = "1e308" /\ p.init > 0
                                    \/ p.mult = "-inf" /\ p.init = 0        \* 0 * -inf = NaN -> max

(* Dev_F14c: `delay += jitter` overflows Duration when the Retry-After hint is near u64::MAX s. *)
DevF14c(j, p, r) ==
  /\ "F14c" \in KnownDeviations /\ r.kind = "panic" /\ RetryDue(j, p)
  /\ p.jit /\ HintOf(j.last) >= SAT

\* ---- RetryPolicy::from_env --------------------------------------------------
EnvNum(tok) == CASE tok = "0" -> 0 [] tok = "1" -> 1 [] tok = "2" -> 2 [] tok = "3" -> 3 [] tok = "5" -> 5
                 [] tok = "10" -> 10 [] tok = "50" -> 50 [] tok = "1000" -> 1000
                 [] tok = "18446744073709551615" -> -2 [] OTHER -> -1
MultTokens == {"0", "0.5", "1", "1.5", "2", "3", "10", "nan", "inf", "-inf", "-1", "-0.5", "1e308"}
\* a documented value must arrive in the policy in the documented unit; an unset variable means the
\* default; what an unparseable value means is left open
EnvFieldsOK(env, p, d) ==
  /\ env.MAX_RETRIES = "unset" => p.max = d.max
  /\ EnvNum(env.MAX_RETRIES) >= 0 => p.max = EnvNum(env.MAX_RETRIES)
  /\ env.RETRY_BACKOFF = "unset" => p.init = d.init
  /\ EnvNum(env.RETRY_BACKOFF) >= 0 => p.init = EnvNum(env.RETRY_BACKOFF)
  /\ EnvNum(env.RETRY_BACKOFF) = -2 => p.init = SAT
  /\ env.MAX_BACKOFF = "unset" => p.maxb = d.maxb
  /\ EnvNum(env.MAX_BACKOFF) >= 0 => p.maxb = 1000 * EnvNum(env.MAX_BACKOFF)
  /\ EnvNum(env.MAX_BACKOFF) = -2 => p.maxb = SAT
  /\ env.MULT = "unset" => p.mult = d.mult
  /\ env.MULT \in MultTokens => p.mult = env.MULT
  /\ env.JITTER = "unset" => p.jit = d.jit
  /\ env.JITTER = "true" => p.jit = TRUE
  /\ env.JITTER = "false" => p.jit = FALSE
EnvGarbage(env) ==
  \/ env.MAX_RETRIES # "unset" /\ EnvNum(env.MAX_RETRIES) < 0
  \/ env.RETRY_BACKOFF # "unset" /\ EnvNum(env.RETRY_BACKOFF) = -1
  \/ env.MAX_BACKOFF # "unset" /\ EnvNum(env.MAX_BACKOFF) = -1
  \/ env.MULT \notin MultTokens \cup {"unset"}
  \/ env.JITTER \notin {"unset", "true", "false"}
\* the policy the machine assumes for an environment (defaults where the statement leaves it open)
EnvPol(env, d) ==
  LET num(t, dv, unit) == IF EnvNum(t) >= 0 THEN unit * EnvNum(t) ELSE IF EnvNum(t) = -2 /\ t # "unset" THEN SAT ELSE dv
  IN [max  |-> IF EnvNum(env.MAX_RETRIES) >= 0 THEN EnvNum(env.MAX_RETRIES) ELSE d.max,
      init |-> num(env.RETRY_BACKOFF, d.init, 1),
      maxb |-> num(env.MAX_BACKOFF, d.maxb, 1000),
      mult |-> IF env.MULT \in MultTokens THEN env.MULT ELSE d.mult,
      jit  |-> IF env.JITTER = "true" THEN TRUE ELSE IF env.JITTER = "false" THEN FALSE ELSE d.jit]

\* ---- the machine ------------------------------------------------------------
VARIABLES pol,      \* the policy of this run
          script,   \* outcomes the environment will produce, attempt by attempt
          st,       \* judge state
          calls,    \* history: <<[i, gap, o], ...>> (gap = -1 once judged and forgotten)
          waited,   \* duration of the last sleep
          phase,    \* "ready" (an attempt is due) | "decide" | "done"
          result
vars == <<pol, script, st, calls, waited, phase, result>>

Beyond == [kind |-> "Beyond", code |-> 0, h |-> -1, dur |-> 0]
Outcome(i) == IF i <= Len(script) THEN script[i] ELSE Beyond

InitWith(p, sc) ==
  /\ pol = p /\ script = sc /\ st = J0 /\ calls = <<>> /\ waited = 0 /\ phase = "ready"
  /\ result = NoOutcome

\* finitely many representatives of the admissible waits: both ends of every interval
Candidates(p, i, k, h) ==
  LET ends(b) == {Min2r(b, SAT), Min2r(JUp(b, p.jit), SAT)}
  IN IF h >= 0 THEN ends(h)
     ELSE IF Growing(p.mult) THEN UNION {ends(LoB(p, j)) \cup ends(HiB(p, j)) : j \in k..i}
     ELSE {0} \cup ends(p.maxb) \cup ends(Min2r(p.init, p.maxb))
DevCandidates(p) == {Min2r(p.init, SAT), Min2r(JUp(p.init, p.jit), SAT)}

Call ==
  /\ phase = "ready"
  /\ LET e == [i |-> st.n + 1, gap |-> waited, o |-> Outcome(st.n + 1)] IN
     /\ CallIdeal(st, pol, e, Tol) \/ CallDevA(st, pol, e, Tol)
     /\ st' = AfterCall(st, e) /\ calls' = Append(calls, e)
  /\ phase' = "decide" /\ UNCHANGED <<pol, script, waited, result>>

Sleep ==
  /\ phase = "decide" /\ RetryDue(st, pol)
  /\ \E d \in Candidates(pol, st.n - 1, st.k, HintOf(st.last)) \cup DevCandidates(pol) :
       /\ d < SAT
       /\ \/ DelayOK(pol, st.n - 1, st.k, HintOf(st.last), d, Tol)
          \/ DevF14a(pol, st.n - 1, HintOf(st.last), d, Tol)
       /\ waited' = d
  \* every recorded gap has been judged (invariants GapBound, Exponential) in the states since its Call:
  \* forget it (-1), so that behaviours differing only in past jitter draws reach the same state
  /\ calls' = [q \in 1..Len(calls) |-> [calls[q] EXCEPT !.gap = -1]]
  /\ phase' = "ready" /\ UNCHANGED <<pol, script, st, result>>

\* what the caller gets for the outcome o of attempt n (for a scripted HTTP status: the variant
\* CdnClient chooses - one admissible choice, the judge accepts any of the same class)
ResultOf(o, n) ==
  IF o.kind # "Status" THEN [kind |-> o.kind, code |-> o.code, h |-> HintOf(o), id |-> n]
  ELSE CASE StatusClass(o.code) = "ok" -> [kind |-> "Ok", code |-> 0, h |-> -1, id |-> n]
         [] o.code = 429 -> [kind |-> "RateLimited", code |-> 0, h |-> RaMs(o.ra), id |-> 0]
         [] o.code \in 500..599 -> [kind |-> "ServerError", code |-> o.code, h |-> -1, id |-> 0]
         [] OTHER -> [kind |-> "HttpStatus", code |-> o.code, h |-> -1, id |-> 0]
Waiting == [kind |-> "waiting", code |-> 0, h |-> -1, id |-> 0]
Return ==
  /\ phase = "decide"
  /\ \E r \in {ResultOf(st.last, st.n), Waiting} :
       /\ RetIdeal(st, pol, r) \/ (r = Waiting /\ WaitDevA(st, pol))
       /\ result' = r
  /\ st' = [st EXCEPT !.open = FALSE]
  /\ phase' = "done" /\ UNCHANGED <<pol, script, calls, waited>>

\* the listed panics, as a step of the machine (never enabled when KnownDeviations = {})
Panicked == [kind |-> "panic", code |-> 0, h |-> -1, id |-> 0]
DevPanic ==
  /\ phase = "decide"
  /\ DevF14b(st, pol, Panicked) \/ DevF14c(st, pol, Panicked)
  /\ result' = Panicked /\ st' = [st EXCEPT !.open = FALSE]
  /\ phase' = "done" /\ UNCHANGED <<pol, script, calls, waited>>

Next == Call \/ Sleep \/ Return \/ DevPanic

\* ---- the property, in its own words, over the history ---------------------
Bounded == Len(calls) <= pol.max + 1
StopsAtFirst == \A i \in 1..(Len(calls) - 1) : ClassOf(calls[i].o) \notin {"ok", "fatal"}
\* every wait honours the hint, or stays under max_backoff (+30% when jitter is on)
GapBound ==
  \A i \in 2..Len(calls) :
    LET h == HintOf(calls[i - 1].o)  g == calls[i].gap IN
    IF g < 0 THEN TRUE        \* judged when it was recorded (see Sleep)
    ELSE IF h >= 0 THEN g >= h /\ 10 * g <= 13 * h + 10 * Tol /\ (~pol.jit => g <= h + Tol)
    ELSE 10 * g <= 13 * pol.maxb + 10 * Tol /\ (~pol.jit => g <= pol.maxb + Tol)
\* integer multipliers >= 1, jitter off, no hints: the i-th wait is min(initial * m^(i-1), max)
RECURSIVE PowCap(_, _, _, _)
PowCap(b, m, i, cap) == IF i = 0 \/ b >= cap THEN Min2r(b, cap) ELSE PowCap(b * m, m, i - 1, cap)
Exponential ==
  (Growing(pol.mult) /\ MultRat(pol.mult)[2] = 1 /\ ~pol.jit /\ \A i \in 1..Len(calls) : HintOf(calls[i].o) < 0
     /\ ~(pol.init > pol.maxb /\ "F14a" \in KnownDeviations))
  => \A i \in 2..Len(calls) :
       LET b == PowCap(pol.init, MultRat(pol.mult)[1], i - 2, pol.maxb) IN
       calls[i].gap < 0 \/ (calls[i].gap >= b /\ calls[i].gap <= b + Tol)
ResultIs ==
  phase = "done" /\ result.kind \notin {"waiting", "panic"} =>
    /\ Len(calls) >= 1
    /\ LET o == calls[Len(calls)].o IN
       /\ o.kind # "Status" => result.kind = o.kind /\ result.id = Len(calls)
       /\ (ClassOf(o) = "ok") <=> (result.kind = "Ok")
       /\ ClassOf(o) = "retry" => Len(calls) = pol.max + 1
\* the run only stays "waiting" when the statement asks for an unbounded wait
WaitsOnlyIfAsked ==
  phase = "done" /\ result.kind = "waiting" =>
    LET o == calls[Len(calls)].o IN HintOf(o) >= SAT \/ (HintOf(o) < 0 /\ pol.maxb >= SAT)
NoPanic == result.kind # "panic"
\* no state other than "done" is stuck (with Bounded and the finite script: termination)
NeverStuck == phase # "done" => ENABLED Next
=============================================================================
