---------------------------- MODULE Installation ----------------------------
(***************************************************************************)
(* X08 (growth check) - the installation facade of cascette-client-storage *)
(* and the small files around it: Installation, ContentResolver as used by *)
(* it, Storage (the manager of installations), BuildInfoFile, the          *)
(* validation framework, and the on-disk form of the residency database    *)
(* (kmt/key_state.rs) and of the .idx files (= "KMT files").               *)
(*                                                                         *)
(* Composition: St = Storage.tla (C04: which objects must read back),      *)
(* Rs = Resolve.tla (C03: a resolution structure is a map; ModelLookup),   *)
(* Rd = Residency.tla (C05: meaning of the residency operations), and      *)
(* Integrity.tla (C07: byte helpers, regions, the judgement rule for       *)
(* faults, MD5 / lookup3 as executable definitions) is EXTENDed.           *)
(*                                                                         *)
(* PROPERTIES (stated by this check; quantifier in brackets)               *)
(*                                                                         *)
(* Installation  [every history of write_file, load_root_file,             *)
(*   load_encoding_file (any number of times, any order), reads by every   *)
(*   route, has_*, get_file_info, stats, verify, drop + open (+ or -       *)
(*   initialize), and the environment flipping a byte of a stored object,  *)
(*   cutting or deleting the data file while the installation is closed]   *)
(*  I1 ekey route  read_file_by_encoding_key(e) = the bytes written for    *)
(*     the object filed under e (C04's AReadOk), Err(NotFound) for a key   *)
(*     never written; has_encoding_key(e) <=> an object is filed under e.  *)
(*  I2 chain  read_file_by_path(p) / read_file_by_fdid(n) follow           *)
(*     root: path|fdid -> ckey, encoding: ckey -> ekey, index: ekey ->     *)
(*     bytes, with the manifests loaded LAST: the result is I1's answer    *)
(*     for that ekey when every link exists and Err(NotFound) exactly when *)
(*     a link is missing (README: "path/FileDataID -> ContentKey ->        *)
(*     EncodingKey -> archive location"; "complete resolution chain").     *)
(*     get_file_info(p) = Some(ckey, ekey, size of the table) iff the two  *)
(*     manifest links exist.  read_files_by_*: Ok(all, in order) or an     *)
(*     error one of the members would answer.                              *)
(*  I3 ckey route  read_file / read_file_by_content_key(c): Ok(d) => d is  *)
(*     what I2 gives for c; Err(NotFound) is always allowed (documented:   *)
(*     "may not find files").  has_content_key agrees with it: true =>     *)
(*     the links exist and a read in the same state is not NotFound;       *)
(*     a successful read => true.                                          *)
(*  I4 cache  no read is answered with bytes another request cached: a     *)
(*     path that no manifest names is NotFound whatever its spelling       *)
(*     ("ekey:<hex>", "<hex ckey>", "fdid:<n>"), and after a manifest is   *)
(*     replaced nothing resolved through the old one is served.            *)
(*  I5 durability  a successful write never makes an earlier object        *)
(*     unreadable - also when the handle was opened without initialize()   *)
(*     (it may refuse instead); and after a successful write the object    *)
(*     reads back exactly, also when an earlier copy of it had been        *)
(*     damaged and read (C04's statement over histories with damage).      *)
(*  I6 books  stats(): index_entries = number of objects filed,            *)
(*     index_files = number of buckets in use, archive_files/archive_size  *)
(*     = the data files as the file system has them, path = the path       *)
(*     given.  verify(): total = valid + invalid + missing, and            *)
(*     invalid + missing = 0 iff the stored bytes of every filed object    *)
(*     are all there and hash to its key (damage to the 30-byte local      *)
(*     header only: either answer).                                        *)
(*  I7 keys  write_file returns MD5(data); the object is filed under       *)
(*     MD5("BLTE" 0 0 0 0 'N' data) and stored behind a local header with  *)
(*     the reversed key, the size and both checksums (Integrity!lhdr).     *)
(*                                                                         *)
(* Storage  [every sequence of open_installation over plain names, names   *)
(*   with a trailing separator or dot component, nested / parent /         *)
(*   absolute / empty names, and writes / reads through the handles]       *)
(*  S1 one handle per name; S2 two accepted names never denote the same    *)
(*  directory ("accepts only a plain directory name": anything that is not *)
(*  exactly one normal component is refused); S3 a refused name changes    *)
(*  nothing on disk, inside or outside the base; S4 list_installations =   *)
(*  the accepted names; S5 an accepted name lives in base/<name>; S6 an    *)
(*  object written through a name is read back through it and through no   *)
(*  other name.                                                            *)
(*                                                                         *)
(* BuildInfoFile  [every table over the known and unknown columns in any   *)
(*   column order, 0-3 rows, empty values, values with inner blanks; text  *)
(*   written by hand (LF or CRLF) or by the crate's own BPSV writer; read  *)
(*   from a string or from a file]  B1 entry_count / has_column / get_raw  *)
(*   and every typed accessor give the table back; B2 active_entry = the   *)
(*   first row whose Active is "1", None if there is none; B3 writing the  *)
(*   parsed document and parsing it again gives the same answers.          *)
(*                                                                         *)
(* Validation  [every behaviour of a format: write fails, serialised form  *)
(*   refused, read fails, lossy, accepts truncated input; 0-3 edge cases]  *)
(*   V1 validate_round_trip(x) = Ok iff x serialises, the form is          *)
(*   accepted, parses and equals x; V2 validate_all_edge_cases = Ok iff    *)
(*   all are; V3 validate_corruption_handling = Err iff the input cut by   *)
(*   one byte still parses; V4 run_comprehensive_validation = Ok iff the   *)
(*   instance round-trips, every edge case validates and V3 passes, and    *)
(*   then the statistics count 1 + edges round trips, the edges, one       *)
(*   corruption test and the serialised size; V5 BatchValidator::run_all   *)
(*   runs every validator and is Ok iff all are.  (Error variants open.)   *)
(*                                                                         *)
(* KMT files  [every history of mark / unmark / span / delete (both        *)
(*   paths) / save / load over keys of chosen buckets, 26+ keys in one     *)
(*   bucket; add / flush / save / load of index entries; one bit flipped   *)
(*   in a saved file]                                                      *)
(*  K1 residency file = bucket records [id][page count LE][1024-byte       *)
(*     pages] in ascending bucket order, pages of at most 25 entries of    *)
(*     40 bytes followed by zeros, every key in the bucket of its XOR      *)
(*     fold, once, every entry guarded: first word = lookup3 of bytes      *)
(*     4..36 | 0x80000000, span big endian, type byte, zero padding; the   *)
(*     entries say what the database says.                                 *)
(*  K2 save + load is the identity on what the API shows (Residency!).     *)
(*  K3 an entry whose guarded bytes were changed is not believed by load:  *)
(*     the file is refused or the entry dropped - no key that was never    *)
(*     marked shows up, no key changes its state.                          *)
(*  K4 .idx file = guarded header block (size 16, lookup3 of the header),  *)
(*     header {7, bucket, 0, 4, 5, 9, 30, 2^30}, 8 zero bytes, guarded     *)
(*     entry block (18 n, lookup3 of the entries), entries ascending by    *)
(*     key: key9, 5-byte big-endian archive<<30|offset, 4-byte LE size;    *)
(*     zero padding to 64 KiB and an update section of at least 0x7800     *)
(*     bytes iff entries are pending; named <bucket:02x>00000001.idx.      *)
(*  K5 a block whose guarded bytes were changed is not believed by load.   *)
(*                                                                         *)
(* Every operator takes the header record h of a run (the driver's "new"   *)
(* event: payload table, manifests, path table, key bytes) and judges one  *)
(* recorded event e.  D is the set of listed deviations an explanation     *)
(* may use; D = {} is the specification proper.                            *)
(***************************************************************************)
EXTENDS Integrity, TLC

CONSTANT KnownDeviations

St == INSTANCE Storage WITH KnownDeviations <- {}, Threshold <- 67108864
Rs == INSTANCE Resolve WITH Defects <- {}, model <- <<>>, built <- <<>>, cfg <- <<>>, res <- <<>>
Rd == INSTANCE Residency

AllDevs == {"FX08a", "FX08b", "FX08c", "FX08d", "FX08e", "FX08f", "FX08g", "FX08h", "FX08i", "FX08j", "FX08k"}

InPut(m, k, v)    == [x \in DOMAIN m \cup {k} |-> IF x = k THEN v ELSE m[x]]
InPutNew(m, k, v) == IF k \in DOMAIN m THEN m ELSE InPut(m, k, v)
InSeqSet(q)       == {q[i] : i \in 1..Len(q)}
NoneS             == "<none>"

\* subsets of a set of deviation ids, smallest first: the explanation that needs least is the one reported
InBySize(S) == LET RECURSIVE F(_)
                   F(n) == IF n > Cardinality(S) THEN <<>>
                           ELSE Rd!SetSeq({X \in SUBSET S : Cardinality(X) = n}) \o F(n + 1)
               IN F(0)

(***************************************************************************)
(* Part I - Installation                                                   *)
(***************************************************************************)
InNF        == [k |-> "err", v |-> "err:NotFound"]
InOk(z)     == [k |-> "ok", v |-> z]
InErr(s)    == IF s = "panic" THEN [k |-> "panic", v |-> "panic"] ELSE [k |-> "err", v |-> s]
InNameOf(h, md5) == LET S == {x \in DOMAIN h.pl : h.pl[x].md5 = md5} IN IF S = {} THEN "?" ELSE CHOOSE x \in S : TRUE
InOutOf(h, e)    == IF e.res = "ok" THEN InOk(InNameOf(h, e.md5)) ELSE InErr(e.res)

(* a     Storage!A-level books of the ekey route (live / maybe)
   known objects filed in the index; dmg: stored bytes damaged by the environment (any answer but a panic);
   bad: of those, the ones verify() has to report; soft: damage to the local header only
   hurt  objects that were filed when a write went through a handle that was never initialize()d
   root, enc: the manifests loaded last ("none"); init: this handle has been initialize()d
   ghosts of the caches as the code keeps them (used only to explain listed deviations):
   rfd fdid -> payload (never cleared), pc path -> payload, cc ckeys the resolver remembers,
   ic cache cell -> payload, fuzzy: a failed batch read left the cells uncertain
   rw: objects written successfully through this handle (a cell filled before such a write may hold what the
   damaged copy gave); lasthc: has_content_key answers of the previous read-back *)
InS0 == [a |-> St!A0, known |-> {}, dmg |-> {}, bad |-> {}, soft |-> {}, hurt |-> {}, root |-> "none", enc |-> "none",
         init |-> TRUE, dead |-> FALSE, rw |-> {}, rfd |-> <<>>, pc |-> <<>>, cc |-> {}, ic |-> <<>>, fuzzy |-> FALSE, lasthc |-> <<>>]

InFiles(h, r) == h.roots[r].files
InPathMap(f)  == [b \in {f[i][2] : i \in 1..Len(f)} \ {"-"} |-> f[IgMin({i \in 1..Len(f) : f[i][2] = b})][3]]
InFdMap(f)    == [n \in {f[i][1] : i \in 1..Len(f)} |-> f[IgMin({i \in 1..Len(f) : f[i][1] = n})][3]]
InEncMap(q)   == [x \in InSeqSet(q) |-> x]

\* the three manifest links, by the manifests loaded last (C03: a structure is a map)
InPathCk(h, I, s) == IF I.root = "none" THEN <<>> ELSE Rs!ModelLookup(InPathMap(InFiles(h, I.root)), h.paths[s].base)
InFdCk(h, I, n)   == IF I.root = "none" THEN <<>> ELSE Rs!ModelLookup(InFdMap(InFiles(h, I.root)), n)
InCkEk(h, I, x)   == IF I.enc = "none" THEN <<>> ELSE Rs!ModelLookup(InEncMap(h.encs[I.enc]), x)

InCls(out, y) == IF out.k = "ok" THEN (IF out.v = y THEN "exact" ELSE "other") ELSE out.k

\* I1: what a read of the object filed under y may answer
InEkOK(I, y, out, D) ==
  \/ ~I.init /\ out = InNF
  \/ y \in I.dmg /\ out.k # "panic"
  \/ "FX08g" \in D /\ y \in I.hurt /\ out.k # "panic"
  \/ /\ y \notin I.dmg
     /\ St!AReadOk(I.a, y, InCls(out, y), "na")
     /\ (y \notin (I.a.live \cup I.a.maybe) => out = InNF)

\* FX08k: the request's own cache cell still holds what a damaged copy gave, although y has been written again since
InStaleHit(I, cell, y, out, D) == "FX08k" \in D /\ cell \in DOMAIN I.ic /\ out = InOk(I.ic[cell]) /\ y \in I.rw

\* ckey -> (ekey ->) bytes
InCkOK(h, I, x, out, D) ==
  LET cell == "C:" \o x
      hit  == "FX08b" \in D /\ (cell \in DOMAIN I.ic \/ I.fuzzy)
  IN \/ hit /\ cell \in DOMAIN I.ic /\ out = InOk(I.ic[cell])
     \/ InStaleHit(I, cell, x, out, D)
     \/ hit /\ I.fuzzy /\ out.k = "ok"
     \/ /\ ~("FX08b" \in D /\ cell \in DOMAIN I.ic)
        /\ IF "FX08a" \in D THEN out = InNF
           ELSE LET y == IF "FX08b" \in D /\ x \in I.cc THEN <<x>> ELSE InCkEk(h, I, x)
                IN IF y = <<>> THEN out = InNF ELSE InEkOK(I, y[1], out, D)

InCodePathCk(h, I, s, D) == IF "FX08b" \in D /\ s \in DOMAIN I.pc THEN <<I.pc[s]>> ELSE InPathCk(h, I, s)
InCodeFdCk(h, I, n, D)   == IF "FX08b" \in D THEN Rs!ModelLookup(I.rfd, n) ELSE InFdCk(h, I, n)

\* I2 / I4: path -> ckey -> ...; a spelling that is some other request's cache cell is still only a path
InPathOK(h, I, s, out, D) ==
  LET pi   == h.paths[s]
      need == IF pi.base = "-" THEN "FX08d" ELSE "FX08b"
      cached == pi.cell \in DOMAIN I.ic
  IN \/ need \in D /\ cached /\ out = InOk(I.ic[pi.cell])
     \/ need \in D /\ I.fuzzy /\ out.k = "ok"
     \/ LET c == InPathCk(h, I, s) IN c # <<>> /\ InStaleHit(I, pi.cell, c[1], out, D)
     \/ /\ ~(need \in D /\ cached)
        /\ LET c == InCodePathCk(h, I, s, D) IN IF c = <<>> THEN out = InNF ELSE InCkOK(h, I, c[1], out, D)

InFdCell(n) == "F:" \o ToString(n)
InFdOK(h, I, n, out, D) ==
  LET cached == InFdCell(n) \in DOMAIN I.ic
  IN \/ "FX08b" \in D /\ cached /\ out = InOk(I.ic[InFdCell(n)])
     \/ "FX08b" \in D /\ I.fuzzy /\ out.k = "ok"
     \/ LET c == InFdCk(h, I, n) IN c # <<>> /\ InStaleHit(I, InFdCell(n), c[1], out, D)
     \/ /\ ~("FX08b" \in D /\ cached)
        /\ LET c == InCodeFdCk(h, I, n, D) IN IF c = <<>> THEN out = InNF ELSE InCkOK(h, I, c[1], out, D)

\* one member of a batch read: kind "p" | "f" | "c"
InMemberOK(h, I, kind, arg, out, D) ==
  CASE kind = "p" -> InPathOK(h, I, arg, out, D)
    [] kind = "f" -> InFdOK(h, I, arg, out, D)
    [] kind = "c" -> out = InNF \/ InCkOK(h, I, arg, out, D)
InBatchOK(h, I, kind, args, e, D) ==
  IF e.res = "ok"
  THEN Len(e.md5s) = Len(args) /\ \A i \in 1..Len(args) : InMemberOK(h, I, kind, args[i], InOk(InNameOf(h, e.md5s[i])), D)
  ELSE e.res # "panic" /\ \E i \in 1..Len(args) : InMemberOK(h, I, kind, args[i], InErr(e.res), D)

InInfoOK(h, I, e, D) ==
  LET c == InCodePathCk(h, I, e.s, D)
      y == IF c = <<>> THEN <<>> ELSE IF "FX08b" \in D /\ c[1] \in I.cc THEN c ELSE InCkEk(h, I, c[1])
  IN IF c = <<>> \/ y = <<>> THEN e.res = "none"
     ELSE /\ e.res = "some" /\ e.ck = h.pl[c[1]].ck /\ e.ek = h.pl[y[1]].ek /\ e.pathok
          /\ e.size = (IF InCkEk(h, I, c[1]) # <<>> THEN h.pl[c[1]].len ELSE 0)

InBuckets(h, S) == {h.pl[x].bucket : x \in S}
InStatsOK(h, I, e, D) ==
  /\ e.res = "ok" /\ e.st.pathok
  /\ \/ ~I.init
     \/ /\ e.st.archive_files = e.fs.ndata /\ e.st.archive_size = e.fs.dlen
        /\ \/ "FX08g" \in D /\ I.hurt # {}
           \/ /\ e.st.index_files = Cardinality(InBuckets(h, I.known))
              /\ e.st.index_entries = (IF "FX08f" \in D THEN 0 ELSE Cardinality(I.known))

InVerifyOK(I, e, D) ==
  /\ e.res = "ok" /\ e.v.total = e.v.valid + e.v.invalid + e.v.missing
  /\ \/ ~I.init
     \/ IF "FX08c" \in D THEN e.v.invalid + e.v.missing = 0
        ELSE /\ (e.v.invalid + e.v.missing = 0) => (I.bad \cap I.known = {})
             /\ (e.v.invalid + e.v.missing > 0) => ((I.bad \cup I.soft \cup (IF "FX08g" \in D THEN I.hurt ELSE {})) \cap I.known # {})

\* I7: executable definitions on the recorded bytes
InBlteOf(data) == <<66, 76, 84, 69, 0, 0, 0, 0, 78>> \o data
InRev(q)       == [i \in 1..Len(q) |-> q[Len(q) + 1 - i]]
InRawOK(e) ==
  /\ e.ck = Md5Digest(e.data)
  /\ e.blte = InBlteOf(e.data)
  /\ e.ek = Md5Digest(e.blte)
  /\ IgSub(e.lhdr, 0, 16) = InRev(e.ek)
  /\ IgBE32(e.lhdr, 16) = 30 + Len(e.blte) /\ IgB(e.lhdr, 20) = 0 /\ IgB(e.lhdr, 21) = 0
  /\ ProduceOK("lhdr", e.lhdr, [base |-> e.off])

\* the result of one event
InResOK(h, I, e, D) ==
  CASE e.op = "write"     -> e.res # "panic" /\ (e.res = "ok" => e.ck = h.pl[e.p].ck) /\ (I.init => e.res = "ok")
    [] e.op = "load_root" -> e.res = "ok"
    [] e.op = "load_enc"  -> e.res = "ok"
    [] e.op \in {"reopen", "reopen_raw", "cut", "rmdata"} -> e.res = "ok"
    [] e.op = "read_e"    -> InEkOK(I, e.p, InOutOf(h, e), D) \/ InStaleHit(I, "E:" \o e.p, e.p, InOutOf(h, e), D)
    [] e.op = "read_c"    -> LET out == InOutOf(h, e) IN
                             /\ out = InNF \/ InCkOK(h, I, e.p, out, D)
                             /\ (out = InNF /\ e.p \in DOMAIN I.lasthc) => I.lasthc[e.p] = "f"
                             /\ out.k = "ok" => e.obs.hc[e.p] = "t"
    [] e.op = "read_p"    -> InPathOK(h, I, e.s, InOutOf(h, e), D)
    [] e.op = "read_f"    -> InFdOK(h, I, e.n, InOutOf(h, e), D)
    [] e.op = "reads_p"   -> InBatchOK(h, I, "p", e.ss, e, D)
    [] e.op = "reads_f"   -> InBatchOK(h, I, "f", e.ns, e, D)
    [] e.op = "reads_c"   -> InBatchOK(h, I, "c", e.ps, e, D)
    [] e.op = "info"      -> InInfoOK(h, I, e, D)
    [] e.op = "stats"     -> InStatsOK(h, I, e, D)
    [] e.op = "verify"    -> InVerifyOK(I, e, D)
    [] e.op = "corrupt"   -> e.res \in {"ok", "skip"}
    [] e.op = "raw"       -> e.res = "skip" \/ (e.res = "ok" /\ (e.p \in I.dmg \/ InRawOK(e)))    \* a damaged record is not judged
    [] OTHER              -> FALSE

\* the read-back (has_* of every payload, the index listing) against the state J after the event
InObsOK(h, J, e, D) ==
  LET o == e.obs
      gone(y) == "FX08g" \in D /\ y \in J.hurt
  IN /\ DOMAIN o.he = DOMAIN h.pl /\ DOMAIN o.hc = DOMAIN h.pl
     /\ \A y \in DOMAIN h.pl :
          /\ o.he[y] = "t" => y \in J.known
          /\ (J.init /\ y \in J.known /\ ~gone(y)) => o.he[y] = "t"
          /\ o.hc[y] = "t" => /\ y \in J.known
                              /\ InCkEk(h, J, y) # <<>> \/ ("FX08b" \in D /\ y \in J.cc)
     /\ InSeqSet(o.listed) \subseteq J.known /\ Len(o.listed) = Cardinality(InSeqSet(o.listed)) /\ o.unknown = 0
     /\ J.init => \A y \in J.known : y \in InSeqSet(o.listed) \/ gone(y)

\* ghost of one single read (what the code's caches hold afterwards); out = observed outcome
InReadGhost(h, I, kind, arg, out) ==
  CASE kind = "e" -> IF out.k = "ok" THEN [I EXCEPT !.ic = InPutNew(@, "E:" \o arg, out.v)] ELSE I
    [] kind = "c" -> IF out.k = "ok" THEN [I EXCEPT !.ic = InPutNew(@, "C:" \o arg, out.v)] ELSE I
    [] kind = "p" ->
         LET cell == h.paths[arg].cell IN
         IF cell \in DOMAIN I.ic THEN I
         ELSE LET c  == InCodePathCk(h, I, arg, {"FX08b"})
                  I1 == IF c = <<>> THEN I ELSE [I EXCEPT !.pc = InPutNew(@, arg, c[1])]
              IN IF out.k = "ok" /\ c # <<>> THEN [I1 EXCEPT !.ic = InPutNew(InPutNew(@, "C:" \o c[1], out.v), cell, out.v)] ELSE I1
    [] kind = "f" ->
         LET cell == InFdCell(arg) IN
         IF cell \in DOMAIN I.ic THEN I
         ELSE LET c == Rs!ModelLookup(I.rfd, arg)
              IN IF out.k = "ok" /\ c # <<>> THEN [I EXCEPT !.ic = InPutNew(InPutNew(@, "C:" \o c[1], out.v), cell, out.v)] ELSE I

InBatchGhost(h, I, kind, args, e) ==
  LET RECURSIVE F(_, _)
      F(i, J) == IF i > Len(args) THEN J
                 ELSE F(i + 1, InReadGhost(h, J, kind, args[i], IF e.res = "ok" THEN InOk(InNameOf(h, e.md5s[i])) ELSE InNF))
  IN IF e.res = "ok" THEN F(1, I) ELSE [F(1, I) EXCEPT !.fuzzy = TRUE]

InClosed(I, initd) == [I EXCEPT !.rw = {}, !.root = "none", !.enc = "none", !.init = initd, !.rfd = <<>>, !.pc = <<>>, !.cc = {}, !.ic = <<>>,
                                !.fuzzy = FALSE, !.lasthc = <<>>]
InDamage(I, S, hard) == [I EXCEPT !.dmg = @ \cup S, !.bad = IF hard THEN @ \cup S ELSE @, !.soft = IF hard THEN @ ELSE @ \cup S]

\* the state after the event (books from the recorded inputs and answers; nothing here depends on D)
InAfter0(h, I, e) ==
  CASE e.op = "write" ->
         IF e.res # "ok" THEN [I EXCEPT !.a = St!AWrite(@, e.p, FALSE)]
         ELSE [I EXCEPT !.a = St!AWrite(@, e.p, TRUE), !.rw = @ \cup {e.p}, !.known = @ \cup {e.p}, !.dmg = @ \ {e.p}, !.bad = @ \ {e.p}, !.soft = @ \ {e.p},
                        !.hurt = IF I.init THEN @ \ {e.p} ELSE (@ \cup I.known) \ {e.p}]
    [] e.op = "load_root" -> IF e.res = "ok" THEN [I EXCEPT !.root = e.r, !.rfd = InFdMap(InFiles(h, e.r)) @@ @] ELSE I
    [] e.op = "load_enc"  -> IF e.res = "ok" THEN [I EXCEPT !.enc = e.e, !.cc = @ \cup InSeqSet(h.encs[e.e])] ELSE I
    [] e.op = "reopen"     -> InClosed(I, TRUE)
    [] e.op = "reopen_raw" -> InClosed(I, FALSE)
    [] e.op \in {"cut", "rmdata"} -> InDamage(InClosed(I, TRUE), InSeqSet(e.hit), TRUE)
    [] e.op = "corrupt" -> IF e.res = "ok" THEN InDamage(I, {e.p}, e.at # "lhdr") ELSE I
    [] e.op = "read_e" -> InReadGhost(h, I, "e", e.p, InOutOf(h, e))
    [] e.op = "read_c" -> InReadGhost(h, I, "c", e.p, InOutOf(h, e))
    [] e.op = "read_p" -> InReadGhost(h, I, "p", e.s, InOutOf(h, e))
    [] e.op = "read_f" -> InReadGhost(h, I, "f", e.n, InOutOf(h, e))
    [] e.op = "reads_p" -> InBatchGhost(h, I, "p", e.ss, e)
    [] e.op = "reads_f" -> InBatchGhost(h, I, "f", e.ns, e)
    [] e.op = "reads_c" -> InBatchGhost(h, I, "c", e.ps, e)
    [] e.op = "info" -> LET c == InCodePathCk(h, I, e.s, {"FX08b"}) IN IF c = <<>> THEN I ELSE [I EXCEPT !.pc = InPutNew(@, e.s, c[1])]
    [] OTHER -> I
InAfter(h, I, e) ==
  LET J == InAfter0(h, I, e)
  IN IF "dead" \in DOMAIN e.obs \/ "panic" \in DOMAIN e.obs THEN [J EXCEPT !.dead = TRUE]
     ELSE [J EXCEPT !.lasthc = e.obs.hc]

InEventOK(h, I, e, D) ==
  LET J == InAfter(h, I, e) IN ~J.dead /\ InResOK(h, I, e, D) /\ InObsOK(h, J, e, D)

\* the judgement: <<conforms, deviations used>>
InDevsOf(e) ==
  CASE e.op \in {"read_p", "read_f", "reads_p", "reads_f", "info"} -> {"FX08a", "FX08b", "FX08d", "FX08g", "FX08k"}
    [] e.op \in {"read_c", "reads_c", "read_e"} -> {"FX08b", "FX08g", "FX08k"}
    [] e.op = "stats"  -> {"FX08f", "FX08g"}
    [] e.op = "verify" -> {"FX08c", "FX08g"}
    [] OTHER -> {"FX08b", "FX08g"}
InJudge(h, I, e) ==
  LET cand == InBySize(InDevsOf(e) \cap KnownDeviations)
      okat == {i \in 1..Len(cand) : InEventOK(h, I, e, cand[i])}
  IN IF okat = {} THEN [ok |-> FALSE, devs |-> {}] ELSE [ok |-> TRUE, devs |-> cand[IgMin(okat)]]
\* an object whose loss was explained by FX08g is treated as damaged from then on
InSettle(I, e, devs) ==
  IF "FX08g" \in devs THEN [I EXCEPT !.dmg = @ \cup I.hurt, !.soft = @ \cup I.hurt] ELSE I

(***************************************************************************)
(* Part S - Storage (the manager of installations)                         *)
(* A name comes with its class (an input of the program, echoed in the     *)
(* event): "plain" = exactly one normal path component; "trail" = a plain  *)
(* name followed by separators / dot components ("foo/", "foo/.", "foo//": *)
(* denotes the directory of `dir` without being a plain name); "bad" =     *)
(* empty, ".", "..", nested, leading "./", absolute; "reserved" = one of   *)
(* the storage's own sub-directories (left open).                          *)
(* State: acc name -> handle number, dirs name -> directory, nh number of  *)
(* handles seen, objs directory -> payloads written there, tainted: the    *)
(* directories more than one handle serves (only under FX08e).             *)
(***************************************************************************)
SmS0 == [acc |-> <<>>, dir |-> <<>>, nh |-> 0, objs |-> <<>>, tainted |-> {}]
SmDirOf(o)   == "base/" \o o.dir
SmRefused(e) == e.open # "ok" /\ e.open # "panic"

\* candidates for the open part of an event: [st, dev]
SmOpenCands(S, e) ==
  LET fresh  == [S EXCEPT !.acc = InPut(@, e.n, S.nh), !.dir = InPut(@, e.n, e.dir), !.nh = @ + 1]
      newok  == e.open = "ok" /\ e.h = S.nh /\ e.dir = "base/" \o e.cdir
      sameok == e.open = "ok" /\ e.n \in DOMAIN S.acc /\ e.h = S.acc[e.n] /\ e.dir = S.dir[e.n]
      shared == {n \in DOMAIN S.dir : S.dir[n] = e.dir}
  IN CASE e.n \in DOMAIN S.acc -> IF sameok THEN {[st |-> S, dev |-> {}]} ELSE {}
       [] e.cls = "plain"    -> IF newok THEN {[st |-> IF shared = {} THEN fresh ELSE [fresh EXCEPT !.tainted = @ \cup {e.dir}],
                                                dev |-> IF shared = {} THEN {} ELSE {"FX08e"}]} ELSE {}
       [] e.cls = "bad"      -> IF SmRefused(e) THEN {[st |-> S, dev |-> {}]} ELSE {}
       [] e.cls = "trail"    -> IF SmRefused(e) THEN {[st |-> S, dev |-> {}]}
                                ELSE IF newok THEN {[st |-> [fresh EXCEPT !.tainted = IF shared = {} THEN @ ELSE @ \cup {e.dir}], dev |-> {"FX08e"}]}
                                ELSE {}
       [] e.cls = "reserved" -> IF SmRefused(e) THEN {[st |-> S, dev |-> {}]} ELSE IF newok THEN {[st |-> fresh, dev |-> {}]} ELSE {}
       [] OTHER -> {}

SmObjs(S, d) == IF d \in DOMAIN S.objs THEN S.objs[d] ELSE {}
\* the operation behind the open: [st, dev]
SmActCands(h, S, e) ==
  IF e.open # "ok" THEN (IF e.res = e.open THEN {[st |-> S, dev |-> {}]} ELSE {})
  ELSE LET loose == e.dir \in S.tainted IN
  CASE e.op = "open" -> {[st |-> S, dev |-> {}]}
    [] e.op = "write" -> IF e.res = "ok" THEN {[st |-> [S EXCEPT !.objs = InPut(@, e.dir, SmObjs(S, e.dir) \cup {e.p})], dev |-> {}]}
                         ELSE IF loose /\ e.res # "panic" THEN {[st |-> S, dev |-> {"FX08e"}]} ELSE {}
    [] e.op = "read" ->
         LET exact == e.res = "ok" /\ e.md5 = h.pl[e.p].md5
             want  == IF e.p \in SmObjs(S, e.dir) THEN exact ELSE e.res = "err:NotFound"
         IN IF want THEN {[st |-> S, dev |-> {}]} ELSE IF loose /\ e.res # "panic" THEN {[st |-> S, dev |-> {"FX08e"}]} ELSE {}
    [] e.op = "init" -> IF e.res = "ok" THEN {[st |-> S, dev |-> {}]} ELSE {}
    [] OTHER -> {}

SmObsOK(h, S, e) ==
  LET o == e.obs
      dirsOf == {S.dir[n] \o "/" : n \in DOMAIN S.dir}
  IN /\ InSeqSet(o.list) = DOMAIN S.acc /\ Len(o.list) = Cardinality(DOMAIN S.acc)
     /\ {"base/" \o x : x \in InSeqSet(o.dirs)} = {"base/" \o x : x \in InSeqSet(h.base0)} \cup dirsOf
     /\ o.outside = h.outside0

\* <<conforms, deviations, next state>>
SmJudge(h, S, e) ==
  LET c1 == SmOpenCands(S, e)
      c2 == UNION {{[st |-> y.st, dev |-> x.dev \cup y.dev] : y \in SmActCands(h, x.st, e)} : x \in c1}
      ok == {c \in c2 : c.dev \subseteq KnownDeviations /\ SmObsOK(h, c.st, e)}
  IN IF e.res = "panic" \/ ok = {} THEN [ok |-> FALSE, devs |-> {}, st |-> S]
     ELSE LET c == CHOOSE x \in ok : \A y \in ok : Cardinality(x.dev) <= Cardinality(y.dev)
          IN [ok |-> TRUE, devs |-> c.dev, st |-> c.st]

(***************************************************************************)
(* Part B - .build.info                                                    *)
(* The program is the logical table: cols = <<name, type>>, rows = values  *)
(* as text, and for the two accessors that interpret a value what the      *)
(* value means (ims[i] = IM Size of row i as a number, -1 = not a number;  *)
(* hosts[i] / servers[i] = the blank-separated words).  d = what the       *)
(* parsed file answered, rt = the same after format + parse.               *)
(***************************************************************************)
BiKnown == {"Branch", "Active", "Build Key", "CDN Key", "Install Key", "IM Size", "CDN Path", "CDN Hosts", "CDN Servers", "Tags",
            "Armadillo", "Last Activated", "Version", "Product", "Nope"}
BiColNames(e)  == {e.cols[j][1] : j \in 1..Len(e.cols)}
BiColIdx(e, c) == IgMin({j \in 1..Len(e.cols) : e.cols[j][1] = c})
BiGet(e, i, c) == IF c \in BiColNames(e) THEN e.rows[i][BiColIdx(e, c)] ELSE NoneS
BiActive(e, i) == BiGet(e, i, "Active") = "1"
BiEntryOK(e, i, x) ==
  /\ \A c \in BiColNames(e) : x.raw[c] = BiGet(e, i, c)
  /\ x.nope = NoneS
  /\ x.branch = BiGet(e, i, "Branch") /\ x.active = BiActive(e, i)
  /\ x.build_key = BiGet(e, i, "Build Key") /\ x.cdn_key = BiGet(e, i, "CDN Key") /\ x.install_key = BiGet(e, i, "Install Key")
  /\ x.install_size = (IF "IM Size" \in BiColNames(e) THEN e.ims[i] ELSE 0 - 1)
  /\ x.cdn_path = BiGet(e, i, "CDN Path")
  /\ x.cdn_hosts = (IF "CDN Hosts" \in BiColNames(e) THEN e.hosts[i] ELSE <<>>)
  /\ x.cdn_servers = (IF "CDN Servers" \in BiColNames(e) THEN e.servers[i] ELSE <<>>)
  /\ x.tags = BiGet(e, i, "Tags") /\ x.armadillo = BiGet(e, i, "Armadillo") /\ x.last_activated = BiGet(e, i, "Last Activated")
  /\ x.version = BiGet(e, i, "Version") /\ x.product = BiGet(e, i, "Product")
BiDescOK(e, d) ==
  /\ d.count = Len(e.rows) /\ Len(d.entries) = Len(e.rows)
  /\ \A c \in BiKnown : d.has[c] = (c \in BiColNames(e))
  /\ \A i \in 1..Len(e.rows) : BiEntryOK(e, i, d.entries[i])
  /\ LET A == {i \in 1..Len(e.rows) : BiActive(e, i)}                                 \* B2
     IN IF A = {} THEN ~d.active.some ELSE d.active.some /\ BiEntryOK(e, IgMin(A), d.active.e)
BiOK(e) == e.res = "ok" /\ BiDescOK(e, e.d) /\ e.rt = e.d

(***************************************************************************)
(* Part V - the validation framework, as a decision table over the         *)
(* behaviour c of a format: wfail, ser_len, invalid_ser, rfail, lossy,     *)
(* trunc_ok, edges, bad_edges (bit i: edge case i does not survive).       *)
(***************************************************************************)
VaBit(n, i)   == (n \div (2 ^ i)) % 2 = 1
VaOk(s)       == s = "ok"
VaFails(s)    == s # "ok" /\ s # "panic"
VaSame(c)     == c.ser_len >= 5 /\ ~c.lossy                      \* the mock carries its value in bytes 1..4
VaRtOK(c, bad)  == ~c.wfail /\ ~c.invalid_ser /\ c.ser_len > 0 /\ ~c.rfail /\ VaSame(c) /\ ~bad
VaEdgesOK(c)    == \A i \in 0..(c.edges - 1) : VaRtOK(c, VaBit(c.bad_edges, i))
VaCorrOK(c)     == ~c.wfail /\ (c.ser_len = 0 \/ c.rfail \/ ~c.trunc_ok)
VaBasicOK(c)    == ~c.wfail /\ ~c.rfail /\ VaSame(c)
VaCompOK(c)     == VaBasicOK(c) /\ VaEdgesOK(c) /\ VaCorrOK(c)
VaIff(b, s)     == IF b THEN VaOk(s) ELSE VaFails(s)
VaFormatOK(e) ==
  LET c == e.cfg IN
  /\ VaIff(VaRtOK(c, FALSE), e.rt) /\ VaIff(VaEdgesOK(c), e.edges_r) /\ VaIff(VaCorrOK(c), e.corr) /\ VaIff(VaCompOK(c), e.comp)
  /\ VaCompOK(c) => e.stats = [rt |-> 1 + c.edges, edges |-> c.edges, corr |-> 1, avg |-> c.ser_len]
VaBatchOK(cfgs, e) ==
  /\ VaIff(\A i \in 1..Len(cfgs) : VaCompOK(cfgs[i]), e.res)
  /\ e.ran = [i \in 1..Len(cfgs) |-> TRUE]
  /\ e.plain => (VaOk(e.plain_rt) /\ VaOk(e.plain_edges) /\ VaOk(e.plain_corr))

(***************************************************************************)
(* Part K - the residency database file and the .idx file                  *)
(***************************************************************************)
KmLE32(b, p)   == WFromLE(IgB(b, p), IgB(b, p + 1), IgB(b, p + 2), IgB(b, p + 3))
KmBE32(n)      == <<n \div 16777216, (n \div 65536) % 256, (n \div 256) % 256, n % 256>>     \* 0 <= n < 2^31
KmLE32Of(n)    == <<n % 256, (n \div 256) % 256, (n \div 65536) % 256, n \div 16777216>>
KmGuard(b)     == WOr(HashLittle(IgSub(b, 4, 37), WZero), Bit31)                             \* residency entry, 40 bytes
KmGuardOK(b)   == KmLE32(b, 0) = KmGuard(b)
KmFold(key)    == LET x == IgXorAll(key) IN ((x \div 16) ^^ x) % 16
KmKey(b)       == IgSub(b, 4, 20)
KmType(b)      == IgB(b, 36)
KmTypeCls(t)   == IF t \in {1, 2, 6} THEN "R" ELSE IF t = 7 THEN "S" ELSE "N"
KmRegions      == {Rg(4, 37, 0, 4)}                                                          \* Integrity's notion: bytes 4..36 covered by 0..3
KmSum(q)       == LET RECURSIVE F(_) F(i) == IF i > Len(q) THEN 0 ELSE q[i] + F(i + 1) IN F(1)
KmFlat(qq)     == LET RECURSIVE F(_) F(i) == IF i > Len(qq) THEN <<>> ELSE qq[i] \o F(i + 1) IN F(1)
\* all entries of a file image, in file order
KmEntries(f)   == KmFlat([i \in 1..Len(f.recs) |-> KmFlat([j \in 1..Len(f.recs[i].pages) |-> f.recs[i].pages[j].ents])])
KmNameOf(h, key) == LET S == {n \in DOMAIN h.keys : h.keys[n].bytes = key} IN IF S = {} THEN "fill" ELSE CHOOSE n \in S : TRUE

(* state of a residency run: r = Residency!-state (st, disk, ro); span / fills / bdel (keys whose entry the batch
   path of delete_keys rewrote) with their on-disk copies; img = entries of the file as last saved; flt = the flip *)
KrS0 == [r |-> Rd!R0, span |-> <<>>, dspan |-> <<>>, fills |-> 0, dfills |-> 0, bdel |-> {}, dbdel |-> {}, img |-> <<>>,
         flt |-> <<>>, dirty |-> FALSE]
KrBatch(e) == Len(e.ks) + e.pad > 10000
KrAfter(K, e) ==
  LET x == IF e.op \in {"mark", "unmark", "span", "delete", "save", "reload"} THEN Rd!RExpect(K.r, e).st ELSE K.r
      K1 == [K EXCEPT !.r = x]
  IN CASE e.op = "span"   -> [K1 EXCEPT !.span = InPut(@, e.k, <<e.off, e.len>>), !.bdel = @ \ {e.k}, !.dirty = TRUE]
       [] e.op \in {"mark", "unmark"} -> [K1 EXCEPT !.bdel = @ \ {e.k}, !.dirty = TRUE]
       [] e.op = "delete" -> [K1 EXCEPT !.bdel = IF KrBatch(e) THEN @ \cup (InSeqSet(e.ks) \cap DOMAIN K.r.st) ELSE @ \ InSeqSet(e.ks), !.dirty = TRUE]
       [] e.op = "fill"   -> [K1 EXCEPT !.fills = @ + e.n, !.dirty = TRUE]
       [] e.op = "save"   -> [K1 EXCEPT !.dspan = K.span, !.dfills = K.fills, !.dbdel = K.bdel, !.dirty = FALSE,
                                        !.img = IF "recs" \in DOMAIN e.file THEN KmEntries(e.file) ELSE @]
       [] e.op = "reload" -> [K1 EXCEPT !.span = K.dspan, !.fills = K.dfills, !.bdel = K.dbdel, !.dirty = FALSE]
       [] e.op = "flip"   -> [K1 EXCEPT !.flt = IF e.res = "ok" THEN <<e.ent, e.at, e.bit>> ELSE @]
       [] OTHER -> K1

\* what the API shows for a list of believed entries [n |-> name | "fill" | "phantom", c |-> "R" | "S" | "N"]
KrShow(h, L) ==
  [res    |-> [n \in DOMAIN h.keys |-> \E i \in 1..Len(L) : L[i].n = n /\ L[i].c = "R"],
      scan   |-> {L[i].n : i \in {j \in 1..Len(L) : L[j].c = "R" /\ L[j].n \notin {"fill", "phantom"}}},
      nfill  |-> Cardinality({i \in 1..Len(L) : L[i].n = "fill" /\ L[i].c = "R"}),
      phantom |-> Cardinality({i \in 1..Len(L) : L[i].n = "phantom" /\ L[i].c = "R"}),
   count  |-> Cardinality({i \in 1..Len(L) : L[i].c \in {"R", "S"}})]
KrObsIs(e, s) ==
  LET o == e.obs IN
  /\ o.res = s.res /\ InSeqSet(o.scan) = s.scan /\ Len(o.scan) = Cardinality(s.scan)
  /\ o.nfill = s.nfill /\ o.fres = s.nfill /\ o.phantom = s.phantom /\ o.count = s.count
\* the believed entries of a database state
KrListOf(st, fills) ==
  Rd!SetSeq({[n |-> k, c |-> st[k], i |-> 0] : k \in DOMAIN st}) \o [j \in 1..fills |-> [n |-> "fill", c |-> "R", i |-> j]]
\* ... and of a file image (what a loader that believes every entry sees)
KrListOfImg(h, img) == [i \in 1..Len(img) |-> [n |-> KmNameOf(h, KmKey(img[i])), c |-> KmTypeCls(KmType(img[i])), i |-> i]]

KrObsOK(h, K, e) == KrObsIs(e, KrShow(h, KrListOf(K.r.st, K.fills)))

\* K1: the saved file against the database state K (after the save)
KrSpanOK(b, sp) == IgSub(b, 20, 36) = KmBE32(sp[1]) \o KmBE32(sp[2]) \o IgZeros(8)
KrEntryOK(rec, b, K, D) ==
  /\ Len(b) = 40 /\ KmFold(KmKey(b)) = rec.b /\ IgSub(b, 37, 40) = <<0, 0, 0>> /\ KmType(b) \in {1, 2, 3, 6, 7}
  /\ \/ KmGuardOK(b)
     \/ /\ "FX08i" \in D /\ KmType(b) = 3
        /\ \E t \in {1, 2, 6, 7} : KmLE32(b, 0) = KmGuard([b EXCEPT ![37] = t])
KrFileOK(h, K, e, D) ==
  LET f == e.file IN
  IF "absent" \in DOMAIN f THEN Rd!Tracked(K.r.disk) = {} /\ K.dfills = 0
  ELSE
  LET ents == KmEntries(f)
      ofk(n) == {i \in 1..Len(ents) : KmKey(ents[i]) = h.keys[n].bytes}
      named  == UNION {ofk(n) : n \in DOMAIN h.keys}
      st     == K.r.disk
  IN /\ f.tail = 0 /\ f.flen = KmSum([i \in 1..Len(f.recs) |-> 5 + 1024 * f.recs[i].np])
     /\ \A i \in 1..Len(f.recs) :
          LET rec == f.recs[i] IN
          /\ rec.complete /\ rec.b \in 0..15 /\ rec.np = Len(rec.pages) /\ rec.np >= 1
          /\ i > 1 => f.recs[i - 1].b < rec.b
          /\ \A j \in 1..rec.np : /\ Len(rec.pages[j].ents) \in 1..25 /\ rec.pages[j].rest0
                                  /\ \A x \in 1..Len(rec.pages[j].ents) : KrEntryOK(rec, rec.pages[j].ents[x], K, D)
     /\ \A i, j \in 1..Len(ents) : i # j => KmKey(ents[i]) # KmKey(ents[j])
     /\ \A n \in DOMAIN h.keys :
          LET c == IF n \in DOMAIN st THEN st[n] ELSE "N" IN
          CASE c = "R" -> \E i \in ofk(n) : KmType(ents[i]) \in {1, 2, 6}
            [] c = "S" -> \E i \in ofk(n) : KmType(ents[i]) = 7 /\ KrSpanOK(ents[i], K.dspan[n])
            [] OTHER   -> \A i \in ofk(n) : KmType(ents[i]) = 3
     /\ Cardinality((1..Len(ents)) \ named) = K.dfills
     /\ \A i \in (1..Len(ents)) \ named : KmType(ents[i]) = 1

\* K3: a load after one flipped bit.  E = the entry hit (number K.flt[1] of the image), at = byte in the entry
KrWithout(L, i) == SelectSeq(L, LAMBDA x : x.i # i)
KrFlipCands(h, K, e) ==
  LET E     == K.flt[1] + 1
      at    == K.flt[2]
      base  == KrListOfImg(h, K.img)
      judged == FlipJudged(KmRegions, at)
      t2    == KmType(K.img[E]) ^^ (2 ^ K.flt[3])
      believed == IF at \in 4..19 THEN [base EXCEPT ![E].n = "phantom"]
                  ELSE IF at = 36 THEN [base EXCEPT ![E].c = KmTypeCls(t2)] ELSE base
      same  == KrObsIs(e, KrShow(h, base))
      drop  == KrObsIs(e, KrShow(h, KrWithout(base, E)))
  IN IF e.res # "ok" THEN (IF e.res # "panic" /\ same THEN {{}} ELSE {})            \* refused: the old database is still there
     ELSE (IF drop \/ (~judged /\ same) THEN {{}} ELSE {}) \cup
          (IF judged /\ KrObsIs(e, KrShow(h, believed)) THEN {{"FX08h"}} ELSE {})

\* <<conforms, deviations>> of one residency event against the state K before it
KrJudge(h, K, e) ==
  LET J == KrAfter(K, e)
      resok == IF e.op \in {"mark", "unmark", "span", "delete", "save", "reload"} THEN Rd!RExpect(K.r, e).rok ELSE e.res \in {"ok", "skip"}
  IN IF e.op = "reload" /\ K.flt # <<>>
     THEN LET c == {d \in KrFlipCands(h, K, e) : d \subseteq KnownDeviations}
          IN IF c = {} THEN [ok |-> FALSE, devs |-> {}] ELSE [ok |-> TRUE, devs |-> IF {} \in c THEN {} ELSE CHOOSE d \in c : TRUE]
     ELSE IF e.op = "flip" THEN [ok |-> e.res \in {"ok", "skip"}, devs |-> {}]
     ELSE IF ~(resok /\ KrObsOK(h, J, e)) THEN [ok |-> FALSE, devs |-> {}]
     ELSE IF e.op # "save" THEN [ok |-> TRUE, devs |-> {}]
     ELSE IF KrFileOK(h, J, e, {}) THEN [ok |-> TRUE, devs |-> {}]
     ELSE IF "FX08i" \in KnownDeviations /\ J.dbdel # {} /\ KrFileOK(h, J, e, {"FX08i"}) THEN [ok |-> TRUE, devs |-> {"FX08i"}]
     ELSE [ok |-> FALSE, devs |-> {}]

(* ---- .idx file.  State: sv key -> value in the sorted section, pend key -> value in the update section (value =
   <<archive, offset, size>>), their saved copies, flt = the flip <<bucket, pos>> *)
KiS0 == [sv |-> <<>>, pend |-> <<>>, dsv |-> <<>>, dpend |-> <<>>, flt |-> <<>>]
KiBucket(h, k) == h.keys[k].bucket
KiDrop(m, S)   == [x \in DOMAIN m \ S |-> m[x]]
KiAfter(h, K, e) ==
  CASE e.op = "add" /\ e.res = "ok"   -> [K EXCEPT !.pend = InPut(@, e.k, <<e.id, e.off, e.size>>)]
    \* a flush with something to merge rewrites the bucket's file: a durable point for that bucket (C05)
    [] e.op = "flush" /\ e.res = "ok" -> LET S  == {k \in DOMAIN K.pend : KiBucket(h, k) = e.b}
                                             nb == [k \in DOMAIN K.sv \cup S |-> IF k \in S THEN K.pend[k] ELSE K.sv[k]]
                                             B  == {k \in DOMAIN nb : KiBucket(h, k) = e.b}
                                         IN IF S = {} THEN K
                                            ELSE [K EXCEPT !.sv = nb, !.pend = KiDrop(@, S),
                                                           !.dsv = [k \in {x \in DOMAIN K.dsv : KiBucket(h, x) # e.b} \cup B |-> IF k \in B THEN nb[k] ELSE K.dsv[k]],
                                                           !.dpend = KiDrop(@, {k \in DOMAIN K.dpend : KiBucket(h, k) = e.b})]
    [] e.op = "save" /\ e.res = "ok"  -> [K EXCEPT !.dsv = K.sv, !.dpend = K.pend]
    [] e.op = "reload" /\ e.res = "ok" -> [K EXCEPT !.sv = K.dsv, !.pend = K.dpend]
    [] e.op = "flip" /\ e.res = "ok"  -> [K EXCEPT !.flt = <<e.b, e.pos>>]
    [] OTHER -> K
KiValStr(v) == ToString(v[1]) \o ":" \o ToString(v[2]) \o ":" \o ToString(v[3])
KiLook(K, k) == IF k \in DOMAIN K.pend THEN KiValStr(K.pend[k]) ELSE IF k \in DOMAIN K.sv THEN KiValStr(K.sv[k]) ELSE "none"
KiKeys(K)    == DOMAIN K.pend \cup DOMAIN K.sv
KiObsOK(h, K, e, D) ==
  LET o == e.obs IN
  /\ \A k \in DOMAIN h.keys : o.look[k] = KiLook(K, k)
  /\ o.count = Cardinality(KiKeys(K)) /\ o.unknown = 0
  /\ o.stats_files = Cardinality({KiBucket(h, k) : k \in KiKeys(K)})
  /\ o.stats_entries = (IF "FX08f" \in D THEN Cardinality(DOMAIN K.sv) ELSE Cardinality(KiKeys(K)))

KiLexLess(a, b) == \E i \in 1..9 : a[i] < b[i] /\ \A j \in 1..(i - 1) : a[j] = b[j]
KiSort(h, S) == LET RECURSIVE F(_)
                    F(T) == IF T = {} THEN <<>>
                            ELSE LET m == CHOOSE x \in T : \A y \in T \ {x} : KiLexLess(h.keys[x].bytes, h.keys[y].bytes)
                                 IN <<m>> \o F(T \ {m})
                IN F(S)
KiEntryBytes(key, v) ==
  IgTake(key, 9) \o <<v[1] \div 4, (v[1] % 4) * 64 + v[2] \div 16777216, (v[2] \div 65536) % 256, (v[2] \div 256) % 256, v[2] % 256>>
                 \o KmLE32Of(v[3])
KiFileName(b) == Rs!HexD[(b \div 16) + 1] \o Rs!HexD[(b % 16) + 1] \o "00000001.idx"
\* K4: the file of bucket b against the saved state
KiFileOK(h, K, b, f) ==
  LET ks   == KiSort(h, {k \in DOMAIN K.dsv : KiBucket(h, k) = b})
      want == KmFlat([i \in 1..Len(ks) |-> KiEntryBytes(h.keys[ks[i]].bytes, K.dsv[ks[i]])])
      pending == {k \in DOMAIN K.dpend : KiBucket(h, k) = b} # {}
      hd   == f.hdr
  IN /\ Len(hd) = 40
     /\ IgSub(hd, 0, 4) = <<16, 0, 0, 0>>
     /\ KmLE32(hd, 4) = HashLittle(IgSub(hd, 8, 24), WZero)
     /\ IgSub(hd, 8, 24) = <<7, 0, b, 0, 4, 5, 9, 30, 0, 0, 0, 64, 0, 0, 0, 0>>
     /\ IgSub(hd, 24, 32) = IgZeros(8)
     /\ IgSub(hd, 32, 36) = KmLE32Of(18 * Len(ks)) /\ f.esz = 18 * Len(ks)
     /\ KmLE32(hd, 36) = HashLittle(f.ents, WZero)
     /\ f.ents = want
     /\ f.pad0
     /\ IF pending THEN f.upd_nonzero /\ f.flen >= 65536 + 30720 ELSE ~f.upd_nonzero
KiFilesOK(h, K, e) ==
  LET bs == {KiBucket(h, k) : k \in DOMAIN K.dsv \cup DOMAIN K.dpend}
  IN /\ InSeqSet(e.names) = {KiFileName(b) : b \in bs} /\ Len(e.names) = Cardinality(bs)
     /\ \A b \in bs : KiFileOK(h, K, b, e.files[KiFileName(b)])
\* K5: the regions of the file of bucket b (header block, entry block)
KiRegions(h, K, b) == {Rg(8, 24, 4, 8), Rg(40, 40 + 18 * Cardinality({k \in DOMAIN K.dsv : KiBucket(h, k) = b}), 36, 40)}
KiJudge(h, K, e) ==
  LET J == KiAfter(h, K, e)
      fdev == IF "FX08f" \in KnownDeviations THEN {"FX08f"} ELSE {}
      obs(D) == KiObsOK(h, J, e, D)
  IN IF e.op = "reload" /\ K.flt # <<>>
     THEN LET judged == FlipJudged(KiRegions(h, K, K.flt[1]), K.flt[2])
              gone   == e.obs.unknown = 0 /\ \A k \in DOMAIN h.keys : KiBucket(h, k) = K.flt[1] => e.obs.look[k] = "none"
          IN IF "panic" \in DOMAIN e.obs \/ e.res = "panic" THEN [ok |-> FALSE, devs |-> {}]
             ELSE IF ~judged \/ e.res # "ok" \/ gone THEN [ok |-> TRUE, devs |-> {}]
             ELSE [ok |-> "FX08j" \in KnownDeviations, devs |-> {"FX08j"}]
     ELSE IF e.op = "flip" THEN [ok |-> e.res \in {"ok", "skip"}, devs |-> {}]
     ELSE IF e.res # "ok" \/ (e.op = "save" /\ ~KiFilesOK(h, J, e)) THEN [ok |-> FALSE, devs |-> {}]
     ELSE IF obs({}) THEN [ok |-> TRUE, devs |-> {}]
     ELSE IF obs(fdev) THEN [ok |-> TRUE, devs |-> fdev]
     ELSE [ok |-> FALSE, devs |-> {}]
=============================================================================
