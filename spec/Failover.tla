------------------------------ MODULE Failover ------------------------------
(***************************************************************************)
(* Property C13: version-service queries fail over in order and cache only *)
(* good answers (cascette-protocol: RibbitTactClient::query /               *)
(* query_with_fallback, ProtocolError::should_retry, RibbitClient's read    *)
(* loop, is_v1_mime_response, ProtocolCache, CdnClient::download).          *)
(*                                                                         *)
(*   A query tries TACT HTTPS, then TACT HTTP, then Ribbit TCP, moving on  *)
(*   only after a transient failure, and returns the first well-formed     *)
(*   answer; it fails only if every permitted protocol failed or a         *)
(*   protocol gave a definitive refusal.  A successful answer is served    *)
(*   from the cache, without traffic, until its time-to-live ends; a       *)
(*   failed or malformed answer is never cached.  The parsed answer does   *)
(*   not depend on how the transport split the bytes into packets.         *)
(*                                                                         *)
(* Three parts, one set of definitions:                                    *)
(*   1. QUERY: the set Outcomes(cfg, st, p, any) of results the statement  *)
(*      permits for a query of path p in abstract state st - exactly as    *)
(*      permissive as the statement (DESIGN 3.1: an ambiguous fault may    *)
(*      stop or continue the chain; which error is reported is open).      *)
(*      MC_Failover explores the machine built from it and checks the      *)
(*      statement's clauses as invariants over the outcome sets; T_Failover *)
(*      matches each recorded query of the real client against it.         *)
(*   2. TCPREAD: a response as byte classes, a split into segments, the    *)
(*      stop rule of RibbitClient::query_host_raw as in the code;          *)
(*      property: Read(split) = whole for every split.                     *)
(*   3. CDN: CdnClient::download as cache lookup -> fetch -> store.        *)
(*                                                                         *)
(* Known deviations of the code are outcomes tagged with a finding id,     *)
(* present only when the id is in KnownDeviations.                         *)
(***************************************************************************)
EXTENDS Naturals, Sequences, FiniteSets, TLC

CONSTANT KnownDeviations

SetOfSeq(q) == {q[i] : i \in 1..Len(q)}
MinOf(S)    == CHOOSE x \in S : \A y \in S : x <= y

\* ===========================================================================
\* 1. QUERY
\* ===========================================================================
EPs == {"https", "http", "tcp"}

\* ---- what an endpoint may do with a request (quantifier of the statement) --
OkBeh        == {"OkBpsv", "OkBpsvEof", "OkMime", "OkMimeLf", "OkMimeSrv"}
H5xx         == {"H500", "H502", "H503", "H504"}
\* 429 without a Retry-After header, and with one whose value is a number of seconds, zero, an HTTP-date,
\* fractional, with a unit, negative, empty, not ASCII: transient "with/without Retry-After", whatever it says
H429s        == {"H429", "H429RA", "H429RA0", "H429RA120", "H429RADate", "H429RAFrac", "H429RAUnit", "H429RANeg",
                 "H429RAEmpty", "H429RABin"}
H4xx         == {"H400", "H401", "H403", "H404", "H410"}
MalformedBeh == {"Malformed", "MalformedEmpty", "MalformedRow", "MalformedBin", "MalformedHtml", "MalformedDec", "MalformedSum"}
ClosedBeh    == {"ClosedMid", "ClosedHead", "ClosedEmpty", "ClosedMidBpsv"}

Transient  == H5xx \cup H429s \cup {"Refused", "Stall"}   \* the chain MUST continue
Definitive == H4xx                                        \* the chain MUST stop
Ambiguous  == MalformedBeh \cup ClosedBeh                 \* either
AllBeh     == OkBeh \cup Transient \cup Definitive \cup Ambiguous

\* A raw BPSV text over TCP carries no length and no checksum: when the peer closes half-way the client
\* cannot always tell, so any answer (or an error) is accepted.  A V1 MIME message cut half-way has no
\* closing boundary and no checksum line: it is a failed answer.
Undetectable(ep, b) == ep = "tcp" /\ b = "ClosedMidBpsv"

TcpOnly(cls) == cls \in {"summary", "certs"}
Chain(cls)   == IF TcpOnly(cls) THEN <<"tcp">> ELSE <<"https", "http", "tcp">>

\* ---- the fail-over walk: which prefixes of the chain may be contacted, with what end ----------
\* [n |-> endpoints contacted, res |-> "ok" | "err" | "any", ep |-> the endpoint that ended the walk]
RECURSIVE Walk(_, _, _)
Walk(beh, chain, i) ==
  IF i > Len(chain) THEN {[n |-> Len(chain), res |-> "err", ep |-> "none"]}
  ELSE LET ep == chain[i]
           b  == beh[ep]
           stop(r) == [n |-> i, res |-> r, ep |-> ep]
       IN CASE b \in OkBeh      -> {stop("ok")}
            [] b \in Definitive -> {stop("err")}
            [] b \in Transient  -> Walk(beh, chain, i + 1)
            [] b \in Ambiguous  -> {stop("err")} \cup Walk(beh, chain, i + 1)
                                     \cup (IF Undetectable(ep, b) THEN {stop("any")} ELSE {})

\* ---- the cache as the statement sees it -----------------------------------
\* Time is in milliseconds since the start of the run.  A query occupies an interval [t0, t1] (the monitor takes
\* it from the driver's monotonic clock, the model checker from its nominal clock); the store of a fetched answer
\* happens somewhere inside the interval of the query that fetched it.  One entry per path: the answer, the
\* interval [lo, hi] in which it was stored, which client object stored it, and
\*   st = "none" nothing cached, "have" cached, "dead" cached but known to have run out (a later query went to
\*   the network although it could have been served: time is monotonic).
\* Relative to a query [t0, t1] an entry is
\*   "live"  the whole query lies before the earliest possible expiry      (hit required)
\*   "stale" the whole query lies after the latest possible expiry         (traffic required)
\*   "maybe" otherwise (DESIGN 3.2): both conform
\* with a slack for clock granularity and the different clocks the caches use (Instant, SystemTime, file mtime).
\* A hit never changes the entry: an answer lives for one TTL from the moment it was fetched.
Slack == 120
\* Which time-to-live an answer gets is a matter of its endpoint class: version and background-download
\* information (they change with every build) live for ribbit_ttl, CDN configuration for cdn_ttl, everything else
\* (summary, certificates) for config_ttl.  The modes "long" / "mid" / "short" set the three fields to one value;
\* mode "cls" sets them to 600 / 1800 / 3000 ms.
TtlOf(cls) == CASE cls \in {"versions", "bgdl"} -> 600 [] cls = "cdns" -> 1800 [] OTHER -> 3000
TtlMs(cfg) == CASE cfg.ttl = "long" -> 3600000 [] cfg.ttl = "mid" -> 600 [] cfg.ttl = "cls" -> TtlOf(cfg.cls) [] OTHER -> 150
TickMs == 650          \* `tick`: sleep clearly beyond the short TTL
Entry(doc, st, gen, lo, hi) == [doc |-> doc, st |-> st, gen |-> gen, lo |-> lo, hi |-> hi]
NoEntry == Entry("", "none", 0, 0, 0)
Class(cfg, e, t0, t1) ==
  CASE e.st = "none" -> "none"
    [] e.st = "dead" -> "stale"
    [] t1 + Slack < e.lo + TtlMs(cfg) -> "live"
    [] t0 > e.hi + TtlMs(cfg) + Slack -> "stale"
    [] OTHER -> "maybe"

\* abstract state of a run: cache (sequence over paths), client generation, current behaviours, interval of the
\* query being judged
St0(cfg) == [cache |-> <<NoEntry, NoEntry>>, gen |-> 0, beh |-> cfg.beh, t0 |-> 0, t1 |-> 0]
At(st, t0, t1) == [st EXCEPT !.t0 = t0, !.t1 = t1]
EClass(cfg, st, p) == Class(cfg, st.cache[p], st.t0, st.t1)

\* ---- TCPREAD operators used by the query part (defined in part 2) ----------
NN(r, p)      == p >= 2 /\ p \in r.nl /\ (p - 1) \in r.nl      \* the first p bytes end with "\n\n"
IsMime(r, p)  == r.mime_at > 0 /\ p >= r.mime_at               \* the first p bytes are recognised as V1 MIME
StopsAt(r, p) == NN(r, p) /\ ~IsMime(r, p)                     \* the code's stop rule holds after a read ending at p
\* answers the reader can produce by stopping early: <<position, digest of the document that ends there>>
Truncations(r) == {pr \in r.prefix : pr[1] < r.len /\ StopsAt(r, pr[1])}

Dev(id) == id \in KnownDeviations

\* ---- outcomes of one query ---------------------------------------------------
\* [res |-> "ok" | "err" | "panic", doc, contacted (sequence of endpoints, in order), hit, dev]
Out(res, doc, contacted, hit, dev) == [res |-> res, doc |-> doc, contacted |-> contacted, hit |-> hit, dev |-> dev]

NetOutcomes(cfg, st, p, any) ==
  LET chain == Chain(cfg.cls)
      one(w) ==
        LET c == SubSeq(chain, 1, w.n) IN
        CASE w.res = "err" -> {Out("err", "", c, FALSE, "")}
          [] w.res = "any" -> {Out("err", "", c, FALSE, "")} \cup {Out("ok", d, c, FALSE, "") : d \in any}
          [] w.res = "ok"  ->
               {Out("ok", cfg.docs[w.ep][p], c, FALSE, "")}
               \* F13c: the TCP reader stops at an interior blank line that ends a read
               \cup (IF Dev("F13c") /\ w.ep = "tcp" /\ p = 1
                     THEN {Out("ok", pr[2], c, FALSE, "F13c") : pr \in Truncations(cfg.resp)} ELSE {})
               \* F13d: is_v1_mime_response slices the text at byte 512 inside a character
               \cup (IF Dev("F13d") /\ w.ep = "tcp" /\ p = 1 /\ cfg.resp.nb512
                     THEN {Out("panic", "", c, FALSE, "F13d")} ELSE {})
      \* F13e: a V1 MIME message cut off by the peer is parsed leniently and returned as an answer
      cutMime == IF Dev("F13e") /\ st.beh["tcp"] = "ClosedMid"
                 THEN {Out("ok", d, SubSeq(chain, 1, w.n), FALSE, "F13e") :
                         d \in any, w \in {x \in Walk([st.beh EXCEPT !["tcp"] = "OkBpsv"], chain, 1) : x.ep = "tcp"}}
                 ELSE {}
  IN UNION {one(w) : w \in Walk(st.beh, chain, 1)} \cup cutMime

Outcomes(cfg, st, p, any) ==
  LET e == st.cache[p]
      c == EClass(cfg, st, p)
      hit(dev) == {Out("ok", e.doc, <<>>, TRUE, dev)}
  IN  (IF c \in {"live", "maybe"} THEN hit("") ELSE {})
      \* F13a: on a cache directory the index lookup never matches (key equality includes a lazily filled
      \* field), the file is found again without its expiry: the same client serves it for ever
      \cup (IF Dev("F13a") /\ c = "stale" /\ cfg.cache = "disk" /\ e.gen = st.gen THEN hit("F13a") ELSE {})
      \* F13b (= F10b seen through the client): a new client object finds the file of an earlier one and
      \* cannot know its expiry
      \cup (IF Dev("F13b") /\ c = "stale" /\ cfg.cache = "disk" /\ e.gen < st.gen THEN hit("F13b") ELSE {})
      \cup (IF c # "live" THEN NetOutcomes(cfg, st, p, any) ELSE {})

\* state after an outcome
After(cfg, st, p, o) ==
  LET e == st.cache[p] IN
  IF o.hit THEN st
  ELSE IF o.res = "ok" THEN [st EXCEPT !.cache[p] = Entry(o.doc, "have", st.gen, st.t0, st.t1)]
  ELSE IF e.st = "have" THEN [st EXCEPT !.cache[p].st = "dead"]   \* it went to the network: the TTL had run out
  ELSE st

\* the other operations of a run
WaitSt(st, ms)     == [st EXCEPT !.t0 = st.t1 + ms, !.t1 = st.t1 + ms]     \* model checker only: the nominal clock
TickSt(st)         == WaitSt(st, TickMs)
ReopenSt(cfg, st)  == IF cfg.cache = "disk" THEN [st EXCEPT !.gen = st.gen + 1]
                      ELSE [st EXCEPT !.gen = st.gen + 1, !.cache = [i \in 1..Len(st.cache) |-> NoEntry]]
FlipSt(cfg, st)    == [st EXCEPT !.beh = cfg.beh2]

\* ---- the statement, clause by clause, over the outcome set of a state --------
\* (checked by TLC on every reachable state of MC_Failover with KnownDeviations = {})
FirstOk(beh, chain) == LET S == {i \in 1..Len(chain) : beh[chain[i]] \in OkBeh} IN IF S = {} THEN 0 ELSE MinOf(S)
IsPrefix(a, b) == Len(a) <= Len(b) /\ \A i \in 1..Len(a) : a[i] = b[i]

ClauseOrder(cfg, st, p, any) ==            \* protocols are tried in the order https, http, tcp
  \A o \in Outcomes(cfg, st, p, any) : IsPrefix(o.contacted, Chain(cfg.cls))
ClauseTcpOnly(cfg, st, p, any) ==          \* summary / certs never touch the HTTP services
  TcpOnly(cfg.cls) => \A o \in Outcomes(cfg, st, p, any) : SetOfSeq(o.contacted) \subseteq {"tcp"}
ClauseMoveOn(cfg, st, p, any) ==           \* moves on only after a non-definitive failure, and always after a transient one
  \A o \in Outcomes(cfg, st, p, any) :
    /\ \A i \in 1..(Len(o.contacted) - 1) : st.beh[o.contacted[i]] \in Transient \cup Ambiguous
    /\ (~o.hit /\ Len(o.contacted) < Len(Chain(cfg.cls))) => st.beh[o.contacted[Len(o.contacted)]] \notin Transient
ClauseFirstAnswer(cfg, st, p, any) ==      \* a success is the first well-formed answer in chain order (or the cached one)
  \A o \in Outcomes(cfg, st, p, any) :
    (o.res = "ok" /\ ~o.hit) =>
      LET last == o.contacted[Len(o.contacted)] IN
      \/ st.beh[last] \in OkBeh /\ o.doc = cfg.docs[last][p] /\ Len(o.contacted) = FirstOk(st.beh, Chain(cfg.cls))
      \/ Undetectable(last, st.beh[last])
ClauseErr(cfg, st, p, any) ==              \* fails only if every permitted protocol failed or one refused definitively
  \A o \in Outcomes(cfg, st, p, any) :
    o.res = "err" =>
      /\ \A i \in 1..Len(o.contacted) : st.beh[o.contacted[i]] \notin OkBeh
      /\ \/ Len(o.contacted) = Len(Chain(cfg.cls))
         \/ st.beh[o.contacted[Len(o.contacted)]] \in Definitive \cup Ambiguous
ClauseWithinTtl(cfg, st, p, any) ==        \* within the TTL: the cached answer, no traffic
  EClass(cfg, st, p) = "live" => \A o \in Outcomes(cfg, st, p, any) : o.hit /\ o.contacted = <<>> /\ o.doc = st.cache[p].doc
ClauseAfterTtl(cfg, st, p, any) ==         \* after the TTL (or with nothing cached): traffic
  EClass(cfg, st, p) \in {"stale", "none"} => \A o \in Outcomes(cfg, st, p, any) : ~o.hit /\ o.contacted # <<>>
ClauseNoPanic(cfg, st, p, any) ==
  \A o \in Outcomes(cfg, st, p, any) : o.res # "panic"
\* Store only after Ok / failed answers never cached: every cached document was some endpoint's
\* well-formed answer for that path (GoodDocs) or an undetectably cut text (any)
ClauseCacheGood(cfg, st, any) ==
  \A p \in 1..Len(st.cache) :
    st.cache[p].st # "none" => st.cache[p].doc \in {cfg.docs[ep][p] : ep \in EPs} \cup any

\* ===========================================================================
\* 2. TCPREAD - RibbitClient::query_host_raw's loop
\* ===========================================================================
\* A response r = [len, nl (positions of LF bytes), mime_at, ...]; a split = the set of positions at which a
\* read ends (besides len).  The code appends what a read returned and stops as soon as the buffer ends with
\* "\n\n" and is not recognised as MIME; otherwise it reads until the peer closes.
ReadEnds(r, cuts) == {c \in cuts : c >= 1 /\ c < r.len} \cup {r.len}
ReadCode(r, cuts) ==                       \* number of bytes the code returns
  LET stops == {p \in ReadEnds(r, cuts) : StopsAt(r, p)} IN IF stops = {} THEN r.len ELSE MinOf(stops)
ReadIdeal(r, cuts) == r.len                \* the property: the whole response, whatever the split
SplitIndependent(r, cutsets) == \A cuts \in cutsets : ReadCode(r, cuts) = ReadIdeal(r, cuts)
\* characterisation (checked by TLC over all short byte-class sequences): the code is split-independent on r
\* exactly when no proper prefix ending with an empty line escapes the MIME test
Safe(r) == \A p \in 1..(r.len - 1) : ~StopsAt(r, p)

\* ===========================================================================
\* 3. CDN - CdnClient::download
\* ===========================================================================
\* The server answers the i-th request for a key with script[min(i, Len(script))].
\* st = [cached |-> set of keys whose body is in the cache, served |-> key -> requests seen so far]
CdnRetryable(code) == code = 429 \/ code \in 500..599
CdnOk(code)        == code \in 200..299
CodeAt(script, i)  == script[IF i <= Len(script) THEN i ELSE Len(script)]

\* reqs = the status codes the mock answered during one download call.  The call is explained when:
\*   cached object => no request, the cached body;
\*   otherwise requests follow the script from where it stood, stop at the first success or definitive
\*   status and never go on after it; the result is Ok(body) iff the last answer was a success; how many
\*   retryable answers are tolerated before giving up is C14's business (at least one request is made).
CdnExplains(script, cached, seenBefore, reqs, resClass) ==
  IF cached THEN reqs = <<>> /\ resClass = "ok"
  ELSE /\ Len(reqs) >= 1
       /\ \A i \in 1..Len(reqs) : reqs[i] = CodeAt(script, seenBefore + i)
       /\ \A i \in 1..(Len(reqs) - 1) : CdnRetryable(reqs[i])
       /\ resClass = (IF CdnOk(reqs[Len(reqs)]) THEN "ok" ELSE "err")
=============================================================================
