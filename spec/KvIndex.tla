------------------------------ MODULE KvIndex ------------------------------
(***************************************************************************)
(* Property C05, part 1: the local key index                               *)
(* (cascette-client-storage::index::IndexManager) is a persistent map      *)
(* from 9-byte truncated encoding keys to archive locations.               *)
(*                                                                         *)
(* Two levels live in this module.                                         *)
(*                                                                         *)
(* PROPERTY LEVEL (operators Pxxx, Expect, PStep).  The state is what a      *)
(* user can talk about:                                                    *)
(*   mem    the map the next lookups must show                             *)
(*   base   the map that was durable at the last point where durability    *)
(*          is promised (save_all, or a flush of acknowledged updates)     *)
(*   log    per bucket, the acknowledged changes since that point          *)
(*   dirty  per bucket, "an acknowledged mutation has not been flushed"    *)
(* The implementation is free to write a bucket to disk more often than    *)
(* it has to (add_entry does so when the update section is full), so a     *)
(* reload may legally show `base` plus ANY PREFIX of `log`, per bucket.    *)
(* What the statement leaves open is left open here: error kinds, the      *)
(* number returned by clear_bucket (only >= the visible entries), when     *)
(* automatic flushes happen, and a truthful refusal (`false`, nothing      *)
(* changed) of update/status/remove once the documented capacity of the    *)
(* update section (UpdCap un-flushed entries) has been reached.            *)
(* Ghosts, functions of the inputs and results only:                       *)
(*   acked/dacked  acknowledged appends since the bucket's update section  *)
(*          was last emptied by flush / clear / reload (in memory / in the *)
(*          last written file): an upper bound of its fill level under any *)
(*          flushing policy; guard of the admissible refusal.              *)
(*   pend/dpend    the exact fill level under the code's policy (add_entry *)
(*          flushes a full section, nothing else does); used only by the   *)
(*          signature of the known deviation F05a.                         *)
(*                                                                         *)
(* PStep(p, kb, e) judges one recorded event e (operation, arguments,      *)
(* result, state read back through lookup / has_entry / iter_entries /     *)
(* entry_count) and is used unchanged by the trace monitor T_KvIndex       *)
(* (real executions) and by MC_KvIndex (the code-shaped model below).      *)
(*                                                                         *)
(* CODE LEVEL, operators Ixxx: sorted section + bounded append-only update  *)
(* section per bucket, and what the last write put on disk, one operator   *)
(* per API function, written after the code.  MC_KvIndex checks that every *)
(* step of this model is accepted by PStep (refinement) and prints every   *)
(* operation sequence as a program for the real code.                      *)
(***************************************************************************)
EXTENDS Naturals, Sequences, FiniteSets, TLC

CONSTANTS UpdCap,           \* capacity of one bucket's update section (code: 60 pages x 21 entries = 1260)
          KnownDeviations   \* ids of findings listed as known

Absent     == "-"
ZeroKey    == "z"           \* the key whose first nine bytes are zero
AllBuckets == 0..15
Empty      == <<>>          \* the map with empty domain

Put(m, k, v)   == [x \in DOMAIN m \cup {k} |-> IF x = k THEN v ELSE m[x]]
Del(m, k)      == [x \in DOMAIN m \ {k} |-> m[x]]
Restr(m, S)    == [x \in DOMAIN m \cap S |-> m[x]]
Drop(m, S)     == [x \in DOMAIN m \ S |-> m[x]]
KeysOf(kb, b)  == {k \in DOMAIN kb : kb[k] = b}
UsedB(kb)      == {kb[k] : k \in DOMAIN kb}
View(m, kb)    == [k \in DOMAIN kb |-> IF k \in DOMAIN m THEN m[k] ELSE Absent]
MapOfView(v)   == [k \in {x \in DOMAIN v : v[x] # Absent} |-> v[k]]

(***************************************************************************)
(* Property level                                                          *)
(***************************************************************************)
\* per-bucket components are kept for the buckets of the run's key universe only
P0(kb) == [mem   |-> Empty, base |-> Empty,
           log   |-> [b \in UsedB(kb) |-> <<>>],
           dirty |-> [b \in UsedB(kb) |-> FALSE],
           acked |-> [b \in UsedB(kb) |-> 0], dacked |-> [b \in UsedB(kb) |-> 0],
           pend  |-> [b \in UsedB(kb) |-> 0], dpend  |-> [b \in UsedB(kb) |-> 0]]
BOf(p) == DOMAIN p.pend

PutD(k, v) == [t |-> "put", k |-> k, v |-> v]
ClrD       == [t |-> "clr", k |-> Absent, v |-> Absent]
\* a delta applied to the map of one bucket
ApplyD(m, d) == IF d.t = "clr" THEN Empty ELSE IF d.v = Absent THEN Del(m, d.k) ELSE Put(m, d.k, d.v)

\* ghost: position after n acknowledged appends when a full section is flushed first
AfterAdds(pd, n) == IF pd + n <= UpdCap THEN pd + n ELSE ((pd + n - UpdCap - 1) % UpdCap) + 1
Bump(p, b, n) == [p EXCEPT !.pend[b] = AfterAdds(@, n),
                           !.dpend[b] = IF p.pend[b] + n > UpdCap THEN 0 ELSE @,
                           !.acked[b] = @ + n,
                           !.dirty[b] = TRUE]
Full(p, b)      == p.pend[b] >= UpdCap     \* the code's update section is full (signature of F05a)
MayRefuse(p, b) == p.acked[b] >= UpdCap    \* at least UpdCap acknowledged appends have not been flushed

\* an acknowledged change of key k (v = Absent: removal); n appends were made for it
PChange(p, kb, k, v, n) ==
  LET b == kb[k]
      q == Bump(p, b, n)
  IN [q EXCEPT !.mem = IF v = Absent THEN Del(p.mem, k) ELSE Put(p.mem, k, v),
               !.log[b] = Append(@, PutD(k, v))]

\* add_entry for the keys <pre><from> .. <pre><from+n-1> of one bucket, same location: one "bulk" delta
BulkKeys(e) == [i \in 1..e.n |-> e.pre \o ToString(e.from + i - 1)]
PBulk(p, kb, e) ==
  LET ks == BulkKeys(e)
      S  == {ks[i] : i \in 1..e.n}
      b  == kb[ks[1]]
  IN [Bump(p, b, e.n) EXCEPT !.mem = [x \in DOMAIN p.mem \cup S |-> IF x \in S THEN e.loc ELSE p.mem[x]],
                             !.log[b] = Append(@, [t |-> "bulk", k |-> ks, v |-> e.loc])]
ApplyBulk(m, d, j) == LET S == {d.k[i] : i \in 1..j} IN [x \in DOMAIN m \cup S |-> IF x \in S THEN d.v ELSE m[x]]

PFlushSet(p, kb, B) ==   \* flush_updates_for_bucket for every bucket in B
  LET W  == {b \in B \cap BOf(p) : p.dirty[b]}                 \* buckets that must reach the disk
      KW == {k \in DOMAIN kb : kb[k] \in W}
  IN [p EXCEPT !.base  = Drop(p.base, KW) @@ Restr(p.mem, KW),
               !.log   = [b \in BOf(p) |-> IF b \in W THEN <<>> ELSE p.log[b]],
               !.dirty = [b \in BOf(p) |-> IF b \in B THEN FALSE ELSE p.dirty[b]],
               !.dpend = [b \in BOf(p) |-> IF b \in B /\ (p.dirty[b] \/ p.pend[b] > 0) THEN 0 ELSE p.dpend[b]],
               !.pend  = [b \in BOf(p) |-> IF b \in B THEN 0 ELSE p.pend[b]],
               !.dacked = [b \in BOf(p) |-> IF b \in B /\ (p.dirty[b] \/ p.acked[b] > 0) THEN 0 ELSE p.dacked[b]],
               !.acked = [b \in BOf(p) |-> IF b \in B THEN 0 ELSE p.acked[b]]]

PSave(p) == [p EXCEPT !.base = p.mem, !.log = [b \in BOf(p) |-> <<>>], !.dpend = p.pend, !.dacked = p.acked]

PClearSet(p, kb, B) ==
  LET KB == {k \in DOMAIN kb : kb[k] \in B}
  IN [p EXCEPT !.mem   = Drop(p.mem, KB),
               !.log   = [b \in BOf(p) |-> IF b \in B THEN Append(p.log[b], ClrD) ELSE p.log[b]],
               !.dirty = [b \in BOf(p) |-> IF b \in B THEN FALSE ELSE p.dirty[b]],
               !.pend  = [b \in BOf(p) |-> IF b \in B THEN 0 ELSE p.pend[b]],
               !.acked = [b \in BOf(p) |-> IF b \in B THEN 0 ELSE p.acked[b]]]

\* some durable snapshot of one bucket (base + a prefix of the log) equals tgt;
\* with lossZ, a snapshot that contains the all-zero key may come back without it (F05b)
SnapOK(m, tgt, lossZ) == m = tgt \/ (lossZ /\ ZeroKey \in DOMAIN m /\ Del(m, ZeroKey) = tgt)

\* a prefix of a bulk delta: if any prefix j fits, the shortest candidate does, namely the last position whose
\* key tgt does not show as it is in m (everything after it is untouched, everything before it must be written)
RECURSIVE LastTouched(_, _, _, _)
LastTouched(m, d, tgt, i) ==
  IF i = 0 THEN 0
  ELSE LET k == d.k[i]
           same == (k \in DOMAIN tgt) = (k \in DOMAIN m) /\ (k \in DOMAIN m => tgt[k] = m[k])
       IN IF same THEN LastTouched(m, d, tgt, i - 1) ELSE i

RECURSIVE Reach(_, _, _, _, _)
Reach(m, lg, i, tgt, lossZ) ==
  \/ SnapOK(m, tgt, lossZ)
  \/ /\ i <= Len(lg)
     /\ IF lg[i].t = "bulk"
        THEN \/ SnapOK(ApplyBulk(m, lg[i], LastTouched(m, lg[i], tgt, Len(lg[i].k))), tgt, lossZ)
             \/ Reach(ApplyBulk(m, lg[i], Len(lg[i].k)), lg, i + 1, tgt, lossZ)
        ELSE Reach(ApplyD(m, lg[i]), lg, i + 1, tgt, lossZ)

ReloadOK(p, kb, om, lossZ) ==
  \A b \in UsedB(kb) : LET S == KeysOf(kb, b) IN Reach(Restr(p.base, S), p.log[b], 1, Restr(om, S), lossZ)

PReloaded(p, om) ==
  [mem |-> om, base |-> om,
   log |-> [b \in BOf(p) |-> <<>>], dirty |-> [b \in BOf(p) |-> FALSE],
   acked |-> p.dacked, dacked |-> p.dacked, pend |-> p.dpend, dpend |-> p.dpend]

\* the recorded projection agrees with the map m
ObsOK(m, kb, o) ==
  /\ DOMAIN o.look = DOMAIN kb /\ DOMAIN o.look1 = DOMAIN kb /\ DOMAIN o.has = DOMAIN kb
  /\ \A k \in DOMAIN kb : LET v == IF k \in DOMAIN m THEN m[k] ELSE Absent
                          IN o.look[k] = v /\ o.look1[k] = v /\ o.has[k] = (k \in DOMAIN m)
  /\ DOMAIN o.ent = DOMAIN m
  /\ \A k \in DOMAIN m : o.ent[k] = m[k]
  /\ o.niter = Cardinality(DOMAIN m)
  /\ o.count = Cardinality(DOMAIN m)
  /\ o.badbucket = 0

ObsMap(kb, o) == IF DOMAIN o.look = DOMAIN kb THEN MapOfView(o.look) ELSE Empty

\* [st |-> the state after e if e is admissible, rok |-> the result of e is admissible]
Expect(p, kb, e) ==
  CASE e.op = "add" ->
         [st |-> PChange(p, kb, e.k, e.loc, 1), rok |-> e.res = "ok"]
    [] e.op = "fill" ->     \* n >= 1 calls of add_entry(k, loc)
         [st |-> IF e.n >= 1 THEN PChange(p, kb, e.k, e.loc, e.n) ELSE p, rok |-> e.res \in {"ok", "noflush"} /\ e.n >= 1]
    [] e.op = "bulk" ->
         LET ks == BulkKeys(e)
         IN [st |-> PBulk(p, kb, e), rok |-> e.res = "ok" /\ e.n >= 1 /\ \A i \in 1..e.n : kb[ks[i]] = kb[ks[1]]]
    [] e.op = "update" ->
         IF e.k \notin DOMAIN p.mem THEN [st |-> p, rok |-> e.res = "false"]
         ELSE IF e.res = "true" THEN [st |-> PChange(p, kb, e.k, e.loc, 1), rok |-> TRUE]
         ELSE [st |-> p, rok |-> e.res = "false" /\ MayRefuse(p, kb[e.k])]
    [] e.op = "status" ->
         IF e.k \notin DOMAIN p.mem THEN [st |-> p, rok |-> e.res = "false"]
         ELSE IF e.res = "true"
              THEN [st |-> IF e.st = "delete" THEN PChange(p, kb, e.k, Absent, 1) ELSE Bump(p, kb[e.k], 1), rok |-> TRUE]
         ELSE [st |-> p, rok |-> e.res = "false" /\ MayRefuse(p, kb[e.k])]
    [] e.op = "remove" ->
         IF e.k \notin DOMAIN p.mem THEN [st |-> p, rok |-> e.res = "false"]
         ELSE IF e.res = "true" THEN [st |-> PChange(p, kb, e.k, Absent, 1), rok |-> TRUE]
         ELSE [st |-> p, rok |-> e.res = "false" /\ MayRefuse(p, kb[e.k])]
    [] e.op = "flush" ->
         [st |-> PFlushSet(p, kb, {e.b}), rok |-> e.res = "ok"]
    [] e.op = "flush_all" ->
         [st |-> PFlushSet(p, kb, AllBuckets), rok |-> e.res = "ok"]
    [] e.op = "save" ->
         [st |-> PSave(p), rok |-> e.res = "ok"]
    [] e.op = "reload" ->
         LET om == ObsMap(kb, e.obs)
         IN [st |-> PReloaded(p, om), rok |-> e.res = "ok" /\ ReloadOK(p, kb, om, FALSE)]
    [] e.op = "clear_bucket" ->
         [st |-> PClearSet(p, kb, {e.b}),
          rok |-> e.res = "ok" /\ e.cnt >= Cardinality({k \in DOMAIN p.mem : kb[k] = e.b})]
    [] e.op = "clear" ->
         [st |-> PClearSet(p, kb, AllBuckets), rok |-> e.res = "ok"]
    [] OTHER -> [st |-> p, rok |-> FALSE]

(* Dev_F05a: IndexManager::remove_entry on a present key while the bucket's
   update section is full: the tombstone is not appended, nothing changes,
   and the call still returns true. *)
DevF05a(p, kb, e) ==
  /\ "F05a" \in KnownDeviations
  /\ e.op = "remove" /\ e.k \in DOMAIN p.mem /\ e.res = "true"
  /\ Full(p, kb[e.k])
  /\ ObsOK(p.mem, kb, e.obs)

(* Dev_F05b: a reload forgets the all-zero key: a durable snapshot that
   contains it comes back without it (and is otherwise exact). *)
DevF05b(p, kb, e) ==
  /\ "F05b" \in KnownDeviations
  /\ e.op = "reload" /\ e.res = "ok" /\ ZeroKey \in DOMAIN kb
  /\ LET om == ObsMap(kb, e.obs)
     IN ZeroKey \notin DOMAIN om /\ ObsOK(om, kb, e.obs) /\ ReloadOK(p, kb, om, TRUE)

\* judge one event: [st |-> next state, ok |-> explained, dev |-> "" or the deviation that explains it]
PStep(p, kb, e) ==
  LET x    == Expect(p, kb, e)
      conf == x.rok /\ ObsOK(x.st.mem, kb, e.obs)
  IN IF conf THEN [st |-> x.st, ok |-> TRUE, dev |-> ""]
     ELSE IF DevF05a(p, kb, e) THEN [st |-> p, ok |-> TRUE, dev |-> "F05a"]
     ELSE IF DevF05b(p, kb, e) THEN [st |-> x.st, ok |-> TRUE, dev |-> "F05b"]
     ELSE [st |-> IF DOMAIN e.obs.look = DOMAIN kb THEN [x.st EXCEPT !.mem = MapOfView(e.obs.look)] ELSE x.st,
           ok |-> FALSE, dev |-> ""]

(***************************************************************************)
(* Code level                                                              *)
(***************************************************************************)
I0(kb) ==
  LET B == UsedB(kb) IN
  [sorted  |-> [b \in B |-> Empty], upd  |-> [b \in B |-> <<>>], ex    |-> [b \in B |-> FALSE],
   dsorted |-> [b \in B |-> Empty], dupd |-> [b \in B |-> <<>>], dfile |-> [b \in B |-> FALSE]]

U(k, v, st) == [k |-> k, v |-> v, st |-> st]
LastIdx(q, k) == LET S == {i \in 1..Len(q) : q[i].k = k}
                 IN IF S = {} THEN 0 ELSE CHOOSE i \in S : \A j \in S : j <= i

\* search_both_sections: update section newest first, tombstone hides, then the sorted section
ILook(c, kb, k) ==
  LET b == kb[k]
      i == LastIdx(c.upd[b], k)
  IN IF ~c.ex[b] THEN Absent
     ELSE IF i > 0 THEN (IF c.upd[b][i].st = "delete" THEN Absent ELSE c.upd[b][i].v)
     ELSE IF k \in DOMAIN c.sorted[b] THEN c.sorted[b][k] ELSE Absent

\* merge used by flush_updates_for_bucket and iter_entries: oldest first, latest wins
RECURSIVE Merge(_, _, _)
Merge(m, q, i) ==
  IF i > Len(q) THEN m
  ELSE Merge(IF q[i].st = "delete" THEN Del(m, q[i].k) ELSE Put(m, q[i].k, q[i].v), q, i + 1)

IRoom(c, b)      == Len(c.upd[b]) < UpdCap
IAppend(c, b, u) == [c EXCEPT !.upd[b] = Append(@, u)]
IFlushB(c, b) ==
  IF b \notin DOMAIN c.ex \/ ~c.ex[b] \/ c.upd[b] = <<>> THEN c
  ELSE LET m == Merge(c.sorted[b], c.upd[b], 1)
       IN [c EXCEPT !.sorted[b] = m, !.upd[b] = <<>>, !.dsorted[b] = m, !.dupd[b] = <<>>, !.dfile[b] = TRUE]

IAdd(c, kb, k, v) ==
  LET b  == kb[k]
      c1 == [c EXCEPT !.ex[b] = TRUE]
      c2 == IF IRoom(c1, b) THEN c1 ELSE IFlushB(c1, b)
  IN IAppend(c2, b, U(k, v, "normal"))

RECURSIVE IAddN(_, _, _, _, _)
IAddN(c, kb, k, v, n) == IF n = 0 THEN c ELSE IAddN(IAdd(c, kb, k, v), kb, k, v, n - 1)

ISave(c) ==
  [c EXCEPT !.dsorted = [b \in DOMAIN c.ex |-> IF c.ex[b] THEN c.sorted[b] ELSE c.dsorted[b]],
            !.dupd    = [b \in DOMAIN c.ex |-> IF c.ex[b] THEN c.upd[b] ELSE c.dupd[b]],
            !.dfile   = [b \in DOMAIN c.ex |-> c.ex[b] \/ c.dfile[b]]]

\* cd = the set of code defects modelled; "F05b": parse_entries skips entries whose key is all zero
IReload(c, cd) ==
  [c EXCEPT !.sorted = [b \in DOMAIN c.ex |-> IF c.dfile[b]
                                               THEN (IF "F05b" \in cd THEN Del(c.dsorted[b], ZeroKey) ELSE c.dsorted[b])
                                               ELSE Empty],
            !.upd    = [b \in DOMAIN c.ex |-> IF c.dfile[b] THEN c.dupd[b] ELSE <<>>],
            !.ex     = c.dfile]

IView(c, b) == IF c.ex[b] THEN Merge(c.sorted[b], c.upd[b], 1) ELSE Empty
IObs(c, kb) ==
  LET look == [k \in DOMAIN kb |-> ILook(c, kb, k)]
      ent  == [k \in {x \in DOMAIN kb : x \in DOMAIN IView(c, kb[x])} |-> IView(c, kb[k])[k]]
  IN [look |-> look, look1 |-> look, has |-> [k \in DOMAIN kb |-> look[k] # Absent],
      ent |-> ent, niter |-> Cardinality(DOMAIN ent), count |-> Cardinality(DOMAIN ent), badbucket |-> 0]

\* append_update: append u to bucket b; a full update section is flushed first and the append retried, like
\* add_entry.  Before the fix of F05a ("F05a" \in cd) a full section made update/status return false and
\* remove return true (whenFull), in both cases with nothing changed.
IAppendUpdate(c, b, u, cd, whenFull, Ev(_, _)) ==
  IF IRoom(c, b) THEN Ev(IAppend(c, b, u), [res |-> "true"])
  ELSE IF "F05a" \in cd THEN Ev(c, [res |-> whenFull])
  ELSE Ev(IAppend(IFlushB(c, b), b, u), [res |-> "true"])

\* [st |-> next code state, ev |-> the event the driver would record]
IApply(c, kb, o, cd) ==
  LET Ev(st, extra) == [st |-> st, ev |-> (o @@ extra) @@ [obs |-> IObs(st, kb)]]
  IN
  CASE o.op = "add" -> Ev(IAdd(c, kb, o.k, o.loc), [res |-> "ok"])
    [] o.op = "fill" ->
         LET b  == kb[o.k]
             n1 == UpdCap - Len(c.upd[b]) + 1        \* until the flush inside add_entry has happened
             n2 == UpdCap - 1 - o.left               \* one entry is pending after that flush
         IN Ev(IAddN(c, kb, o.k, o.loc, n1 + n2), [res |-> "ok", n |-> n1 + n2])
    [] o.op = "update" ->
         IF ILook(c, kb, o.k) = Absent THEN Ev(c, [res |-> "false"])
         ELSE IAppendUpdate(c, kb[o.k], U(o.k, o.loc, "normal"), cd, "false", Ev)
    [] o.op = "status" ->
         IF ILook(c, kb, o.k) = Absent THEN Ev(c, [res |-> "false"])
         ELSE IAppendUpdate(c, kb[o.k], U(o.k, ILook(c, kb, o.k), o.st), cd, "false", Ev)
    [] o.op = "remove" ->
         IF ILook(c, kb, o.k) = Absent THEN Ev(c, [res |-> "false"])
         ELSE IAppendUpdate(c, kb[o.k], U(o.k, ILook(c, kb, o.k), "delete"), cd, "true", Ev)
    [] o.op = "flush" -> Ev(IFlushB(c, o.b), [res |-> "ok"])
    [] o.op = "flush_all" ->
         LET RECURSIVE FA(_, _)
             FA(cc, S) == IF S = {} THEN cc ELSE LET b == CHOOSE x \in S : TRUE IN FA(IFlushB(cc, b), S \ {b})
         IN Ev(FA(c, DOMAIN c.ex), [res |-> "ok"])
    [] o.op = "save" -> Ev(ISave(c), [res |-> "ok"])
    [] o.op = "reload" -> Ev(IReload(c, cd), [res |-> "ok"])
    [] o.op = "clear_bucket" ->
         IF o.b \in DOMAIN c.ex /\ c.ex[o.b]
         THEN Ev([c EXCEPT !.sorted[o.b] = Empty, !.upd[o.b] = <<>>],
                 [res |-> "ok", cnt |-> Cardinality(DOMAIN c.sorted[o.b]) + Len(c.upd[o.b])])
         ELSE Ev(c, [res |-> "ok", cnt |-> 0])
    [] o.op = "clear" ->
         Ev([c EXCEPT !.sorted = [b \in DOMAIN c.ex |-> Empty], !.upd = [b \in DOMAIN c.ex |-> <<>>]], [res |-> "ok"])
=============================================================================
