-------------------------------- MODULE Rc4 --------------------------------
(***************************************************************************)
(* RC4 / ARC4 (binding E of C09), from the published description           *)
(* (K. Kaukonen, R. Thayer, "A Stream Cipher Encryption Algorithm          *)
(* 'Arcfour'", 1997):                                                      *)
(*   KSA : S[i] = i; j = 0; for i = 0..255: j = (j + S[i] + K[i mod l])    *)
(*         mod 256; swap(S[i], S[j])                                       *)
(*   PRGA: i = (i+1) mod 256; j = (j + S[i]) mod 256; swap(S[i], S[j]);    *)
(*         output S[(S[i] + S[j]) mod 256]                                 *)
(* Generator state: [s |-> function 0..255 -> byte, i, j].                 *)
(***************************************************************************)
EXTENDS Naturals, Sequences, Bitwise

RcSwap(s, i, j) == [s EXCEPT ![i] = s[j], ![j] = s[i]]

\* Recursion is kept shallow (runs of 16 steps inside an outer recursion): TLC
\* slows down badly on recursion thousands of levels deep.

\* KSA steps i .. to-1: <<S, j>>
RECURSIVE RcKsaRun(_, _, _, _, _)
RcKsaRun(s, key, i, to, j) ==
  IF i = to THEN <<s, j>>
  ELSE LET j2 == (j + s[i] + key[(i % Len(key)) + 1]) % 256
       IN RcKsaRun(RcSwap(s, i, j2), key, i + 1, to, j2)

RECURSIVE RcKsa(_, _, _, _)
RcKsa(s, key, i, j) ==
  IF i = 256 THEN s ELSE LET r == RcKsaRun(s, key, i, i + 16, j) IN RcKsa(r[1], key, i + 16, r[2])

\* key: 1..256 bytes
RcInit(key) == [s |-> RcKsa([x \in 0..255 |-> x], key, 0, 0), i |-> 0, j |-> 0]

\* one PRGA step: <<next generator state, keystream byte>>
RcStep(g) ==
  LET i2 == (g.i + 1) % 256
      j2 == (g.j + g.s[i2]) % 256
      s2 == RcSwap(g.s, i2, j2)
  IN <<[s |-> s2, i |-> i2, j |-> j2], s2[(s2[i2] + s2[j2]) % 256]>>

\* n further keystream bytes appended to acc: [g |-> generator afterwards, ks |-> bytes]
RECURSIVE RcRun(_, _, _)
RcRun(g, n, acc) ==
  IF n = 0 THEN [g |-> g, ks |-> acc]
  ELSE LET r == RcStep(g) IN RcRun(r[1], n - 1, Append(acc, r[2]))

RECURSIVE RcGen(_, _, _)
RcGen(g, n, acc) ==
  IF n = 0 THEN [g |-> g, ks |-> acc]
  ELSE LET k == IF n < 16 THEN n ELSE 16
           r == RcRun(g, k, <<>>)
       IN RcGen(r.g, n - k, acc \o r.ks)

\* one-shot encryption = decryption with a fresh generator
Rc4Apply(key, data) ==
  LET ks == RcGen(RcInit(key), Len(data), <<>>).ks
  IN [x \in 1..Len(data) |-> data[x] ^^ ks[x]]
=============================================================================
