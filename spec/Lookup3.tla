------------------------------ MODULE Lookup3 ------------------------------
(***************************************************************************)
(* Bob Jenkins' lookup3.c (public domain, May 2006): hashlittle() and      *)
(* hashlittle2(), as an executable definition (binding E of C09).          *)
(*                                                                         *)
(* Written from lookup3.c, not from the Rust port: the key is read as      *)
(* little-endian 32-bit words of the zero-padded byte string (lookup3.c's  *)
(* own description of the tail: "the last block: affect all 32 bits of     *)
(* (c)" by adding the remaining bytes at their little-endian positions),   *)
(* which is a different formulation from the port's two 12-way switches.   *)
(*                                                                         *)
(*   a = b = c = 0xdeadbeef + length + initval          (hashlittle)       *)
(*   a = b = c = 0xdeadbeef + length + *pc ; c += *pb   (hashlittle2)      *)
(*   while (length > 12) { a += k[0]; b += k[1]; c += k[2]; mix(a,b,c);    *)
(*                         length -= 12; k += 3; }                         *)
(*   if (length == 0) return c           /* zero length requires no mixing */*)
(*   a += k[0] ; b += k[1] ; c += k[2]   (missing bytes are zero)          *)
(*   final(a,b,c); return c   ( *pc = c ; *pb = b )                        *)
(***************************************************************************)
EXTENDS W32

DeadBeef == <<57005, 48879>>      \* 0xdeadbeef

\* state is <<a, b, c>>
L3Mix(s) ==
  LET a1 == WXor(WSub(s[1], s[3]), WRotl(s[3], 4))    c1 == WAdd(s[3], s[2])
      b2 == WXor(WSub(s[2], a1),   WRotl(a1, 6))      a2 == WAdd(a1, c1)
      c3 == WXor(WSub(c1, b2),     WRotl(b2, 8))      b3 == WAdd(b2, a2)
      a4 == WXor(WSub(a2, c3),     WRotl(c3, 16))     c4 == WAdd(c3, b3)
      b5 == WXor(WSub(b3, a4),     WRotl(a4, 19))     a5 == WAdd(a4, c4)
      c6 == WXor(WSub(c4, b5),     WRotl(b5, 4))      b6 == WAdd(b5, a5)
  IN <<a5, b6, c6>>

L3Final(s) ==
  LET c1 == WSub(WXor(s[3], s[2]), WRotl(s[2], 14))
      a2 == WSub(WXor(s[1], c1),   WRotl(c1, 11))
      b3 == WSub(WXor(s[2], a2),   WRotl(a2, 25))
      c4 == WSub(WXor(c1, b3),     WRotl(b3, 16))
      a5 == WSub(WXor(a2, c4),     WRotl(c4, 4))
      b6 == WSub(WXor(b3, a5),     WRotl(a5, 14))
      c7 == WSub(WXor(c4, b6),     WRotl(b6, 24))
  IN <<a5, b6, c7>>

\* add the three (zero-padded) little-endian words at 0-based byte offset off
L3Absorb(s, k, off) ==
  <<WAdd(s[1], WAtLE(k, off + 1)), WAdd(s[2], WAtLE(k, off + 5)), WAdd(s[3], WAtLE(k, off + 9))>>

RECURSIVE L3Body(_, _, _)
L3Body(k, off, s) ==
  IF Len(k) - off > 12 THEN L3Body(k, off + 12, L3Mix(L3Absorb(s, k, off)))
  ELSE IF Len(k) - off = 0 THEN s
  ELSE L3Final(L3Absorb(s, k, off))

\* (uint32_t)length for lengths below 2^31
L3Start(k, seed) == WAdd(WAdd(DeadBeef, WOfNat(Len(k))), seed)

HashLittle(k, initval) ==
  LET s == L3Start(k, initval) IN L3Body(k, 0, <<s, s, s>>)[3]

\* result <<pc', pb'>> = <<c, b>>
HashLittle2(k, pc, pb) ==
  LET s == L3Start(k, pc)
      r == L3Body(k, 0, <<s, s, WAdd(s, pb)>>)
  IN <<r[3], r[2]>>
=============================================================================
