----------------------------- MODULE RangePlan -----------------------------
(***************************************************************************)
(* X02, part (a): range planning of the CDN streaming layer                 *)
(* (cascette-protocol, feature `streaming`: range.rs RangeCoalescer::       *)
(* coalesce, HttpRange::{new, from_offset_length, split}, efficiency_gain;  *)
(* optimizer.rs AdvancedRangeCoalescer::coalesce_ranges).                   *)
(*                                                                         *)
(* A range is a pair <<s, e>> of inclusive byte offsets, s <= e.  A request *)
(* is a sequence R of ranges (any order, overlaps, duplicates), a plan is   *)
(* the sequence P of ranges the coalescer returns.  For every configuration *)
(* accepted by StreamingConfig::validate (threshold thr <= max range size   *)
(* max, max >= 1, at most maxn >= 1 ranges per request) and every R:        *)
(*                                                                         *)
(*  P1 coverage   every requested byte lies in a planned range, so cutting  *)
(*                the fetched bodies back along R yields exactly the        *)
(*                requested bytes, request by request (Sliceable; TLC       *)
(*                checks Covers <=> byte-level slicing on small domains).   *)
(*  P2 no waste   a planned byte that nobody requested lies in a hole of    *)
(*                at most thr bytes between two requested bytes ("nearby    *)
(*                ranges are combined when the gap is small"); nothing is   *)
(*                fetched outside the hull of R; R empty => P empty.        *)
(*  P3 size       basic: every planned range has at most max bytes ("large  *)
(*                ranges are split into chunks of this size").  advanced:   *)
(*                a planned range longer than max is one of the requested   *)
(*                ranges, unchanged ("only coalesce if it doesn't exceed    *)
(*                max range size"; it never splits).                        *)
(*  P4 count      basic: Ok => at most maxn planned ranges; Err only as     *)
(*                RangeCoalescingFailed and only when the documented        *)
(*                procedure (merge, bridge holes <= thr or < thr, split at  *)
(*                max) needs more than maxn ranges.                         *)
(*  P5 order      basic: planned ranges are ascending and pairwise          *)
(*                disjoint ("remove duplicates and merge overlapping").     *)
(*  P6 combining  holes of fewer than thr bytes ARE fetched through (basic:  *)
(*                always; advanced: at least when the whole request fits    *)
(*                one range of max bytes).                                  *)
(*  P7 no panic   for any R of well-formed ranges, including ranges that    *)
(*                end at u64::MAX.                                          *)
(*  P8 ctor       HttpRange::new(s, e) panics iff s > e; from_offset_length *)
(*                (o, n) panics iff n = 0 or o + n - 1 overflows, else      *)
(*                <<o, o+n-1>>; split(n) cuts r into consecutive chunks of  *)
(*                n bytes (the last one shorter), in order.                 *)
(*  P9 ratios     efficiency_gain returns two ratios "between 0.0 and 1.0". *)
(*  P10 stats     AdvancedRangeCoalescer::statistics: ranges_processed is   *)
(*                the number of ranges submitted, ranges_coalesced the sum  *)
(*                of (submitted - planned) over the calls.                  *)
(*                                                                         *)
(* Quantifier: all R (adjacent, overlapping, nested, duplicated, gapped,    *)
(* unsorted, at the top of u64) x all valid configurations; TLC enumerates  *)
(* the small ones completely, seeded random programs reach 2^24-byte hulls  *)
(* shifted to 0, 2^32 and the top of u64.  The spec is translation          *)
(* invariant: programs carry offsets relative to a base the driver adds.    *)
(*                                                                         *)
(* This module is a library without constants or variables: interval        *)
(* arithmetic, the documented procedure (CanonBasic), a correct advanced    *)
(* coalescer (AdvIdeal), the advanced coalescer as coded (AdvAsCoded, used  *)
(* to name the known deviations FX02a/FX02b precisely) and the judge.       *)
(***************************************************************************)
EXTENDS Integers, Sequences, FiniteSets

RMin(a, b) == IF a < b THEN a ELSE b
RMax(a, b) == IF a > b THEN a ELSE b
RLen(r)    == r[2] - r[1] + 1
RSet(q)    == {q[i] : i \in 1..Len(q)}
MinS(T)    == CHOOSE x \in T : \A y \in T : x <= y
MaxS(T)    == CHOOSE x \in T : \A y \in T : x >= y
RECURSIVE SumS(_, _)
SumS(q, i) == IF i > Len(q) THEN 0 ELSE RLen(q[i]) + SumS(q, i + 1)   \* total bytes of a sequence of ranges

WellFormed(r) == r[1] >= 0 /\ r[1] <= r[2]
Inside(x, r)  == r[1] <= x /\ x <= r[2]
CovBy(x, S)   == \E r \in S : Inside(x, r)
Meets(p, g)   == ~(p[2] < g[1] \/ p[1] > g[2])

\* ---- the union of a set S of well-formed ranges as maximal blocks (touching ranges merge) ----
BlockStarts(S) == {r[1] : r \in {q \in S : ~CovBy(q[1] - 1, S)}}
BlockEnds(S)   == {r[2] : r \in {q \in S : ~CovBy(q[2] + 1, S)}}
Blocks(S)      == {<<a, MinS({b \in BlockEnds(S) : b >= a})>> : a \in BlockStarts(S)}
\* the holes between consecutive blocks
Holes(S) == LET B == Blocks(S) IN
            {<<b[2] + 1, MinS({c[1] : c \in {d \in B : d[1] > b[2]}}) - 1>> : b \in {d \in B : \E c \in B : c[1] > d[2]}}
Hull(S)  == <<MinS({r[1] : r \in S}), MaxS({r[2] : r \in S})>>
Within(r, S) == \E c \in Blocks(S) : c[1] <= r[1] /\ r[2] <= c[2]     \* every byte of r is in the union of S

\* ---- P1, P2, P6 at the level of intervals (B.. = blocks, H.. = holes, computed once by the caller) ----
HolesOf(B) == {<<b[2] + 1, MinS({c[1] : c \in {d \in B : d[1] > b[2]}}) - 1>> : b \in {d \in B : \E c \in B : c[1] > d[2]}}
WithinB(r, B) == \E c \in B : c[1] <= r[1] /\ r[2] <= c[2]
CoversB(BR, BP) == \A b \in BR : WithinB(b, BP)
NoWasteB(R, BR, HR, P, t) ==
  /\ R = {} => P = {}
  /\ R # {} => LET lo == MinS({b[1] : b \in BR})  hi == MaxS({b[2] : b \in BR}) IN \A p \in P : lo <= p[1] /\ p[2] <= hi
  /\ \A g \in HR : RLen(g) > t => \A p \in P : ~Meets(p, g)
BridgesB(HR, BP, t) == \A g \in HR : RLen(g) < t => WithinB(g, BP)
Covers(R, P)     == CoversB(Blocks(R), Blocks(P))
NoWaste(R, P, t) == NoWasteB(R, Blocks(R), Holes(R), P, t)
Bridges(R, P, t) == BridgesB(Holes(R), Blocks(P), t)

\* ---- the same, byte by byte (small domains only: TLC checks that the two levels agree) ----
Bytes(S) == UNION {r[1]..r[2] : r \in S}
Content(x) == x                       \* the resource: byte x of the file is (identified with) x
Body(p) == [j \in 1..RLen(p) |-> Content(p[1] + j - 1)]                 \* what a server returns for p
Slice(r, P) == [i \in 1..RLen(r) |->                                    \* r cut back out of the fetched bodies
                  LET x == r[1] + i - 1
                      p == CHOOSE p \in P : Inside(x, p)
                  IN Body(p)[x - p[1] + 1]]
Sliceable(Rq, P) == /\ Bytes(RSet(Rq)) \subseteq Bytes(P)
                    /\ \A i \in 1..Len(Rq) : Slice(Rq[i], P) = Body(Rq[i])   \* request order: one slice per request

\* ---- the documented procedure of RangeCoalescer::coalesce --------------------------------
\* merge overlapping / adjacent, bridge holes (<= thr when incl, < thr otherwise), split at max
Clusters(S, t, incl) == Blocks(S \cup {g \in Holes(S) : IF incl THEN RLen(g) <= t ELSE RLen(g) < t})
Chunks(c, n) == {<<c[1] + k * n, RMin(c[1] + (k + 1) * n - 1, c[2])>> : k \in 0..((RLen(c) - 1) \div n)}
CanonSet(cfg, S, incl) == UNION {Chunks(c, cfg.max) : c \in Clusters(S, cfg.thr, incl)}
RECURSIVE AscSeq(_)
AscSeq(S) == IF S = {} THEN <<>> ELSE LET m == CHOOSE r \in S : \A q \in S : r[1] <= q[1] IN <<m>> \o AscSeq(S \ {m})
CanonBasic(cfg, Rq) == AscSeq(CanonSet(cfg, RSet(Rq), TRUE))
\* number of chunks without building them (large inputs)
RECURSIVE ChunkCount(_, _)
ChunkCount(C, n) == IF C = {} THEN 0 ELSE LET c == CHOOSE x \in C : TRUE IN (RLen(c) + n - 1) \div n + ChunkCount(C \ {c}, n)
CanonCount(cfg, S, incl) == ChunkCount(Clusters(S, cfg.thr, incl), cfg.max)

\* ---- AdvancedRangeCoalescer::coalesce_ranges ------------------------------------------------
\* stable sort by start (Vec::sort_by_key is stable)
RECURSIVE InsertSt(_, _)
InsertSt(q, r) == IF q = <<>> THEN <<r>>
                  ELSE IF q[Len(q)][1] <= r[1] THEN Append(q, r)
                  ELSE Append(InsertSt(SubSeq(q, 1, Len(q) - 1), r), q[Len(q)])
RECURSIVE SortSt(_)
SortSt(q) == IF q = <<>> THEN <<>> ELSE InsertSt(SortSt(SubSeq(q, 1, Len(q) - 1)), q[Len(q)])
GapAfter(cur, r) == IF r[1] > cur[2] + 1 THEN r[1] - cur[2] - 1 ELSE 0

\* a correct version: the running range only grows, and only while it stays within max
RECURSIVE AdvIdealFold(_, _, _, _, _)
AdvIdealFold(q, i, cur, out, cfg) ==
  IF i > Len(q) THEN Append(out, cur)
  ELSE LET r == q[i]
           m == <<cur[1], RMax(cur[2], r[2])>>
       IN IF GapAfter(cur, r) <= cfg.thr /\ RLen(m) <= cfg.max
          THEN AdvIdealFold(q, i + 1, m, out, cfg)
          ELSE AdvIdealFold(q, i + 1, r, Append(out, cur), cfg)
AdvIdeal(cfg, Rq) == IF Rq = <<>> THEN <<>> ELSE LET q == SortSt(Rq) IN AdvIdealFold(q, 2, q[1], <<>>, cfg)

\* the code as written (optimizer.rs 261-289): `current.end = range.end` is executed before the size test
\* on a copy that is pushed when the test fails, and it does not take the maximum of the two ends.
\*   bug "a": the next range ends before the running range does -> the running range SHRINKS (bytes lost)
\*   bug "b": the size test fails -> the EXTENDED range is pushed (longer than max, fetched twice)
RECURSIVE AdvCodeFold(_, _, _, _, _, _)
AdvCodeFold(q, i, cur, out, bugs, cfg) ==
  IF i > Len(q) THEN [plan |-> Append(out, cur), bugs |-> bugs]
  ELSE LET r   == q[i]
           ext == <<cur[1], r[2]>>
           ba  == IF r[2] < cur[2] THEN {"a"} ELSE {}
       IN IF GapAfter(cur, r) <= cfg.thr
          THEN IF RLen(ext) <= cfg.max
               THEN AdvCodeFold(q, i + 1, ext, out, bugs \cup ba, cfg)
               ELSE AdvCodeFold(q, i + 1, r, Append(out, ext), bugs \cup ba \cup (IF ext # cur THEN {"b"} ELSE {}), cfg)
          ELSE AdvCodeFold(q, i + 1, r, Append(out, cur), bugs, cfg)
AdvAsCoded(cfg, Rq) == IF Rq = <<>> THEN [plan |-> <<>>, bugs |-> {}]
                       ELSE LET q == SortSt(Rq) IN AdvCodeFold(q, 2, q[1], <<>>, {}, cfg)

\* ---- the judge ----------------------------------------------------------------------------
\* cfg = [impl, thr, max, maxn, bw, shift, lim]; thresholds of the advanced coalescer scale with the measured
\* bandwidth ("bandwidth-aware"): without a measurement the configured threshold, otherwise between half and
\* three times of it
ThrHi(cfg) == IF cfg.impl = "adv" /\ cfg.bw > 0 THEN 3 * cfg.thr ELSE cfg.thr
ThrLo(cfg) == IF cfg.impl = "adv" /\ cfg.bw > 0 THEN cfg.thr \div 2 ELSE cfg.thr

Ascending(P) == \A i \in 1..(Len(P) - 1) : P[i][2] < P[i + 1][1]

PlanShape(P) == \A i \in 1..Len(P) : WellFormed(P[i])
PlanCovers(Rq, P)      == Covers(RSet(Rq), RSet(P))                                   \* P1
PlanSize(cfg, Rq, P)   == \A i \in 1..Len(P) :                                        \* P3
                            RLen(P[i]) <= cfg.max \/ (cfg.impl = "adv" /\ P[i] \in RSet(Rq))
PlanCount(cfg, P)      == cfg.impl = "basic" => Len(P) <= cfg.maxn                    \* P4 (Ok)
PlanOrder(cfg, P)      == cfg.impl = "basic" => Ascending(P)                          \* P5

PlanOK(cfg, Rq, P) ==
  /\ PlanShape(P)
  /\ LET R  == RSet(Rq)   PS == RSet(P)
         BR == Blocks(R)  BP == Blocks(PS)  HR == HolesOf(BR)
     IN /\ CoversB(BR, BP)                                                           \* P1
        /\ NoWasteB(R, BR, HR, PS, ThrHi(cfg))                                       \* P2
        /\ IF cfg.impl = "basic" THEN BridgesB(HR, BP, ThrLo(cfg))                   \* P6
           ELSE (R # {} /\ (\A g \in HR : RLen(g) < ThrLo(cfg))
                   /\ MaxS({b[2] : b \in BR}) - MinS({b[1] : b \in BR}) + 1 <= cfg.max)
                 => PS = {<<MinS({b[1] : b \in BR}), MaxS({b[2] : b \in BR})>>}
  /\ PlanSize(cfg, Rq, P) /\ PlanCount(cfg, P) /\ PlanOrder(cfg, P)

ErrOK(cfg, Rq, err) ==                                                                \* P4 (Err)
  /\ cfg.impl = "basic" /\ err = "RangeCoalescingFailed" /\ Rq # <<>>
  /\ \/ CanonCount(cfg, RSet(Rq), TRUE) > cfg.maxn
     \/ CanonCount(cfg, RSet(Rq), FALSE) > cfg.maxn

\* res = [kind |-> "Ok", plan |-> P] | [kind |-> "Err", err |-> name] | [kind |-> "panic"]
CoalesceOK(cfg, Rq, res) ==
  CASE res.kind = "Ok"  -> PlanOK(cfg, Rq, res.plan)
    [] res.kind = "Err" -> ErrOK(cfg, Rq, res.err)
    [] OTHER            -> FALSE                                                      \* P7

\* ---- named deviations (guards only; enabled by the monitor when the id is listed) -----------
(* FX02a / FX02b: the plan is exactly what the code-shaped fold produces and the fold went through
   the shrinking assignment (a) or pushed the extended copy (b). *)
ThrCands(cfg) == IF cfg.bw > 0 THEN {cfg.thr \div 2, cfg.thr, 2 * cfg.thr, 3 * cfg.thr} ELSE {cfg.thr}
AdvBugs(cfg, Rq, res) ==
  IF cfg.impl = "adv" /\ res.kind = "Ok"
  THEN UNION {LET c == AdvAsCoded([cfg EXCEPT !.thr = t], Rq) IN IF c.plan = res.plan THEN c.bugs ELSE {} : t \in ThrCands(cfg)}
  ELSE {}
(* FX02c: arithmetic on `end + 1` / `start + size` overflows near u64::MAX: range.rs is_adjacent / gap_to
   (a range ending at u64::MAX is compared with another one), split (a range that has to be cut ends less than
   max_range_size below u64::MAX), optimizer.rs `current.end + 1` (a range ending at u64::MAX is followed by another). *)
OverflowAtTop(cfg, Rq, res) ==
  /\ res.kind = "panic" /\ cfg.shift = "top"
  /\ \/ Len(Rq) >= 2 /\ \E r \in RSet(Rq) : r[2] = cfg.lim
     \/ cfg.impl = "basic" /\ \E c \in Clusters(RSet(Rq), cfg.thr, TRUE) : RLen(c) > cfg.max /\ c[2] + cfg.max > cfg.lim

\* ---- P8: constructors and split ---------------------------------------------------------------
MkOK(cfg, e) ==
  LET top(x) == cfg.shift = "top" /\ x > cfg.lim IN
  IF e.how = "new"
  THEN IF e.a > e.b THEN e.res.kind = "panic" ELSE e.res.kind = "Ok" /\ e.res.r = <<e.a, e.b>> /\ e.res.len = e.b - e.a + 1
  ELSE IF e.b = 0 \/ top(e.a + e.b - 1) THEN e.res.kind = "panic"
       ELSE e.res.kind = "Ok" /\ e.res.r = <<e.a, e.a + e.b - 1>> /\ e.res.len = e.b
SplitOK(e) == e.res.kind = "Ok" /\ e.res.parts = AscSeq(Chunks(e.r, e.n))
SplitOverflow(cfg, e) == e.res.kind = "panic" /\ cfg.shift = "top" /\ e.r[2] + e.n > cfg.lim

\* ---- P9: efficiency_gain(original, coalesced), both ratios in thousandths -----------------------
EffInRange(eff) == eff[1] \in 0..1000 /\ eff[2] \in 0..1000
(* FX02d: request_reduction = 1 - |P|/|R| is negative when splitting produced more ranges than were
   requested; byte_efficiency = sum(R)/sum(P) exceeds 1 when requested ranges overlap (bytes counted twice). *)
EffOutOfRange(Rq, P, eff) ==
  /\ eff[1] \in 0..1000 \/ (eff[1] < 0 /\ Len(P) > Len(Rq))
  /\ eff[2] \in 0..1000 \/ (eff[2] > 1000 /\ SumS(Rq, 1) > SumS(P, 1))
=============================================================================
