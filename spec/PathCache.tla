----------------------------- MODULE PathCache -----------------------------
(***************************************************************************)
(* X12 (growth) - the CDN path cache and URL builder of the streaming CDN  *)
(* module of cascette-protocol (feature `streaming`,                       *)
(* cdn/streaming/path.rs: CdnPathCache, CdnUrlBuilder).  The bootstrap and *)
(* configuration half of X12 is CdnBoot.tla.                               *)
(*                                                                         *)
(* Properties, at the level of the public API.                             *)
(*                                                                         *)
(* Quantifier of P1-P8: every history of set / cache_path / remove / clear *)
(* / cleanup_expired / bulk_update / update_from_bootstrap / set_ttl /     *)
(* set_validation / clone interleaved with real pauses, for every          *)
(* constructor, with every TTL of {none, 0, some ms, 1000 s, Duration::MAX}*)
(* after every call the whole read API is consulted.                       *)
(*                                                                         *)
(*  P1  The cache is a map product -> (path, stored-at): get_without_ttl_  *)
(*      check(p) is the path stored last for exactly p since the last      *)
(*      remove / clear / cleanup that took it, nothing otherwise.          *)
(*  P2  An entry stored at instant c is EXPIRED at instant g iff a TTL T   *)
(*      is configured and g - c > T (the TTL in force at g: set_ttl acts   *)
(*      on the entries already stored; None = never; Duration::MAX and 0   *)
(*      do not panic).  get / get_cached_path return the path iff not      *)
(*      expired, is_expired says so, entries() flags it, valid_len / stats *)
(*      / has_valid_entries count it, build_url_for_product fails with a   *)
(*      Configuration error iff the product has no unexpired path (an      *)
(*      expired path counts as absent: the builder uses get) and otherwise *)
(*      returns build_url of the stored path.                              *)
(*      Time: the code reads std::time::Instant, so does the driver: every *)
(*      call carries the interval [t0, t1] it ran in.  The judge keeps, per*)
(*      entry, the interval [lo, hi] that must contain c (initially the    *)
(*      interval of the storing call) and narrows it with every            *)
(*      observation: seen fresh in [g0, g1] => c >= g0 - T; seen expired   *)
(*      => c <= g1 - T.  An empty interval is the violation ("no single    *)
(*      instant explains what was observed").  A late driver only widens   *)
(*      intervals; it can never cause an alarm.                            *)
(*  P3  len = number of entries (expired included), is_empty = (len = 0),  *)
(*      stats = (len, valid, len - valid, TTL configured, validation flag),*)
(*      entries() = the map, each entry once.                              *)
(*  P4  remove(p) returns the stored path (expired or not) and removes it; *)
(*      clear removes everything.                                          *)
(*  P5  cleanup_expired removes exactly the expired entries and returns    *)
(*      their number (0 and no change without a TTL).                      *)
(*  P6  bulk_update(paths, replace_all): afterwards every pair of `paths`  *)
(*      is stored with a fresh stamp; the other entries are gone iff       *)
(*      replace_all.                                                       *)
(*  P7  update_from_bootstrap(b, force): a pair of b.paths is stored iff   *)
(*      force, or the product has no entry, or its entry is expired        *)
(*      ("preserving existing unexpired paths"; without a TTL nothing is   *)
(*      ever expired).  Entries not named by b are untouched.              *)
(*  P8  Validation: stats().validation_enabled is the flag set last.  With *)
(*      the flag on, a path that cannot be the {cdn_path} of the documented*)
(*      URL pattern is never stored (the call leaves the product's entry   *)
(*      as it was).  The code gives no definition of "valid"; the judge    *)
(*      REQUIRES rejection only for paths that are empty once trailing     *)
(*      slashes are stripped, contain ASCII white space / control          *)
(*      characters, or have a ".." component (BadMust); it leaves open     *)
(*      (BadMay) a leading "/", empty or "." components and characters     *)
(*      outside [A-Za-z0-9_.-/]; everything else must be accepted.         *)
(*                                                                         *)
(* Quantifier of U1-U4: every (server, path with 0..n trailing slashes,    *)
(* content type, hash, https flag); hashes of every length 0..34, upper /  *)
(* lower / mixed case, with a non-hex or non-ASCII character at every      *)
(* position that matters.                                                  *)
(*                                                                         *)
(*  U1  build_url = scheme://server/path-without-trailing-slashes/type/    *)
(*      h[0:2]/h[2:4]/h with h the lower-cased hash, scheme by the flag,   *)
(*      type in config/data/patch - for every hash of exactly 32 hex       *)
(*      digits; every other hash is an Err, never a panic.                 *)
(*  U2  build_product_config_url = scheme://server/tpr/configs/data/...    *)
(*      under the same hash rule.                                          *)
(*  U3  hash_directories(h) = (lower h[0:2], lower h[2:4]) for ASCII h of  *)
(*      at least four characters (hex: required; other ASCII: that or Err),*)
(*      Err below four bytes, never a panic (non-ASCII: anything else).    *)
(*  U4  Injective: two different (type, lower-cased hash) never give the   *)
(*      same URL on one (server, path) (checked on the model, MC_PathCache)*)
(***************************************************************************)
EXTENDS Integers, Sequences, FiniteSets, TLC

PcMax(a, b) == IF a >= b THEN a ELSE b
PcMin(a, b) == IF a <= b THEN a ELSE b

\* ------------------------------------------------------------------ characters
Digits   == <<"0", "1", "2", "3", "4", "5", "6", "7", "8", "9">>
UpperSeq == <<"A", "B", "C", "D", "E", "F", "G", "H", "I", "J", "K", "L", "M", "N", "O", "P", "Q", "R", "S", "T", "U", "V", "W", "X", "Y", "Z">>
LowerSeq == <<"a", "b", "c", "d", "e", "f", "g", "h", "i", "j", "k", "l", "m", "n", "o", "p", "q", "r", "s", "t", "u", "v", "w", "x", "y", "z">>
SeqRange(s) == {s[i] : i \in 1..Len(s)}
DigitSet == SeqRange(Digits)
UpperSet == SeqRange(UpperSeq)
LowerSet == SeqRange(LowerSeq)
HexSet   == DigitSet \cup {"a", "b", "c", "d", "e", "f", "A", "B", "C", "D", "E", "F"}
LowerOf(c) == IF c \in UpperSet THEN LowerSeq[CHOOSE i \in 1..26 : UpperSeq[i] = c] ELSE c
LowerAll(cs) == [i \in 1..Len(cs) |-> LowerOf(cs[i])]
AsciiWs == {" ", "\t", "\n", "\r", "\f"}
GoodPathChar == DigitSet \cup UpperSet \cup LowerSet \cup {"_", ".", "-"}

RECURSIVE Flat(_)
Flat(cs) == IF cs = <<>> THEN "" ELSE Head(cs) \o Flat(Tail(cs))
RECURSIVE SumSeq(_)
SumSeq(ns) == IF ns = <<>> THEN 0 ELSE Head(ns) + SumSeq(Tail(ns))

\* ------------------------------------------------------------------ paths
LastNonSlash(pc) == IF \E i \in 1..Len(pc) : pc[i] # "/" THEN CHOOSE i \in 1..Len(pc) : pc[i] # "/" /\ \A j \in (i+1)..Len(pc) : pc[j] = "/" ELSE 0
TrimSlashes(pc) == SubSeq(pc, 1, LastNonSlash(pc))
\* components of a path (split at "/"), as a sequence of character sequences
RECURSIVE SplitAt(_, _, _)
SplitAt(cs, sep, cur) ==
  IF cs = <<>> THEN <<cur>>
  ELSE IF Head(cs) = sep THEN <<cur>> \o SplitAt(Tail(cs), sep, <<>>)
  ELSE SplitAt(Tail(cs), sep, Append(cur, Head(cs)))
Components(pc) == SplitAt(pc, "/", <<>>)
\* P8: what validation MUST reject / MAY reject
BadMust(pc) == LET t == TrimSlashes(pc) IN
  \/ t = <<>>
  \/ \E i \in 1..Len(pc) : pc[i] \in AsciiWs
  \/ \E i \in 1..Len(Components(t)) : Components(t)[i] = <<".", ".">>
BadMay(pc) == LET t == TrimSlashes(pc) cs == Components(t) IN
  \/ (pc # <<>> /\ pc[1] = "/")
  \/ \E i \in 1..Len(cs) : cs[i] = <<>> \/ cs[i] = <<".">>
  \/ \E i \in 1..Len(pc) : pc[i] \notin GoodPathChar \cup {"/"}

\* ------------------------------------------------------------------ URLs (U1-U3)
HashValid(hc, hn) == SumSeq(hn) = 32 /\ \A i \in 1..Len(hc) : hc[i] \in HexSet
Scheme(https) == IF https THEN "https" ELSE "http"
HashTail(hc) == LET l == LowerAll(hc) IN Flat(SubSeq(l, 1, 2)) \o "/" \o Flat(SubSeq(l, 3, 4)) \o "/" \o Flat(l)
UrlOf(server, pc, ct, hc, https) ==
  Scheme(https) \o "://" \o server \o "/" \o Flat(TrimSlashes(pc)) \o "/" \o ct \o "/" \o HashTail(hc)
UrlTail(server, pc, ct, tail, https) == Scheme(https) \o "://" \o server \o "/" \o Flat(TrimSlashes(pc)) \o "/" \o ct \o "/" \o tail
\* the fixed query of the observation block, with the hash part of its URL computed once
UqPrep(uq) == [server |-> uq.server, ct |-> uq.ct, https |-> uq.https, tail |-> HashTail(uq.hc)]
PcfgUrlOf(server, hc, https) == Scheme(https) \o "://" \o server \o "/tpr/configs/data/" \o HashTail(hc)
ContentTypes == {"config", "data", "patch"}

\* judge of one call of the url family: [ok, devs]
UrlJudge(e) ==
  LET r == e.res
      valid == HashValid(e.hc, e.hn)
      okv(u) == r.k = "ok" /\ r.v = u
      ok ==
        IF r.k = "panic" THEN FALSE
        ELSE CASE e.op = "build" -> IF valid THEN okv(UrlOf(e.server, e.pc, e.ct, e.hc, e.https)) ELSE r.k = "err"
               [] e.op = "pcfg"  -> IF valid THEN okv(PcfgUrlOf(e.server, e.hc, e.https)) ELSE r.k = "err"
               [] e.op = "prod"  -> IF valid /\ e.cached THEN okv(UrlOf(e.server, e.pc, e.ct, e.hc, e.https)) ELSE r.k = "err"
               [] e.op = "dirs"  ->
                    IF SumSeq(e.hn) < 4 THEN r.k = "err"
                    ELSE IF \A i \in 1..Len(e.hn) : e.hn[i] = 1 THEN
                         LET l == LowerAll(e.hc)
                             want == <<Flat(SubSeq(l, 1, 2)), Flat(SubSeq(l, 3, 4))>>
                         IN IF \A i \in 1..4 : e.hc[i] \in HexSet THEN r.k = "ok2" /\ r.v = want
                            ELSE (r.k = "ok2" /\ r.v = want) \/ r.k = "err"
                    ELSE r.k \in {"ok2", "err"}
               [] OTHER -> FALSE
  IN [ok |-> ok, devs |-> {}]

\* ------------------------------------------------------------------ the cache (P1-P8)
\* TTL codes (microseconds): -1 = no TTL, -2 = Duration::MAX, n >= 0 the TTL
TtlOn(T) == T # -1
TtlInf(T) == T < 0
Absent == [abs |-> TRUE, path |-> "", pc |-> <<>>, lo |-> 0, hi |-> 0]
Entry(path, pc, lo, hi) == [abs |-> FALSE, path |-> path, pc |-> pc, lo |-> lo, hi |-> hi]
Cur(m, p) == IF p \in DOMAIN m THEN m[p] ELSE Absent
PcSt0(cfg) == [ttl |-> cfg.ttl, val |-> cfg.val, m |-> <<>>]

MustExpAt(en, T, g0)   == ~TtlInf(T) /\ g0 - en.hi > T
MustFreshAt(en, T, g1) == TtlInf(T) \/ g1 - en.lo <= T
SeenFresh(en, T, g0) == IF TtlInf(T) THEN en ELSE [en EXCEPT !.lo = PcMax(@, g0 - T)]
SeenExp(en, T, g1)   == IF TtlInf(T) THEN [en EXCEPT !.hi = en.lo - 1] ELSE [en EXCEPT !.hi = PcMin(@, g1 - T)]

\* the options of one product under one operation: records [en, dev, rm]
Opt(en, dev, rm) == [en |-> en, dev |-> dev, rm |-> rm]
StoreOpts(st, old, path, pc, t0, t1) ==      \* what a set of (path) may leave for the product (P8)
  LET new == Entry(path, pc, t0, t1)
      must == st.val /\ BadMust(pc)
      may  == st.val /\ (BadMust(pc) \/ BadMay(pc))
  IN (IF must THEN {Opt(new, "FX12a", 0)} ELSE {Opt(new, "", 0)}) \cup (IF may THEN {Opt(old, "", 0)} ELSE {})

PairOf(pairs, p) == pairs[CHOOSE i \in 1..Len(pairs) : pairs[i].p = p]
PairProducts(pairs) == {pairs[i].p : i \in 1..Len(pairs)}

\* per product the set of options of operation e in state st
OptsOf(st, e, p) ==
  LET T == st.ttl  old == Cur(st.m, p) IN
  CASE e.op = "set" /\ e.p = p -> StoreOpts(st, old, e.path, e.pc, e.t0, e.t1)
    [] e.op = "rm" /\ e.p = p  -> {Opt(Absent, "", 0)}
    [] e.op = "clear"          -> {Opt(Absent, "", 0)}
    [] e.op = "cleanup" ->
         IF old.abs \/ ~TtlOn(T) THEN {Opt(old, "", 0)}
         ELSE (IF MustExpAt(old, T, e.t0) THEN {} ELSE {Opt(SeenFresh(old, T, e.t0), "", 0)})
              \cup (IF MustFreshAt(old, T, e.t1) THEN {} ELSE {Opt(Absent, "", 1)})
    [] e.op = "bulk" ->
         LET base == IF e.rep THEN Absent ELSE old IN
         IF p \in PairProducts(e.pairs) THEN LET pr == PairOf(e.pairs, p) IN StoreOpts(st, base, pr.path, pr.pc, e.t0, e.t1)
         ELSE {Opt(base, "", 0)}
    [] e.op = "boot" ->
         IF p \notin PairProducts(e.pairs) THEN {Opt(old, "", 0)}
         ELSE LET pr == PairOf(e.pairs, p)
                  storeAllowed == e.force \/ old.abs \/ (TtlOn(T) /\ ~MustFreshAt(old, T, e.t1))
                  keepFresh    == ~e.force /\ ~old.abs /\ ~MustExpAt(old, T, e.t0)
              IN (IF storeAllowed THEN StoreOpts(st, old, pr.path, pr.pc, e.t0, e.t1) ELSE {})
                 \cup (IF keepFresh THEN {Opt(IF TtlOn(T) THEN SeenFresh(old, T, e.t0) ELSE old, "", 0)} ELSE {})
    [] OTHER -> {Opt(old, "", 0)}

ResOkFor(st, e, nrm) ==
  CASE e.op = "rm"      -> e.res.k = "opt" /\ e.res.v = (IF Cur(st.m, e.p).abs THEN <<>> ELSE <<Cur(st.m, e.p).path>>)
    [] e.op = "cleanup" -> e.res.k = "n" /\ e.res.v = nrm
    [] OTHER            -> e.res.k = "unit"

\* observation block: per product the facts and the narrowed entry
Idx(U, p) == CHOOSE i \in 1..Len(U) : U[i] = p
EntFlag(o, p) == {o.ents[i][3] : i \in {j \in 1..Len(o.ents) : o.ents[j][1] = p}}
ObsEntry(st, U, uq, o, p) ==      \* [ok, en]
  LET i == Idx(U, p)  en == Cur(st.m, p)  T == st.ttl IN
  IF en.abs THEN [ok |-> o.get[i] = <<>> /\ o.gb[i] = <<>> /\ o.exp[i] = FALSE /\ o.url[i] = <<>> /\ o.gnc[i] = <<>> /\ EntFlag(o, p) = {},
                  en |-> en]
  ELSE
    LET some == <<en.path>>
        url  == <<UrlTail(uq.server, en.pc, uq.ct, uq.tail, uq.https)>>
        flags == EntFlag(o, p)
        shape == /\ o.gnc[i] = some /\ o.get[i] \in {some, <<>>} /\ o.gb[i] \in {some, <<>>} /\ o.url[i] \in {url, <<>>}
                 /\ flags \in {{0}, {1}}
        fresh == o.get[i] = some \/ o.gb[i] = some \/ o.exp[i] = FALSE \/ o.url[i] = url \/ flags = {1}
        stale == o.get[i] = <<>> \/ o.gb[i] = <<>> \/ o.exp[i] = TRUE \/ o.url[i] = <<>> \/ flags = {0}
        e1 == IF fresh THEN SeenFresh(en, T, o.o0) ELSE en
        e2 == IF stale THEN SeenExp(e1, T, o.o1) ELSE e1
    IN [ok |-> shape /\ e2.lo <= e2.hi, en |-> IF e2.lo <= e2.hi THEN e2 ELSE [e2 EXCEPT !.lo = e2.hi]]

\* (TLC applies a function expression lazily, every time it is used: results that are used more than once are built as tuples)
RECURSIVE ObsEntries(_, _, _, _, _)
ObsEntries(st, U, uq, o, i) == IF i > Len(U) THEN <<>> ELSE <<ObsEntry(st, U, uq, o, U[i])>> \o ObsEntries(st, U, uq, o, i + 1)
ObsJudge(st, U, uq, o) ==          \* [ok, st]
  IF "panic" \in DOMAIN o THEN [ok |-> FALSE, st |-> st]
  ELSE
  LET per == ObsEntries(st, U, uq, o, 1)
      dom == {i \in 1..Len(U) : U[i] \in DOMAIN st.m}
      T   == st.ttl
      N   == Cardinality(DOMAIN st.m)
      nMF == Cardinality({i \in dom : MustFreshAt(per[i].en, T, o.o1)})
      nME == Cardinality({i \in dom : MustExpAt(per[i].en, T, o.o0)})
      inb(v) == nMF <= v /\ v <= N - nME
      books == /\ o.len = N /\ o.empty = (N = 0) /\ Len(o.ents) = N
               /\ {o.ents[i][1] : i \in 1..Len(o.ents)} = DOMAIN st.m
               /\ \A i \in 1..Len(o.ents) : o.ents[i][1] \in DOMAIN st.m /\ o.ents[i][2] = st.m[o.ents[i][1]].path
               /\ o.stats[1] = N /\ o.stats[2] + o.stats[3] = N /\ inb(o.stats[2]) /\ inb(o.vlen)
               /\ o.stats[4] = (IF TtlOn(T) THEN 1 ELSE 0) /\ o.stats[5] = (IF st.val THEN 1 ELSE 0)
               /\ (o.hasv => N - nME > 0) /\ (~o.hasv => nMF = 0)
  IN [ok |-> books /\ \A i \in 1..Len(U) : per[i].ok, st |-> [st EXCEPT !.m = [p \in DOMAIN st.m |-> per[Idx(U, p)].en]]]

\* the map an observation shows (resynchronisation after a step nothing explains)
Resync(st, U, e) ==
  LET o == e.obs IN
  IF "panic" \in DOMAIN o THEN st
  ELSE [st EXCEPT !.m = [p \in {q \in SeqRange(U) : o.gnc[Idx(U, q)] # <<>>} |->
                            LET v == o.gnc[Idx(U, p)][1] IN
                            IF p \in DOMAIN st.m /\ st.m[p].path = v THEN st.m[p] ELSE Entry(v, <<>>, e.t0, e.t1)]]

\* judge of one cache event: [ok, devs, st]
\* per position of U the options compatible with what get_without_ttl_check shows afterwards
RECURSIVE OptsShown(_, _, _, _)
OptsShown(st, U, e, i) ==
  IF i > Len(U) THEN <<>>
  ELSE <<{x \in OptsOf(st, e, U[i]) : e.obs.gnc[i] = (IF x.en.abs THEN <<>> ELSE <<x.en.path>>)}>> \o OptsShown(st, U, e, i + 1)
\* all tuples that take one option per position
RECURSIVE TuplesOf(_, _)
TuplesOf(sets, i) == IF i > Len(sets) THEN {<<>>} ELSE {<<x>> \o r : x \in sets[i], r \in TuplesOf(sets, i + 1)}
RECURSIVE HullSeq(_, _, _, _)
HullSeq(f0, pick, n, i) ==
  IF i > n THEN <<>>
  ELSE LET los == {f[i].en.lo : f \in pick}  his == {f[i].en.hi : f \in pick}
       IN <<[f0[i].en EXCEPT !.lo = CHOOSE x \in los : \A y \in los : x <= y, !.hi = CHOOSE x \in his : \A y \in his : x >= y]>>
          \o HullSeq(f0, pick, n, i + 1)
PcJudge(st, U, uq, e) ==
  IF e.res.k = "panic" \/ "panic" \in DOMAIN e.obs THEN [ok |-> FALSE, devs |-> {}, st |-> Resync(st, U, e)]
  ELSE
  LET st1 == CASE e.op = "ttl" -> [st EXCEPT !.ttl = e.ttl]
               [] e.op = "val" -> [st EXCEPT !.val = e.b]
               [] OTHER        -> st
      n     == Len(U)
      cands == TuplesOf(OptsShown(st, U, e, 1), 1)
      nrm(f) == Cardinality({i \in 1..n : f[i].rm = 1})
      good  == {f \in cands : ResOkFor(st, e, nrm(f))}
      clean == {f \in good : \A i \in 1..n : f[i].dev = ""}
      pick  == IF clean # {} THEN clean ELSE good
  IN
  IF pick = {} THEN [ok |-> FALSE, devs |-> {}, st |-> Resync(st1, U, e)]
  ELSE
    LET f0 == CHOOSE f \in pick : TRUE
        present == {i \in 1..n : ~f0[i].en.abs}
        \* several explanations: the hull of their intervals
        hulls == HullSeq(f0, pick, n, 1)
        st2 == [st1 EXCEPT !.m = [p \in {U[i] : i \in present} |-> hulls[Idx(U, p)]]]
        oj  == ObsJudge(st2, U, uq, e.obs)
    IN [ok |-> oj.ok, devs |-> {f0[i].dev : i \in 1..n} \ {""}, st |-> oj.st]

\* the first event of a run: the constructor
PcJudgeNew(e) ==
  IF e.res.k = "panic" THEN [ok |-> FALSE, devs |-> {}, st |-> PcSt0(e.cfg)]
  ELSE LET oj == ObsJudge(PcSt0(e.cfg), e.U, UqPrep(e.uq), e.obs) IN [ok |-> oj.ok, devs |-> {}, st |-> oj.st]
=============================================================================
