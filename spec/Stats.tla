-------------------------------- MODULE Stats --------------------------------
(***************************************************************************)
(* X11 (b) - the statistics books: cascette-cache stats.rs (CacheStats,    *)
(* AtomicCacheMetrics, FastCacheMetrics, MultiLayerStats, PromotionStats,  *)
(* OperationMetrics) and cascette-protocol cdn/streaming/metrics.rs        *)
(* (StreamingMetrics, its CacheStats, PoolMetrics, PrometheusExporter).    *)
(*                                                                         *)
(* All quantities are BigNats (spec/lib/BigNat.tla): u64 counters, usize   *)
(* gauges and u128 nanoseconds do not fit TLC's 32-bit integers.  QMax is  *)
(* u64::MAX, UMax is usize::MAX (the harness runs on a 64-bit host, the    *)
(* driver logs usize::BITS and the monitor insists on 64).                 *)
(*                                                                         *)
(* PROPERTIES (quantifier: every history of calls of the alphabet on one   *)
(* object, sizes and durations over the boundary alphabet 0, 1, 1 us,      *)
(* 1 us + 1 ns, 2^20, 2^32, 2^52, 2^63, MAX-1, MAX, 2^64 ns, Duration::MAX)*)
(*                                                                         *)
(*  ST1 counters: get/hit/miss/put/remove/eviction/expiration counts are   *)
(*      the numbers of the corresponding record_* calls (record_batch_gets *)
(*      = its elements one by one); hits + misses = gets; only reset       *)
(*      lowers them.                                                       *)
(*  ST2 gauges: entry_count and memory_usage_bytes follow the stated       *)
(*      saturating algebra ("the counters never wrap", "stop at zero"):    *)
(*      put: +1 / +size clamped at usize::MAX, remove / eviction /         *)
(*      expiration: -1 / -size clamped at 0.  Hence over a history in      *)
(*      which nothing is taken out that was not put in they equal          *)
(*      puts - removes - evictions - expirations and the sum of the sizes; *)
(*      a put never lowers a gauge, a departure never raises it;           *)
(*      max_memory_usage_bytes = the largest value memory_usage_bytes had. *)
(*  ST3 times: avg_get_time = floor(T / gets) with T the sum of the        *)
(*      recorded durations (those of at most 1 us may be left out, as the  *)
(*      code says), T clamped at u64::MAX ns ("never wrap"); same for put. *)
(*  ST4 fast variants: FastCacheMetrics = the same counts, memory in MiB   *)
(*      rounded down and clamped at u32::MAX; memory_usage_bytes() =       *)
(*      MiB * 2^20.                                                        *)
(*  ST5 ratios: hit_rate = hits / gets, miss_rate = misses / gets,         *)
(*      utilization(m) = entries / m, memory_utilization(m) = bytes / m,   *)
(*      0 for a zero denominator, never NaN, within [0, 1] whenever the    *)
(*      numerator is not above the denominator (f64: 1e-12 relative,       *)
(*      f32 fast variants: 1e-6).                                          *)
(*  ST6 merge: every counter and gauge is the clamped sum, the maximum is  *)
(*      the maximum (so merge is associative and commutative on them);     *)
(*      the merged average times are the count-weighted averages: between  *)
(*      the two inputs' averages (of the sides with a non-zero count),     *)
(*      exact (+-1 ns) while the weighted sum fits 64 bits; created_at_ms  *)
(*      is the receiver's (or the earlier one).  MultiLayerStats totals =  *)
(*      merge of the layers; update of a layer out of range changes        *)
(*      nothing; promotion counts per pair and in total.                   *)
(*  ST7 OperationMetrics: count, total (clamped at Duration::MAX), min,    *)
(*      max of the recorded durations; avg_duration = total / count        *)
(*      (+-1 ns), 0 for none; ops_per_second(w) = count / w, 0 for w = 0.  *)
(*  ST8 StreamingMetrics: bytes_downloaded is the clamped sum;             *)
(*      current_bandwidth is the rate of the LAST download in bytes per    *)
(*      second, floor(bytes * 10^9 / ns) (+-1, clamped), unchanged by a    *)
(*      download of zero duration; peak_bandwidth its maximum; per-cache   *)
(*      hits / misses / evictions count the calls, size is the last value  *)
(*      set, an unknown cache reads as zeros; hit_ratio = hits/(hits +     *)
(*      misses), 1.0 for none; bandwidth_efficiency = down / up, +inf for  *)
(*      up = 0.  PoolMetrics: total_requests = successes + failures,       *)
(*      success_rate = successes / total (1.0 for none), both without      *)
(*      wrapping; average_response_time = mean of the last 1000 samples    *)
(*      (+-1 ns), p95 = a sample with at least 95 % of the samples <= it   *)
(*      and at most 95 % (+ half a sample) strictly below it.              *)
(*  ST9 PrometheusExporter: after update_from_pool_metrics /               *)
(*      update_from_streaming_metrics every exported value equals the      *)
(*      value of its source at that moment - however often it is called.   *)
(*  ST10 no call panics (the harness is built with overflow checks).       *)
(***************************************************************************)
EXTENDS Naturals, Sequences, FiniteSets, BigNat

CONSTANT Variant      \* "ideal"; "wrap" = gauges in modular arithmetic (design-level refutation only)

Z    == BnZero
QMax == BnU64Max
UMax == BnU64Max
DMax == <<9999, 9999, 6159, 9551, 7370, 7440, 8446, 1>>    \* Duration::MAX in ns = (2^64-1) * 10^9 + 999 999 999
Thresh == <<1000>>                                          \* "meaningful" durations are > 1 us
Bn2p52 == <<496, 2737, 5996, 4503>>
Bn1e3  == <<1000>>

\* ---- arithmetic of the books -----------------------------------------------------
CInc(c)    == BnSatAdd(c, BnOne, QMax)
CAdd(c, k) == BnSatAdd(c, k, QMax)
WrapU(x)   == IF BnLeq(x, UMax) THEN x ELSE BnSubSat(x, Bn2p64)
GAdd(a, b) == IF Variant = "wrap" THEN WrapU(BnAdd(a, b)) ELSE BnSatAdd(a, b, UMax)
GSub(a, b) == IF Variant = "wrap" /\ BnLt(a, b) THEN BnSubSat(BnAdd(a, Bn2p64), b) ELSE BnSubSat(a, b)

\* ============================ PART A: AtomicCacheMetrics ============================
\* tgl / tgh: exact sum of the get durations without / with those of at most 1 us (tpl / tph: put)
M0 == [gets |-> Z, hits |-> Z, misses |-> Z, puts |-> Z, rems |-> Z, evis |-> Z, exps |-> Z,
       n |-> Z, mem |-> Z, max |-> Z, tgl |-> Z, tgh |-> Z, tpl |-> Z, tph |-> Z]
Meaningful(d) == IF BnLt(Thresh, d) THEN d ELSE Z

MGet(m, hit, d) ==
  [m EXCEPT !.gets = CInc(@), !.hits = IF hit THEN CInc(@) ELSE @, !.misses = IF hit THEN @ ELSE CInc(@),
            !.tgl = BnAdd(@, Meaningful(d)), !.tgh = BnAdd(@, d)]
MPut(m, size, d) ==
  LET mem2 == GAdd(m.mem, size) IN
  [m EXCEPT !.puts = CInc(@), !.n = GAdd(@, BnOne), !.mem = mem2, !.max = BnMax(@, mem2),
            !.tpl = BnAdd(@, Meaningful(d)), !.tph = BnAdd(@, d)]
MDepart(m, field, size) == [m EXCEPT ![field] = CInc(@), !.n = GSub(@, BnOne), !.mem = GSub(@, size)]
RECURSIVE MBatch(_, _, _)
MBatch(m, ops, i) == IF i > Len(ops) THEN m ELSE MBatch(MGet(m, ops[i][1], ops[i][2].ns), ops, i + 1)

MetR(m, e) ==
  CASE e.op = "get"   -> MGet(m, e.hit, e.d.ns)
    [] e.op = "put"   -> MPut(m, e.n, e.d.ns)
    [] e.op = "rem"   -> MDepart(m, "rems", e.n)
    [] e.op = "evi"   -> MDepart(m, "evis", e.n)
    [] e.op = "exp"   -> MDepart(m, "exps", e.n)
    [] e.op = "batch" -> MBatch(m, e.ops, 1)
    [] e.op = "reset" -> M0
    [] OTHER          -> m

\* avg = floor(T / cnt) for some T between the clamped lo and hi
AvgOk(avg, lo, hi, cnt) ==
  IF cnt = Z THEN avg = Z
  ELSE /\ BnLt(BnMin(lo, QMax), BnMul(BnInc(avg), cnt))
       /\ BnLeq(BnMul(avg, cnt), BnMin(hi, QMax))
CountsOk(m, sn) ==
  /\ sn.gets = m.gets /\ sn.hits = m.hits /\ sn.misses = m.misses /\ sn.puts = m.puts
  /\ sn.rems = m.rems /\ sn.evis = m.evis /\ sn.exps = m.exps
GaugesOk(m, sn) == sn.n = m.n /\ sn.mem = m.mem /\ sn.max = m.max
\* ST4
MiBOk(mb, mem) == IF BnLt(mem, Bn2p52) THEN BnIsQuot(mb, mem, Bn2p20) ELSE mb = BnU32Max
FastOk(m, fa) == /\ fa.gets = m.gets /\ fa.hits = m.hits /\ fa.n = m.n
                 /\ MiBOk(fa.mb, m.mem) /\ fa.bytes = BnMul(fa.mb, Bn2p20)
FastCountsOk(m, fa) == fa.gets = m.gets /\ fa.hits = m.hits /\ fa.n = m.n /\ fa.bytes = BnMul(fa.mb, Bn2p20)

\* ST5: a float is [k |-> "fin"|"nan"|"inf"|"neg"|"big", n9 |-> floor(x * 10^9)]
\* |n9 * den - num * 10^9| <= 2 * den + num * 10^9 * 10^-12   (times 1000 to stay in the naturals)
Ratio64Ok(f, num, den, zero9) ==
  IF den = Z THEN f.k = "fin" /\ f.n9 = zero9
  ELSE /\ f.k = "fin"
       /\ BnLeq(BnMulSmall(BnDist(BnMul(f.n9, den), BnMul(num, Bn1e9)), 1000), BnAdd(BnMulSmall(den, 2000), num))
       /\ (BnLeq(num, den) => BnLeq(f.n9, Bn1e9))
\* f32: |n9 * den - num * 10^9| <= 1000 * den + num * 10^9 * 10^-6
Ratio32Ok(f, num, den, zero9) ==
  IF den = Z THEN f.k = "fin" /\ f.n9 = zero9
  ELSE /\ f.k = "fin"
       /\ BnLeq(BnDist(BnMul(f.n9, den), BnMul(num, Bn1e9)), BnAdd(BnMulSmall(den, 1000), BnMulSmall(num, 1000)))
       /\ (BnLeq(num, den) => BnLeq(f.n9, Bn1e9))
RatesOk(st, r) ==
  /\ Ratio64Ok(r.hit, st.hits, st.gets, Z) /\ Ratio64Ok(r.miss, st.misses, st.gets, Z)
  /\ Ratio64Ok(r.util, st.n, r.cap, Z) /\ Ratio64Ok(r.memutil, st.mem, r.cap, Z)
  /\ Ratio64Ok(r.util0, st.n, Z, Z) /\ Ratio64Ok(r.memutil0, st.mem, Z, Z)

\* ============================ PART M: CacheStats::merge ============================
Counters == {"gets", "hits", "misses", "puts", "rems", "evis", "exps"}
MergeCounts(a, b) ==
  [gets |-> CAdd(a.gets, b.gets), hits |-> CAdd(a.hits, b.hits), misses |-> CAdd(a.misses, b.misses),
   puts |-> CAdd(a.puts, b.puts), rems |-> CAdd(a.rems, b.rems), evis |-> CAdd(a.evis, b.evis),
   exps |-> CAdd(a.exps, b.exps), n |-> BnSatAdd(a.n, b.n, UMax), mem |-> BnSatAdd(a.mem, b.mem, UMax),
   max |-> BnMax(a.max, b.max)]
BookFields == Counters \cup {"n", "mem", "max"}
Books(x) == [f \in BookFields |-> x[f]]
\* the weighted average: r for inputs (avg a, count n), (avg b, count m)
WAvgOk(r, a, n, b, m, prev) ==
  IF n = Z /\ m = Z THEN r = prev
  ELSE LET S  == (IF n = Z THEN {} ELSE {a}) \cup (IF m = Z THEN {} ELSE {b})
           lo == CHOOSE x \in S : \A y \in S : BnLeq(x, y)
           hi == CHOOSE x \in S : \A y \in S : BnLeq(y, x)
           W  == BnAdd(BnMul(a, n), BnMul(b, m))
           N  == BnAdd(n, m)
       IN /\ BnLeq(lo, r) /\ BnLeq(r, hi)
          /\ BnLeq(W, QMax) => \E q \in {BnSubSat(r, BnOne), r, BnInc(r)} : BnIsQuot(q, W, N)
WSum(a, n, b, m) == BnAdd(BnMul(a, n), BnMul(b, m))
MergeOk(a, b, r) ==
  /\ Books(r) = MergeCounts(a, b)
  /\ WAvgOk(r.avg_get, a.avg_get, a.gets, b.avg_get, b.gets, a.avg_get)
  /\ WAvgOk(r.avg_put, a.avg_put, a.puts, b.avg_put, b.puts, a.avg_put)
  /\ r.created \in {a.created, BnMin(a.created, b.created)}
MergeBooksOk(a, b, r) ==
  /\ Books(r) = MergeCounts(a, b)
  /\ r.created \in {a.created, BnMin(a.created, b.created)}

\* ============================ PART O: OperationMetrics, MultiLayerStats ============================
O0 == [count |-> Z, total |-> Z, min |-> DMax, max |-> Z]
ORecord(o, d) == [count |-> CInc(o.count), total |-> BnSatAdd(o.total, d, DMax), min |-> BnMin(o.min, d), max |-> BnMax(o.max, d)]
OAvgOk(o, avg) == IF o.count = Z THEN avg = Z
                  ELSE \E q \in {BnSubSat(avg, BnOne), avg, BnInc(avg)} : BnIsQuot(q, o.total, o.count)
\* ops_per_second(w) = count / (w ns / 10^9)
OOpsOk(o, f, wns) == Ratio64Ok(f, BnMul(o.count, Bn1e9), wns, Z)

ZeroBooks == [f \in BookFields |-> Z]
RECURSIVE FoldBooks(_, _, _)
FoldBooks(ls, i, acc) == IF i > Len(ls) THEN acc ELSE FoldBooks(ls, i + 1, MergeCounts(acc, ls[i]))
\* the total's average: between the averages of the layers that counted something
AvgBetween(r, ls, avgf, cntf) ==
  LET S == {ls[i][avgf] : i \in {j \in 1..Len(ls) : ls[j][cntf] # Z}}
  IN IF S = {} THEN r = Z ELSE (\E x \in S : BnLeq(x, r)) /\ (\E x \in S : BnLeq(r, x))

\* ============================ PART S: StreamingMetrics, PoolMetrics ============================
C0 == [hits |-> Z, misses |-> Z, size |-> Z, evictions |-> Z]
S0 == [down |-> Z, up |-> Z, bw |-> Z, peak |-> Z, caches |-> <<>>]          \* caches: name -> C0-record
CacheOf(st, c) == IF c \in DOMAIN st.caches THEN st.caches[c] ELSE C0
SetCache(st, c, v) == [st EXCEPT !.caches = [x \in (DOMAIN st.caches) \cup {c} |-> IF x = c THEN v ELSE st.caches[x]]]
\* bytes per second of a download: floor(b * 10^9 / ns), clamped; q is the reported value
BwOk(q, b, ns) ==
  LET W == BnMul(b, Bn1e9) IN
  \/ \E x \in {BnSubSat(q, BnOne), q, BnInc(q)} : BnIsQuot(x, W, ns)
  \/ q = QMax /\ BnLeq(BnMul(QMax, ns), W)
\* the code's arithmetic (FX11b): whole seconds only
BwAsIs(q, b, secs) == BnIsQuot(q, b, secs)

SmR(st, e) ==     \* everything but the bandwidth, which is judged relationally
  CASE e.op = "dl"    -> [st EXCEPT !.down = CAdd(@, e.b)]
    [] e.op = "hit"   -> SetCache(st, e.c, [CacheOf(st, e.c) EXCEPT !.hits = CInc(@)])
    [] e.op = "miss"  -> SetCache(st, e.c, [CacheOf(st, e.c) EXCEPT !.misses = CInc(@)])
    [] e.op = "evict" -> SetCache(st, e.c, [CacheOf(st, e.c) EXCEPT !.evictions = CInc(@)])
    [] e.op = "size"  -> SetCache(st, e.c, [CacheOf(st, e.c) EXCEPT !.size = e.v])
    [] e.op = "up"    -> [st EXCEPT !.up = e.v]
    [] OTHER          -> st
HitRatioOk(f, c) == Ratio64Ok(f, c.hits, BnAdd(c.hits, c.misses), Bn1e9)
EffOk(f, st) == IF st.up = Z THEN f.k = "inf" ELSE Ratio64Ok(f, st.down, st.up, Z)

\* PoolMetrics: succ, fail, window = run-length encoded samples <<ns, count>>, oldest first
P0 == [succ |-> Z, fail |-> Z, win |-> <<>>]
RECURSIVE WinLen(_)
WinLen(w) == IF w = <<>> THEN 0 ELSE w[1][2] + WinLen(Tail(w))
RECURSIVE WinTrim(_, _)
WinTrim(w, excess) == IF excess <= 0 \/ w = <<>> THEN w
                      ELSE IF w[1][2] <= excess THEN WinTrim(Tail(w), excess - w[1][2])
                      ELSE <<<<w[1][1], w[1][2] - excess>>>> \o Tail(w)
WinPush(w, d, k) == LET w2 == Append(w, <<d, k>>) IN WinTrim(w2, WinLen(w2) - 1000)
RECURSIVE WinSum(_)
WinSum(w) == IF w = <<>> THEN Z ELSE BnAdd(BnMulSmall(w[1][1], w[1][2]), WinSum(Tail(w)))
WinCountLeq(w, x) == LET RECURSIVE C(_)
                         C(q) == IF q = <<>> THEN 0 ELSE (IF BnLeq(q[1][1], x) THEN q[1][2] ELSE 0) + C(Tail(q))
                     IN C(w)
AvgRtOk(w, r) ==      \* r: Option
  IF w = <<>> THEN r = <<>>
  ELSE Len(r) = 1 /\ \E q \in {BnSubSat(r[1], BnOne), r[1], BnInc(r[1])} : BnIsQuot(q, WinSum(w), BnOfNat(WinLen(w)))
WinCountLt(w, x) == LET RECURSIVE C(_)
                        C(q) == IF q = <<>> THEN 0 ELSE (IF BnLt(q[1][1], x) THEN q[1][2] ELSE 0) + C(Tail(q))
                    IN C(w)
\* a sample with at least 95 % of the samples <= it and at most 95 % (+ half a sample: rounding of the rank) below it
P95Ok(w, r) ==
  IF w = <<>> THEN r = <<>>
  ELSE /\ Len(r) = 1 /\ \E i \in 1..Len(w) : w[i][1] = r[1]
       /\ 100 * WinCountLeq(w, r[1]) >= 95 * WinLen(w)
       /\ 100 * WinCountLt(w, r[1]) <= 95 * WinLen(w) + 50
PoolTotal(p) == BnAdd(p.succ, p.fail)
PoolRateOk(f, p) == Ratio64Ok(f, p.succ, PoolTotal(p), Bn1e9)

\* ============================ PART E: PrometheusExporter ============================
\* sources: pool [succ, fail, act, ba, br], streaming (S0 record + rr, rc, fo, ra, mem); exported: name -> value
ExportedNames == {"pool_active_connections", "pool_successful_requests_total", "pool_failed_requests_total",
                  "pool_circuit_breakers", "bytes_downloaded_total", "bytes_uploaded_total", "range_requests_total",
                  "ranges_coalesced_total", "cdn_failovers_total", "retry_attempts_total",
                  "current_bandwidth_bytes_per_sec", "memory_usage_bytes", "cache_hits_total", "cache_misses_total",
                  "cache_size_bytes", "cache_evictions_total"}
X0 == [nm \in ExportedNames |-> Z]
PoolCounters   == {"pool_successful_requests_total", "pool_failed_requests_total"}
StreamCounters == {"bytes_downloaded_total", "bytes_uploaded_total", "range_requests_total", "ranges_coalesced_total",
                   "cdn_failovers_total", "retry_attempts_total", "cache_hits_total", "cache_misses_total", "cache_evictions_total"}
\* values of the sources, by exported name
PoolView(p) == [pool_active_connections |-> p.act, pool_successful_requests_total |-> p.succ,
                pool_failed_requests_total |-> p.fail, pool_circuit_breakers |-> BnSubSat(p.ba, p.br)]
RECURSIVE SumCaches(_, _, _)
SumCaches(cs, names, f) == IF names = {} THEN Z
                           ELSE LET c == CHOOSE x \in names : TRUE IN BnAdd(cs[c][f], SumCaches(cs, names \ {c}, f))
StreamView(st) == [bytes_downloaded_total |-> st.down, bytes_uploaded_total |-> st.up, range_requests_total |-> st.rr,
                   ranges_coalesced_total |-> st.rc, cdn_failovers_total |-> st.fo, retry_attempts_total |-> st.ra,
                   current_bandwidth_bytes_per_sec |-> st.bw, memory_usage_bytes |-> st.mem,
                   cache_hits_total |-> SumCaches(st.caches, DOMAIN st.caches, "hits"),
                   cache_misses_total |-> SumCaches(st.caches, DOMAIN st.caches, "misses"),
                   cache_size_bytes |-> SumCaches(st.caches, DOMAIN st.caches, "size"),
                   cache_evictions_total |-> SumCaches(st.caches, DOMAIN st.caches, "evictions")]
\* ST9: the exported values take the source's values
Update(x, view) == [nm \in ExportedNames |-> IF nm \in DOMAIN view THEN view[nm] ELSE x[nm]]
\* the code (FX11a): counters are incremented by the source's running total on every update
UpdateAsIs(x, view, counters) ==
  [nm \in ExportedNames |-> IF nm \notin DOMAIN view THEN x[nm]
                            ELSE IF nm \in counters THEN BnAdd(x[nm], view[nm]) ELSE view[nm]]

\* ============================ the state machine (MC_Stats, family "met") ============================
VARIABLES books, before
Init == books = M0 /\ before = M0
Do(e) == books' = MetR(books, e) /\ before' = books

\* design-level invariants (ST1, ST2) on the reference itself
InRange == /\ \A f \in Counters : BnLeq(books[f], QMax)
           /\ BnLeq(books.n, UMax) /\ BnLeq(books.mem, UMax) /\ BnLeq(books.max, UMax)
MaxDominates == BnLeq(books.mem, books.max)
HitsPlusMisses == BnLt(books.gets, QMax) => BnAdd(books.hits, books.misses) = books.gets
\* a put never lowers a gauge, a departure never raises it (stated on the last step)
StepMonotone(e) ==
  /\ e.op = "put" => BnLeq(before.n, books.n) /\ BnLeq(before.mem, books.mem)
  /\ e.op \in {"rem", "evi", "exp"} => BnLeq(books.n, before.n) /\ BnLeq(books.mem, before.mem)
=============================================================================
