------------------------------ MODULE Storage ------------------------------
(***************************************************************************)
(* Local CASC storage (cascette-client-storage: DynamicContainer,          *)
(* Installation, ArchiveManager), property C04:                            *)
(*                                                                         *)
(*   once a write has succeeded, reading the object by its encoding key    *)
(*   returns exactly the written bytes - immediately, after any further    *)
(*   writes of any sizes, after flush and after close + reopen - for       *)
(*   every content, including content that looks like a BLTE file or a     *)
(*   local entry header.                                                   *)
(*                                                                         *)
(* Two layers, one module (DESIGN.md 2.2):                                 *)
(*                                                                         *)
(*  A - the property-level specification.  State `a`: which objects must   *)
(*      be readable (`live`) and which the statement no longer talks about *)
(*      (`maybe`: removed, or a write of them failed).  AReadOk says what  *)
(*      a read may answer.  This is the judge of the trace monitor.        *)
(*                                                                         *)
(*  C - a code-shaped model of the archive / index / read path at the      *)
(*      granularity the property needs: file length, length of the memory  *)
(*      map snapshot, where the latest copy of each object ends, the       *)
(*      in-memory and the persisted index (plain sets - the index proper   *)
(*      is C05's), the installation's read cache.  The places where the    *)
(*      real code deviates from the design are switched by the constant    *)
(*      KnownDeviations:                                                   *)
(*        F04a  the map is refreshed only if the file grew by more than    *)
(*              Threshold or more than doubled (archive_file.rs)           *)
(*        F04b  Installation decodes a second time when the *content*      *)
(*              carries the BLTE magic at offset 0 or 30 (installation.rs) *)
(*        F04c  Installation::write_file never saves the index             *)
(*      With KnownDeviations = {} model C is the intended design and TLC   *)
(*      proves Durable (C refines A); with a deviation switched on TLC     *)
(*      refutes Durable - the counterexample is the finding's witness.     *)
(*      The monitor uses C only to decide whether a non-conforming read is *)
(*      *exactly* what a listed deviation predicts (CReadPred).            *)
(*                                                                         *)
(* Objects are named by their payload (content-addressed store: the same   *)
(* bytes are the same object).  A payload descriptor d is                  *)
(*   [len |-> n, blte0 |-> bytes 0..3 = "BLTE", blte30 |-> bytes 30..33 =  *)
(*    "BLTE"] - the only facts about the bytes the read path looks at.     *)
(***************************************************************************)
EXTENDS Naturals, FiniteSets, TLC

CONSTANTS KnownDeviations,  \* subset of {"F04a", "F04b", "F04c"}
          Threshold         \* remap threshold in bytes (64 MiB in the code)

Comps == {"dyn", "inst", "arch"}

(* ------------------------- A: property level --------------------------- *)
A0 == [live |-> {}, maybe |-> {}]

\* a successful write makes the object live; a failed one promises nothing new
AWrite(a, p, ok) ==
  IF ok THEN [live |-> a.live \cup {p}, maybe |-> a.maybe \ {p}]
  ELSE IF p \in a.live THEN a ELSE [a EXCEPT !.maybe = @ \cup {p}]

\* after a remove the statement is silent about p (whatever remove answered)
ARemove(a, p) ==
  IF p \in a.live THEN [live |-> a.live \ {p}, maybe |-> a.maybe \cup {p}] ELSE a

\* outcome classes of a read: "exact" (the written bytes), "other" (other
\* bytes), "err" (an error value), "panic"; q: "t" / "f" answer of the
\* existence query, "na" where the component has none.
AReadOk(a, p, out, q) ==
  CASE p \in a.live  -> out = "exact" /\ q \in {"t", "na"}
    [] p \in a.maybe -> out \in {"exact", "err"} /\ q \in {"t", "f", "na"}
    [] OTHER         -> out = "err" /\ q \in {"f", "na"}

(* ------------------------- C: code-shaped model ------------------------ *)
NoEnds == [x \in {} |-> 0]
C0 == [flen |-> 0, mlen |-> 0, endOf |-> NoEnds, idx |-> {}, disk |-> {}, cache |-> {}]

\* the read paths sniff the BLTE magic; content shorter than 34 bytes is passed through
Sniffed(d) == d.len >= 34 /\ (d.blte0 \/ d.blte30)

\* ArchiveManager::write_to_archive: m = size at the last (re)map, f = file size now
Remap(m, f) ==
  IF "F04a" \in KnownDeviations
  THEN (IF f - m > Threshold \/ f > 2 * m THEN f ELSE m)
  ELSE f

\* does a mutation of the index reach the disk?  DynamicContainer saves on
\* every write / remove; for "arch" the index is the caller's own map.
Persists(comp) == ~(comp = "inst" /\ "F04c" \in KnownDeviations)

\* append the object; `end` = file length afterwards
CWrite(c, comp, p, end) ==
  LET i2 == c.idx \cup {p} IN
  [c EXCEPT !.flen = end, !.mlen = Remap(c.mlen, end), !.endOf = (p :> end) @@ c.endOf,
            !.idx = i2, !.disk = IF Persists(comp) THEN i2 ELSE c.disk]

CRemove(c, comp, p) ==
  LET i2 == c.idx \ {p} IN
  [c EXCEPT !.idx = i2, !.disk = IF Persists(comp) THEN i2 ELSE c.disk]

CFlush(c, comp) == [c EXCEPT !.disk = IF Persists(comp) THEN c.idx ELSE c.disk]

\* close + open: the whole file is mapped, the index is what was saved,
\* a new Installation object has an empty cache
CReopen(c, flen) == [c EXCEPT !.flen = flen, !.mlen = flen, !.idx = c.disk, !.cache = {}]

\* a successful Installation read is served from its cache afterwards
CReadDone(c, comp, p, ok) ==
  IF comp = "inst" /\ ok THEN [c EXCEPT !.cache = @ \cup {p}] ELSE c

(* What the code-shaped model predicts for query + read of p:
   outs  - possible outcome classes,  q - answer of the query,
   errs  - error values a listed deviation produces ({} = any),
   why   - the deviation responsible when outs # {"exact"}, else "none". *)
CReadPred(c, comp, p, d) ==
  LET qq == IF comp = "arch" THEN "na" ELSE IF p \in c.idx THEN "t" ELSE "f" IN
  IF p \notin c.idx THEN
       [outs |-> {"err"}, q |-> qq, errs |-> {"err:NotFound"},
        why |-> IF ~Persists(comp) /\ p \in DOMAIN c.endOf THEN "F04c" ELSE "none"]
  ELSE IF comp = "inst" /\ p \in c.cache THEN
       IF "F04b" \in KnownDeviations /\ Sniffed(d)
       THEN [outs |-> {"other"}, q |-> qq, errs |-> {}, why |-> "F04b"]
       ELSE [outs |-> {"exact"}, q |-> qq, errs |-> {}, why |-> "none"]
  ELSE IF c.endOf[p] > c.mlen THEN     \* read_raw: offset + size > mmap.len()
       [outs |-> {"err"}, q |-> qq,
        errs |-> IF comp = "dyn" THEN {"err:TruncatedRead"} ELSE {"err:Archive"},
        why |-> IF "F04a" \in KnownDeviations THEN "F04a" ELSE "none"]
  ELSE IF comp = "inst" /\ "F04b" \in KnownDeviations /\ Sniffed(d) THEN
       \* decoded once more: the inner stream if there is one, else an error (or the parser's panic)
       [outs |-> {"other", "err", "panic"}, q |-> qq, errs |-> {}, why |-> "F04b"]
  ELSE [outs |-> {"exact"}, q |-> qq, errs |-> {}, why |-> "none"]

(* ------------------------- E: the 5-byte archive location -------------- *)
(* Where an object lies is what the index stores per key; it is written to   *)
(* the .idx files in 5 bytes: archive id (10 bits) and offset (30 bits),     *)
(* big-endian: byte 1 = id >> 2, bytes 2..5 = ((id & 3) << 30) | offset.     *)
(* A location that does not come back identical makes a read return the     *)
(* bytes of some other place (C04).  Executable definition, evaluated by the *)
(* monitor on recorded to_bytes / to_packed / save+load results (binding E). *)
(* TLC integers are 32-bit signed: the packed word itself is never formed.   *)
LocOk(id, off) == id \in 0..1023 /\ off \in 0..(1073741824 - 1)
PackLoc(id, off) ==
  << id \div 4, (id % 4) * 64 + off \div 16777216, (off \div 65536) % 256, (off \div 256) % 256, off % 256 >>
UnpackLoc(b) ==
  [id  |-> b[1] * 4 + b[2] \div 64,
   off |-> (b[2] % 64) * 16777216 + b[3] * 65536 + b[4] * 256 + b[5]]
\* the packing is lossless on every representable location (checked by TLC on the boundary grid)
LocGridIds  == {0, 1, 2, 3, 4, 255, 256, 1022, 1023}
LocGridOffs == {0, 1, 255, 256, 65535, 65536, 16777215, 16777216, 67108863, 67108864, 67108865,
                134217728, 268435456, 536870912, 536883257, 1073741823}
PackLossless == \A i \in LocGridIds, o \in LocGridOffs :
                  LocOk(i, o) /\ UnpackLoc(PackLoc(i, o)) = [id |-> i, off |-> o]

(* ------------------------- properties of the design -------------------- *)
\* every live object reads back exactly (C refines A); desc: name -> descriptor
Durable(a, c, comp, desc) ==
  \A p \in a.live :
     LET r == CReadPred(c, comp, p, desc[p]) IN r.outs = {"exact"} /\ r.q \in {"t", "na"}

\* nothing is invented: a key that was never written is not found
NoGhost(a, c, comp, names, desc) ==
  \A p \in names \ (a.live \cup a.maybe) : CReadPred(c, comp, p, desc[p]).outs = {"err"}

\* the intended design keeps the whole file mapped
MapCovers(c) == "F04a" \notin KnownDeviations => c.mlen = c.flen
=============================================================================
