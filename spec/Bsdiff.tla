------------------------------- MODULE Bsdiff -------------------------------
(***************************************************************************)
(* C16 - applying a generated binary patch to the old file yields the new  *)
(* file.                                                                   *)
(*                                                                         *)
(* Part 1  The ZBSDIFF1 format as an executable definition, written from   *)
(*         the format description (bsdiff 4.x by C. Percival with zlib     *)
(*         instead of bzip2), NOT from the Rust code:                      *)
(*           header  = "ZBSDIFF1" | ctrl_len | diff_len | new_size         *)
(*                     (4 x 8 bytes, integers little-endian)               *)
(*           blocks  = zlib(control) | zlib(diff) | zlib(extra)            *)
(*           control = triples (x, y, z) of 8-byte sign-magnitude integers *)
(*                     (bit 63 = sign, little-endian magnitude - offtin)   *)
(*         bspatch:  oldpos = newpos = 0;                                  *)
(*           while newpos < new_size: read (x, y, z);                      *)
(*             new[newpos+i] = diff[..] + old[oldpos+i]   for i < x        *)
(*                 (mod 256; old[p] counts as 0 for p < 0 or p >= |old|)   *)
(*             newpos += x; oldpos += x;                                   *)
(*             new[newpos+i] = extra[..]                  for i < y        *)
(*             newpos += y; oldpos += z          (z is a RELATIVE seek)    *)
(*           corrupt (no result) when a block runs out of data, a count is *)
(*           negative, or newpos would pass new_size.                      *)
(*         Apply(old, P) is that function; ApplyLen is its abstraction to  *)
(*         lengths (used where only digests of long files are recorded).   *)
(*                                                                         *)
(* Part 2  The patcher as a state machine (PInit / PStep, one step per     *)
(*         phase of a control entry) with its invariants PInv: newpos =    *)
(*         |out| <= new_size, cursors inside their blocks, and the final   *)
(*         state equals Apply (checked by TLC in MC_Bsdiff).               *)
(*                                                                         *)
(* Part 3  Code-shaped models of the two simple builders of builder.rs     *)
(*         (SimpleB, ChunkedB).  They are used to generate scenarios and   *)
(*         to explain counterexamples, never as the judge: with            *)
(*         absSeek = TRUE ChunkedB writes the builder's absolute old       *)
(*         position into the seek field as the code does (F16a) and TLC    *)
(*         refutes Apply(old, ChunkedB(old, new)) = new.                   *)
(***************************************************************************)
EXTENDS Integers, Sequences, SequencesExt

\* Loops are written as FoldLeft(step, initial state, sequence) (SequencesExt; TLC runs it as a Java loop): a
\* RECURSIVE operator costs TLC time quadratic in the recursion depth, which matters for control blocks of
\* thousands of entries.  FoldLeft(op, b, <<e1, .., en>>) = op(.. op(op(b, e1), e2) .., en).
Upto(n) == [i \in 1..n |-> i]

\* ---- results -------------------------------------------------------------
Fail      == [ok |-> FALSE, out |-> <<>>]
Good(out) == [ok |-> TRUE, out |-> out]

\* ---- decoding (part 1) ----------------------------------------------------
Sub(b, from, n) == SubSeq(b, from, from + n - 1)                \* n elements of b starting at 1-based index `from`

\* TLC integers are 32 bit.  Everything judged byte by byte is shorter than W = 2^24 bytes, so sizes are small
\* integers; a seek, however, may be any 63-bit magnitude (a two's-complement -2 read as sign-magnitude is
\* 2^63 - 2), and oldpos is therefore kept exactly, as a three-limb integer (see "64-bit positions").
W == 16777216
Small8(b, at)  == b[at + 3] = 0 /\ b[at + 4] = 0 /\ b[at + 5] = 0 /\ b[at + 6] = 0 /\ (b[at + 7] % 128) = 0
Mag8(b, at)    == b[at] + 256 * b[at + 1] + 65536 * b[at + 2]
Offtin(b, at)  == IF b[at + 7] >= 128 THEN 0 - Mag8(b, at) ELSE Mag8(b, at)     \* sign-magnitude, little-endian
LE8(b, at)     == Mag8(b, at)                                                    \* plain little-endian, non-negative
LE8ok(b, at)   == Small8(b, at) /\ b[at + 7] < 128

Signature == <<90, 66, 83, 68, 73, 70, 70, 49>>                                  \* "ZBSDIFF1"

HeaderOK(h) == Len(h) = 32 /\ Sub(h, 1, 8) = Signature /\ LE8ok(h, 9) /\ LE8ok(h, 17) /\ LE8ok(h, 25)
HeaderOf(h) == [ctrl |-> LE8(h, 9), diff |-> LE8(h, 17), size |-> LE8(h, 25)]

CtrlShapeOK(cb) == Len(cb) % 24 = 0
CtrlSmall(cb)   == \A k \in 0..((Len(cb) \div 8) - 1) : Small8(cb, 8 * k + 1)
CtrlOf(cb)      == [k \in 1..(Len(cb) \div 24) |->
                      <<Offtin(cb, 24 * (k - 1) + 1), Offtin(cb, 24 * (k - 1) + 9), Offtin(cb, 24 * (k - 1) + 17)>>]

CMin(a, b) == IF a < b THEN a ELSE b

\* ---- 64-bit positions ------------------------------------------------------
\* <<a, b, c>> stands for a * 2^48 + b * 2^24 + c with 0 <= b, c < 2^24; the sign lives in a.
\* (\div rounds towards minus infinity and % is never negative, so Norm also normalises negative limbs.)
Norm(a, b, c) == LET b0 == b + (c \div W) IN <<a + (b0 \div W), b0 % W, c % W>>
BigOf(v)      == Norm(0, 0, v)
BigAdd(p, q)  == Norm(p[1] + q[1], p[2] + q[2], p[3] + q[3])
BigNeg(p)     == Norm(0 - p[1], 0 - p[2], 0 - p[3])
\* the 8-byte sign-magnitude field at `at`, exactly
Offtin64(b, at) ==
  LET m == <<b[at + 6] + 256 * (b[at + 7] % 128), b[at + 3] + 256 * b[at + 4] + 65536 * b[at + 5], Mag8(b, at)>>
  IN IF b[at + 7] >= 128 THEN BigNeg(m) ELSE m
\* A position as a small integer for reading a block of fewer than 2^24 bytes from an old file of fewer than 2^24
\* bytes: exact in [-2^24, 2^24); any position outside that interval makes every such read fall outside the old
\* file, and so does the stand-in 2^25.
Near(p) == IF p[1] = 0 /\ p[2] = 0 THEN p[3] ELSE IF p[1] = 0 - 1 /\ p[2] = W - 1 THEN p[3] - W ELSE 2 * W
\* A size field as a small integer: exact below 2^24; a larger one exceeds every block judged here (stand-in 2^30),
\* a negative one is corrupt whatever its magnitude (stand-in -1).
Size8(b, at) == IF Small8(b, at) THEN Offtin(b, at) ELSE IF b[at + 7] >= 128 THEN 0 - 1 ELSE 1073741824
\* control triples <<x, y, zBig>> from raw bytes - total: every 24-byte triple has a meaning
CtrlBigOf(cb) == [k \in 1..(Len(cb) \div 24) |->
                    <<Size8(cb, 24 * (k - 1) + 1), Size8(cb, 24 * (k - 1) + 9), Offtin64(cb, 24 * (k - 1) + 17)>>]
Lift(ctrl)    == [k \in 1..Len(ctrl) |-> <<ctrl[k][1], ctrl[k][2], BigOf(ctrl[k][3])>>]      \* small z -> big z

\* ---- bspatch (part 1) -----------------------------------------------------
\* A patch P = [ctrl |-> sequence of <<x, y, z>>, diff |-> bytes, extra |-> bytes, size |-> new_size]
OldAt(old, p) == IF p >= 0 /\ p < Len(old) THEN old[p + 1] ELSE 0               \* p is 0-based and signed
AddDiff(old, op, diff, dp, x) == [i \in 1..x |-> (OldAt(old, op + i - 1) + diff[dp + i]) % 256]

\* running state: st in {"run", "ok", "err"}, out, op = oldpos (big), dp / ep = bytes consumed from diff / extra
Start(P) == [st |-> IF P.size = 0 THEN "ok" ELSE "run", out |-> <<>>, op |-> BigOf(0), dp |-> 0, ep |-> 0]

Entry(old, P, s, c) ==                                       \* c = <<x, y, zBig>>
  LET x == c[1]
      y == c[2]
  IN IF s.st # "run" THEN s                                  \* new_size reached: further triples are never read
     ELSE IF x < 0 \/ y < 0 \/ x > P.size - Len(s.out) \/ x > Len(P.diff) - s.dp THEN [s EXCEPT !.st = "err"]
     ELSE LET o1 == s.out \o AddDiff(old, Near(s.op), P.diff, s.dp, x) IN
          IF y > P.size - Len(o1) \/ y > Len(P.extra) - s.ep THEN [s EXCEPT !.st = "err"]
          ELSE LET o2 == o1 \o Sub(P.extra, s.ep + 1, y) IN
               [st |-> IF Len(o2) = P.size THEN "ok" ELSE "run",
                out |-> o2, op |-> BigAdd(Norm(s.op[1], s.op[2], s.op[3] + x), c[3]), dp |-> s.dp + x, ep |-> s.ep + y]

ApplyBig(old, P) ==                                          \* P.ctrl = triples <<x, y, zBig>>
  LET s == FoldLeft(LAMBDA st, c : Entry(old, P, st, c), Start(P), P.ctrl)
  IN IF s.st = "ok" THEN Good(s.out) ELSE Fail       \* "run" = the control block ended before new_size bytes were made
Apply(old, P) == ApplyBig(old, [P EXCEPT !.ctrl = Lift(@)])  \* P.ctrl = triples <<x, y, z>> of small integers

\* The same function on lengths only: does bspatch succeed, given the block lengths?
LenEntry(dlen, elen, size, s, c) ==                  \* s = [st, np, dp, ep]: Entry without the bytes
  IF s.st # "run" THEN s
  ELSE IF c[1] < 0 \/ c[2] < 0 \/ c[1] > size - s.np \/ c[2] > size - s.np - c[1] \/ c[1] > dlen - s.dp \/ c[2] > elen - s.ep
       THEN [s EXCEPT !.st = "err"]
  ELSE [st |-> IF s.np + c[1] + c[2] = size THEN "ok" ELSE "run", np |-> s.np + c[1] + c[2],
        dp |-> s.dp + c[1], ep |-> s.ep + c[2]]
ApplyLen(ctrl, dlen, elen, size) ==
  FoldLeft(LAMBDA s, c : LenEntry(dlen, elen, size, s, c),
           [st |-> IF size = 0 THEN "ok" ELSE "run", np |-> 0, dp |-> 0, ep |-> 0], ctrl).st = "ok"

\* ---- the patcher as a state machine (part 2) ------------------------------
\* pc: "diff" -> "extra" -> "seek" -> next entry ... -> "done"; status "run" | "ok" | "err"
PInit(P) == [pc |-> IF P.size = 0 THEN "done" ELSE "diff", st |-> IF P.size = 0 THEN "ok" ELSE "run",
             k |-> 1, out |-> <<>>, op |-> 0, dp |-> 0, ep |-> 0]

PStep(m, old, P) ==
  IF m.pc = "done" THEN m
  ELSE IF m.k > Len(P.ctrl) THEN [m EXCEPT !.pc = "done", !.st = "err"]          \* control block exhausted
  ELSE LET c == P.ctrl[m.k] IN
       CASE m.pc = "diff" ->
              IF c[1] < 0 \/ c[2] < 0 \/ Len(m.out) + c[1] > P.size \/ m.dp + c[1] > Len(P.diff)
              THEN [m EXCEPT !.pc = "done", !.st = "err"]
              ELSE [m EXCEPT !.pc = "extra", !.out = @ \o AddDiff(old, m.op, P.diff, m.dp, c[1]),
                             !.op = @ + c[1], !.dp = @ + c[1]]
         [] m.pc = "extra" ->
              IF Len(m.out) + c[2] > P.size \/ m.ep + c[2] > Len(P.extra)
              THEN [m EXCEPT !.pc = "done", !.st = "err"]
              ELSE [m EXCEPT !.pc = "seek", !.out = @ \o Sub(P.extra, m.ep + 1, c[2]), !.ep = @ + c[2]]
         [] m.pc = "seek" ->
              IF Len(m.out) = P.size THEN [m EXCEPT !.pc = "done", !.st = "ok", !.op = @ + c[3], !.k = @ + 1]
              ELSE [m EXCEPT !.pc = "diff", !.op = @ + c[3], !.k = @ + 1]

PInv(m, P) ==
  /\ Len(m.out) <= P.size                                   \* newpos never passes the size stated in the header
  /\ m.dp <= Len(P.diff) /\ m.ep <= Len(P.extra)            \* cursors stay inside their blocks
  /\ m.k <= Len(P.ctrl) + 1
  /\ \A i \in 1..Len(m.out) : m.out[i] \in 0..255
  /\ (m.st = "ok") => (m.pc = "done" /\ Len(m.out) = P.size)
  /\ (m.pc = "done") => m.st \in {"ok", "err"}

PResult(m) == IF m.st = "ok" THEN Good(m.out) ELSE Fail

\* ---- code-shaped builders (part 3) ----------------------------------------
Patch(ctrl, diff, extra, size) == [ctrl |-> ctrl, diff |-> diff, extra |-> extra, size |-> size]

\* build_simple_patch: one entry, everything is extra data
SimpleB(new) == Patch(<<<<0, Len(new), 0>>>>, <<>>, new, Len(new))

MatchLen(old, new, op, np, max) ==        \* find_matching_chunk: equal bytes from (op, np), at most max
  LET firstDiff == SelectInSeq(Upto(max), LAMBDA i : old[op + i] # new[np + i])      \* 0 = none
  IN IF firstDiff = 0 THEN max ELSE firstDiff - 1

\* build_chunked_patch: forward-only matching.  maxBlock = max_diff_block_size, minMatch = 4 and extraChunk = 256
\* in the code.  absSeek = TRUE: the code as it is (extra entries carry the absolute old position as their seek).
ChunkedIter(old, new, cfg, s) ==          \* one iteration of the builder's `while new_pos < new.len()`
  IF s.np >= Len(new) THEN s
  ELSE LET lim == CMin(cfg.maxBlock, CMin(IF Len(old) > s.op THEN Len(old) - s.op ELSE 0, Len(new) - s.np))
           n   == MatchLen(old, new, s.op, s.np, lim)
       IN IF n >= cfg.minMatch
          THEN [s EXCEPT !.op = @ + n, !.np = @ + n, !.ctrl = Append(@, <<n, 0, 0>>),
                         !.diff = @ \o [i \in 1..n |-> (new[s.np + i] - old[s.op + i] + 256) % 256]]
          ELSE LET e == CMin(Len(new) - s.np, cfg.extraChunk) IN
               [s EXCEPT !.np = @ + e, !.ctrl = Append(@, <<0, e, IF cfg.absSeek THEN s.op ELSE 0>>),
                         !.extra = @ \o Sub(new, s.np + 1, e)]
ChunkedB(old, new, cfg) ==                \* every iteration consumes at least one byte of new: <= |new| iterations
  LET s == FoldLeft(LAMBDA st, i : ChunkedIter(old, new, cfg, st),
                    [op |-> 0, np |-> 0, ctrl |-> <<>>, diff |-> <<>>, extra |-> <<>>], Upto(Len(new)))
  IN Patch(s.ctrl, s.diff, s.extra, Len(new))
\* every builder refuses (returns Err) when it has no control entry to write: ControlBlock::with_entries
Refuses(P) == P.ctrl = <<>>

\* The shape F16a leaves in a control block: diff entries seek 0, extra entries "seek" to the number of old bytes
\* consumed so far (= the sum of the diff sizes before them)
AbsShapeEntry(s, c) ==                    \* s = [ok, consumed]
  [ok |-> s.ok /\ (\/ c[1] > 0 /\ c[2] = 0 /\ c[3] = 0
                   \/ c[1] = 0 /\ c[2] > 0 /\ c[3] = s.consumed),
   consumed |-> s.consumed + c[1]]
AbsSeekShape(ctrl) ==
  /\ \A k \in 1..Len(ctrl) : ctrl[k][1] >= 0 /\ ctrl[k][1] < 16777216
  /\ FoldLeft(AbsShapeEntry, [ok |-> TRUE, consumed |-> 0], ctrl).ok
  /\ \E k \in 1..Len(ctrl) : ctrl[k][3] # 0
ZeroSeeks(ctrl) == [k \in 1..Len(ctrl) |-> <<ctrl[k][1], ctrl[k][2], 0>>]
=============================================================================
