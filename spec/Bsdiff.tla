------------------------------- MODULE Bsdiff -------------------------------
(***************************************************************************)
(* C16 - applying a generated binary patch to the old file yields the new  *)
(* file.                                                                   *)
(*                                                                         *)
(* Part 1  The ZBSDIFF1 format as an executable definition, written from   *)
(*         the format description (bsdiff 4.x by C. Percival with zlib     *)
(*         instead of bzip2), NOT from the Rust code:                      *)
(*           header  = "ZBSDIFF1" | ctrl_len | diff_len | new_size         *)
(*                     (4 x 8 bytes, integers little-endian)               *)
(*           blocks  = zlib(control) | zlib(diff) | zlib(extra)            *)
(*           control = triples (x, y, z) of 8-byte sign-magnitude integers *)
(*                     (bit 63 = sign, little-endian magnitude - offtin)   *)
(*         bspatch:  oldpos = newpos = 0;                                  *)
(*           while newpos < new_size: read (x, y, z);                      *)
(*             new[newpos+i] = diff[..] + old[oldpos+i]   for i < x        *)
(*                 (mod 256; old[p] counts as 0 for p < 0 or p >= |old|)   *)
(*             newpos += x; oldpos += x;                                   *)
(*             new[newpos+i] = extra[..]                  for i < y        *)
(*             newpos += y; oldpos += z          (z is a RELATIVE seek)    *)
(*           corrupt (no result) when a block runs out of data, a count is *)
(*           negative, or newpos would pass new_size.                      *)
(*         Apply(old, P) is that function; ApplyLen is its abstraction to  *)
(*         lengths (used where only digests of long files are recorded).   *)
(*                                                                         *)
(* Part 2  The patcher as a state machine (PInit / PStep, one step per     *)
(*         phase of a control entry) with its invariants PInv: newpos =    *)
(*         |out| <= new_size, cursors inside their blocks, and the final   *)
(*         state equals Apply (checked by TLC in MC_Bsdiff).               *)
(*                                                                         *)
(* Part 3  Code-shaped models of the two simple builders of builder.rs     *)
(*         (SimpleB, ChunkedB).  They are used to generate scenarios and   *)
(*         to explain counterexamples, never as the judge: with            *)
(*         absSeek = TRUE ChunkedB writes the builder's absolute old       *)
(*         position into the seek field as the code does (F16a) and TLC    *)
(*         refutes Apply(old, ChunkedB(old, new)) = new.                   *)
(***************************************************************************)
EXTENDS Integers, Sequences, TLC

\* Now(v) = v.  TLC passes operator arguments unevaluated; in a recursive operator that leaves a chain of pending
\* arguments which is re-evaluated at every level (quadratic).  TLCEval makes TLC evaluate the argument once.
Now(v) == TLCEval(v)

\* ---- results -------------------------------------------------------------
Fail      == [ok |-> FALSE, out |-> <<>>]
Good(out) == [ok |-> TRUE, out |-> out]

\* ---- decoding (part 1) ----------------------------------------------------
Sub(b, from, n) == [i \in 1..n |-> b[from + i - 1]]           \* n elements of b starting at 1-based index `from`

\* TLC integers are 32 bit: an 8-byte field is decoded only when its magnitude is below 2^24 (files judged byte by
\* byte are far shorter); anything else is reported as outside the modelled range, never guessed.
Small8(b, at)  == b[at + 3] = 0 /\ b[at + 4] = 0 /\ b[at + 5] = 0 /\ b[at + 6] = 0 /\ (b[at + 7] % 128) = 0
Mag8(b, at)    == b[at] + 256 * b[at + 1] + 65536 * b[at + 2]
Offtin(b, at)  == IF b[at + 7] >= 128 THEN 0 - Mag8(b, at) ELSE Mag8(b, at)     \* sign-magnitude, little-endian
LE8(b, at)     == Mag8(b, at)                                                    \* plain little-endian, non-negative
LE8ok(b, at)   == Small8(b, at) /\ b[at + 7] < 128

Signature == <<90, 66, 83, 68, 73, 70, 70, 49>>                                  \* "ZBSDIFF1"

HeaderOK(h) == Len(h) = 32 /\ Sub(h, 1, 8) = Signature /\ LE8ok(h, 9) /\ LE8ok(h, 17) /\ LE8ok(h, 25)
HeaderOf(h) == [ctrl |-> LE8(h, 9), diff |-> LE8(h, 17), size |-> LE8(h, 25)]

CtrlShapeOK(cb) == Len(cb) % 24 = 0
CtrlSmall(cb)   == \A k \in 0..((Len(cb) \div 8) - 1) : Small8(cb, 8 * k + 1)
CtrlOf(cb)      == [k \in 1..(Len(cb) \div 24) |->
                      <<Offtin(cb, 24 * (k - 1) + 1), Offtin(cb, 24 * (k - 1) + 9), Offtin(cb, 24 * (k - 1) + 17)>>]

Abs(v) == IF v < 0 THEN 0 - v ELSE v
CMin(a, b) == IF a < b THEN a ELSE b
\* positions stay inside TLC's integers: every value below 2^24 and the total travel of oldpos below 2^29
RECURSIVE Travel(_, _, _)
Travel(ctrl, k, acc) ==
  IF k > Len(ctrl) \/ acc >= 536870912 THEN acc
  ELSE Travel(ctrl, Now(k + 1), Now(acc + Abs(ctrl[k][1]) + Abs(ctrl[k][3])))
Decidable(ctrl) ==
  /\ \A k \in 1..Len(ctrl) : Abs(ctrl[k][1]) < 16777216 /\ Abs(ctrl[k][2]) < 16777216 /\ Abs(ctrl[k][3]) < 16777216
  /\ Travel(ctrl, 1, 0) < 536870912

\* ---- bspatch (part 1) -----------------------------------------------------
\* A patch P = [ctrl |-> sequence of <<x, y, z>>, diff |-> bytes, extra |-> bytes, size |-> new_size]
OldAt(old, p) == IF p >= 0 /\ p < Len(old) THEN old[p + 1] ELSE 0               \* p is 0-based and signed
AddDiff(old, op, diff, dp, x) == [i \in 1..x |-> (OldAt(old, op + i - 1) + diff[dp + i]) % 256]

\* running state: st in {"run", "ok", "err"}, out, op = oldpos, dp / ep = bytes consumed from diff / extra
Start(P) == [st |-> IF P.size = 0 THEN "ok" ELSE "run", out |-> <<>>, op |-> 0, dp |-> 0, ep |-> 0]

Entry(old, P, s, c) ==
  LET x == c[1]
      y == c[2]
      z == c[3]
  IN IF s.st # "run" THEN s                                  \* new_size reached: further triples are never read
     ELSE IF x < 0 \/ y < 0 \/ Len(s.out) + x > P.size \/ s.dp + x > Len(P.diff) THEN [s EXCEPT !.st = "err"]
     ELSE LET o1 == s.out \o AddDiff(old, s.op, P.diff, s.dp, x) IN
          IF Len(o1) + y > P.size \/ s.ep + y > Len(P.extra) THEN [s EXCEPT !.st = "err"]
          ELSE LET o2 == o1 \o Sub(P.extra, s.ep + 1, y) IN
               [st |-> IF Len(o2) = P.size THEN "ok" ELSE "run",
                out |-> o2, op |-> s.op + x + z, dp |-> s.dp + x, ep |-> s.ep + y]

RECURSIVE RunFrom(_, _, _, _)
RunFrom(old, P, s, k) ==
  IF k > Len(P.ctrl) \/ s.st # "run" THEN s ELSE RunFrom(old, P, Now(Entry(old, P, s, P.ctrl[k])), Now(k + 1))

Apply(old, P) ==
  LET s == RunFrom(old, P, Start(P), 1)
  IN IF s.st = "ok" THEN Good(s.out) ELSE Fail       \* "run" = the control block ended before new_size bytes were made

\* The same function on lengths only: does bspatch succeed, given the block lengths?
RECURSIVE LenFrom(_, _, _, _, _, _, _)
LenFrom(ctrl, dlen, elen, size, k, np, used) ==      \* used = <<diff consumed, extra consumed>>
  IF np = size THEN TRUE
  ELSE IF k > Len(ctrl) THEN FALSE
  ELSE LET x == ctrl[k][1]
           y == ctrl[k][2]
       IN IF x < 0 \/ y < 0 \/ np + x + y > size \/ used[1] + x > dlen \/ used[2] + y > elen THEN FALSE
          ELSE LenFrom(ctrl, dlen, elen, size, Now(k + 1), Now(np + x + y), Now(<<used[1] + x, used[2] + y>>))
ApplyLen(ctrl, dlen, elen, size) == LenFrom(ctrl, dlen, elen, size, 1, 0, <<0, 0>>)

\* ---- the patcher as a state machine (part 2) ------------------------------
\* pc: "diff" -> "extra" -> "seek" -> next entry ... -> "done"; status "run" | "ok" | "err"
PInit(P) == [pc |-> IF P.size = 0 THEN "done" ELSE "diff", st |-> IF P.size = 0 THEN "ok" ELSE "run",
             k |-> 1, out |-> <<>>, op |-> 0, dp |-> 0, ep |-> 0]

PStep(m, old, P) ==
  IF m.pc = "done" THEN m
  ELSE IF m.k > Len(P.ctrl) THEN [m EXCEPT !.pc = "done", !.st = "err"]          \* control block exhausted
  ELSE LET c == P.ctrl[m.k] IN
       CASE m.pc = "diff" ->
              IF c[1] < 0 \/ c[2] < 0 \/ Len(m.out) + c[1] > P.size \/ m.dp + c[1] > Len(P.diff)
              THEN [m EXCEPT !.pc = "done", !.st = "err"]
              ELSE [m EXCEPT !.pc = "extra", !.out = @ \o AddDiff(old, m.op, P.diff, m.dp, c[1]),
                             !.op = @ + c[1], !.dp = @ + c[1]]
         [] m.pc = "extra" ->
              IF Len(m.out) + c[2] > P.size \/ m.ep + c[2] > Len(P.extra)
              THEN [m EXCEPT !.pc = "done", !.st = "err"]
              ELSE [m EXCEPT !.pc = "seek", !.out = @ \o Sub(P.extra, m.ep + 1, c[2]), !.ep = @ + c[2]]
         [] m.pc = "seek" ->
              IF Len(m.out) = P.size THEN [m EXCEPT !.pc = "done", !.st = "ok", !.op = @ + c[3], !.k = @ + 1]
              ELSE [m EXCEPT !.pc = "diff", !.op = @ + c[3], !.k = @ + 1]

PInv(m, P) ==
  /\ Len(m.out) <= P.size                                   \* newpos never passes the size stated in the header
  /\ m.dp <= Len(P.diff) /\ m.ep <= Len(P.extra)            \* cursors stay inside their blocks
  /\ m.k <= Len(P.ctrl) + 1
  /\ \A i \in 1..Len(m.out) : m.out[i] \in 0..255
  /\ (m.st = "ok") => (m.pc = "done" /\ Len(m.out) = P.size)
  /\ (m.pc = "done") => m.st \in {"ok", "err"}

PResult(m) == IF m.st = "ok" THEN Good(m.out) ELSE Fail

\* ---- code-shaped builders (part 3) ----------------------------------------
Patch(ctrl, diff, extra, size) == [ctrl |-> ctrl, diff |-> diff, extra |-> extra, size |-> size]

\* build_simple_patch: one entry, everything is extra data
SimpleB(new) == Patch(<<<<0, Len(new), 0>>>>, <<>>, new, Len(new))

RECURSIVE MatchLen(_, _, _, _, _)
MatchLen(old, new, op, np, max) ==        \* find_matching_chunk: equal bytes from (op, np), at most max
  IF max = 0 \/ old[op + 1] # new[np + 1] THEN 0 ELSE 1 + MatchLen(old, new, Now(op + 1), Now(np + 1), Now(max - 1))

\* build_chunked_patch: forward-only matching.  maxBlock = max_diff_block_size, minMatch = 4 and extraChunk = 256
\* in the code.  absSeek = TRUE: the code as it is (extra entries carry the absolute old position as their seek).
RECURSIVE ChunkedFrom(_, _, _, _, _, _, _, _)
ChunkedFrom(old, new, cfg, op, np, ctrl, diff, extra) ==
  IF np >= Len(new) THEN Patch(ctrl, diff, extra, Len(new))
  ELSE LET lim == CMin(cfg.maxBlock, CMin(IF Len(old) > op THEN Len(old) - op ELSE 0, Len(new) - np))
           n   == MatchLen(old, new, op, np, lim)
       IN IF n >= cfg.minMatch
          THEN ChunkedFrom(old, new, cfg, Now(op + n), Now(np + n), Now(Append(ctrl, <<n, 0, 0>>)),
                           Now(diff \o [i \in 1..n |-> (new[np + i] - old[op + i] + 256) % 256]), extra)
          ELSE LET e == CMin(Len(new) - np, cfg.extraChunk) IN
               ChunkedFrom(old, new, cfg, op, Now(np + e), Now(Append(ctrl, <<0, e, IF cfg.absSeek THEN op ELSE 0>>)),
                           diff, Now(extra \o Sub(new, np + 1, e)))
ChunkedB(old, new, cfg) == ChunkedFrom(old, new, cfg, 0, 0, <<>>, <<>>, <<>>)
\* every builder refuses (returns Err) when it has no control entry to write: ControlBlock::with_entries
Refuses(P) == P.ctrl = <<>>

\* The shape F16a leaves in a control block: diff entries seek 0, extra entries "seek" to the number of old bytes
\* consumed so far (= the sum of the diff sizes before them)
RECURSIVE AbsShapeFrom(_, _, _)
AbsShapeFrom(ctrl, k, consumed) ==
  IF k > Len(ctrl) THEN TRUE
  ELSE LET c == ctrl[k] IN
       /\ \/ c[1] > 0 /\ c[2] = 0 /\ c[3] = 0
          \/ c[1] = 0 /\ c[2] > 0 /\ c[3] = consumed
       /\ AbsShapeFrom(ctrl, Now(k + 1), Now(consumed + c[1]))
AbsSeekShape(ctrl) == AbsShapeFrom(ctrl, 1, 0) /\ \E k \in 1..Len(ctrl) : ctrl[k][3] # 0
ZeroSeeks(ctrl) == [k \in 1..Len(ctrl) |-> <<ctrl[k][1], ctrl[k][2], 0>>]
=============================================================================
