------------------------------- MODULE Bsdiff -------------------------------
(***************************************************************************)
(* C16 - applying a generated binary patch to the old file yields the new  *)
(* file.                                                                   *)
(*                                                                         *)
(* Part 1  The ZBSDIFF1 format as an executable definition, written from   *)
(*         the format description (bsdiff 4.x by C. Percival with zlib     *)
(*         instead of bzip2), NOT from the Rust code:                      *)
(*           header  = "ZBSDIFF1" | ctrl_len | diff_len | new_size         *)
(*                     (4 x 8 bytes, integers little-endian)               *)
(*           blocks  = zlib(control) | zlib(diff) | zlib(extra)            *)
(*           control = triples (x, y, z) of 8-byte sign-magnitude integers *)
(*                     (bit 63 = sign, little-endian magnitude - offtin)   *)
(*         bspatch:  oldpos = newpos = 0;                                  *)
(*           while newpos < new_size: read (x, y, z);                      *)
(*             new[newpos+i] = diff[..] + old[oldpos+i]   for i < x        *)
(*                 (mod 256; old[p] counts as 0 for p < 0 or p >= |old|)   *)
(*             newpos += x; oldpos += x;                                   *)
(*             new[newpos+i] = extra[..]                  for i < y        *)
(*             newpos += y; oldpos += z          (z is a RELATIVE seek)    *)
(*           corrupt (no result) when a block runs out of data, a count is *)
(*           negative, or newpos would pass new_size.                      *)
(*         Apply(old, P) is that function; ApplyLen is its abstraction to  *)
(*         lengths (used where only digests of long files are recorded).   *)
(*                                                                         *)
(* Part 2  The patcher as a state machine (PInit / PStep, one step per     *)
(*         phase of a control entry) with its invariants PInv: newpos =    *)
(*         |out| <= new_size, cursors inside their blocks, and the final   *)
(*         state equals Apply (checked by TLC in MC_Bsdiff).               *)
(*                                                                         *)
(* Part 3  Code-shaped models of the two simple builders of builder.rs     *)
(*         (SimpleB, ChunkedB).  They are used to generate scenarios and   *)
(*         to explain counterexamples, never as the judge: with            *)
(*         absSeek = TRUE ChunkedB writes the builder's absolute old       *)
(*         position into the seek field as the code does (F16a) and TLC    *)
(*         refutes Apply(old, ChunkedB(old, new)) = new.                   *)
(***************************************************************************)
EXTENDS Integers, Sequences, SequencesExt

\* Loops are written as FoldLeft(step, initial state, sequence) (SequencesExt; TLC runs it as a Java loop): a
\* RECURSIVE operator costs TLC time quadratic in the recursion depth, which matters for control blocks of
\* thousands of entries.  FoldLeft(op, b, <<e1, .., en>>) = op(.. op(op(b, e1), e2) .., en).
Upto(n) == [i \in 1..n |-> i]

\* ---- results -------------------------------------------------------------
Fail      == [ok |-> FALSE, out |-> <<>>]
Good(out) == [ok |-> TRUE, out |-> out]

\* ---- decoding (part 1) ----------------------------------------------------
Sub(b, from, n) == SubSeq(b, from, from + n - 1)                \* n elements of b starting at 1-based index `from`

\* TLC integers are 32 bit: an 8-byte field is decoded only when its magnitude is below 2^24 (files judged byte by
\* byte are far shorter); anything else is reported as outside the modelled range, never guessed.
Small8(b, at)  == b[at + 3] = 0 /\ b[at + 4] = 0 /\ b[at + 5] = 0 /\ b[at + 6] = 0 /\ (b[at + 7] % 128) = 0
Mag8(b, at)    == b[at] + 256 * b[at + 1] + 65536 * b[at + 2]
Offtin(b, at)  == IF b[at + 7] >= 128 THEN 0 - Mag8(b, at) ELSE Mag8(b, at)     \* sign-magnitude, little-endian
LE8(b, at)     == Mag8(b, at)                                                    \* plain little-endian, non-negative
LE8ok(b, at)   == Small8(b, at) /\ b[at + 7] < 128

Signature == <<90, 66, 83, 68, 73, 70, 70, 49>>                                  \* "ZBSDIFF1"

HeaderOK(h) == Len(h) = 32 /\ Sub(h, 1, 8) = Signature /\ LE8ok(h, 9) /\ LE8ok(h, 17) /\ LE8ok(h, 25)
HeaderOf(h) == [ctrl |-> LE8(h, 9), diff |-> LE8(h, 17), size |-> LE8(h, 25)]

CtrlShapeOK(cb) == Len(cb) % 24 = 0
CtrlSmall(cb)   == \A k \in 0..((Len(cb) \div 8) - 1) : Small8(cb, 8 * k + 1)
CtrlOf(cb)      == [k \in 1..(Len(cb) \div 24) |->
                      <<Offtin(cb, 24 * (k - 1) + 1), Offtin(cb, 24 * (k - 1) + 9), Offtin(cb, 24 * (k - 1) + 17)>>]

Abs(v) == IF v < 0 THEN 0 - v ELSE v
CMin(a, b) == IF a < b THEN a ELSE b
\* positions stay inside TLC's integers: every value below 2^24 and the total travel of oldpos below 2^29
Travel(ctrl) == FoldLeft(LAMBDA acc, c : IF acc >= 536870912 THEN acc ELSE acc + Abs(c[1]) + Abs(c[3]), 0, ctrl)
Decidable(ctrl) ==
  /\ \A k \in 1..Len(ctrl) : Abs(ctrl[k][1]) < 16777216 /\ Abs(ctrl[k][2]) < 16777216 /\ Abs(ctrl[k][3]) < 16777216
  /\ Travel(ctrl) < 536870912

\* ---- bspatch (part 1) -----------------------------------------------------
\* A patch P = [ctrl |-> sequence of <<x, y, z>>, diff |-> bytes, extra |-> bytes, size |-> new_size]
OldAt(old, p) == IF p >= 0 /\ p < Len(old) THEN old[p + 1] ELSE 0               \* p is 0-based and signed
AddDiff(old, op, diff, dp, x) == [i \in 1..x |-> (OldAt(old, op + i - 1) + diff[dp + i]) % 256]

\* running state: st in {"run", "ok", "err"}, out, op = oldpos, dp / ep = bytes consumed from diff / extra
Start(P) == [st |-> IF P.size = 0 THEN "ok" ELSE "run", out |-> <<>>, op |-> 0, dp |-> 0, ep |-> 0]

Entry(old, P, s, c) ==
  LET x == c[1]
      y == c[2]
      z == c[3]
  IN IF s.st # "run" THEN s                                  \* new_size reached: further triples are never read
     ELSE IF x < 0 \/ y < 0 \/ Len(s.out) + x > P.size \/ s.dp + x > Len(P.diff) THEN [s EXCEPT !.st = "err"]
     ELSE LET o1 == s.out \o AddDiff(old, s.op, P.diff, s.dp, x) IN
          IF Len(o1) + y > P.size \/ s.ep + y > Len(P.extra) THEN [s EXCEPT !.st = "err"]
          ELSE LET o2 == o1 \o Sub(P.extra, s.ep + 1, y) IN
               [st |-> IF Len(o2) = P.size THEN "ok" ELSE "run",
                out |-> o2, op |-> s.op + x + z, dp |-> s.dp + x, ep |-> s.ep + y]

Apply(old, P) ==
  LET s == FoldLeft(LAMBDA st, c : Entry(old, P, st, c), Start(P), P.ctrl)
  IN IF s.st = "ok" THEN Good(s.out) ELSE Fail       \* "run" = the control block ended before new_size bytes were made

\* The same function on lengths only: does bspatch succeed, given the block lengths?
LenEntry(dlen, elen, size, s, c) ==                  \* s = [st, np, dp, ep]: Entry without the bytes
  IF s.st # "run" THEN s
  ELSE IF c[1] < 0 \/ c[2] < 0 \/ s.np + c[1] + c[2] > size \/ s.dp + c[1] > dlen \/ s.ep + c[2] > elen
       THEN [s EXCEPT !.st = "err"]
  ELSE [st |-> IF s.np + c[1] + c[2] = size THEN "ok" ELSE "run", np |-> s.np + c[1] + c[2],
        dp |-> s.dp + c[1], ep |-> s.ep + c[2]]
ApplyLen(ctrl, dlen, elen, size) ==
  FoldLeft(LAMBDA s, c : LenEntry(dlen, elen, size, s, c),
           [st |-> IF size = 0 THEN "ok" ELSE "run", np |-> 0, dp |-> 0, ep |-> 0], ctrl).st = "ok"

\* ---- the patcher as a state machine (part 2) ------------------------------
\* pc: "diff" -> "extra" -> "seek" -> next entry ... -> "done"; status "run" | "ok" | "err"
PInit(P) == [pc |-> IF P.size = 0 THEN "done" ELSE "diff", st |-> IF P.size = 0 THEN "ok" ELSE "run",
             k |-> 1, out |-> <<>>, op |-> 0, dp |-> 0, ep |-> 0]

PStep(m, old, P) ==
  IF m.pc = "done" THEN m
  ELSE IF m.k > Len(P.ctrl) THEN [m EXCEPT !.pc = "done", !.st = "err"]          \* control block exhausted
  ELSE LET c == P.ctrl[m.k] IN
       CASE m.pc = "diff" ->
              IF c[1] < 0 \/ c[2] < 0 \/ Len(m.out) + c[1] > P.size \/ m.dp + c[1] > Len(P.diff)
              THEN [m EXCEPT !.pc = "done", !.st = "err"]
              ELSE [m EXCEPT !.pc = "extra", !.out = @ \o AddDiff(old, m.op, P.diff, m.dp, c[1]),
                             !.op = @ + c[1], !.dp = @ + c[1]]
         [] m.pc = "extra" ->
              IF Len(m.out) + c[2] > P.size \/ m.ep + c[2] > Len(P.extra)
              THEN [m EXCEPT !.pc = "done", !.st = "err"]
              ELSE [m EXCEPT !.pc = "seek", !.out = @ \o Sub(P.extra, m.ep + 1, c[2]), !.ep = @ + c[2]]
         [] m.pc = "seek" ->
              IF Len(m.out) = P.size THEN [m EXCEPT !.pc = "done", !.st = "ok", !.op = @ + c[3], !.k = @ + 1]
              ELSE [m EXCEPT !.pc = "diff", !.op = @ + c[3], !.k = @ + 1]

PInv(m, P) ==
  /\ Len(m.out) <= P.size                                   \* newpos never passes the size stated in the header
  /\ m.dp <= Len(P.diff) /\ m.ep <= Len(P.extra)            \* cursors stay inside their blocks
  /\ m.k <= Len(P.ctrl) + 1
  /\ \A i \in 1..Len(m.out) : m.out[i] \in 0..255
  /\ (m.st = "ok") => (m.pc = "done" /\ Len(m.out) = P.size)
  /\ (m.pc = "done") => m.st \in {"ok", "err"}

PResult(m) == IF m.st = "ok" THEN Good(m.out) ELSE Fail

\* ---- code-shaped builders (part 3) ----------------------------------------
Patch(ctrl, diff, extra, size) == [ctrl |-> ctrl, diff |-> diff, extra |-> extra, size |-> size]

\* build_simple_patch: one entry, everything is extra data
SimpleB(new) == Patch(<<<<0, Len(new), 0>>>>, <<>>, new, Len(new))

MatchLen(old, new, op, np, max) ==        \* find_matching_chunk: equal bytes from (op, np), at most max
  LET firstDiff == SelectInSeq(Upto(max), LAMBDA i : old[op + i] # new[np + i])      \* 0 = none
  IN IF firstDiff = 0 THEN max ELSE firstDiff - 1

\* build_chunked_patch: forward-only matching.  maxBlock = max_diff_block_size, minMatch = 4 and extraChunk = 256
\* in the code.  absSeek = TRUE: the code as it is (extra entries carry the absolute old position as their seek).
ChunkedIter(old, new, cfg, s) ==          \* one iteration of the builder's `while new_pos < new.len()`
  IF s.np >= Len(new) THEN s
  ELSE LET lim == CMin(cfg.maxBlock, CMin(IF Len(old) > s.op THEN Len(old) - s.op ELSE 0, Len(new) - s.np))
           n   == MatchLen(old, new, s.op, s.np, lim)
       IN IF n >= cfg.minMatch
          THEN [s EXCEPT !.op = @ + n, !.np = @ + n, !.ctrl = Append(@, <<n, 0, 0>>),
                         !.diff = @ \o [i \in 1..n |-> (new[s.np + i] - old[s.op + i] + 256) % 256]]
          ELSE LET e == CMin(Len(new) - s.np, cfg.extraChunk) IN
               [s EXCEPT !.np = @ + e, !.ctrl = Append(@, <<0, e, IF cfg.absSeek THEN s.op ELSE 0>>),
                         !.extra = @ \o Sub(new, s.np + 1, e)]
ChunkedB(old, new, cfg) ==                \* every iteration consumes at least one byte of new: <= |new| iterations
  LET s == FoldLeft(LAMBDA st, i : ChunkedIter(old, new, cfg, st),
                    [op |-> 0, np |-> 0, ctrl |-> <<>>, diff |-> <<>>, extra |-> <<>>], Upto(Len(new)))
  IN Patch(s.ctrl, s.diff, s.extra, Len(new))
\* every builder refuses (returns Err) when it has no control entry to write: ControlBlock::with_entries
Refuses(P) == P.ctrl = <<>>

\* The shape F16a leaves in a control block: diff entries seek 0, extra entries "seek" to the number of old bytes
\* consumed so far (= the sum of the diff sizes before them)
AbsShapeEntry(s, c) ==                    \* s = [ok, consumed]
  [ok |-> s.ok /\ (\/ c[1] > 0 /\ c[2] = 0 /\ c[3] = 0
                   \/ c[1] = 0 /\ c[2] > 0 /\ c[3] = s.consumed),
   consumed |-> s.consumed + c[1]]
AbsSeekShape(ctrl) ==
  /\ \A k \in 1..Len(ctrl) : ctrl[k][1] >= 0 /\ ctrl[k][1] < 16777216
  /\ FoldLeft(AbsShapeEntry, [ok |-> TRUE, consumed |-> 0], ctrl).ok
  /\ \E k \in 1..Len(ctrl) : ctrl[k][3] # 0
ZeroSeeks(ctrl) == [k \in 1..Len(ctrl) |-> <<ctrl[k][1], ctrl[k][2], 0>>]
=============================================================================
