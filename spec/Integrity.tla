------------------------------ MODULE Integrity ------------------------------
(***************************************************************************)
(* C07 - integrity checks reject every corruption of what they protect.    *)
(*                                                                         *)
(* 1. FORMATS.  For every checksummed artifact of cascette-rs the module   *)
(*    defines, from the bytes of the undamaged artifact, its *regions*:    *)
(*    records [lo, hi, clo, chi] meaning "the bytes [lo, hi) are covered   *)
(*    by the check value stored in the bytes [clo, chi)" (0-based, half    *)
(*    open).  The regions are an UNDER-approximation on purpose: only      *)
(*    bytes the format's checksum provably covers.  The check value        *)
(*    itself, its label ("Checksum: "), padding outside the hashed range   *)
(*    and fields no checksum covers are outside every region.  ProduceOK   *)
(*    states what the check value of an undamaged artifact is (MD5 /       *)
(*    lookup3 / XOR of exactly the region's bytes): the monitor evaluates  *)
(*    it on the bytes the real builders wrote, which validates the region  *)
(*    definitions against the code (binding E).                            *)
(*                                                                         *)
(* 2. JUDGEMENT RULE.  A fault is *judged* iff it changes a covered byte   *)
(*    and leaves the check value of that byte where the loader finds it:   *)
(*      Flip(pos,bit), Subst(pos,val): pos inside a region;                *)
(*      Truncate to m bytes: some region loses a byte (m < hi) and its     *)
(*        check value lies entirely before the cut (chi <= m);             *)
(*      Extend(n): only where the checksum covers the whole file (LRU).    *)
(*    A judged fault must make the load fail or report invalid.  Anything  *)
(*    else (faults on unprotected bytes, truncations that remove the       *)
(*    check value) is recorded for information and conforms whatever the   *)
(*    loader says.  Section 3 is an abstract artifact model on which TLC   *)
(*    checks that an *ideal* loader (recompute, compare) never breaks the  *)
(*    rule - i.e. the rule raises no alarm on a correct implementation.    *)
(*                                                                         *)
(* 4. VALIDATED CACHE.  State machine of the validating cache APIs         *)
(*    (ContentAddressedCache::put_validated / get_validated,               *)
(*    MultiLayerCacheImpl::put_with_validation / get_with_validation) with *)
(*    an environment that damages or deletes backing entries.              *)
(***************************************************************************)
EXTENDS Naturals, Integers, Sequences, FiniteSets, Md5, Lookup3

\* --------------------------------------------------------------------- bytes
IgB(b, p)        == b[p + 1]                       \* byte at 0-based offset p
IgSub(b, lo, hi) == SubSeq(b, lo + 1, hi)          \* bytes [lo, hi)
IgBE16(b, p)     == IgB(b, p) * 256 + IgB(b, p + 1)
\* below 2^31 for the artifacts produced here (counts and sizes are small)
IgBE32(b, p)     == ((IgB(b, p) * 256 + IgB(b, p + 1)) * 256 + IgB(b, p + 2)) * 256 + IgB(b, p + 3)
IgZeros(n)       == [i \in 1..n |-> 0]
IgTake(q, n)     == SubSeq(q, 1, n)
IgMax(S)         == CHOOSE x \in S : \A y \in S : y <= x
IgMin(S)         == CHOOSE x \in S : \A y \in S : x <= y
IgXorAll(q)      == LET RECURSIVE F(_, _)
                        F(i, acc) == IF i > Len(q) THEN acc ELSE F(i + 1, acc ^^ q[i])
                    IN F(1, 0)

Rg(lo, hi, clo, chi) == [lo |-> lo, hi |-> hi, clo |-> clo, chi |-> chi]

\* ------------------------------------------------------------------- formats
(* Encoding table (cascette-formats encoding/{header,file,index}.rs).  Header, 22 bytes, big endian:
   "EN" ver ckeyHashSize ekeyHashSize ckeyPageKB(2) ekeyPageKB(2) ckeyPages(4) ekeyPages(4) flags
   especBlockSize(4); then the espec block, the ckey page index (32 bytes per page: first key, MD5
   of the page), the ckey pages, the ekey page index, the ekey pages, an optional trailer.
   Covered: every byte of every page (padding included - the MD5 is taken over the whole page). *)
EncHdr(b) == [espec |-> IgBE32(b, 18), nc |-> IgBE32(b, 9), ne |-> IgBE32(b, 13),
              cps |-> IgBE16(b, 5) * 1024, eps |-> IgBE16(b, 7) * 1024]
EncLayout(b) ==
  LET h    == EncHdr(b)
      cidx == 22 + h.espec
      cpg  == cidx + 32 * h.nc
      eidx == cpg + h.nc * h.cps
      epg  == eidx + 32 * h.ne
  IN [h |-> h, cidx |-> cidx, cpg |-> cpg, eidx |-> eidx, epg |-> epg, end |-> epg + h.ne * h.eps]
EncRegions(b) ==
  LET y == EncLayout(b) h == y.h IN
  {Rg(y.cpg + i * h.cps, y.cpg + (i + 1) * h.cps, y.cidx + 32 * i + 16, y.cidx + 32 * i + 32) : i \in 0..(h.nc - 1)} \cup
  {Rg(y.epg + i * h.eps, y.epg + (i + 1) * h.eps, y.eidx + 32 * i + 16, y.eidx + 32 * i + 32) : i \in 0..(h.ne - 1)}
EncWellFormed(b) == Len(b) >= 22 /\ IgB(b, 0) = 69 /\ IgB(b, 1) = 78 /\ IgB(b, 9) < 128 /\ IgB(b, 13) < 128 /\ IgB(b, 18) < 128
                    /\ EncLayout(b).end <= Len(b) /\ EncHdr(b).nc + EncHdr(b).ne >= 1

(* CDN archive index (archive/index.rs).  Footer = last 20 + hashBytes bytes: tocHash(8) version
   reserved(2) pageSizeKB offsetBytes sizeBytes ekeyLength footerHashBytes elementCount(4, LE)
   footerHash(hashBytes).  footerHash = first 8 bytes of MD5(the 12 bytes version..elementCount,
   zero padded to 20).  Covered: those 12 bytes.  The TOC hash is documented as not checked. *)
AidxFooter(b)     == Len(b) - 28
AidxWellFormed(b) == Len(b) >= 28 /\ IgB(b, Len(b) - 13) = 8
AidxRegions(b)    == LET f == AidxFooter(b) IN {Rg(f + 8, f + 20, f + 20, f + 28)}
AidxHashBytesPos(b) == Len(b) - 13

(* LRU checkpoint file (lru/lru_file.rs): version(2) reserved(2) MD5(16) head(4) tail(4), then 20-byte
   entries.  MD5 of the whole file with the hash field zeroed: every other byte and the length. *)
LruRegions(b)    == {Rg(0, 4, 4, 20), Rg(20, Len(b), 4, 20)}
LruWellFormed(b) == Len(b) >= 28

(* Update-section entry (index/update.rs), 24 bytes: guard(4, LE) ekey(9) location(5) size(4) status
   pad.  guard = hashlittle(bytes 4..22, 0) | 0x80000000.  Byte 23 (padding) is outside. *)
UpdRegions == {Rg(4, 23, 0, 4)}
\* an update section: entries at 24 i of the first 512-byte page, up to the first zero guard
UpdSlotUsed(b, i) == \A j \in 0..i : IgSub(b, 24 * j, 24 * j + 4) # <<0, 0, 0, 0>>
UpdSecSlots(b)    == {i \in 0..20 : UpdSlotUsed(b, i)}
UpdSecRegions(b)  == {Rg(24 * i + 4, 24 * i + 23, 24 * i, 24 * i + 4) : i \in UpdSecSlots(b)}
\* the status byte is read through an enum: 3, 6, 7 are themselves, every other value reads as 0
UpdStatusClass(x) == IF x \in {3, 6, 7} THEN x ELSE 0

(* Local entry header (storage/local_header.rs), 30 bytes: key(16) size(4) flags(2) checksumA(4)
   checksumB(4).  A = hashlittle(bytes 0..21, 0x3D6BE971); B = XOR of bytes 0..25, byte i folded
   into lane (base + i) mod 4.  Covered by both: bytes 0..21 (A is itself a check value). *)
LhdrRegions == {Rg(0, 22, 22, 30)}

(* V1 Ribbit MIME response (protocol/mime_parser.rs, ribbit/tcp/v1.rs): message, then
   "Checksum: " + 64 hex digits of SHA-256(message) + CRLF.  The label searched for is the LAST one. *)
MimeLabel == <<67, 104, 101, 99, 107, 115, 117, 109, 58, 32>>
MimeCheckPos(b) ==
  LET S == {p \in 0..(Len(b) - 10) : IgSub(b, p, p + 10) = MimeLabel}
  IN IF S = {} THEN 0 - 1 ELSE IgMax(S)
MimeRegions(b)    == LET c == MimeCheckPos(b) IN IF c < 0 THEN {} ELSE {Rg(0, c, c + 10, c + 74)}
MimeWellFormed(b) == LET c == MimeCheckPos(b) IN c > 0 /\ c + 74 <= Len(b)

Kinds == {"enc", "aidx", "lru", "upd", "updsec", "lhdr", "mime"}
Regions(kind, b) ==
  CASE kind = "enc"    -> EncRegions(b)
    [] kind = "aidx"   -> AidxRegions(b)
    [] kind = "lru"    -> LruRegions(b)
    [] kind = "upd"    -> UpdRegions
    [] kind = "updsec" -> UpdSecRegions(b)
    [] kind = "lhdr"   -> LhdrRegions
    [] kind = "mime"   -> MimeRegions(b)
WellFormed(kind, b) ==
  CASE kind = "enc"    -> EncWellFormed(b)
    [] kind = "aidx"   -> AidxWellFormed(b)
    [] kind = "lru"    -> LruWellFormed(b)
    [] kind = "upd"    -> Len(b) = 24
    [] kind = "updsec" -> Len(b) >= 512 /\ UpdSecSlots(b) # {}
    [] kind = "lhdr"   -> Len(b) = 30
    [] kind = "mime"   -> MimeWellFormed(b)
\* the checksum covers the length of the whole artifact
CoversLength(kind) == kind = "lru"

\* ------------------------------------------------------- SHA-256 (FIPS 180-4)
(* Needed for one thing: the check value of a V1 MIME response is the lower-case hex SHA-256 of the bytes
   before the "Checksum: " label.  Words are W32 pairs <<hi16, lo16>>.  Constants: the first 32 bits of the
   fractional parts of the cube roots (K) / square roots (H0) of the first primes. *)
ShaK == <<
   <<17034, 12184>>, <<28983, 17553>>, <<46528, 64463>>, <<59829, 56229>>,
   <<14678, 49755>>, <<23025, 4593>>, <<37439, 33444>>, <<43804, 24277>>,
   <<55303, 43672>>, <<4739, 23297>>, <<9265, 34238>>, <<21772, 32195>>,
   <<29374, 23924>>, <<32990, 45566>>, <<39900, 1703>>, <<49563, 61812>>,
   <<58523, 27073>>, <<61374, 18310>>, <<4033, 40390>>, <<9228, 41420>>,
   <<11753, 11375>>, <<19060, 33962>>, <<23728, 43484>>, <<30457, 35034>>,
   <<38974, 20818>>, <<43057, 50797>>, <<45059, 10184>>, <<48985, 32711>>,
   <<50912, 3059>>, <<54695, 37191>>, <<1738, 25425>>, <<5161, 10599>>,
   <<10167, 2693>>, <<11803, 8504>>, <<19756, 28156>>, <<21304, 3347>>,
   <<25866, 29524>>, <<30314, 2747>>, <<33218, 51502>>, <<37490, 11397>>,
   <<41663, 59553>>, <<43034, 26187>>, <<49739, 35696>>, <<51052, 20899>>,
   <<53650, 59417>>, <<54937, 1572>>, <<62478, 13701>>, <<4202, 41072>>,
   <<6564, 49430>>, <<7735, 27656>>, <<10056, 30540>>, <<13488, 48309>>,
   <<14620, 3251>>, <<20184, 43594>>, <<23452, 51791>>, <<26670, 28659>>,
   <<29839, 33518>>, <<30885, 25455>>, <<33992, 30740>>, <<36039, 520>>,
   <<37054, 65530>>, <<42064, 27883>>, <<48889, 41975>>, <<50801, 30962>> >>
ShaH0 == <<
   <<27145, 58983>>, <<47975, 44677>>, <<15470, 62322>>, <<42319, 62778>>,
   <<20750, 21119>>, <<39685, 26764>>, <<8067, 55723>>, <<23520, 52505>> >>
WRotr(a, n) == WRotl(a, 32 - n)                          \* 0 < n < 32
WShr(a, n)  == IF n < 16 THEN <<a[1] \div (2 ^ n), ((a[1] % (2 ^ n)) * (2 ^ (16 - n))) + (a[2] \div (2 ^ n))>>
               ELSE <<0, a[1] \div (2 ^ (n - 16))>>
WX3(a, b, c) == WXor(WXor(a, b), c)
ShaCh(x, y, z)  == WXor(WAnd(x, y), WAnd(WNot(x), z))
ShaMaj(x, y, z) == WX3(WAnd(x, y), WAnd(x, z), WAnd(y, z))
ShaBS0(x) == WX3(WRotr(x, 2), WRotr(x, 13), WRotr(x, 22))
ShaBS1(x) == WX3(WRotr(x, 6), WRotr(x, 11), WRotr(x, 25))
ShaSS0(x) == WX3(WRotr(x, 7), WRotr(x, 18), WShr(x, 3))
ShaSS1(x) == WX3(WRotr(x, 17), WRotr(x, 19), WShr(x, 10))
WFromBE(b0, b1, b2, b3) == <<b0 * 256 + b1, b2 * 256 + b3>>
\* message schedule of the block at 0-based offset off of the padded message p
ShaSched(p, off) ==
  LET RECURSIVE F(_, _)
      F(t, w) == IF t > 64 THEN w
                 ELSE F(t + 1, Append(w, IF t <= 16 THEN WFromBE(p[off + 4 * t - 3], p[off + 4 * t - 2], p[off + 4 * t - 1], p[off + 4 * t])
                                         ELSE WAdd(WAdd(ShaSS1(w[t - 2]), w[t - 7]), WAdd(ShaSS0(w[t - 15]), w[t - 16]))))
  IN F(1, <<>>)
\* one round on s = <<a,b,c,d,e,f,g,h>>
ShaRound(s, k, w) ==
  LET t1 == WAdd(WAdd(WAdd(s[8], ShaBS1(s[5])), WAdd(ShaCh(s[5], s[6], s[7]), k)), w)
      t2 == WAdd(ShaBS0(s[1]), ShaMaj(s[1], s[2], s[3]))
  IN <<WAdd(t1, t2), s[1], s[2], s[3], WAdd(s[4], t1), s[5], s[6], s[7]>>
ShaBlock(h, p, off) ==
  LET w == ShaSched(p, off)
      RECURSIVE R(_, _)
      R(t, s) == IF t > 64 THEN s ELSE R(t + 1, ShaRound(s, ShaK[t], w[t]))
      s == R(1, h)
  IN [i \in 1..8 |-> WAdd(h[i], s[i])]
ShaPad(m) ==
  LET n == Len(m)
      zeros == (55 - n) % 64
  IN m \o <<128>> \o IgZeros(zeros) \o <<0, 0, 0, 0>> \o WToBE(WOfNat(8 * n))      \* n < 2^28
Sha256(m) ==
  LET p == ShaPad(m)
      RECURSIVE B(_, _)
      B(off, h) == IF off >= Len(p) THEN h ELSE B(off + 64, ShaBlock(h, p, off))
      h == B(0, ShaH0)
  IN WToBE(h[1]) \o WToBE(h[2]) \o WToBE(h[3]) \o WToBE(h[4]) \o WToBE(h[5]) \o WToBE(h[6]) \o WToBE(h[7]) \o WToBE(h[8])
HexDigit(x) == IF x < 10 THEN 48 + x ELSE 87 + x                \* lower case
HexOf(bs) == LET RECURSIVE F(_)
                 F(i) == IF i > Len(bs) THEN <<>> ELSE <<HexDigit(bs[i] \div 16), HexDigit(bs[i] % 16)>> \o F(i + 1)
             IN F(1)

\* ------------------------------------------------- what the check values are
Bit31 == <<32768, 0>>
UpdGuardOK(b, o)   == WFromLE(IgB(b, o), IgB(b, o + 1), IgB(b, o + 2), IgB(b, o + 3)) = WOr(HashLittle(IgSub(b, o + 4, o + 23), WZero), Bit31)
LhdrSeed           == <<15723, 59761>>       \* 0x3D6BE971
LhdrLane(b, base, j) == IgXorAll([i \in 1..26 |-> IF (base + i - 1) % 4 = j THEN b[i] ELSE 0])
ProduceOK(kind, b, x) ==
  CASE kind = "enc"    -> \A r \in EncRegions(b) : IgSub(b, r.clo, r.chi) = Md5Digest(IgSub(b, r.lo, r.hi))
    [] kind = "aidx"   -> LET f == AidxFooter(b) IN IgSub(b, f + 20, f + 28) = IgTake(Md5Digest(IgSub(b, f + 8, f + 20) \o IgZeros(8)), 8)
    [] kind = "lru"    -> IgSub(b, 4, 20) = Md5Digest(IgSub(b, 0, 4) \o IgZeros(16) \o IgSub(b, 20, Len(b)))
    [] kind = "upd"    -> UpdGuardOK(b, 0)
    [] kind = "updsec" -> \A i \in UpdSecSlots(b) : UpdGuardOK(b, 24 * i)
    [] kind = "lhdr"   -> /\ WFromLE(IgB(b, 22), IgB(b, 23), IgB(b, 24), IgB(b, 25)) = HashLittle(IgSub(b, 0, 22), LhdrSeed)
                          /\ \A j \in 0..3 : IgB(b, 26 + j) = LhdrLane(b, x.base, j)
    [] kind = "mime"   -> LET c == MimeCheckPos(b) IN IgSub(b, c + 10, c + 74) = HexOf(Sha256(IgSub(b, 0, c)))

\* ---------------------------------------------------------- judgement rule
InRegion(R, pos)    == \E r \in R : r.lo <= pos /\ pos < r.hi
InCheck(R, pos)     == \E r \in R : r.clo <= pos /\ pos < r.chi
PosClass(R, pos)    == IF InRegion(R, pos) THEN "prot" ELSE IF InCheck(R, pos) THEN "check" ELSE "free"
FlipJudged(R, pos)  == InRegion(R, pos)
TruncJudged(R, m)   == \E r \in R : m < r.hi /\ r.chi <= m
ExtendJudged(kind)  == CoversLength(kind)
\* verdict codes of a load: 0 failed, 1 reported invalid, 2 accepted (same logical content),
\* 3 accepted (logical content differs), 4 panic, 5 a single allocation of >= 2 GiB was requested (abort
\* on a machine that refuses it)
Rejected(code)      == code \in {0, 1}
Accepted(code)      == code \in {2, 3}
FaultOK(judged, code) == judged => Rejected(code)
\* positions a run visits (the driver does not know the regions)
Visited(p, len, stride, edge) == stride <= 1 \/ p < edge \/ p + edge >= len \/ p % stride = 0

\* --------------------------------------------- 3. abstract artifacts (design)
(* A sequence of cells [t, v]: a plain cell ("b") holds one bit, a label cell ("L") nothing, a check
   cell ("h") the ideal hash of the cells it covers - an injective, length-aware encoding of them.
   A loader sees cells, not roles.  Layouts (d = n covered plain cells, u = an uncovered plain cell):
     lead     <<C, d>>          check first, covers all that follows            (LRU file)
     leadfix  <<C, d, u>>       check first, n covered cells, then uncovered    (update entry, encoding page)
     trail    <<u, d, C>>       check last, found from the END                  (archive footer, local header)
     label    <<d, L, C>>       check after the last label; no label = unchecked (V1 MIME)            *)
AbsLayouts == {"lead", "leadfix", "trail", "label"}
PlainCell(bit) == [t |-> "b", v |-> <<bit>>]
LabelCell      == [t |-> "L", v |-> <<>>]
AbsTag(t)      == CASE t = "b" -> 2 [] t = "L" -> 3 [] t = "l" -> 4 [] t = "h" -> 5
AbsEnc(cs)     == LET RECURSIVE F(_)
                      F(i) == IF i > Len(cs) THEN <<>> ELSE <<AbsTag(cs[i].t), Len(cs[i].v)>> \o cs[i].v \o F(i + 1)
                  IN F(1)
AbsHash(cs)    == [t |-> "h", v |-> AbsEnc(cs)]
AbsData(bits)  == [i \in 1..Len(bits) |-> PlainCell(bits[i])]
AbsBuild(layout, bits, u) ==
  LET d == AbsData(bits) IN
  CASE layout = "lead"    -> <<AbsHash(d)>> \o d
    [] layout = "leadfix" -> <<AbsHash(d)>> \o d \o <<PlainCell(u)>>
    [] layout = "trail"   -> <<PlainCell(u)>> \o d \o <<AbsHash(d)>>
    [] layout = "label"   -> d \o <<LabelCell, AbsHash(d)>>
AbsRegions(layout, n) ==
  CASE layout = "lead"    -> {Rg(1, n + 1, 0, 1)}
    [] layout = "leadfix" -> {Rg(1, n + 1, 0, 1)}
    [] layout = "trail"   -> {Rg(1, n + 1, n + 1, n + 2)}
    [] layout = "label"   -> {Rg(0, n, n + 1, n + 2)}
AbsCoversLength(layout) == layout = "lead"
\* the ideal loader: locate the check value the way the format says, recompute, compare
AbsLoad(layout, n, a) ==
  CASE layout = "lead"    -> Len(a) >= 1 /\ a[1] = AbsHash(Tail(a))
    [] layout = "leadfix" -> Len(a) >= n + 1 /\ a[1] = AbsHash(SubSeq(a, 2, n + 1))
    [] layout = "trail"   -> Len(a) >= n + 1 /\ a[Len(a)] = AbsHash(SubSeq(a, Len(a) - n, Len(a) - 1))
    [] layout = "label"   -> LET S == {p \in 1..Len(a) : a[p].t = "L"} IN
                             IF S = {} \/ IgMax(S) = Len(a) THEN TRUE      \* no (complete) checksum line: accepted unchecked
                             ELSE a[IgMax(S) + 1] = AbsHash(SubSeq(a, 1, IgMax(S) - 1))
AbsFlipCell(c) == CASE c.t = "b" -> PlainCell(1 - c.v[1])
                    [] c.t = "L" -> [t |-> "l", v |-> <<>>]
                    [] c.t = "h" -> [c EXCEPT !.v = c.v \o <<8>>]
                    [] OTHER     -> c
AbsFlip(a, pos)       == [a EXCEPT ![pos + 1] = AbsFlipCell(a[pos + 1])]
AbsTrunc(a, m)        == SubSeq(a, 1, m)
AbsExtend(a, k, fill) == a \o (IF fill = "tail" THEN SubSeq(a, Len(a) - k + 1, Len(a)) ELSE [i \in 1..k |-> PlainCell(0)])

\* ------------------------------------------------------ 4. validated cache
(* Abstract content: [v |-> value name, d |-> "ok" or the damage done to it].  A content key is named
   by the value it is the MD5 of.  lay is a sequence of layers, each a function key -> content | NoC. *)
NoC == [none |-> 1]
OkC(v) == [v |-> v, d |-> "ok"]
IsNoC(c) == "none" \in DOMAIN c
ValidFor(c, ck) == ~IsNoC(c) /\ c.d = "ok" /\ c.v = ck
\* "swap": the bytes of the other valid value - valid for its own key, not for this one
DamageC(c, how, other) == IF how = "swap" THEN OkC(other) ELSE [c EXCEPT !.d = how]
FirstHolding(lay, k) == LET S == {i \in 1..Len(lay) : ~IsNoC(lay[i][k])} IN IF S = {} THEN 0 ELSE IgMin(S)

PutValR(lay, k, v, ck, validating) ==
  IF validating /\ v # ck THEN [st |-> lay, res |-> "err"]
  ELSE [st |-> [lay EXCEPT ![1][k] = OkC(v)], res |-> "ok"]
PutRawR(lay, k, v, l) == [st |-> [lay EXCEPT ![l][k] = OkC(v)], res |-> "ok"]
\* ideal validating read: the first layer that holds the key answers; a content that does not hash to
\* the requested key is an error and that entry is dropped
GetValR(lay, k, ck, validating) ==
  LET i == FirstHolding(lay, k) IN
  IF i = 0 THEN [st |-> lay, res |-> "none", c |-> NoC, at |-> 0]
  ELSE IF ~validating \/ ValidFor(lay[i][k], ck) THEN [st |-> lay, res |-> "some", c |-> lay[i][k], at |-> i]
  ELSE [st |-> [lay EXCEPT ![i][k] = NoC], res |-> "err", c |-> NoC, at |-> i]
\* non-validating read (may promote into the first layer)
GetR(lay, k, promote) ==
  LET i == FirstHolding(lay, k) IN
  IF i = 0 THEN [st |-> lay, res |-> "none"]
  ELSE [st |-> IF promote THEN [lay EXCEPT ![1][k] = lay[i][k]] ELSE lay, res |-> "some"]
\* environment: damages / deletes the key's entry in every layer of the given set that holds it
CorruptR(lay, k, how, other, Ls) ==
  [st |-> [l \in 1..Len(lay) |-> IF l \in Ls /\ ~IsNoC(lay[l][k]) THEN [lay[l] EXCEPT ![k] = DamageC(lay[l][k], how, other)] ELSE lay[l]], res |-> "ok"]
DeleteR(lay, k, Ls) ==
  [st |-> [l \in 1..Len(lay) |-> IF l \in Ls THEN [lay[l] EXCEPT ![k] = NoC] ELSE lay[l]], res |-> "ok"]

\* the properties, on booleans computed either from the abstract state (MC) or from recorded bytes (T)
SafeGetP(isSome, contentValid)            == isSome => contentValid
ValidatedFlagP(flag, contentValid)        == flag => contentValid
PutSafeP(ok, matches)                     == ok => matches
GoneAfterP(foundCorrupt, sameStillThere)  == foundCorrupt => ~sameStillThere
\* ------------------------------------- 5. the validating read, look by look
(* get_with_validation is not atomic: it asks the layers one after the other, fastest first, and other users of
   the cache run in between.  Reader rd = [pc, res, c]: pc = the next look - 1..NL the pass over the layers,
   NL+1..2NL-1 an optional second pass over the faster layers 1..NL-1 (the re-check that get / contains make after
   a full miss, for a key that a concurrent put is moving into the first layer), 0 = returned.  SecondLook is
   "none" (the code at HEAD), "validated" (a second pass that treats a hit like the first pass does) or
   "unvalidated" (returns what it finds unhashed).  ValidatedOnlyP must hold on EVERY interleaving of the looks
   with the operations of other users: whatever is returned as a hit was hashed to the requested key. *)
Rd0 == [pc |-> 1, res |-> "none", c |-> NoC]
RdDone(res, c) == [pc |-> 0, res |-> res, c |-> c]
LookR(lay, rd, k, ck, validating, secondLook) ==
  LET nl     == Len(lay)
      second == rd.pc > nl
      i      == IF second THEN rd.pc - nl ELSE rd.pc
      c      == lay[i][k]
      checks == validating /\ (~second \/ secondLook = "validated")
      next   == IF ~second THEN (IF rd.pc < nl THEN rd.pc + 1 ELSE IF secondLook = "none" \/ nl = 1 THEN 0 ELSE nl + 1)
                ELSE (IF rd.pc < 2 * nl - 1 THEN rd.pc + 1 ELSE 0)
  IN IF IsNoC(c) THEN [st |-> lay, rd |-> IF next = 0 THEN RdDone("none", NoC) ELSE [rd EXCEPT !.pc = next]]
     ELSE IF checks /\ ~ValidFor(c, ck) THEN [st |-> [l \in 1..nl |-> [lay[l] EXCEPT ![k] = NoC]], rd |-> RdDone("err", NoC)]
     ELSE [st |-> lay, rd |-> RdDone("some", c)]
\* another user of the cache, atomic: a plain put (into the first layer, out of the slower ones), a put into one
\* layer, a remove
PlainPutR(lay, k, v) == [l \in 1..Len(lay) |-> [lay[l] EXCEPT ![k] = IF l = 1 THEN OkC(v) ELSE NoC]]
RemoveAllR(lay, k)   == [l \in 1..Len(lay) |-> [lay[l] EXCEPT ![k] = NoC]]
ValidatedOnlyP(rd, ck, validating) == (rd.pc = 0 /\ validating) => SafeGetP(rd.res = "some", ValidFor(rd.c, ck))
=============================================================================
