------------------------------ MODULE DiskConc ------------------------------
(***************************************************************************)
(* Code-shaped model of cascette-cache::DiskCache under concurrent tasks   *)
(* (property C11), at the granularity of the verif-hooks sched points in   *)
(* disk_cache.rs.  Shared state: the in-memory index (under one RwLock),   *)
(* the value files, and the two counters.                                  *)
(*                                                                         *)
(* Design rule of the current code (commit "DiskCache changes a key's      *)
(* file, index entry and counters together"): every change to a key's      *)
(* file, its index entry and the counters is one step under the index      *)
(* write lock.  put writes a private temporary file first (two local       *)
(* steps), then publishes; remove and clear are one step; get looks the    *)
(* entry up, reads the file without the lock, and re-checks under the lock *)
(* that the entry is still the one it looked up - otherwise it looks       *)
(* again.                                                                  *)
(*                                                                         *)
(* Variant = {} is that design.  Variant elements re-introduce the pinned  *)
(* code's behaviour so that TLC regenerates the counterexamples (F11d):    *)
(*   "publish_split"   put renames the file in one step and updates the    *)
(*                     index in a later one                                *)
(*   "expired_blind"   get's expired path removes whatever is indexed and  *)
(*                     always decrements                                   *)
(*   "no_recheck"      get returns the bytes it read without re-checking   *)
(*   "cleanup_late_count"  (F11f) the background cleanup task subtracts    *)
(*                     what it swept from the counters after it released   *)
(*                     the lock                                            *)
(*                                                                         *)
(* The background cleanup task (DiskCache::new_with_cleanup) is a task     *)
(* like the others: one "sweep" operation = one tick of its interval.      *)
(* It removes every expired entry (index entry + file) under the write     *)
(* lock, passes the sched point "disk.cleanup.swept" (lock released), and  *)
(* finishes.                                                               *)
(***************************************************************************)
EXTENDS Integers, Sequences, FiniteSets, TLC

CONSTANTS Tasks, Keys, MaxOps, Variant, MaxPre

None == [none |-> TRUE]

VARIABLES prog, ip, pc, loc,
          index,   \* key -> None | [id, size, exp]
          file,    \* key -> 0 (no file) | id of the value stored in it
          cnt, mem,
          last, pre, sched

vars == <<prog, ip, pc, loc, index, file, cnt, mem, last, pre, sched>>

Cur(t)     == prog[t][ip[t]]
Running(t) == ip[t] <= Len(prog[t])
AllDone    == \A t \in Tasks : ~Running(t)
OpId(t, i) == Cardinality(Keys) + (t - 1) * MaxOps + i
SizeOf(id) == 2 ^ (id - 1)

Finish(t) == /\ ip'  = [ip  EXCEPT ![t] = @ + 1]
             /\ pc'  = [pc  EXCEPT ![t] = "start"]
             /\ loc' = [loc EXCEPT ![t] = None]
Park(t, site) == pc' = [pc EXCEPT ![t] = site] /\ ip' = ip
\* get looks again: the code `continue`s straight into the next lookup (no sched point in between)
Again(t) == loc' = [loc EXCEPT ![t] = [e |-> index[Cur(t).k]]] /\ Park(t, "disk.get.looked_up")

Same(a, b) == a # None /\ b # None /\ a.id = b.id

\* ---- put: temp file (local), then publish under the lock -------------------
NewEntry(t) == [id |-> OpId(t, ip[t]), size |-> SizeOf(OpId(t, ip[t])), exp |-> Cur(t).op = "put_exp"]
PutOpen(t) ==
  /\ pc[t] = "start" /\ Cur(t).op \in {"put", "put_exp"}
  /\ Park(t, "disk.write.tmp_opened") /\ UNCHANGED <<loc, index, file, cnt, mem>>
PutWrite(t) ==
  /\ pc[t] = "disk.write.tmp_opened"
  /\ Park(t, "disk.write.tmp_written") /\ UNCHANGED <<loc, index, file, cnt, mem>>
Account(old, new) ==
  IF old = None THEN cnt' = cnt + 1 /\ mem' = mem + new.size
  ELSE cnt' = cnt /\ mem' = mem + new.size - old.size
PutPublish(t) ==
  /\ pc[t] = "disk.write.tmp_written"
  /\ LET k == Cur(t).k new == NewEntry(t) IN
     IF "publish_split" \in Variant
     THEN /\ file' = [file EXCEPT ![k] = new.id]
          /\ Park(t, "disk.put.file_renamed") /\ UNCHANGED <<loc, index, cnt, mem>>
     ELSE /\ file' = [file EXCEPT ![k] = new.id]
          /\ index' = [index EXCEPT ![k] = new]
          /\ Account(index[k], new)
          /\ Finish(t)
PutIndex(t) ==   \* only in the pinned design
  /\ pc[t] = "disk.put.file_renamed"
  /\ LET k == Cur(t).k new == NewEntry(t) IN
     /\ index' = [index EXCEPT ![k] = new] /\ Account(index[k], new)
     /\ Finish(t) /\ UNCHANGED file

\* ---- get --------------------------------------------------------------------
GetLookup(t) ==
  /\ pc[t] = "start" /\ Cur(t).op = "get"
  /\ loc' = [loc EXCEPT ![t] = [e |-> index[Cur(t).k]]]
  /\ Park(t, "disk.get.looked_up") /\ UNCHANGED <<index, file, cnt, mem>>
GetAct(t) ==
  /\ pc[t] = "disk.get.looked_up"
  /\ LET k == Cur(t).k e == loc[t].e IN
     IF e = None THEN
        \* found-on-disk path, entirely under the lock
        IF index[k] # None THEN Again(t) /\ UNCHANGED <<index, file, cnt, mem>>
        ELSE IF file[k] # 0
             THEN /\ index' = [index EXCEPT ![k] = [id |-> file[k], size |-> SizeOf(file[k]), exp |-> FALSE]]
                  /\ cnt' = cnt + 1 /\ mem' = mem + SizeOf(file[k])
                  /\ Finish(t) /\ UNCHANGED file
             ELSE Finish(t) /\ UNCHANGED <<index, file, cnt, mem>>
     ELSE IF e.exp THEN
        \* expired path
        IF "expired_blind" \in Variant
        THEN /\ index' = [index EXCEPT ![k] = None] /\ cnt' = cnt - 1 /\ mem' = mem - e.size
             /\ file' = [file EXCEPT ![k] = 0] /\ Finish(t)
        ELSE IF index[k] # None /\ index[k].exp
             THEN /\ cnt' = cnt - 1 /\ mem' = mem - index[k].size
                  /\ index' = [index EXCEPT ![k] = None] /\ file' = [file EXCEPT ![k] = 0] /\ Finish(t)
             ELSE Finish(t) /\ UNCHANGED <<index, file, cnt, mem>>
     ELSE
        \* live entry: read the file without the lock
        IF file[k] # 0
        THEN /\ loc' = [loc EXCEPT ![t] = [e |-> e, read |-> file[k]]]
             /\ Park(t, "disk.get.file_read") /\ UNCHANGED <<index, file, cnt, mem>>
        ELSE \* the file is gone: under the lock, entry unchanged -> drop it and fail; changed -> look again
             IF "no_recheck" \notin Variant /\ ~Same(index[k], e)
             THEN Again(t) /\ UNCHANGED <<index, file, cnt, mem>>
             ELSE /\ index' = [index EXCEPT ![k] = None]
                  /\ cnt' = cnt - 1 /\ mem' = mem - e.size      \* pinned code: whatever is (or is not) indexed
                  /\ Finish(t) /\ UNCHANGED file
GetConfirm(t) ==
  /\ pc[t] = "disk.get.file_read"
  /\ LET k == Cur(t).k e == loc[t].e IN
     IF "no_recheck" \in Variant \/ Same(index[k], e)
     THEN Finish(t) /\ UNCHANGED <<index, file, cnt, mem>>
     ELSE Again(t) /\ UNCHANGED <<index, file, cnt, mem>>

\* ---- sweep: one tick of the background cleanup task -----------------------------
RECURSIVE SumE(_, _)
SumE(m, S) == IF S = {} THEN 0 ELSE LET k == CHOOSE x \in S : TRUE IN m[k].size + SumE(m, S \ {k})
SweepDo(t) ==
  /\ pc[t] = "start" /\ Cur(t).op = "sweep"
  /\ LET X == {k \in Keys : index[k] # None /\ index[k].exp} IN
     /\ index' = [k \in Keys |-> IF k \in X THEN None ELSE index[k]]
     /\ file'  = [k \in Keys |-> IF k \in X THEN 0 ELSE file[k]]
     /\ IF "cleanup_late_count" \in Variant
        THEN /\ loc' = [loc EXCEPT ![t] = [n |-> Cardinality(X), bytes |-> SumE(index, X)]]
             /\ UNCHANGED <<cnt, mem>>
        ELSE /\ loc' = [loc EXCEPT ![t] = [n |-> 0, bytes |-> 0]]
             /\ cnt' = cnt - Cardinality(X) /\ mem' = mem - SumE(index, X)
  /\ Park(t, "disk.cleanup.swept")
SweepCount(t) ==
  /\ pc[t] = "disk.cleanup.swept"
  /\ cnt' = cnt - loc[t].n /\ mem' = mem - loc[t].bytes
  /\ Finish(t) /\ UNCHANGED <<index, file>>

\* ---- contains / remove / clear: one step each (under the lock) ----------------
Contains(t) ==
  /\ pc[t] = "start" /\ Cur(t).op = "contains"
  /\ Finish(t) /\ UNCHANGED <<index, file, cnt, mem>>
Remove(t) ==
  /\ pc[t] = "start" /\ Cur(t).op = "remove"
  /\ LET k == Cur(t).k IN
     IF index[k] # None
     THEN /\ cnt' = cnt - 1 /\ mem' = mem - index[k].size
          /\ index' = [index EXCEPT ![k] = None] /\ file' = [file EXCEPT ![k] = 0]
     ELSE /\ file' = [file EXCEPT ![k] = 0] /\ UNCHANGED <<index, cnt, mem>>
  /\ Finish(t)
Clear(t) ==
  /\ pc[t] = "start" /\ Cur(t).op = "clear"
  /\ index' = [k \in Keys |-> None] /\ file' = [k \in Keys |-> 0] /\ cnt' = 0 /\ mem' = 0
  /\ Finish(t)

Size(t) ==
  /\ pc[t] = "start" /\ Cur(t).op = "size"
  /\ Finish(t) /\ UNCHANGED <<index, file, cnt, mem>>

Step(t) ==
  /\ Running(t)
  /\ \/ Size(t)
     \/ PutOpen(t) \/ PutWrite(t) \/ PutPublish(t) \/ PutIndex(t)
     \/ GetLookup(t) \/ GetAct(t) \/ GetConfirm(t)
     \/ Contains(t) \/ Remove(t) \/ Clear(t)
     \/ SweepDo(t) \/ SweepCount(t)
  /\ UNCHANGED prog
  /\ last' = t
  /\ pre' = IF last # 0 /\ last # t /\ Running(last) THEN pre + 1 ELSE pre
  /\ sched' = Append(sched, <<t, pc'[t]>>)

Next == \E t \in Tasks : Step(t)

\* ---- design-level properties ---------------------------------------------------
RECURSIVE SumSizes(_, _)
SumSizes(m, S) == IF S = {} THEN 0 ELSE LET k == CHOOSE x \in S : TRUE IN m[k].size + SumSizes(m, S \ {k})
Indexed == {k \in Keys : index[k] # None}
Books == AllDone => (cnt = Cardinality(Indexed) /\ mem = SumSizes(index, Indexed))
NeverNegative == cnt >= 0 /\ mem >= 0
\* the index always describes the file it points to (checked in every state: all changes are single steps)
IndexMatchesFile == \A k \in Keys : index[k] # None => file[k] = index[k].id
\* a value whose put has completed and that is not expiring is only taken away by remove / clear / another put
NoLostPut ==
  [][\A k \in Keys : (index[k] # None /\ ~index[k].exp /\ index'[k] # index[k])
        => \E t \in Tasks : Running(t) /\ Cur(t).op \in {"remove", "clear", "put", "put_exp"} /\ (pc'[t] # pc[t] \/ ip'[t] # ip[t])]_vars
\* a get that completes hands out the bytes of the entry it confirmed, never those of an expiring put
NoExpiredServed ==
  [][\A t \in Tasks : (pc[t] = "disk.get.file_read" /\ ip'[t] # ip[t])
        => (index[Cur(t).k] # None /\ index[Cur(t).k].id = loc[t].read /\ ~index[Cur(t).k].exp)]_vars
PreBound == pre <= MaxPre
=============================================================================
