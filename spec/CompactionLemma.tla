--------------------------- MODULE CompactionLemma ---------------------------
(***************************************************************************)
(* C18, informational (thorough tier): the forward-copy safety lemma of    *)
(* CompactionFileMover::compact_in_place, proved with TLAPS for files of   *)
(* ANY length, ANY buffer size and ANY call geometry with dest < src:      *)
(*                                                                         *)
(*   while the loop runs, only bytes in [D0, dst) have been modified, and  *)
(*   dst <= src - so no byte that is still to be read has been             *)
(*   overwritten - and what has been written is the source data;           *)
(*   at the end, [D0, D0+L) holds the original [S0, S0+L) and every byte   *)
(*   outside [D0, D0+L) is untouched.                                      *)
(*                                                                         *)
(* This is the unbounded counterpart of the invariant ForwardSafe that TLC *)
(* checks on the bounded instances of Compaction.tla (there for the whole  *)
(* span loop; here for one call of the chunked copy, the step on which the *)
(* bounded result depends).  One step = one chunk: read_exact of           *)
(* min(rem, Buf) bytes at src into the buffer, then write_all at dst.      *)
(*                                                                         *)
(* Checked by: tlapm --cleanfp CompactionLemma.tla  (Z3, Zenon, Isabelle)  *)
(***************************************************************************)
EXTENDS Integers

CONSTANTS N,         \* file length
          Orig,      \* the file before the call: a function on 0..N-1
          Buf,       \* per-buffer size
          S0, D0, L  \* src_offset, dest_offset, length

ASSUME Assm ==
  /\ N \in Nat /\ Buf \in Nat /\ Buf >= 1
  /\ S0 \in Nat /\ D0 \in Nat /\ L \in Nat
  /\ D0 < S0               \* extract_compact_segment calls only with write_pos < span.offset
  /\ S0 + L <= N           \* the span lies inside the file
  /\ DOMAIN Orig = 0..(N - 1)

VARIABLES file, src, dst, rem
vars == <<file, src, dst, rem>>

Chunk == IF rem < Buf THEN rem ELSE Buf

Init == file = Orig /\ src = S0 /\ dst = D0 /\ rem = L

Next ==
  /\ rem > 0
  /\ file' = [p \in 0..(N - 1) |->
                IF p >= dst /\ p < dst + Chunk THEN file[src + (p - dst)] ELSE file[p]]
  /\ src' = src + Chunk
  /\ dst' = dst + Chunk
  /\ rem' = rem - Chunk

Spec == Init /\ [][Next]_vars

Inv ==
  /\ src \in Nat /\ dst \in Nat /\ rem \in Nat
  /\ DOMAIN file = 0..(N - 1)
  /\ src - dst = S0 - D0                 \* hence dst < src: writes stay below reads
  /\ dst - D0 = L - rem /\ dst >= D0     \* progress
  /\ \A p \in 0..(N - 1) : (p < D0 \/ p >= dst) => file[p] = Orig[p]      \* only [D0, dst) was modified
  /\ \A k \in 0..(dst - D0 - 1) : file[D0 + k] = Orig[S0 + k]             \* ... and holds the source data

\* what the lemma is for: every byte still to be read is intact
UnreadIntact == \A p \in src..(src + rem - 1) : file[p] = Orig[p]

Post ==
  /\ \A k \in 0..(L - 1) : file[D0 + k] = Orig[S0 + k]
  /\ \A p \in 0..(N - 1) : (p < D0 \/ p >= D0 + L) => file[p] = Orig[p]

LEMMA InitInv == Init => Inv
  BY Assm DEF Init, Inv

LEMMA NextInv == Inv /\ [Next]_vars => Inv'
<1> SUFFICES ASSUME Inv, [Next]_vars PROVE Inv'
  OBVIOUS
<1>1. CASE UNCHANGED vars
  BY <1>1 DEF Inv, vars
<1>2. CASE Next
  <2> DEFINE c == Chunk
  <2>1. c \in Nat /\ c >= 1 /\ c <= rem
    BY <1>2, Assm DEF Inv, Next, Chunk
  <2>2. /\ src' = src + c /\ dst' = dst + c /\ rem' = rem - c
        /\ file' = [p \in 0..(N - 1) |-> IF p >= dst /\ p < dst + c THEN file[src + (p - dst)] ELSE file[p]]
    BY <1>2 DEF Next
  <2>3. src' \in Nat /\ dst' \in Nat /\ rem' \in Nat
    BY <2>1, <2>2 DEF Inv
  <2>4. DOMAIN file' = 0..(N - 1)
    BY <2>2
  <2>5. src' - dst' = S0 - D0 /\ dst' - D0 = L - rem' /\ dst' >= D0
    BY <2>1, <2>2, Assm DEF Inv
  <2>6. \A p \in 0..(N - 1) : (p < D0 \/ p >= dst') => file'[p] = Orig[p]
    <3> SUFFICES ASSUME NEW p \in 0..(N - 1), p < D0 \/ p >= dst' PROVE file'[p] = Orig[p]
      OBVIOUS
    <3>1. ~(p >= dst /\ p < dst + c)
      BY <2>1, <2>2, Assm DEF Inv
    <3>2. file'[p] = file[p]
      BY <2>2, <3>1
    <3>3. p < D0 \/ p >= dst
      BY <2>1, <2>2 DEF Inv
    <3> QED BY <3>2, <3>3 DEF Inv
  <2>7. \A k \in 0..(dst' - D0 - 1) : file'[D0 + k] = Orig[S0 + k]
    <3> SUFFICES ASSUME NEW k \in 0..(dst' - D0 - 1) PROVE file'[D0 + k] = Orig[S0 + k]
      OBVIOUS
    <3>0. D0 + k \in 0..(N - 1) /\ D0 + k < dst + c
      BY <2>1, <2>2, Assm DEF Inv
    <3>1. CASE D0 + k < dst          \* copied by an earlier chunk, not touched now
      <4>1. file'[D0 + k] = file[D0 + k]
        BY <2>1, <2>2, <2>3, <3>0, <3>1, Assm DEF Inv
      <4>2. k \in 0..(dst - D0 - 1)
        BY <3>1, Assm DEF Inv
      <4> QED BY <4>1, <4>2 DEF Inv
    <3>2. CASE D0 + k >= dst         \* written by this chunk from position src + (D0 + k - dst) ...
      <4> DEFINE q == src + ((D0 + k) - dst)
      <4>1. file'[D0 + k] = file[q]
        BY <2>1, <2>2, <2>3, <3>0, <3>2, Assm DEF Inv
      <4>2. q = S0 + k /\ q \in 0..(N - 1) /\ q >= dst      \* ... which nobody has modified
        BY <2>1, <3>0, <3>2, Assm DEF Inv
      <4>3. file[q] = Orig[q]
        BY <4>2 DEF Inv
      <4> QED BY <4>1, <4>2, <4>3
    <3> QED BY <3>1, <3>2, <3>0 DEF Inv
  <2> QED BY <2>3, <2>4, <2>5, <2>6, <2>7 DEF Inv
<1> QED BY <1>1, <1>2

(* Spec => []Inv follows from InitInv and NextInv by the standard invariance rule.  That one temporal step
   (BY PTL) is left out so that the module needs the standard modules only (TLAPS.tla is not on SANY's / TLC's
   path here); the two lemmas above are the whole proof obligation of an inductive invariant. *)

THEOREM InvImpliesUnreadIntact == Inv => UnreadIntact
  BY Assm DEF Inv, UnreadIntact

THEOREM InvImpliesPost == Inv /\ rem = 0 => Post
  BY Assm DEF Inv, Post
=============================================================================
