----------------------------- MODULE Containers -----------------------------
(***************************************************************************)
(* X03 - the four CASC containers of cascette-client-storage and their     *)
(* COMPOSITION (crates/cascette-client-storage/src/container/*.rs).        *)
(*                                                                         *)
(* The pieces are specified elsewhere and are reused here by INSTANCE, not *)
(* re-modelled:                                                            *)
(*   St == Storage.tla   (C04) archive + index: CWrite/CRemove/CReopen,    *)
(*                             CReadPred                                   *)
(*   L  == Lru.tla       (C17) TouchR/RemoveR/EvictTailR, Bounded/Distinct *)
(*   R  == Residency.tla (C05) RExpect/RStep, Resident/Tracked             *)
(* This module states what holds when they are put together, at the level  *)
(* of the public API.  Properties (quantifier in brackets):                *)
(*                                                                         *)
(* DynamicContainer built with .lru(l) and/or .residency(r)                *)
(* [every history of write/read/remove/reserve/remove_span/flush/reopen in *)
(*  any access mode, the user's own calls on the shared l and r, and the   *)
(*  fault "the archive file loses its tail while the container is closed"] *)
(*  D1 touch      a successful write(p) / read(p) leaves key9(p) the most  *)
(*                recently used key of l, exactly as Lru!TouchR (capacity  *)
(*                eviction included); query, reserve, flush, remove_span,  *)
(*                and reads/writes that fail with NotFound / AccessDenied  *)
(*                leave l as it was.  (Open: whether a TruncatedRead       *)
(*                touches; whether remove drops the key from l.)           *)
(*  D2 residency  r changes only (a) through the user's own calls, and     *)
(*                (b) when a read finds the archive really shorter than    *)
(*                the entry: the read answers TruncatedRead and the key    *)
(*                gets a non-resident span mark (if r is writable) whose   *)
(*                span lies inside the entry's archive range [off, end),   *)
(*                ends at `end` and covers everything behind the file      *)
(*                length.  No successful operation ever un-marks or marks  *)
(*                a key.  (Open: remove / remove_span may mark their key.) *)
(*  D3 data       read(p) = Ok  =>  the bytes are the requested slice of   *)
(*                what was written under p - also after truncation faults  *)
(*                (an entry that was cut answers an error until it is      *)
(*                rewritten); a present, intact p reads Ok.                *)
(*  D4 index      query(p) <=> p was written and not removed since, also   *)
(*                across reopen; remove(p) Ok makes it absent and durable. *)
(*  D5 modes      without write access (ReadOnly, None) write / remove /   *)
(*                reserve / remove_span answer AccessDenied and NO         *)
(*                operation changes a byte of the container's directory;   *)
(*                without read access (None) read answers AccessDenied.    *)
(*                                                                         *)
(* ResidencyContainer [histories of its own API + the Container trait,     *)
(* save, reopen in every access mode]                                      *)
(*  R1 mirror     Container::remove = mark_non_resident, Container::query  *)
(*                = is_resident, both exactly Residency!RStep; reserve     *)
(*                changes nothing; read / write answer an error and change *)
(*                nothing.                                                 *)
(*  R2 modes      without write access every mutation (reserve included)   *)
(*                is refused with an error, nothing changes in memory or   *)
(*                on disk.                                                 *)
(*                                                                         *)
(* StaticContainer [directories produced by any DynamicContainer history;  *)
(* any sequence of open / read / query / state_lookup / write / remove /   *)
(* reserve]                                                                *)
(*  S1 read-only  write / remove / reserve answer AccessDenied; no         *)
(*                operation changes a byte of the directory.               *)
(*  S2 exact      after open(): query(p) and state_lookup(p).has_data      *)
(*                (= .is_resident) <=> p is in the directory's index,      *)
(*                read(p) returns exactly p's bytes, NotFound otherwise;   *)
(*                the all-zero key has no data; before open(): query is    *)
(*                false, read / state_lookup answer an error.  (Open: keys *)
(*                the directory gained or lost after the last open.)       *)
(*                                                                         *)
(* HardLinkContainer [histories of create_link / remove_file /             *)
(* Container::remove / delete_keys / clean / compact / query / reserve /   *)
(* read / write in every access mode, sources that exist or not,           *)
(* destinations inside and outside the base directory, the environment     *)
(* creating / deleting files behind the container's back]                  *)
(*  H1 confined   nothing outside the base directory is ever created,      *)
(*                replaced or deleted; an operation aimed there answers    *)
(*                an error.                                                *)
(*  H2 coherent   query(k) = "the trie file of k exists", except that an   *)
(*                answer may be the one cached at k's last access while k  *)
(*                is among the Capacity (64) most recently used keys and   *)
(*                only the ENVIRONMENT changed the file since.  Nothing    *)
(*                done through the container makes an answer wrong.        *)
(*  H3 bounded    after Capacity other keys have been used, k's answer is  *)
(*                fresh (the cache never holds more than Capacity keys and *)
(*                evicts the least recently used one).                     *)
(*  H4 atomic     create_link Ok => the destination is a link to the       *)
(*                source; Err => the file system is as before (an existing *)
(*                link is still there); the all-zero key is rejected.      *)
(*  H5 delete     delete_keys removes exactly the listed trie files whose  *)
(*                link count was <= 1 when it was called, and says how     *)
(*                many; clean removes every trie file; compact removes no  *)
(*                valid trie file.                                         *)
(*  H6 modes      without write access every mutation (clean and compact   *)
(*                included) answers AccessDenied and changes nothing;      *)
(*                without support (test_support not passed) create /       *)
(*                remove / reserve answer an error and query is false.     *)
(*                                                                         *)
(* Every operation is a function  Xxx(state, args) -> sequence of          *)
(* candidates [st |-> next state, res |-> result class]; the first         *)
(* candidate is what the present code does (MC_Containers steps with it),  *)
(* the others are the behaviours the statement leaves open.  The trace     *)
(* monitor T_Containers accepts an event iff some candidate has the logged *)
(* result and the logged projection.                                       *)
(* Known deviations of the real code (findings.d/FX03*.json) are separate  *)
(* candidates, enabled by the constant KnownDeviations.                    *)
(***************************************************************************)
EXTENDS Naturals, Integers, Sequences, FiniteSets, TLC

CONSTANTS KnownDeviations,   \* ids of findings listed as known
          LruCap             \* capacity of the LRU tracker (MC_Containers; the monitor takes it from the log)

VARIABLE w                   \* the state of the component under test (shape depends on the component)

St == INSTANCE Storage WITH KnownDeviations <- {}, Threshold <- 67108864
L  == INSTANCE Lru WITH Cap <- LruCap, s <- w.lru, res <- TRUE
R  == INSTANCE Residency

CanRead(m)  == m \in {"ro", "rw", "excl"}
CanWrite(m) == m \in {"rw", "excl"}
Max2(a, b)  == IF a > b THEN a ELSE b
SeqToSet(q) == {q[i] : i \in 1..Len(q)}
TF(b)       == IF b THEN "true" ELSE "false"
Cand(st, res) == [st |-> st, res |-> res, dev |-> {}]
DevCand(st, res, f) == [st |-> st, res |-> res, dev |-> f]

(***************************************************************************)
(* DynamicContainer + LRU tracker + residency container                    *)
(*   c     Storage's code-shaped state (flen, mlen, endOf, idx, disk)      *)
(*   loc   p -> <<off, end>> archive range of the latest copy of p         *)
(*   dmg   entries that lost bytes in a truncation and were not rewritten  *)
(*   cut   p -> <<off, end, file length>> when the truncation was noticed  *)
(*   lru   Lru's state        r  Residency's state                         *)
(***************************************************************************)
D0(cap, lruOn, resm, mode) ==
  [c |-> St!C0, loc |-> R!NoMap, dmg |-> {}, cut |-> R!NoMap, lru |-> L!S0,
   r |-> [R!R0 EXCEPT !.ro = (resm # "rw")],
   cap |-> cap, lruOn |-> lruOn, resOn |-> (resm # "off"), mode |-> mode]

DTouch(d, p) == IF d.lruOn THEN [d EXCEPT !.lru = L!TouchR(@, d.cap, p).st] ELSE d
ResWritable(d) == d.resOn /\ ~d.r.ro
Present(d, p)  == p \in d.c.idx
\* the archive is really shorter than the entry (Storage: read_raw's bounds check)
CutNow(d, p)   == Present(d, p) /\ d.c.endOf[p] > d.c.mlen
DMark(d, p, info) ==
  IF ResWritable(d) THEN [d EXCEPT !.r.st = R!RPut(@, p, "S"), !.cut = R!RPut(@, p, info)] ELSE d
DMarkCut(d, p) == DMark(d, p, <<d.loc[p][1], d.loc[p][2], d.c.mlen>>)

DWrite(d, p, off, end) ==
  IF ~CanWrite(d.mode) THEN <<Cand(d, "err:AccessDenied")>>
  ELSE <<Cand(DTouch([d EXCEPT !.c = St!CWrite(@, "dyn", p, end), !.loc = R!RPut(@, p, <<off, end>>),
                                !.dmg = @ \ {p}], p), "ok")>>

\* result classes of a read: "exact" (Ok, the requested slice), "other" (Ok, other bytes), "err" (any error)
DRead(d, p, sliced) ==
  IF ~CanRead(d.mode) THEN <<Cand(d, "err:AccessDenied")>>
  ELSE IF ~Present(d, p) THEN <<Cand(d, "err:NotFound")>>
  ELSE IF CutNow(d, p) THEN
       LET d1 == DMarkCut(d, p) IN <<Cand(d1, "err:TruncatedRead"), Cand(DTouch(d1, p), "err:TruncatedRead")>>
  ELSE IF p \in d.dmg THEN
       \* the file has grown over the cut entry again: its tail is somebody else's bytes
       <<Cand(d, "err"), Cand(DMarkCut(d, p), "err"), Cand(DTouch(d, p), "exact"),
         DevCand(DTouch(d, p), "other", {"FX03e"})>>
  ELSE <<Cand(DTouch(d, p), "exact")>> \o
       (IF sliced THEN <<DevCand(DTouch(d, p), "whole", {"FX03g"})>> ELSE <<>>)

DRemove(d, p) ==
  IF ~CanWrite(d.mode) THEN <<Cand(d, "err:AccessDenied")>>
  ELSE LET b  == [d EXCEPT !.c = St!CRemove(@, "dyn", p), !.dmg = @ \ {p}]
           bl == IF d.lruOn THEN [b EXCEPT !.lru = L!RemoveR(@, p).st] ELSE b
           rn(x) == IF ResWritable(x) THEN [x EXCEPT !.r.st = R!RPut(@, p, "N")] ELSE x
       IN <<Cand(b, "ok"), Cand(bl, "ok"), Cand(rn(b), "ok"), Cand(rn(bl), "ok")>>

DReserve(d) == IF CanWrite(d.mode) THEN <<Cand(d, "ok")>> ELSE <<Cand(d, "err:AccessDenied")>>

\* remove_span: the code documents itself as a deferred no-op; marking the span is the other accepted reading
DRmspan(d, p) ==
  IF ~CanWrite(d.mode) THEN <<Cand(d, "err:AccessDenied")>>
  ELSE <<Cand(d, "ok")>> \o (IF Present(d, p) THEN <<Cand(DMark(d, p, <<0, 0, 0 - 1>>), "ok")>> ELSE <<>>)

\* flush_bucket / flush_all_updates: nothing observable; without write access a refusal is as good as a no-op,
\* what is not is rewriting index files (FX03f; the directory digest is judged by the monitor)
DFlush(d) ==
  IF CanWrite(d.mode) THEN <<Cand([d EXCEPT !.c = St!CFlush(@, "dyn")], "ok")>>
  ELSE <<Cand(d, "ok"), Cand(d, "err:AccessDenied"), DevCand(d, "ok", {"FX03f"})>>

\* close + open on the same directory (the shared tracker and residency container live on); flen = the
\* archive's length now.  Entries that reach beyond it have lost bytes.
DReopen(d, mode, flen) ==
  <<Cand([d EXCEPT !.c = St!CReopen(@, flen), !.mode = mode,
                   !.dmg = @ \cup {q \in DOMAIN d.loc : d.loc[q][2] > flen}], "ok")>>

\* the user's own calls on the shared objects
DUserRes(d, op, p) ==
  LET x == R!RExpect(d.r, [op |-> op, k |-> p, res |-> "ok"])
  IN <<Cand([d EXCEPT !.r = x.st], IF d.r.ro THEN "err:AccessDenied" ELSE "ok")>>
DUserTouch(d, p) == LET x == L!TouchR(d.lru, d.cap, p) IN <<Cand([d EXCEPT !.lru = x.st], TF(x.res))>>
DUserEvict(d)    == LET x == L!EvictTailR(d.lru) IN <<Cand([d EXCEPT !.lru = x.st], TF(x.res))>>

\* e: an operation record (program op or logged event; off/end/flen are the logged or the modelled numbers)
DCands(d, e) ==
  CASE e.op = "write"   -> DWrite(d, e.p, e.off, e["end"])
    [] e.op = "read"    -> DRead(d, e.p, "off" \in DOMAIN e /\ e.off > 0)
    [] e.op = "remove"  -> DRemove(d, e.p)
    [] e.op = "reserve" -> DReserve(d)
    [] e.op = "rmspan"  -> DRmspan(d, e.p)
    [] e.op \in {"flush", "flushb"} -> DFlush(d)
    [] e.op \in {"reopen", "trunc"} -> DReopen(d, e.mode, e.flen)
    [] e.op \in {"mark", "unmark"}  -> DUserRes(d, e.op, e.p)
    [] e.op = "ltouch"  -> DUserTouch(d, e.p)
    [] e.op = "levict"  -> DUserEvict(d)

\* what the public API shows
DProj(d, names) ==
  [q     |-> [p \in names |-> IF Present(d, p) THEN "t" ELSE "f"],
   cnt   |-> Cardinality(d.c.idx),
   order |-> IF d.lruOn THEN d.lru.order ELSE <<>>,
   rres  |-> [p \in names |-> d.resOn /\ p \in R!Resident(d.r.st)],
   scan  |-> IF d.resOn THEN R!Resident(d.r.st) ELSE {},
   count |-> IF d.resOn THEN Cardinality(R!Tracked(d.r.st)) ELSE 0]

\* D2: a span mark noticed at file length fl for the entry [off, end)
SpanInside(so, sl, info) ==
  info[3] < 0 \/ (so >= info[1] /\ so + sl = info[2] /\ so <= Max2(info[3], info[1]))

\* ---- properties of the composed design (checked by TLC on MC_Containers) ----
DLruSane     == w.lruOn => (Len(w.lru.order) <= w.cap /\ L!Distinct)
\* D1 as a property of the transition function, in every reachable state
DTouchMRU(names) ==
  \A p \in names :
     /\ LET x == DWrite(w, p, w.c.flen, w.c.flen + 1)[1]
        IN (x.res = "ok" /\ w.lruOn /\ w.cap >= 1) => x.st.lru.order[Len(x.st.lru.order)] = p
     /\ LET y == DRead(w, p, FALSE)[1]
        IN (y.res = "exact" /\ w.lruOn /\ w.cap >= 1) => y.st.lru.order[Len(y.st.lru.order)] = p
\* D2: a span mark exists only for an entry that was really cut (or was asked for by remove_span)
DMarkedOnlyIfCut ==
  \A p \in DOMAIN w.r.st : w.r.st[p] = "S" =>
     p \in DOMAIN w.cut /\ (w.cut[p][3] < 0 \/ w.cut[p][2] > w.cut[p][3])
\* D3: every present entry that never lost bytes is predicted readable by Storage's model
DDurable(desc) ==
  \A p \in w.c.idx \ w.dmg : LET r == St!CReadPred(w.c, "dyn", p, desc) IN r.outs = {"exact"} /\ r.q = "t"
\* the tracker only ever holds keys that were written through the container or touched by the user
DLruKnown(names) == w.lruOn => SeqToSet(w.lru.order) \subseteq names
\* D5 as an action property: without write access the persistent part does not move
DFrozen == (~CanWrite(w.mode) /\ w'.mode = w.mode) => (w'.c.disk = w.c.disk /\ w'.c.flen = w.c.flen)

(***************************************************************************)
(* ResidencyContainer through its own API and the Container trait          *)
(***************************************************************************)
ResOps == {"mark", "unmark", "span", "cremove", "delete", "save", "reload"}
\* e.res is "ok" / "err" (error kinds are left open, as in Residency.tla)
ResCands(r, mode, names, e) ==
  LET ro == ~CanWrite(mode)
      step(roflag) ==
        IF e.op \in ResOps THEN R!RExpect([r EXCEPT !.ro = roflag], e)
        ELSE IF e.op = "creserve" THEN [st |-> r, rok |-> e.res = (IF roflag THEN "err" ELSE "ok")]
        ELSE IF e.op \in {"cread", "cwrite"} THEN [st |-> r, rok |-> e.res = "err"]
        ELSE [st |-> r, rok |-> FALSE]
      ideal == step(ro)
      devia == step(FALSE)
  IN (IF ideal.rok THEN <<Cand(ideal.st, e.res)>> ELSE <<>>) \o
     (IF mode = "none" /\ devia.rok THEN <<DevCand(devia.st, e.res, {"FX03a"})>> ELSE <<>>)

(***************************************************************************)
(* StaticContainer on a directory written by a DynamicContainer            *)
(*   c      Storage's state of the directory                               *)
(*   dir    the directory exists                                           *)
(*   init   open() has succeeded on the current object                     *)
(*   snap   the index the container loaded                                 *)
(*   unsure keys the directory gained or lost since                        *)
(***************************************************************************)
S0 == [c |-> St!C0, dir |-> FALSE, init |-> FALSE, snap |-> {}, unsure |-> {}]

SCands(s, e) ==
  CASE e.op = "dwrite"  -> <<Cand([s EXCEPT !.c = St!CWrite(@, "dyn", e.p, e["end"]), !.dir = TRUE, !.unsure = IF s.init THEN @ \cup {e.p} ELSE @], "ok")>>
    [] e.op = "dremove" -> <<Cand([s EXCEPT !.c = St!CRemove(@, "dyn", e.p), !.dir = TRUE, !.unsure = IF s.init THEN @ \cup {e.p} ELSE @], "ok")>>
    [] e.op = "sopen"   -> \* a directory that does not exist: open may fail (it does) or see an empty container
         (IF s.dir THEN <<>> ELSE <<Cand(s, "err")>>) \o <<Cand([s EXCEPT !.init = TRUE, !.snap = s.c.disk, !.unsure = {}], "ok")>>
    [] e.op = "snew"    -> <<Cand([s EXCEPT !.init = FALSE, !.snap = {}, !.unsure = {}], "ok")>>
    [] e.op = "sread"   ->
         IF ~s.init THEN <<Cand(s, "err")>>
         ELSE IF e.p \in s.unsure THEN <<Cand(s, "exact"), Cand(s, "err")>>
         ELSE IF e.p \in s.snap THEN <<Cand(s, "exact")>>
         ELSE <<Cand(s, "err:NotFound")>>
    [] e.op \in {"swrite", "sremove", "sreserve"} -> <<Cand(s, "err:AccessDenied")>>

\* S2 on one observation o = [q, lk, hd, rs, cnt]
SObsOK(s, names, o) ==
  /\ DOMAIN o.q = names
  /\ \A p \in names \ s.unsure : o.q[p] = (IF s.init /\ p \in s.snap THEN "t" ELSE "f")
  /\ \A p \in names : o.q[p] \in {"t", "f"}
  /\ IF ~s.init THEN o.lk \notin {"ok", "panic"} /\ o.cnt = 0
     ELSE /\ o.lk = "ok"
          /\ DOMAIN o.hd = names \cup {"zero"} /\ DOMAIN o.rs = names \cup {"zero"}
          /\ \A p \in names \ s.unsure : o.hd[p] = (p \in s.snap) /\ o.rs[p] = (p \in s.snap)
          /\ \A p \in names : o.hd[p] = o.rs[p]
          /\ o.hd["zero"] = FALSE /\ o.rs["zero"] = FALSE
          /\ (s.unsure = {} => o.cnt = Cardinality(s.snap))

(***************************************************************************)
(* HardLinkContainer                                                       *)
(*   paths  place -> inode ("none" = no file).  Places: <<"t", k>> the     *)
(*          trie path of key k, <<"in">> a non-trie path inside the base,  *)
(*          <<"out">> a path outside the base, <<"s", n>> source files.    *)
(*          Inodes: <<"s1">>, <<"s2">>, <<"v">> (the outside file's own),  *)
(*          <<"x", k>> (a file the environment put at k's trie path).      *)
(*   mru    keys by recency of use, most recent first, at most FCap        *)
(*   cv     k -> the answer cached for k;  why: k -> "obs" (it was true    *)
(*          when cached) or the finding that explains a wrong value        *)
(***************************************************************************)
None == <<"none">>
HPlaces(keys) == {<<"t", k>> : k \in keys} \cup {<<"in">>, <<"out">>, <<"s", "s1">>, <<"s", "s2">>, <<"s", "missing">>}
H0(keys, mode, sup) ==
  [paths |-> [p \in HPlaces(keys) |->
                CASE p = <<"s", "s1">> -> <<"s1">> [] p = <<"s", "s2">> -> <<"s2">> [] p = <<"out">> -> <<"v">> [] OTHER -> None],
   mode |-> mode, sup |-> sup, mru |-> <<>>, cv |-> R!NoMap, why |-> R!NoMap, fill |-> 0]

Exists(h, p)  == h.paths[p] # None
NLink(h, i)   == Cardinality({p \in DOMAIN h.paths : h.paths[p] = i})
Truth(h, k)   == IF <<"t", k>> \in DOMAIN h.paths THEN TF(Exists(h, <<"t", k>>)) ELSE "false"
Place(k, e, f) == CASE e[f] = "trie" -> <<"t", k>> [] e[f] = "tk" -> <<"t", e.dk>> [] e[f] = "in" -> <<"in">> [] e[f] = "out" -> <<"out">>
SetPath(h, pl, i) == [h EXCEPT !.paths[pl] = i]

\* ---- the FD cache as the code keeps it: (key, answer) pairs, least recently used evicted at capacity ----
\* mru lists the cached keys, most recent first; cv / why are kept for the keys of the universe only (filler keys
\* of a flood are never asked again: their answer is "false" and true)
Front(q, k, cap) == LET q2 == <<k>> \o SelectSeq(q, LAMBDA x : x # k) IN IF Len(q2) > cap THEN SubSeq(q2, 1, cap) ELSE q2
Cached(h, k) == \E i \in 1..Len(h.mru) : h.mru[i] = k
CacheSet(h, k, v, y, cap) == [h EXCEPT !.mru = Front(@, k, cap), !.cv = R!RPut(@, k, v), !.why = R!RPut(@, k, y)]
CacheDrop(h, k) == [h EXCEPT !.mru = SelectSeq(@, LAMBDA x : x # k)]
CacheClear(h) == [h EXCEPT !.mru = <<>>]
\* An operation THROUGH THE CONTAINER changed the files of some keys: an entry it left wrong is blamed on `f`
\* (a finding id, or "bug" = nothing known explains it); entries the environment made stale keep "obs".
Blame(h0, h1, f) ==
  [h1 EXCEPT !.why = [x \in DOMAIN h1.why |->
       IF Cached(h1, x) /\ Truth(h0, x) # Truth(h1, x) /\ h1.cv[x] # Truth(h1, x) THEN f ELSE h1.why[x]]]

\* one query of key k answered v: is it allowed, which finding (if any) explains it, and the cache afterwards
HQuery(h, k, v, cap) ==
  IF ~h.sup THEN [ok |-> v = "false", dev |-> {}, st |-> h]
  ELSE LET t   == Truth(h, k)
           hit == Cached(h, k) /\ h.cv[k] = v
       IN [ok  |-> v = t \/ hit,
           dev |-> IF v = t \/ ~hit \/ h.why[k] = "obs" THEN {} ELSE {h.why[k]},
           st  |-> CacheSet(h, k, v, IF v = t \/ ~hit THEN "obs" ELSE h.why[k], cap)]
\* the answer the code gives
HAnswer(h, k) == IF ~h.sup THEN "false" ELSE IF Cached(h, k) THEN h.cv[k] ELSE Truth(h, k)

\* the refusal a mutation must get, or "" when it may proceed
HRefuse(h, e) ==
  IF e.op \in {"create", "cremove", "creserve"} /\ ~h.sup THEN "err:Config"
  ELSE IF ~CanWrite(h.mode) THEN "err:AccessDenied"
  ELSE ""

HCreate(h, e, cap) ==
  LET k == e.k   dst == Place(k, e, "dst")   src == <<"s", e.src>>
      ref == HRefuse(h, e)
      \* past its checks the code replaces dst by a link to src and caches (k, true) - whatever dst is
      done == Blame(h, CacheSet(SetPath(h, dst, h.paths[src]), k, "true", IF dst = <<"t", k>> THEN "obs" ELSE "FX03c", cap), "FX03c")
      \* ... and when the link cannot be made, the old destination is already gone
      lost == Blame(h, SetPath(h, dst, None), "FX03d")
  IN IF ref # "" THEN <<Cand(h, ref)>>
     ELSE IF k = "z" THEN <<Cand(h, "err:InvalidFormat")>>
     ELSE IF dst = <<"out">> THEN
          <<Cand(h, "err")>> \o (IF Exists(h, src) THEN <<DevCand(done, "ok", {"FX03c"})>> ELSE <<DevCand(lost, "err", {"FX03c", "FX03d"})>>)
     ELSE IF ~Exists(h, src) THEN
          <<Cand(h, "err")>> \o (IF Exists(h, dst) THEN <<DevCand(lost, "err", {"FX03d"})>> ELSE <<>>)
     ELSE <<Cand(done, "ok")>>

\* remove_file(k, path) and Container::remove(k) (= remove_file(k, trie path of k)); only k's entry is dropped
HRemoveAt(h, e, pl) ==
  LET ref  == HRefuse(h, e)
      done == Blame(h, CacheDrop(SetPath(h, pl, None), e.k), "FX03c")
  IN IF ref # "" THEN <<Cand(h, ref)>>
     ELSE IF pl = <<"out">> THEN <<Cand(h, "err"), DevCand(done, "ok", {"FX03c"})>>
     ELSE <<Cand(done, "ok")>>

\* delete_keys: two phases - candidates are chosen on the state at the call
HDelete(h, e) ==
  LET ks   == SeqToSet(e.ks)
      gone == {k \in ks : <<"t", k>> \in DOMAIN h.paths /\ Exists(h, <<"t", k>>) /\ NLink(h, h.paths[<<"t", k>>]) <= 1}
      h2   == [h EXCEPT !.paths = [p \in DOMAIN h.paths |-> IF p[1] = "t" /\ p[2] \in gone THEN None ELSE h.paths[p]],
                        !.mru = SelectSeq(@, LAMBDA x : x \notin gone)]
  IN IF ~CanWrite(h.mode) THEN <<Cand(h, "err:AccessDenied")>>
     ELSE <<Cand(Blame(h, h2, "bug"), "n" \o ToString(Cardinality(gone)))>>

\* clean removes every file below the base's sub-directories; compact only files that are no valid trie leaves
HClean(h, e) ==
  LET victims == {p \in DOMAIN h.paths : (p[1] = "t" \/ p = <<"in">>) /\ Exists(h, p)}
      h2 == IF e.op = "clean"
            THEN CacheClear([h EXCEPT !.paths = [p \in DOMAIN h.paths |-> IF p \in victims THEN None ELSE h.paths[p]]])
            ELSE CacheClear(h)
  IN IF ~CanWrite(h.mode) THEN <<Cand(h, "err:AccessDenied")>>
     ELSE <<Cand(h2, "n" \o ToString(IF e.op = "clean" THEN Cardinality(victims) ELSE 0))>>

HTrait(h, e) ==
  CASE e.op = "creserve" -> LET ref == HRefuse(h, e) IN <<Cand(h, IF ref # "" THEN ref ELSE "ok")>>
    [] e.op = "cread"    -> <<Cand(h, IF h.sup THEN "err" ELSE "err:Config")>>
    [] e.op = "cwrite"   -> <<Cand(h, "err")>>

\* the environment
HEnv(h, e) ==
  CASE e.op = "xcreate" -> <<Cand(SetPath(h, <<"t", e.k>>, <<"x", e.k>>), "ok")>>
    [] e.op = "xremove" -> <<Cand(SetPath(h, <<"t", e.k>>, None), "ok")>>
    [] e.op = "xrmsrc"  -> <<Cand(SetPath(h, <<"s", e.src>>, None), "ok")>>

\* n never-seen keys are queried: all absent, all cached (the newest in front)
HFlood(h, e, cap) ==
  LET n  == e.n
      fs == [i \in 1..n |-> "f" \o ToString(h.fill + n - i)]
      q2 == fs \o h.mru
  IN <<Cand(IF h.sup THEN [h EXCEPT !.mru = IF Len(q2) > cap THEN SubSeq(q2, 1, cap) ELSE q2, !.fill = @ + n] ELSE h, "false")>>

HReopen(h, e) == <<Cand([h EXCEPT !.mode = e.mode, !.sup = (e.sup = "true"), !.mru = <<>>], "ok")>>
HProbe(h, e)  == <<Cand([h EXCEPT !.sup = TRUE], "true")>>

HCands0(h, e, cap) ==
  CASE e.op = "create"  -> HCreate(h, e, cap)
    [] e.op = "rmfile"  -> HRemoveAt(h, e, Place(e.k, e, "path"))
    [] e.op = "cremove" -> HRemoveAt(h, e, <<"t", e.k>>)
    [] e.op = "delete"  -> HDelete(h, e)
    [] e.op \in {"clean", "compact"} -> HClean(h, e)
    [] e.op \in {"creserve", "cread", "cwrite"} -> HTrait(h, e)
    [] e.op \in {"xcreate", "xremove", "xrmsrc"} -> HEnv(h, e)
    [] e.op = "flood"   -> HFlood(h, e, cap)
    [] e.op = "reopen"  -> HReopen(h, e)
    [] e.op = "probe"   -> HProbe(h, e)
    [] e.op = "query"   -> <<Cand(h, "query")>>      \* judged by HQuery on the logged answer

\* Known deviations of the access-mode check: the candidates of a writable container, each carrying the finding
AsMode(cands, mode, f) == [i \in 1..Len(cands) |-> [cands[i] EXCEPT !.dev = @ \cup {f}, !.st.mode = mode]]
HMutations == {"create", "rmfile", "cremove", "delete", "creserve"}
HCands(h, e, cap) ==
  HCands0(h, e, cap) \o
  (IF h.mode = "none" /\ e.op \in HMutations THEN AsMode(HCands0([h EXCEPT !.mode = "rw"], e, cap), h.mode, "FX03a") ELSE <<>>) \o
  (IF ~CanWrite(h.mode) /\ e.op \in {"clean", "compact"} THEN AsMode(HCands0([h EXCEPT !.mode = "rw"], e, cap), h.mode, "FX03b") ELSE <<>>)

\* what the file system shows at a place: <<content id, link count>>
HShow(h, p) == IF Exists(h, p) THEN <<h.paths[p][1], NLink(h, h.paths[p])>> ELSE <<"none", 0>>

\* ---- properties of the design (ideal candidates only; checked by TLC on MC_Containers) ----
HConfined   == w.paths[<<"out">>] = <<"v">>
HBounded(cap) == Len(w.mru) <= cap
\* H2 without an environment: everything the cache holds is true
\* H2 without an environment: everything the cache holds is true - refuted by TLC on the cache as the code keeps it
\* (create_link / remove_file with a path that is not the key's own: FX03c; failed create_link: FX03d) ...
HCoherentStrict == \A i \in 1..Len(w.mru) : w.mru[i] \in DOMAIN w.cv => w.cv[w.mru[i]] = Truth(w, w.mru[i])
\* ... and true of every entry that is not blamed on one of them
HCoherent   == \A i \in 1..Len(w.mru) : (w.mru[i] \in DOMAIN w.cv /\ w.why[w.mru[i]] = "obs") => w.cv[w.mru[i]] = Truth(w, w.mru[i])
HSourcesSafe == w.paths[<<"s", "s1">>] \in {<<"s1">>, None} /\ w.paths[<<"s", "s2">>] \in {<<"s2">>, None}
HFrozen     == (~CanWrite(w.mode) /\ w'.mode = w.mode) =>
                 \A p \in DOMAIN w.paths : p[1] \in {"t", "in", "out"} => (w'.paths[p] = w.paths[p] \/ w'.paths[p][1] = "x" \/ w.paths[p][1] = "x")
=============================================================================
