------------------------------ MODULE KeyStore ------------------------------
(***************************************************************************)
(* X11 (a) - the TACT key store: cascette-crypto keys.rs (TactKey,         *)
(* TactKeyStore), store_trait.rs (TactKeyProvider, UnifiedKeyStore) and    *)
(* cascette-formats KeyringConfig as a producer of keys.                   *)
(*                                                                         *)
(* The abstract state is a finite map  id -> key  (id: a 64-bit number as  *)
(* a BigNat, key: 16 bytes).  Every operation is a function                *)
(* XxxR(s, ..) -> [st, res] (trace monitor T_KeyStore) and an action of    *)
(* MC_KeyStore (exhaustive checking + program generation).                 *)
(*                                                                         *)
(* PROPERTIES (quantifier: every history of operations of the alphabet     *)
(* on a store created by empty() or new(), through TactKeyStore's own      *)
(* methods, through its TactKeyProvider implementation, and through        *)
(* UnifiedKeyStore, also nested)                                           *)
(*                                                                         *)
(*  KS1 map: after every operation get(id) of every id, len, is_empty,     *)
(*      iter / list_key_ids as a set (no id twice) and contains_key equal  *)
(*      the model map.  add of an id that is present REPLACES its key      *)
(*      ("Add a key to the store"; the store is a map, there is one key    *)
(*      per key name).  remove returns the key that was stored, None for   *)
(*      an absent id.  empty() is empty; new() contains every pair of the  *)
(*      BuiltIn table (the well-known community keys of keys.rs).          *)
(*  KS2 text: load_from_csv / load_from_txt are a left-to-right sequence   *)
(*      of adds, one per well-formed line; malformed lines, comments and   *)
(*      empty lines change nothing, whatever surrounds them; the returned  *)
(*      count is the number of lines loaded (or of distinct ids loaded -   *)
(*      "number of keys successfully loaded" allows both); a later line    *)
(*      for the same id wins.  Lines are what `\n' separates, a `\r'       *)
(*      before it and blanks around a line or a field do not count; a      *)
(*      U+FEFF at the very start of the content is not part of the first   *)
(*      line.  Well-formed (MUST load):  <id> , <key>  (csv) or            *)
(*      <id> blanks <key> (txt) with  id = 16 hex digits | 0x/0X + 1..16   *)
(*      hex digits | 1..20 decimal digits (not 16 of them: "16-char string *)
(*      is hex") not above u64::MAX, key = exactly 32 hex digits, any      *)
(*      case.  MUST skip: comment (`#', txt also `//'), empty, and every   *)
(*      line that contains no 32-hex-digit word or no other word readable  *)
(*      as an id (wrong key length 15 / 17 bytes, odd digits, non-hex,     *)
(*      id overflow ...).  Everything else (extra fields, inline comment,  *)
(*      sign, Unicode blanks, unprefixed short hex ...) MAY be skipped or  *)
(*      loaded with an (id, key) taken from the words of the line.         *)
(*      from_hex accepts exactly 32 hex digits between blanks.             *)
(*  KS3 no call panics, whatever the text (non-ASCII included).            *)
(*  KS4 UnifiedKeyStore answers what its backend answers, for every        *)
(*      method of the trait - including a backend whose key_count is the   *)
(*      documented "approximation" and which overrides is_empty /          *)
(*      contains_key.                                                      *)
(*  KS5 Debug output of a store / a key does not contain key bytes         *)
(*      (docs/src/encryption/salsa20.md: "keeps them in memory with        *)
(*      redacted debug output ... to prevent accidental logging").         *)
(*  KR  KeyringConfig: get_key is case-insensitive and returns the value   *)
(*      of an entry with that id; get_key_by_id(n) = get_key of n as 16    *)
(*      hex digits; validate() accepts exactly 16-hex ids with 32-hex      *)
(*      values; for a valid keyring parse(build()) gives the same entries  *)
(*      and every entry converts with TactKey::from_hex into a             *)
(*      TactKeyStore in which an id that occurs once has the keyring's     *)
(*      value.                                                             *)
(***************************************************************************)
EXTENDS Naturals, Sequences, FiniteSets, BigNat, TLC

\* ============================ PART M: the map ============================
KS0 == <<>>                                   \* the empty function
Put(s, id, k) == [x \in (DOMAIN s) \cup {id} |-> IF x = id THEN k ELSE s[x]]
Del(s, id)    == [x \in (DOMAIN s) \ {id} |-> s[x]]
Look(s, id)   == IF id \in DOMAIN s THEN <<s[id]>> ELSE <<>>       \* Option as a 0/1-sequence
Pairs(s)      == {<<id, s[id]>> : id \in DOMAIN s}
OfPairs(P)    == [id \in {p[1] : p \in P} |-> (CHOOSE p \in P : p[1] = id)[2]]

AddR(s, id, k) == [st |-> Put(s, id, k), res |-> "ok"]
RemoveR(s, id) == [st |-> Del(s, id),    res |-> Look(s, id)]
GetR(s, id)    == [st |-> s,             res |-> Look(s, id)]

\* the hardcoded keys of TactKeyStore::new() (ids and keys of the public community list)
BuiltIn == {
  <<<<2814, 5412, 9842, 7004, 1803>>, <<189, 197, 24, 98, 171, 237, 121, 178, 222, 72, 200, 231, 230, 108, 98, 0>>>>,      \* FA505078126ACB3E
  <<<<5340, 7422, 5578, 1066, 1841>>, <<170, 11, 92, 119, 240, 136, 204, 194, 211, 144, 73, 189, 38, 127, 6, 109>>>>,    \* FF813F7D062AC0BC
  <<<<232, 9256, 8571, 5820, 1512>>, <<142, 74, 37, 121, 137, 78, 56, 180, 171, 144, 88, 186, 92, 115, 40, 238>>>>,      \* D1E9B5EDF9283668
  <<<<2804, 500, 1413, 5577, 1321>>, <<152, 73, 209, 170, 123, 31, 208, 152, 25, 197, 198, 98, 131, 163, 38, 236>>>>,    \* B76729641141CB34
  <<<<5080, 2738, 31, 6837, 1842>>, <<213, 20, 189, 25, 9, 169, 229, 220, 135, 3, 244, 184, 187, 29, 253, 154>>>>,        \* FFB9469FF16E6BF8
  <<<<303, 4069, 7131, 2346, 106>>, <<154, 137, 204, 126, 58, 203, 41, 207, 20, 198, 11, 193, 59, 30, 70, 22>>>>,          \* 0EBE36B5010DFD7F
  <<<<9715, 113, 9707, 856, 1606>>, <<173, 116, 12, 227, 255, 255, 146, 49, 70, 129, 38, 152, 87, 8, 225, 185>>>>,        \* DEE3A0521EFF6F03
  <<<<5114, 2674, 563, 7020, 569>>, <<137, 56, 28, 116, 143, 101, 49, 187, 252, 217, 119, 83, 208, 108, 195, 205>>>>,      \* 4F0FE18E9FA1AC1A
  <<<<699, 38, 911, 9820, 859>>, <<61, 230, 13, 55, 198, 100, 114, 53, 149, 242, 124, 92, 219, 240, 139, 250>>>>,          \* 7758B2CF1E4E3E1B
  <<<<2053, 4338, 2572, 5113, 1651>>, <<125, 30, 97, 191, 95, 213, 131, 70, 151, 35, 101, 213, 58, 204, 102, 220>>>> }    \* E5317801B3561125

InitOk(init, P) == IF init = "new" THEN BuiltIn \subseteq P ELSE P = {}

\* ============================ PART T: text ============================
\* A text is the sequence of its Unicode code points.
IsBlank(c) == c \in {9, 10, 11, 12, 13, 32}
IsDigit(c) == c >= 48 /\ c <= 57
IsHexC(c)  == IsDigit(c) \/ (c >= 65 /\ c <= 70) \/ (c >= 97 /\ c <= 102)
IsAlnum(c) == IsDigit(c) \/ (c >= 65 /\ c <= 90) \/ (c >= 97 /\ c <= 122)
NotBlank(c) == ~IsBlank(c)
HexV(c)    == IF IsDigit(c) THEN c - 48 ELSE IF c <= 70 THEN c - 55 ELSE c - 87
AllC(q, P(_)) == \A i \in 1..Len(q) : P(q[i])
Idx(q) == [i \in 1..Len(q) |-> i]

\* fields between occurrences of c (empty fields included)
SplitAt(q, c) ==
  LET sp == SelectSeq(Idx(q), LAMBDA i : q[i] = c)
      n  == Len(sp)
  IN [k \in 1..(n + 1) |-> SubSeq(q, IF k = 1 THEN 1 ELSE sp[k - 1] + 1, IF k <= n THEN sp[k] - 1 ELSE Len(q))]
\* maximal runs of characters satisfying P
Runs(q, P(_)) ==
  LET st == SelectSeq(Idx(q), LAMBDA i : P(q[i]) /\ (i = 1 \/ ~P(q[i - 1])))
      en == SelectSeq(Idx(q), LAMBDA i : P(q[i]) /\ (i = Len(q) \/ ~P(q[i + 1])))
  IN [k \in 1..Len(st) |-> SubSeq(q, st[k], en[k])]
Trim(q) ==
  LET p == SelectSeq(Idx(q), LAMBDA i : ~IsBlank(q[i]))
  IN IF p = <<>> THEN <<>> ELSE SubSeq(q, p[1], p[Len(p)])

HexNum(t) == BnOfDigits([i \in 1..Len(t) |-> HexV(t[i])], 16)
DecNum(t) == BnOfDigits([i \in 1..Len(t) |-> t[i] - 48], 10)
Is0x(t)   == Len(t) >= 3 /\ t[1] = 48 /\ t[2] \in {120, 88}
After0x(t) == SubSeq(t, 3, Len(t))
FitsU64(n) == BnLeq(n, BnU64Max)

\* the documented id forms: set of values, empty or a singleton
StrictId(t) ==
  IF Len(t) = 16 /\ AllC(t, IsHexC) THEN {HexNum(t)}
  ELSE IF Is0x(t) /\ Len(t) <= 18 /\ AllC(After0x(t), IsHexC) THEN {HexNum(After0x(t))}
  ELSE IF Len(t) \in 1..20 /\ AllC(t, IsDigit) /\ FitsU64(DecNum(t)) THEN {DecNum(t)}
  ELSE {}
\* every reading a lenient loader could give a word
LenientIds(t) ==
  (IF Len(t) \in 1..24 /\ AllC(t, IsHexC) /\ FitsU64(HexNum(t)) THEN {HexNum(t)} ELSE {}) \cup
  (IF Is0x(t) /\ Len(t) <= 26 /\ AllC(After0x(t), IsHexC) /\ FitsU64(HexNum(After0x(t))) THEN {HexNum(After0x(t))} ELSE {}) \cup
  (IF Len(t) \in 1..24 /\ AllC(t, IsDigit) /\ FitsU64(DecNum(t)) THEN {DecNum(t)} ELSE {})
IsKeyTxt(t) == Len(t) = 32 /\ AllC(t, IsHexC)
KeyBytes(t) == [i \in 1..16 |-> HexV(t[2 * i - 1]) * 16 + HexV(t[2 * i])]

\* (id, key) pairs that the words of a line offer
Cands(raw) ==
  LET w == Runs(raw, IsAlnum)
  IN UNION {{<<i, KeyBytes(w[k])>> : i \in UNION {LenientIds(w[j]) : j \in (1..Len(w)) \ {k}}}
            : k \in {x \in 1..Len(w) : IsKeyTxt(w[x])}}

Skip == [c |-> "skip"]
LineClass(raw, fmt) ==
  LET l == Trim(raw) IN
  IF l = <<>> \/ l[1] = 35 THEN Skip
  ELSE IF fmt = "txt" /\ Len(l) >= 2 /\ l[1] = 47 /\ l[2] = 47 THEN Skip
  ELSE LET f == IF fmt = "csv" THEN LET p == SplitAt(l, 44) IN [k \in 1..Len(p) |-> Trim(p[k])]
                ELSE Runs(l, NotBlank)
       IN IF Len(f) = 2 /\ StrictId(f[1]) # {} /\ IsKeyTxt(f[2])
          THEN [c |-> "must", out |-> {<<CHOOSE i \in StrictId(f[1]) : TRUE, KeyBytes(f[2])>>}]
          ELSE [c |-> "may", out |-> {<<>>} \cup Cands(raw)]
OutcomesOf(cl) == IF cl.c = "skip" THEN {<<>>} ELSE cl.out

BOM == 65279
NoBom(cp) == IF cp # <<>> /\ cp[1] = BOM THEN Tail(cp) ELSE cp
\* classes of the lines of a content; `ideal' strips the byte order mark first
Classes(cp, fmt, ideal) ==
  LET ls == SplitAt(IF ideal THEN NoBom(cp) ELSE cp, 10)
  IN [k \in 1..Len(ls) |-> LineClass(ls[k], fmt)]

\* all sequences of outcomes, line by line
RECURSIVE OutSeqs(_, _)
OutSeqs(cls, k) == IF k = 0 THEN {<<>>}
                   ELSE {Append(p, x) : p \in OutSeqs(cls, k - 1), x \in OutcomesOf(cls[k])}
RECURSIVE Loaded(_, _, _)
Loaded(s, o, k) == IF k > Len(o) THEN s
                   ELSE Loaded(IF o[k] = <<>> THEN s ELSE Put(s, o[k][1], o[k][2]), o, k + 1)
NLines(o) == Cardinality({k \in 1..Len(o) : o[k] # <<>>})
NIds(o)   == Cardinality({o[k][1] : k \in {x \in 1..Len(o) : o[x] # <<>>}})

\* load_from_*(cp) on state s returned `count' and left the pairs P
LoadOk(s, cls, count, P) ==
  \E o \in OutSeqs(cls, Len(cls)) :
     /\ Pairs(Loaded(s, o, 1)) = P
     /\ count \in {BnOfNat(NLines(o)), BnOfNat(NIds(o))}
\* the deterministic part, for the design-level check: what must be there afterwards
MustPairs(cls) == UNION {cls[k].out : k \in {x \in 1..Len(cls) : cls[x].c = "must"}}

\* TactKey::from_hex(text): "ok" with these bytes | "err" | either
FromHexClass(cp) ==
  LET t  == Trim(cp)
      w  == Runs(cp, IsAlnum)
      ks == {KeyBytes(w[k]) : k \in {x \in 1..Len(w) : IsKeyTxt(w[x])}}
  IN IF IsKeyTxt(t) THEN [c |-> "ok", keys |-> {KeyBytes(t)}]
     ELSE IF ks = {} THEN [c |-> "err", keys |-> {}]
     ELSE [c |-> "may", keys |-> ks]

\* ============================ PART D: Debug output ============================
\* tokens = the maximal alphanumeric words of the Debug string, lower case
HexDigits == <<"0", "1", "2", "3", "4", "5", "6", "7", "8", "9", "a", "b", "c", "d", "e", "f">>
RECURSIVE HexStrAt(_, _)
HexStrAt(k, i) == IF i > Len(k) THEN "" ELSE HexDigits[(k[i] \div 16) + 1] \o HexDigits[(k[i] % 16) + 1] \o HexStrAt(k, i + 1)
HexStr(k) == HexStrAt(k, 1)
DecWords(k) == [i \in 1..Len(k) |-> ToString(k[i])]
ShowsKey(toks, k) ==
  \/ \E i \in 1..Len(toks) : toks[i] = HexStr(k)
  \/ \E i \in 1..(Len(toks) - Len(k) + 1) : SubSeq(toks, i, i + Len(k) - 1) = DecWords(k)
Redacted(toks, s) == \A id \in DOMAIN s : ~ShowsKey(toks, s[id])

\* ============================ PART K: the keyring as a producer ============================
Lower(q) == [i \in 1..Len(q) |-> IF q[i] >= 65 /\ q[i] <= 90 THEN q[i] + 32 ELSE q[i]]
KrAdd(k, id, val) == Append(k, <<Lower(id), Lower(val)>>)
KrMatches(k, id)  == {i \in 1..Len(k) : k[i][1] = Lower(id)}
KrGetOk(k, id, res) == IF KrMatches(k, id) = {} THEN res = <<>> ELSE \E i \in KrMatches(k, id) : res = <<k[i][2]>>
IsId16(t) == Len(t) = 16 /\ AllC(t, IsHexC)
KrMatchesN(k, n)  == {i \in 1..Len(k) : IsId16(k[i][1]) /\ HexNum(k[i][1]) = n}
KrGetIdOk(k, n, res) == IF KrMatchesN(k, n) = {} THEN res = <<>> ELSE \E i \in KrMatchesN(k, n) : res = <<k[i][2]>>
KrValid(k) == \A i \in 1..Len(k) : IsId16(k[i][1]) /\ IsKeyTxt(k[i][2])
\* the store obtained from a valid keyring by adding its entries in order
RECURSIVE KrStore(_, _, _)
KrStore(k, i, s) == IF i > Len(k) THEN s ELSE KrStore(k, i + 1, Put(s, HexNum(k[i][1]), KeyBytes(k[i][2])))

\* ============================ the state machine (MC_KeyStore) ============================
Apply(s, e) ==
  CASE e.op = "add"    -> AddR(s, e.id, e.key)
    [] e.op = "remove" -> RemoveR(s, e.id)
    [] e.op = "get"    -> GetR(s, e.id)
    [] OTHER           -> [st |-> s, res |-> "ok"]

VARIABLES s, res
Init == s = KS0 /\ res = "ok"
Do(e) == LET r == Apply(s, e) IN s' = r.st /\ res' = r.res

\* design-level properties of the map (checked on MC_KeyStore)
AddThenGet(id, k)  == Look(AddR(s, id, k).st, id) = <<k>>
AddKeepsOthers(id, k) == \A x \in (DOMAIN s) \ {id} : AddR(s, id, k).st[x] = s[x]
RemoveThenGet(id)  == Look(RemoveR(s, id).st, id) = <<>> /\ RemoveR(s, id).res = Look(s, id)
AddRemoveId(id, k) == id \notin DOMAIN s => RemoveR(AddR(s, id, k).st, id).st = s
PairsRoundTrip     == OfPairs(Pairs(s)) = s
=============================================================================
