------------------------------- MODULE Cipher -------------------------------
(***************************************************************************)
(* Keystream composition (C09): a stream cipher instance is a position in  *)
(* a keystream K(0), K(1), ...  that is a function of the cipher's         *)
(* parameters only.  Applying the keystream to a chunk XORs the chunk with *)
(* the next Len(chunk) keystream bytes and advances the position.          *)
(*                                                                         *)
(* Checked on this specification (MC_Cipher, toy keystream) and judged on  *)
(* the real Salsa20Cipher / Arc4Cipher (T_Crypto, real keystreams from     *)
(* Salsa20.tla / Rc4.tla):                                                 *)
(*   Composition : applying chunk after chunk yields what one application  *)
(*                 to the concatenation yields, for every way of cutting   *)
(*   RoundTrip   : a fresh instance with the same parameters applied to    *)
(*                 the output gives back the input                         *)
(*                                                                         *)
(* The keystream is an operator argument K(_) (0-based offset -> byte), so *)
(* the same operators serve the toy model and the trace monitor.           *)
(***************************************************************************)
EXTENDS Naturals, Sequences, Bitwise

VARIABLES pos,     \* number of keystream bytes consumed by the current instance
          out      \* output of the last application

\* functional core ---------------------------------------------------------
XorAt(K(_), p, chunk) == [j \in 1..Len(chunk) |-> chunk[j] ^^ K(p + j - 1)]
ApplyR(K(_), p, chunk) == [st |-> p + Len(chunk), res |-> XorAt(K, p, chunk)]
Whole(K(_), m) == XorAt(K, 0, m)

\* actions -----------------------------------------------------------------
CInit == pos = 0 /\ out = <<>>
CFresh == pos' = 0 /\ out' = <<>>
CApply(K(_), chunk) ==
  LET r == ApplyR(K, pos, chunk) IN pos' = r.st /\ out' = r.res
=============================================================================
