------------------------------- MODULE Blte -------------------------------
(***************************************************************************)
(* Specification of the BLTE encoder (cascette-formats::blte::BlteBuilder  *)
(* -> CascFormat::build -> BlteFile::parse -> decompress_with_keys),       *)
(* property C01: encode/decode is the identity on content, the chunk table *)
(* is truthful, an encoder call that cannot honour this returns an error.  *)
(*                                                                         *)
(* Three parts:                                                            *)
(*  1. the builder as a state machine at chunk granularity.  Every call is *)
(*     a function XxxR(b, args) -> [st, res, may]: `st` is the builder     *)
(*     after a successful call, `res` the predicted outcome ("ok"/"err"),  *)
(*     `may` = TRUE when the property leaves the outcome open (the call is *)
(*     outside the quantifier of the property - default mode E/F, an       *)
(*     undefined cipher, a chunk-size outside the documented range, a      *)
(*     block index that is not the chunk's position - so that "returns an  *)
(*     error" and "succeeds and the container still decodes to the         *)
(*     content" both conform).  Used by MC_Blte (exhaustive checking and   *)
(*     program generation) and by T_Blte (judging recorded executions).    *)
(*  2. Decode at the same granularity: a chunk encrypted with Salsa20 is   *)
(*     decoded with its POSITION as block index (that is what              *)
(*     decompress_with_keys and every other BLTE reader does), so a chunk  *)
(*     encrypted under another index is garbage.                           *)
(*  3. ParseTable: a byte-level reader of the BLTE header and chunk table, *)
(*     written from the format description, not from the library's parser. *)
(*                                                                         *)
(* Deviations of the code as it is from the property are switched on by    *)
(* ids in KnownDeviations (ideal design: {}):                              *)
(*   F01a  add_data under with_encryption numbers the blocks of each call  *)
(*         from 0 instead of from the chunk's position                     *)
(*   F01b  add_encrypted_data accepts a block index that is not the        *)
(*         chunk's position                                                *)
(*   F01c  the table's decompressed size of an encrypted chunk is the      *)
(*         length of the encrypted payload, not of the decoded data        *)
(*   F01d  an empty payload encrypted with inner mode N gives a 16-byte    *)
(*         chunk body, which the decoder rejects as "too short"            *)
(*   F01e  a chunk whose decompressed size is unknown (taken from a parsed *)
(*         file) is recorded with its compressed length as decompressed    *)
(*         size                                                            *)
(*   F01f  the 40-byte table's checksum of the decompressed data of an     *)
(*         encrypted chunk is the checksum of the compressed data          *)
(*   F01g  with chunk size 0 the automatically chunking calls (add_data,   *)
(*         add_mixed_data, BlteFile::compress) never return for a          *)
(*         non-empty payload (they append empty chunks until memory is     *)
(*         exhausted); monitor-level only, never executed in-process       *)
(***************************************************************************)
EXTENDS Naturals, Sequences, FiniteSets

CONSTANT KnownDeviations

Known(f) == f \in KnownDeviations

DefaultCS == 262144                 \* BlteBuilder::new(): 256 KiB
MinCS     == 1024
MaxCS     == 16777216
DataModes == {"N", "Z", "4"}        \* compression modes the property quantifies over
Ciphers   == {"S", "A"}             \* Salsa20, ARC4 ("X": a type byte the format does not define; "-": none)

\* chunks: one record per chunk - except that a call that cuts its payload into more than BulkFrom chunks is
\* recorded as ONE record with n = that many chunks (same mode and cipher, block indices idx, idx+1, ..,
\* len = all their bytes): TLC cannot carry 65 537 records per state.  pos = position (0-based) of the record's
\* first chunk in the file, nch = chunks in the builder.
B0 == [chunks |-> <<>>, nch |-> 0, mode |-> "N", cs |-> DefaultCS, enc |-> "-", clen |-> 0, sure |-> TRUE, table |-> "-"]
BulkFrom == 1024

Ret(st, res, may) == [st |-> st, res |-> res, may |-> may]
NChunks(b) == b.nch
NRec(b)    == Len(b.chunks)

\* automatic chunking as documented: one chunk if the data fits, else pieces of cs bytes and a remainder
NPieces(len, cs) == IF len <= cs THEN 1 ELSE (len + cs - 1) \div cs
PieceLen(len, cs, i) == IF len <= cs THEN len ELSE IF i * cs <= len THEN cs ELSE len - (i - 1) * cs

\* mode byte inside an encrypted payload
InnerOf(m) == IF m \in {"Z", "4"} THEN m ELSE "N"

\* what the table says about the decompressed size: "len" (truth), "payload" (F01c), "comp" (F01e)
DszOf(cipher, kind, mode) ==
  IF cipher # "-" /\ Known("F01c") THEN "payload"
  ELSE IF kind = "parsed" /\ mode # "N" /\ Known("F01e") THEN "comp"
  ELSE "len"
\* what the 40-byte table says about the checksum of the decoded chunk: "dec" (truth), "comp" (F01f)
DckOf(cipher) == IF cipher # "-" /\ Known("F01f") THEN "comp" ELSE "dec"

\* chunks appended by an automatically chunking call
Pieces(b, len, cipher, base, org) ==
  LET np == NPieces(len, b.cs)
      Rec(i, plen, cnt) ==
        [mode   |-> IF cipher = "-" THEN b.mode ELSE "E",
         inner  |-> IF cipher = "-" THEN "-" ELSE InnerOf(b.mode),
         cipher |-> cipher,
         idx    |-> IF cipher = "-" THEN NChunks(b) + i - 1 ELSE base + i - 1,
         pos    |-> NChunks(b) + i - 1, n |-> cnt,
         off    |-> b.clen + (i - 1) * b.cs,
         len    |-> plen,
         org    |-> org, kind |-> "-",
         dsz    |-> DszOf(cipher, "-", b.mode), dck |-> DckOf(cipher)]
  IN IF np > BulkFrom THEN <<Rec(1, len, np)>>
     ELSE [i \in 1..np |-> Rec(i, PieceLen(len, b.cs, i), 1)]

\* is the call inside the quantifier of the property?  (then it has to succeed)
InDomain(b, cipher) == b.mode \in DataModes /\ cipher \in Ciphers \cup {"-"}
\* outside of it, what the encoder as built does (prediction only; `may` makes either outcome conform)
Lenient(b, cipher) == IF cipher = "-" THEN b.mode \in DataModes ELSE cipher \in Ciphers /\ b.mode # "F"

Added(b, cs, len) == [b EXCEPT !.chunks = b.chunks \o cs, !.clen = b.clen + len,
                               !.nch = b.nch + (IF Len(cs) = 1 THEN cs[1].n ELSE Len(cs)),
                               !.sure = b.sure /\ len > 0]

\* chunk size 0 (with_chunk_size_unchecked(0), BlteFile::compress(.., 0, ..)) cannot chunk a non-empty payload
ZeroCS(b, len) == b.cs = 0 /\ len > 0
AddR(b, len, cipher, base, org) ==
  IF ZeroCS(b, len) THEN Ret(b, "err", TRUE)
  ELSE Ret(Added(b, Pieces(b, len, cipher, base, org), len),
           IF InDomain(b, cipher) \/ Lenient(b, cipher) THEN "ok" ELSE "err",
           ~InDomain(b, cipher))

WithCompressionR(b, m) == Ret([b EXCEPT !.mode = m], "ok", FALSE)
WithChunkSizeR(b, n, checked) ==
  IF checked /\ (n < MinCS \/ n > MaxCS)
  THEN Ret([b EXCEPT !.cs = n], "err", TRUE)       \* the property does not fix the accepted range
  ELSE Ret([b EXCEPT !.cs = n], "ok", FALSE)
WithEncryptionR(b, c) == Ret([b EXCEPT !.enc = c], "ok", FALSE)
WithoutEncryptionR(b) == Ret([b EXCEPT !.enc = "-"], "ok", FALSE)

\* add_data: builder-level encryption; block indices count from the chunk's position (F01a: from 0)
AddDataR(b, len) ==
  AddR(b, len, b.enc, IF Known("F01a") THEN 0 ELSE NChunks(b), "data")
\* add_mixed_data: per-call encryption
AddMixedR(b, len, cipher) == AddR(b, len, cipher, NChunks(b), "mixed")

\* add_encrypted_data: ONE chunk whatever the size, block index given by the caller.  An index that is
\* not the chunk's position cannot be honoured (the decoder will use the position): error - unless F01b.
\* `sure` = the position is fixed by the documented chunking (no empty payload was added before).
AddEncR(b, len, cipher, idx) ==
  LET c == [mode |-> "E", inner |-> InnerOf(b.mode), cipher |-> cipher, idx |-> idx, pos |-> NChunks(b), n |-> 1, off |-> b.clen,
            len |-> len, org |-> "enc", kind |-> "-", dsz |-> DszOf(cipher, "-", b.mode), dck |-> DckOf(cipher)]
      st == Added(b, <<c>>, len)
  IN IF idx # NChunks(b) THEN Ret(st, IF Known("F01b") /\ Lenient(b, cipher) THEN "ok" ELSE "err", TRUE)
     ELSE IF ~InDomain(b, cipher) THEN Ret(st, IF Lenient(b, cipher) THEN "ok" ELSE "err", TRUE)
     ELSE Ret(st, "ok", ~b.sure)

\* add_chunk(ChunkData::new(data, m)) / a chunk taken from a parsed file (decompressed size unknown)
AddChunkR(b, len, m, kind) ==
  LET c == [mode |-> m, inner |-> "-", cipher |-> "-", idx |-> NChunks(b), pos |-> NChunks(b), n |-> 1, off |-> b.clen, len |-> len,
            org |-> "chunk", kind |-> kind, dsz |-> DszOf("-", kind, m), dck |-> "dec"]
  IN Ret(Added(b, <<c>>, len), IF m \in DataModes THEN "ok" ELSE "err", m \notin DataModes)

\* BlteFile::compress(data, cs, m): chunk automatically and build, in one call
CompressR(len, cs, m) ==
  LET r == AddR([B0 EXCEPT !.cs = cs, !.mode = m], len, "-", 0, "compress")
  IN IF r.res = "err" THEN r ELSE Ret([r.st EXCEPT !.table = "std"], r.res, r.may)

\* ---- decoding, at chunk granularity ------------------------------------------------------------------
\* positions (1-based) whose chunk was encrypted under a block index other than its position
Misindexed(b) == {p \in 1..NRec(b) : b.chunks[p].cipher = "S" /\ b.chunks[p].idx # b.chunks[p].pos}
\* F01d: 1 mode byte 'E' + 15 bytes of encryption header + 1 byte 'N' = 17 bytes, body 16 < 17
TooShort(b)   == IF Known("F01d")
                 THEN {p \in 1..NRec(b) : b.chunks[p].cipher # "-" /\ b.chunks[p].inner = "N" /\ b.chunks[p].len = 0}
                 ELSE {}
Broken(b) == Misindexed(b) \cup TooShort(b)
\* finding that explains a broken position
WhyBroken(b, p) == IF p \in TooShort(b) THEN "F01d" ELSE IF b.chunks[p].org = "data" THEN "F01a" ELSE "F01b"

\* the decoder's output as a sequence of content segments <<off, len>> (or "garbage")
DecodeOf(b) == [p \in 1..NRec(b) |-> IF p \in Broken(b) THEN <<"garbage">> ELSE <<b.chunks[p].off, b.chunks[p].len>>]
\* build(): an empty builder has nothing to encode; a builder holding a misindexed chunk cannot honour
\* the identity, so an error is the only conforming outcome besides a container that decodes correctly.
BuildR(b, table) ==
  IF NChunks(b) = 0 THEN Ret(b, "err", TRUE)
  ELSE Ret([b EXCEPT !.table = table], "ok", Broken(b) # {})

\* ---- properties of a built container (checked by TLC on MC_Blte) ---------------------------------------
\* natural numbers only: "does not tile" is reported by a value that cannot be the content length
TilesTo(b) == LET br == Broken(b)
                  RECURSIVE T(_, _)
                  T(i, at) == IF i > NRec(b) THEN at
                              ELSE IF i \in br \/ b.chunks[i].off # at THEN b.clen + 1
                              ELSE T(i + 1, at + b.chunks[i].len)
              IN T(1, 0)
Identity(b)      == TilesTo(b) = b.clen
\* a single unencrypted chunk is written with the 8-byte header and no table (unless the 40-byte format is forced)
HasTable(b)      == NChunks(b) > 1 \/ b.table = "ext" \/ \E p \in 1..NRec(b) : b.chunks[p].mode = "E"
TableTruthful(b) == HasTable(b) =>
                      \A p \in 1..NRec(b) : b.chunks[p].dsz = "len" /\ (b.table = "ext" => b.chunks[p].dck = "dec")

\* ---- byte-level reader of the header and chunk table ---------------------------------------------------
\*   "BLTE" | header_size:u32be | [ flags:u8 (0x0F: 24-byte entries, 0x10: 40-byte) | count:u24be |
\*   count x ( csize:u32be | dsize:u32be | md5(chunk bytes):16 [| md5(decoded chunk):16] ) ] | chunks...
\* header_size = 0: no table, one chunk up to the end of the file; else header_size = offset of the data.
Magic == <<66, 76, 84, 69>>
BE3(h, i) == (h[i] * 256 + h[i + 1]) * 256 + h[i + 2]
BE4(h, i) == ((h[i] * 256 + h[i + 1]) * 256 + h[i + 2]) * 256 + h[i + 3]      \* h[i] < 128 (TLC: 32-bit integers)
RECURSIVE SumTo(_, _)
SumTo(f, n) == IF n = 0 THEN 0 ELSE f[n] + SumTo(f, n - 1)

NoTable == [wf |-> FALSE, single |-> FALSE, n |-> 0, hs |-> 0, entry |-> 0, cs |-> <<>>, ds |-> <<>>,
            md5 |-> <<>>, dmd5 |-> <<>>, off |-> <<>>]

\* h: the leading bytes of the container (the whole header at least), total: length of the container
ParseTable(h, total) ==
  IF Len(h) < 8 \/ SubSeq(h, 1, 4) # Magic \/ h[5] >= 128 THEN NoTable
  ELSE LET hs == BE4(h, 5) IN
    IF hs = 0
    THEN [NoTable EXCEPT !.wf = (total >= 9), !.single = TRUE, !.n = 1, !.hs = 8,
                         !.cs = <<total - 8>>, !.off = <<8>>]
    ELSE IF Len(h) < 12 \/ Len(h) < hs \/ h[9] \notin {15, 16} THEN NoTable
    ELSE LET entry == IF h[9] = 15 THEN 24 ELSE 40
             n     == BE3(h, 10)
             E(i)  == 13 + (i - 1) * entry
         IN IF n = 0 \/ hs # 12 + n * entry \/ (\E i \in 1..n : h[E(i)] >= 128 \/ h[E(i) + 4] >= 128) THEN NoTable
            ELSE LET cs == [i \in 1..n |-> BE4(h, E(i))]
                     RECURSIVE Offs(_, _, _)
                     Offs(i, at, acc) == IF i > n THEN acc ELSE Offs(i + 1, at + cs[i], Append(acc, at))
                 IN [wf     |-> (\A i \in 1..n : cs[i] >= 1) /\ hs + SumTo(cs, n) = total,
                     single |-> FALSE, n |-> n, hs |-> hs, entry |-> entry,
                     cs     |-> cs,
                     ds     |-> [i \in 1..n |-> BE4(h, E(i) + 4)],
                     md5    |-> [i \in 1..n |-> SubSeq(h, E(i) + 8, E(i) + 23)],
                     dmd5   |-> [i \in 1..n |-> IF entry = 40 THEN SubSeq(h, E(i) + 24, E(i) + 39) ELSE <<>>],
                     off    |-> Offs(1, hs, <<>>)]

\* The first 12 bytes only (containers whose table is too large to be logged): magic, header size, table format
\* and the 24-bit chunk count, read from the raw bytes.
ParseHead(h) ==
  IF Len(h) < 12 \/ SubSeq(h, 1, 4) # Magic \/ h[5] >= 128 \/ h[9] \notin {15, 16}
  THEN [wf |-> FALSE, hs |-> 0, entry |-> 0, n |-> 0]
  ELSE LET entry == IF h[9] = 15 THEN 24 ELSE 40
           n == BE3(h, 10)
       IN [wf |-> n >= 1 /\ BE4(h, 5) = 12 + n * entry, hs |-> BE4(h, 5), entry |-> entry, n |-> n]

\* Independent decoder for containers whose chunks are all stored (mode byte 'N' = 78): the concatenation
\* of the chunk bodies.  bytes: the whole container, t: its parsed table.
RECURSIVE StoredBody(_, _, _)
StoredBody(bytes, t, i) ==
  IF i > t.n THEN <<>>
  ELSE SubSeq(bytes, t.off[i] + 2, t.off[i] + t.cs[i]) \o StoredBody(bytes, t, i + 1)
AllStored(bytes, t) == \A i \in 1..t.n : bytes[t.off[i] + 1] = 78

\* ---- dispatch on an operation record ---------------------------------------------------------------------
Apply(b, e) ==
  CASE e.op = "with_compression"   -> WithCompressionR(b, e.mode)
    [] e.op = "with_chunk_size"    -> WithChunkSizeR(b, e.n, e.checked)
    [] e.op = "with_encryption"    -> WithEncryptionR(b, e.cipher)
    [] e.op = "without_encryption" -> WithoutEncryptionR(b)
    [] e.op = "add_data"           -> AddDataR(b, e.len)
    [] e.op = "add_mixed_data"     -> AddMixedR(b, e.len, e.cipher)
    [] e.op = "add_encrypted_data" -> AddEncR(b, e.len, e.cipher, e.idx)
    [] e.op = "add_chunk"          -> AddChunkR(b, e.len, e.mode, e.kind)
    [] e.op = "build"              -> BuildR(b, e.table)
    [] e.op = "compress"           -> CompressR(e.len, e.n, e.mode)

IsAdd(e) == e.op \in {"add_data", "add_mixed_data", "add_encrypted_data", "add_chunk"}
Final(e) == e.op \in {"build", "compress"}

\* ---- the state machine -------------------------------------------------------------------------------------
VARIABLES b,        \* the builder
          phase     \* "open" | "built" | "failed"

Init == b = B0 /\ phase = "open"
Do(e) == /\ phase = "open"
         /\ LET r == Apply(b, e) IN
              IF r.res = "err" THEN b' = b /\ phase' = "failed"          \* the builder is consumed by a failed call
              ELSE b' = r.st /\ phase' = IF Final(e) THEN "built" ELSE "open"
=============================================================================
