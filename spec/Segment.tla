------------------------------- MODULE Segment -------------------------------
(***************************************************************************)
(* X01 - the segment allocator and the segment files of the local store    *)
(* (cascette-client-storage::storage::segment: SegmentAllocator,           *)
(* SegmentInfo, SegmentHeader, bucket_hash, segment_data_path,             *)
(* parse_data_filename, encode/decode_storage_offset; and the way          *)
(* container::dynamic::DynamicContainer uses them: segment_limit,          *)
(* max_segment_size, segment_count).                                       *)
(*                                                                         *)
(* Not one of the twenty listed properties: the properties below are       *)
(* stated here, from the code's own documentation.  Related: C04           *)
(* (Storage.tla: what is written can be read), C18 (Compaction.tla: the    *)
(* merge planner consumes the allocator's SegmentInfo list), C05           *)
(* (KvIndex.tla: where the 10-bit id / 30-bit offset are stored).          *)
(*                                                                         *)
(* A segment is one file data.NNN of at most SegSize = 2^30 bytes that     *)
(* begins with a Hdr = 480 byte block of 16 reconstruction headers; the    *)
(* allocator hands out byte ranges <<segment, offset, size>> behind it.    *)
(*                                                                         *)
(* PROPERTIES (A = allocator, F = pure functions, D = DynamicContainer)    *)
(*                                                                         *)
(*  A1 Disjoint.  For every history of new / load_existing / allocate /    *)
(*     freeze / thaw / drop+new on one directory, in which the user writes *)
(*     any subset of the ranges it was given: two ranges of positive size  *)
(*     handed out by one allocator object in one segment never share a     *)
(*     byte, and no range shares a byte with what the segment's file held  *)
(*     when it was loaded (offset >= file length at load_existing).        *)
(*     load_existing re-synchronises with the directory: ranges that were  *)
(*     handed out but never written are given up by it.                    *)
(*  A2 InSegment.  Every range handed out satisfies                        *)
(*     Hdr <= offset and offset + size <= SegSize, segment < 1023 - so     *)
(*     sizes above SegSize - Hdr are always refused - and after the call   *)
(*     the segment's data file exists ("each archive .data file begins     *)
(*     with a 480-byte segment header": ranges lie behind that area, and   *)
(*     a file the allocator creates carries 16 reconstruction keys that    *)
(*     hash (seed 1) to buckets 0..15).                                    *)
(*  A3 NotFrozen.  A range is never handed out in a segment that is Frozen *)
(*     at the time of the call; load_existing leaves every segment it      *)
(*     found a file for Frozen ("marks all loaded segments as frozen").    *)
(*  A4 FreezeThaw.  freeze(i) answers true iff segment i exists and was    *)
(*     Thawed, and leaves it Frozen; thaw(i) dually; neither changes any   *)
(*     other state (so they are idempotent, and thaw undoes freeze).       *)
(*  A5 Limit.  allocate creates segment number segment_count() (or a gap   *)
(*     index) and only below min(max_segments, 1023); it fails (an error   *)
(*     value - no panic, no wrap-around, no file created, no state change) *)
(*     exactly when no Thawed segment has `size` bytes left behind its     *)
(*     highest used byte and no segment can be created (limit reached,     *)
(*     size above SegSize - Hdr, or the file of the segment to create is   *)
(*     already there - see A6).                                            *)
(*  A6 Files.  allocate never deletes, shortens or replaces a data file    *)
(*     and touches no file but the one of the segment it allocates in.     *)
(*  A7 Reload.  After load_existing, segment_count() = highest data file   *)
(*     index + 1; every segment that has a file is Frozen with a write     *)
(*     position >= the file's length; after drop + new + load_existing     *)
(*     allocations go on where the files end (A1 across objects).  The     *)
(*     observable write_position is never below a byte in use.             *)
(*     Left open: state and write position of an index without a file (a   *)
(*     gap), whether allocate may fill a gap index, what freeze/thaw       *)
(*     answer for one, zero-sized allocations at offset SegSize.           *)
(*  F1 bucket_hash(key, seed) = (((x >> 4) ^ x) + seed) & 15, x = XOR of   *)
(*     the first 9 bytes.                                                  *)
(*  F2 Names.  segment_data_path(dir, i) = dir/data.<i, at least 3         *)
(*     digits>; parse_data_filename accepts exactly "data." + 3 or 4 ASCII *)
(*     digits with value < 1023 and answers that value; hence              *)
(*     parse(name(i)) = i for every i < 1023.                              *)
(*  F3 Codec.  decode_storage_offset(encode_storage_offset(id, off)) =     *)
(*     <<id, off>> and the encoded fields stay inside 10 / 30 bits for     *)
(*     id < 1024, off < 2^30.                                              *)
(*  F4 Header.  SegmentHeader::generate(i, h): key b hashes (seed 1) to    *)
(*     bucket b; to_bytes is 480 bytes and from_bytes inverts it.          *)
(*  F5 SegmentInfo::has_space_for(size) = Thawed /\ wp + size <= SegSize   *)
(*     (mathematical integers: no wrap-around, no panic).                  *)
(*  D1 DynamicContainer: segment_limit() = min(configured, 1023),          *)
(*     max_segment_size() = configured.                                    *)
(*  D2 segment_count() = highest data file index + 1 of the storage        *)
(*     directory, after open() and after every write().                    *)
(*  D3 write() never makes a data file longer than max_segment_size and    *)
(*     never creates data file number >= segment_limit.                    *)
(*  D4 Every data file write() creates begins with a valid 480-byte        *)
(*     segment header block (as A2).                                       *)
(*                                                                         *)
(* As everywhere in /verif each operation is written as a function on a    *)
(* record so that the trace monitor T_Segment judges recorded executions   *)
(* of the real code with the same definitions MC_Segment explores.  Two    *)
(* levels: the JUDGE (AllocOK ...: exactly the properties above, leaves    *)
(* open which segment/offset is chosen) and the code-shaped IDEAL          *)
(* (AllocR: first fit in index order, else create - the strategy the       *)
(* code documents), which MC_Segment uses to generate programs and which   *)
(* TLC checks against the judge.                                           *)
(*                                                                         *)
(* Numbers: the real constants are used (2^30 fits TLC's 32-bit integers); *)
(* every logged number is clamped to Big = 2^31 - 1 by the driver and all  *)
(* comparisons are written as subtractions so that nothing overflows.      *)
(***************************************************************************)
EXTENDS Naturals, Integers, Sequences, FiniteSets

SegSize == 1073741824      \* SEGMENT_SIZE
Hdr     == 480             \* SEGMENT_HEADER_SIZE
MaxSegs == 1023            \* MAX_SEGMENTS
Big     == 2147483647
Cap     == SegSize - Hdr

SMin(a, b) == IF a < b THEN a ELSE b
SMax(a, b) == IF a > b THEN a ELSE b
MaxOfSet(S) == CHOOSE m \in S : \A x \in S : x <= m
MinOfSet(S) == CHOOSE m \in S : \A x \in S : m <= x

\* ===========================================================================
\* F: pure functions
\* ===========================================================================
Bit(n, k) == (n \div (2 ^ k)) % 2
\* XOR of two nibbles, as a table (a constant: TLC evaluates it once)
NibXor == [a \in 0..15 |-> [b \in 0..15 |->
             ((Bit(a, 0) + Bit(b, 0)) % 2) + 2 * ((Bit(a, 1) + Bit(b, 1)) % 2)
             + 4 * ((Bit(a, 2) + Bit(b, 2)) % 2) + 8 * ((Bit(a, 3) + Bit(b, 3)) % 2)]]
\* low nibble of (x >> 4) ^ x for x = XOR of key[1..n]: XOR is bitwise, so it is the XOR over the bytes of (high nibble ^ low nibble)
RECURSIVE FoldNib(_, _)
FoldNib(key, n) == IF n = 0 THEN 0 ELSE NibXor[FoldNib(key, n - 1)][NibXor[key[n] \div 16][key[n] % 16]]
BucketHash(key, seed) == (FoldNib(key, SMin(9, Len(key))) + seed) % 16

\* a header block as the driver logs it: the first 9 bytes of the 16 keys, in bucket order
HeaderOK(keys) == Len(keys) = 16 /\ \A b \in 0..15 : BucketHash(keys[b + 1], 1) = b

RECURSIVE DigitsOf(_)
DigitsOf(n) == IF n < 10 THEN <<48 + n>> ELSE Append(DigitsOf(n \div 10), 48 + (n % 10))
Prefix == <<100, 97, 116, 97, 46>>            \* "data."
NameOf(i) == Prefix \o (LET d == DigitsOf(i) IN
                        IF Len(d) = 1 THEN <<48, 48>> \o d ELSE IF Len(d) = 2 THEN <<48>> \o d ELSE d)
RECURSIVE ValueOf(_)
ValueOf(q) == IF q = <<>> THEN 0 ELSE 10 * ValueOf(SubSeq(q, 1, Len(q) - 1)) + (q[Len(q)] - 48)
\* -1 = None
ParseName(nm) ==
  IF Len(nm) \notin {8, 9} THEN -1
  ELSE IF SubSeq(nm, 1, 5) # Prefix THEN -1
  ELSE LET suf == SubSeq(nm, 6, Len(nm)) IN
       IF \E k \in 1..Len(suf) : suf[k] < 48 \/ suf[k] > 57 THEN -1
       ELSE IF ValueOf(suf) < MaxSegs THEN ValueOf(suf) ELSE -1

HasSpace(st, wp, size) == st = "T" /\ wp <= SegSize /\ size <= SegSize - wp

\* ===========================================================================
\* A: allocator.  State s = [max, segs, flen]
\*   max   min(max_segments, 1023) of the current allocator object
\*   segs  sequence, segs[i+1] describes segment i:
\*           st   "T" thawed, "F" frozen, "A" an index below segment_count() that has no file (gap)
\*           base bytes below this offset were in the file when it was loaded (Hdr for a created segment)
\*           al   ranges <<offset, end>> handed out by this object since
\*   flen  the directory: data file index -> length
\* ===========================================================================
NoFiles == [i \in {} |-> 0]
Absent  == [st |-> "A", base |-> 0, al |-> {}]
S0(max, flen) == [max |-> SMin(max, MaxSegs), segs |-> <<>>, flen |-> flen]

End(off, size) == IF size >= Big - off THEN Big ELSE off + size
Hi(g)  == MaxOfSet({a[2] : a \in g.al} \cup {g.base})      \* highest byte in use (exclusive)
Pos(g) == SMax(Hi(g), Hdr)                                  \* where a bump allocator goes on
Disjoint(a, b) == a[1] = a[2] \/ b[1] = b[2] \/ a[2] <= b[1] \/ b[2] <= a[1]
Fits(g, size) == g.st = "T" /\ Pos(g) <= SegSize /\ size <= SegSize - Pos(g)
Exists(s, i) == i < Len(s.segs) /\ s.segs[i + 1].st # "A"

FileTop(f) == IF DOMAIN f = {} THEN 0 ELSE MaxOfSet(DOMAIN f) + 1
Loadable(f) == [i \in {j \in DOMAIN f : j < MaxSegs} |-> f[i]]

\* load_existing: every index with a file becomes Frozen with the file's length as its base; indices
\* without a file keep what the object knew about them (nothing: a gap)
LoadR(s) ==
  LET f == Loadable(s.flen)
      n == SMax(FileTop(f), Len(s.segs))
  IN [st |-> [s EXCEPT !.segs = [i \in 1..n |-> IF (i - 1) \in DOMAIN f THEN [st |-> "F", base |-> f[i - 1], al |-> {}]
                                               ELSE IF i <= Len(s.segs) THEN s.segs[i] ELSE Absent]],
      res |-> TRUE]

FreezeR(s, i) ==
  IF Exists(s, i) /\ s.segs[i + 1].st = "T"
  THEN [st |-> [s EXCEPT !.segs[i + 1].st = "F"], res |-> TRUE] ELSE [st |-> s, res |-> FALSE]
ThawR(s, i) ==
  IF Exists(s, i) /\ s.segs[i + 1].st = "F"
  THEN [st |-> [s EXCEPT !.segs[i + 1].st = "T"], res |-> TRUE] ELSE [st |-> s, res |-> FALSE]

\* drop + new(max) on the same directory
ReopenR(s, max) == [st |-> S0(max, s.flen), res |-> TRUE]

\* ---- results of allocate ----------------------------------------------------
ROk(seg, off) == [kind |-> "ok", seg |-> seg, off |-> off]
RErr   == [kind |-> "err", seg |-> 0, off |-> 0]
RPanic == [kind |-> "panic", seg |-> 0, off |-> 0]

\* ---- the ideal (code-shaped): first fit in index order, else create, else error ----
FitSet(s, size) == {i \in 1..Len(s.segs) : Fits(s.segs[i], size)}
WithFile(f, i, n) == [j \in DOMAIN f \cup {i} |-> IF j = i THEN n ELSE f[j]]

AllocR(s, size) ==
  IF size > Cap THEN [st |-> s, res |-> RErr]
  ELSE IF FitSet(s, size) # {}
  THEN LET k == MinOfSet(FitSet(s, size))
           g == s.segs[k]
           off == Pos(g)
       IN [st |-> [s EXCEPT !.segs[k].al = @ \cup {<<off, off + size>>}], res |-> ROk(k - 1, off)]
  ELSE IF Len(s.segs) < s.max /\ Len(s.segs) \notin DOMAIN s.flen
  THEN LET i == Len(s.segs) IN
       [st |-> [s EXCEPT !.segs = Append(s.segs, [st |-> "T", base |-> Hdr, al |-> {<<Hdr, Hdr + size>>}]),
                         !.flen = WithFile(s.flen, i, Hdr)],
        res |-> ROk(i, Hdr)]
  ELSE [st |-> s, res |-> RErr]

\* ---- the judge: is result r of allocate(size) in state s, with directory `of` afterwards, allowed? ----
\* D = the listed deviations whose relaxation is granted (subset of {"FX01a", .. "FX01d"}); D = {} is the property.
\*  FX01a  a gap index / a segment without a data file is allocated in, no file is created
\*  FX01b  a size above Cap is not refused: it is "placed" at Hdr of a new segment (or the arithmetic overflows)
\*  FX01c  a loaded file shorter than the header block: allocation inside the header area
\*  FX01d  creating segment n replaces an existing file data.n the object had not loaded
Exhausted(s, size) ==
  /\ FitSet(s, size) = {}
  /\ (size > Cap \/ Len(s.segs) >= s.max \/ Len(s.segs) \in DOMAIN s.flen)

AllocOKd(s, size, r, of, huge, D) ==
  LET kept(skip) == /\ \A i \in DOMAIN s.flen \ skip : i \in DOMAIN of /\ of[i] >= s.flen[i]
      onlyAt(seg) == /\ \A i \in DOMAIN of : i \notin DOMAIN s.flen => i = seg
                     /\ \A i \in DOMAIN of \cap DOMAIN s.flen : i # seg => of[i] = s.flen[i]
  IN
  CASE r.kind = "ok" ->
        LET seg == r.seg
            off == r.off
            inrange == seg < Len(s.segs)
            g   == IF inrange THEN s.segs[seg + 1] ELSE Absent
            ex  == g.st # "A"
            iv  == <<off, End(off, size)>>
            nofile == seg \notin DOMAIN s.flen
            short  == ~nofile /\ s.flen[seg] < Hdr
            gapA == "FX01a" \in D /\ inrange /\ nofile
            oversz == "FX01b" \in D /\ size > Cap /\ ~ex /\ seg = Len(s.segs) /\ off = Hdr
            shortC == "FX01c" \in D /\ ex /\ short /\ g.base < Hdr
            clobD == "FX01d" \in D /\ ~ex /\ seg = Len(s.segs) /\ ~nofile
        IN /\ seg < MaxSegs
           /\ IF ex THEN g.st = "T"
              ELSE (gapA /\ g.st = "A") \/ (seg <= Len(s.segs) /\ seg < s.max)
           /\ off >= Hdr \/ (shortC /\ off >= g.base)
           /\ (off <= SegSize /\ size <= SegSize - off) \/ oversz
           /\ ex => off >= g.base /\ \A a \in g.al : Disjoint(a, iv)
           /\ IF gapA THEN seg \notin DOMAIN of
              ELSE seg \in DOMAIN of
           /\ kept(IF clobD THEN {seg} ELSE {})
           /\ onlyAt(seg)
    [] r.kind = "err" -> Exhausted(s, size) /\ of = s.flen
    [] OTHER ->       \* panic / hang: never allowed by the property
        /\ "FX01b" \in D /\ huge           \* size + write position exceeds u64
        /\ (\E i \in 1..Len(s.segs) : s.segs[i].st \in {"T", "A"}) \/ Len(s.segs) < s.max
        /\ kept(IF "FX01d" \in D THEN {Len(s.segs)} ELSE {})
        /\ onlyAt(Len(s.segs))

AllocOK(s, size, r, of) == AllocOKd(s, size, r, of, FALSE, {})

\* ---- the state after an *observed* result (whatever it was) -----------------
AllocNext(s, size, r, of) ==
  IF r.kind # "ok" \/ r.seg >= MaxSegs THEN [s EXCEPT !.flen = of]
  ELSE LET n == SMax(Len(s.segs), r.seg + 1)
           padded == [i \in 1..n |-> IF i <= Len(s.segs) THEN s.segs[i] ELSE Absent]
           g  == padded[r.seg + 1]
           iv == <<r.off, End(r.off, size)>>
           g2 == IF g.st = "A" THEN [st |-> "T", base |-> SMin(Hdr, r.off), al |-> {iv}] ELSE [g EXCEPT !.al = @ \cup {iv}]
       IN [s EXCEPT !.segs = [padded EXCEPT ![r.seg + 1] = g2], !.flen = of]

\* the allocator's user writes the bytes of a range it was given (the file grows, sparse)
WroteR(s, seg, end) ==
  IF seg \in DOMAIN s.flen THEN [s EXCEPT !.flen[seg] = SMax(@, end)] ELSE s

\* ---- what the public getters may show in state s ------------------------------
\* o = [count, segs : sequence of [st, wp, ix], beyond]
ObsOK(s, o) ==
  /\ o.count = Len(s.segs)
  /\ Len(o.segs) = o.count
  /\ ~o.beyond                                      \* segment(segment_count()) is None
  /\ \A i \in 1..Len(o.segs) :
       /\ o.segs[i].ix = i - 1
       /\ s.segs[i].st # "A" => o.segs[i].st = s.segs[i].st /\ o.segs[i].wp >= SMin(Hi(s.segs[i]), Big)

\* ---- design invariants (MC_Segment) ---------------------------------------
Safe(s) ==
  /\ Len(s.segs) <= SMax(s.max, FileTop(Loadable(s.flen)))
  /\ \A i \in 1..Len(s.segs) : LET g == s.segs[i] IN
       /\ \A a \in g.al : a[1] >= Hdr /\ a[1] >= g.base /\ a[2] <= SegSize /\ a[1] <= a[2]
       /\ \A a, b \in g.al : a # b => Disjoint(a, b)
       /\ g.st # "A" => (i - 1) \in DOMAIN s.flen

\* ===========================================================================
\* D: DynamicContainer.  d = [limit, maxsize, pre, opened]
\*   pre    data files that were in the directory before the container was first opened
\*   opened FileTop of the directory at the last open()  (only used to recognise FX01f)
\* o = [count, limit, maxsize, files (function), heads (function index -> keys)]
\* ===========================================================================
DynOKd(d, op, r, fl, o, D) ==
  LET of == o.files
      changed == {i \in DOMAIN of : i \notin DOMAIN fl \/ of[i] # fl[i]}
      created == {i \in DOMAIN of : i \notin DOMAIN fl}
  IN /\ r # "panic"
     /\ r = "ok" =>
          /\ o.limit = SMin(d.limit, MaxSegs) /\ o.maxsize = SMin(d.maxsize, Big)                    \* D1
          /\ \/ o.count = FileTop(Loadable(of))                                                      \* D2
             \/ "FX01f" \in D /\ op = "write" /\ o.count = d.opened
     /\ op = "write" =>
          /\ \A i \in DOMAIN fl : i \in DOMAIN of /\ of[i] >= fl[i]
          /\ \/ /\ \A i \in changed : of[i] <= d.maxsize                                           \* D3
                /\ \A i \in created : i < SMin(d.limit, MaxSegs)
             \/ "FX01e" \in D /\ r = "ok"
          /\ \/ \A i \in created : HeaderOK(o.heads[i])                                              \* D4
             \/ "FX01g" \in D /\ r = "ok"
     /\ op # "write" => of = fl
=============================================================================
