----------------------------- MODULE Residency -----------------------------
(***************************************************************************)
(* Property C05, part 2: the residency database                            *)
(* (cascette-client-storage::kmt::key_state::ResidencyDb behind            *)
(* container::residency::ResidencyContainer) is a persistent map from      *)
(* 16-byte keys to their latest mark.                                      *)
(*                                                                         *)
(* PROPERTY LEVEL (RStep).  State:                                         *)
(*   st    key -> "R" (marked resident) | "S" (a span marked non-resident) *)
(*                | "N" (marked non-resident / deleted); unmarked keys are *)
(*                not in the domain                                        *)
(*   disk  what the last flush of a writable container saved               *)
(*   ro    the container was opened read-only: every mutation is refused   *)
(*         with an error and changes nothing                               *)
(* A key is reported resident (is_resident, Container::query, scan_keys)   *)
(* exactly when its latest mark is "R", also after flush + reopen.         *)
(* resident_count is the number of tracked keys ("R" or "S"), as the       *)
(* repository's own test test_span_non_resident fixes it.  delete_keys     *)
(* has the same meaning on both of its code paths (<= / > 10 000 keys).    *)
(*                                                                         *)
(* CODE LEVEL (operators Cxxx): one entry per key updated in place, the    *)
(* MurmurHash3 fast-path filter (a set of 8-byte-prefix groups that is     *)
(* only rebuilt by the batch delete and by load), the two delete paths,    *)
(* the dirty flag.  MC_Residency checks that every step is accepted by     *)
(* RStep and prints every operation sequence as a program.                 *)
(***************************************************************************)
EXTENDS Naturals, Sequences, FiniteSets, TLC

NoMap == <<>>
RPut(m, k, v) == [x \in DOMAIN m \cup {k} |-> IF x = k THEN v ELSE m[x]]
SeqSet(q)     == {q[i] : i \in 1..Len(q)}
TF(b)         == IF b THEN "true" ELSE "false"

(***************************************************************************)
(* Property level                                                          *)
(***************************************************************************)
R0 == [st |-> NoMap, disk |-> NoMap, ro |-> FALSE]

Resident(st) == {k \in DOMAIN st : st[k] = "R"}
Tracked(st)  == {k \in DOMAIN st : st[k] \in {"R", "S"}}

RObsOK(st, names, o) ==
  /\ DOMAIN o.res = names /\ DOMAIN o.q = names
  /\ \A k \in names : o.res[k] = (k \in Resident(st)) /\ o.q[k] = TF(k \in Resident(st))
  /\ SeqSet(o.scan) = Resident(st)
  /\ Len(o.scan) = Cardinality(Resident(st))
  /\ o.nscan = Cardinality(Resident(st))
  /\ o.count = Cardinality(Tracked(st))
  /\ o.padres = 0

MarkOf(op) == CASE op = "mark" -> "R" [] op = "span" -> "S" [] OTHER -> "N"

RExpect(r, e) ==
  CASE e.op \in {"mark", "unmark", "span", "cremove"} ->
         IF r.ro THEN [st |-> r, rok |-> e.res = "err"]
         ELSE [st |-> [r EXCEPT !.st = RPut(@, e.k, MarkOf(e.op))], rok |-> e.res = "ok"]
    [] e.op = "delete" ->
         IF r.ro THEN [st |-> r, rok |-> e.res = "err"]
         ELSE [st |-> [r EXCEPT !.st = [k \in DOMAIN r.st \cup SeqSet(e.ks) |-> IF k \in SeqSet(e.ks) THEN "N" ELSE r.st[k]]],
               rok |-> e.res = "ok"]
    [] e.op = "save" ->
         [st |-> IF r.ro THEN r ELSE [r EXCEPT !.disk = r.st], rok |-> e.res = "ok"]
    [] e.op = "reload" ->
         [st |-> [r EXCEPT !.st = r.disk, !.ro = e.ro], rok |-> e.res = "ok"]
    [] OTHER -> [st |-> r, rok |-> FALSE]

\* observable content of a map: "N" and "never marked" cannot be told apart
Norm(st) == [k \in Tracked(st) |-> st[k]]

RStep(r, names, e) ==
  LET x == RExpect(r, e)
  IN [st |-> x.st, ok |-> x.rok /\ RObsOK(x.st.st, names, e.obs)]

\* after an unexplained event: take residency from the log, keep "S" where the log cannot show it
RResync(r, names, e) ==
  IF DOMAIN e.obs.res = names
  THEN [r EXCEPT !.st = [k \in names |-> IF e.obs.res[k] THEN "R" ELSE IF k \in DOMAIN r.st /\ r.st[k] = "S" THEN "S" ELSE "N"]]
  ELSE r

(***************************************************************************)
(* Code level                                                              *)
(***************************************************************************)
C0 == [ent |-> NoMap, hidx |-> {}, disk |-> NoMap, dirty |-> FALSE, ro |-> FALSE]

CLive(t)        == t \in {"set", "span"}
CLiveKeys(ent)  == {k \in DOMAIN ent : CLive(ent[k])}
CIsRes(c, grp, k) == grp[k] \in c.hidx /\ k \in DOMAIN c.ent /\ c.ent[k] = "set"
CInsert(c, grp, k, t) == [c EXCEPT !.ent = RPut(@, k, t), !.hidx = @ \cup {grp[k]}, !.dirty = TRUE]

RECURSIVE CInsertAll(_, _, _, _, _)
CInsertAll(c, grp, q, i, t) == IF i > Len(q) THEN c ELSE CInsertAll(CInsert(c, grp, q[i], t), grp, q, i + 1, t)

CBatchDelete(c, grp, ks) ==
  LET e2 == [k \in DOMAIN c.ent |-> IF k \in ks THEN "del" ELSE c.ent[k]]
  IN [c EXCEPT !.ent = e2, !.hidx = {grp[k] : k \in CLiveKeys(e2)}, !.dirty = TRUE]

RECURSIVE SetSeq(_)
SetSeq(S) == IF S = {} THEN <<>> ELSE LET x == CHOOSE y \in S : TRUE IN <<x>> \o SetSeq(S \ {x})

CObs(c, grp, names) ==
  LET rs == {k \in names : CIsRes(c, grp, k)}
      sc == {k \in DOMAIN c.ent : c.ent[k] = "set"}       \* scan_keys does not use the filter
  IN [res |-> [k \in names |-> k \in rs], q |-> [k \in names |-> TF(k \in rs)],
      scan |-> SetSeq(sc), nscan |-> Cardinality(sc), count |-> Cardinality(CLiveKeys(c.ent)), padres |-> 0]

TypeOf(op) == CASE op = "mark" -> "set" [] op = "span" -> "span" [] OTHER -> "del"

\* [st |-> next code state, res |-> result string]
CApply(c, grp, o, threshold) ==
  CASE o.op \in {"mark", "unmark", "span", "cremove"} ->
         IF c.ro THEN [st |-> c, res |-> "err"] ELSE [st |-> CInsert(c, grp, o.k, TypeOf(o.op)), res |-> "ok"]
    [] o.op = "delete" ->
         IF c.ro THEN [st |-> c, res |-> "err"]
         ELSE IF Len(o.ks) + o.pad > threshold THEN [st |-> CBatchDelete(c, grp, SeqSet(o.ks)), res |-> "ok"]
         ELSE [st |-> CInsertAll(c, grp, o.ks, 1, "del"), res |-> "ok"]
    [] o.op = "save" ->
         [st |-> IF c.ro \/ ~c.dirty THEN c ELSE [c EXCEPT !.disk = c.ent, !.dirty = FALSE], res |-> "ok"]
    [] o.op = "reload" ->
         [st |-> [c EXCEPT !.ent = c.disk, !.hidx = {grp[k] : k \in CLiveKeys(c.disk)}, !.dirty = FALSE, !.ro = o.ro],
          res |-> "ok"]
=============================================================================
