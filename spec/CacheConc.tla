----------------------------- MODULE CacheConc -----------------------------
(***************************************************************************)
(* Code-shaped model of cascette-cache::MemoryCache under concurrent       *)
(* tasks (property C11).  One action per stretch of code between two       *)
(* scheduling points (`verif_hooks::sched_point` sites in memory_cache.rs, *)
(* feature verif-hooks): between two sites a task performs exactly one     *)
(* access to the shared map (DashMap operations are atomic per key) or one *)
(* group of counter updates.                                               *)
(*                                                                         *)
(* Used for two things:                                                    *)
(*  - TLC checks the design-level properties below on every interleaving   *)
(*    (Books at quiescence, NoLostPut);                                    *)
(*  - TLC enumerates *schedules* (binding G): the sequence of task ids     *)
(*    granted one step each.  drv_conc replays each schedule on the real   *)
(*    cache with a controller that parks every thread at its sched points. *)
(*    The recorded history is judged by Lin.tla, independently of this     *)
(*    model.                                                               *)
(*                                                                         *)
(* `Variant` selects the design: {} = the code as pinned (get/contains     *)
(* remove whatever is in the map after seeing an expired entry; clear      *)
(* zeroes the counters after emptying the map; put publishes before it     *)
(* counts).  The three fixes (F11a, F11c) are the elements of Variant; the *)
(* checks run with all three, the pinned design is kept to regenerate the  *)
(* counterexamples.  NeverNegative states why put must count first.        *)
(*                                                                         *)
(* The background cleanup task (MemoryCache::new_with_cleanup) is a task   *)
(* like the others; one "sweep" operation = one tick of its interval: it   *)
(* collects the keys of the expired entries, then for each of them removes *)
(* the entry if it is still expired (remove_if) and subtracts it from the  *)
(* counters.  Variant element "cleanup_live" is that design (F11g); without*)
(* it the task works on a private copy of the map, i.e. does nothing.      *)
(* SweepClean states what a tick is for.                                   *)
(***************************************************************************)
EXTENDS Integers, Sequences, FiniteSets, TLC

CONSTANTS Tasks,      \* e.g. {1, 2}
          Keys,       \* e.g. {1} (natural numbers)
          MaxOps,     \* operations per task (for entry identities)
          Variant,    \* set of fixes applied: subset of {"get_remove_if", "clear_accounting", "put_count_first"}
          MaxPre      \* bound on pre-emptions (context switches away from a task that could continue)

None == [none |-> TRUE]

VARIABLES prog,    \* task -> sequence of operations [op, k]
          ip,      \* task -> index of the current operation
          pc,      \* task -> label: "start" or the sched-point site the task is parked at
          loc,     \* task -> local scratch of the operation in flight
          map,     \* key -> None | [id, size, exp]
          cnt, mem,\* the two atomic counters (entry_count, memory_usage)
          last, pre,
          sched    \* history: the schedule so far: <<task, site it parks at afterwards ("start" = operation finished)>>

vars == <<prog, ip, pc, loc, map, cnt, mem, last, pre, sched>>

Cur(t)     == prog[t][ip[t]]
Running(t) == ip[t] <= Len(prog[t])
AllDone    == \A t \in Tasks : ~Running(t)

Finish(t) == /\ ip'  = [ip  EXCEPT ![t] = @ + 1]
             /\ pc'  = [pc  EXCEPT ![t] = "start"]
             /\ loc' = [loc EXCEPT ![t] = None]
Park(t, site) == pc' = [pc EXCEPT ![t] = site] /\ ip' = ip

\* identity of the value written by operation i of task t (ids 1..|Keys| are the initial entries);
\* its size is a distinct power of two so that a sum of sizes identifies its terms
OpId(t, i) == Cardinality(Keys) + (t - 1) * MaxOps + i
SizeOf(id) == 2 ^ (id - 1)

\* ---- get / contains (identical shape; different site labels) -------------
Look(t, pfx) ==
  /\ pc[t] = "start" /\ Cur(t).op = pfx
  /\ LET e == map[Cur(t).k] IN
     IF e = None \/ ~e.exp
     THEN Finish(t) /\ UNCHANGED <<map, cnt, mem>>
     ELSE /\ Park(t, "mem." \o pfx \o ".expired") /\ loc' = [loc EXCEPT ![t] = e]
          /\ UNCHANGED <<map, cnt, mem>>
LookRemove(t, pfx) ==
  /\ pc[t] = "mem." \o pfx \o ".expired"
  /\ LET e == map[Cur(t).k]
         \* fixed code: remove_if(still expired) - possibly a newer expired entry; pinned code: whatever is there
         hit == IF "get_remove_if" \in Variant THEN e # None /\ e.exp ELSE e # None
     IN IF hit
        THEN /\ map' = [map EXCEPT ![Cur(t).k] = None]
             /\ loc' = [loc EXCEPT ![t] = IF "get_remove_if" \in Variant THEN e ELSE loc[t]]
             /\ Park(t, "mem." \o pfx \o ".removed") /\ UNCHANGED <<cnt, mem>>
        ELSE Finish(t) /\ UNCHANGED <<map, cnt, mem>>
LookAccount(t, pfx) ==
  /\ pc[t] = "mem." \o pfx \o ".removed"
  /\ cnt' = cnt - 1 /\ mem' = mem - loc[t].size
  /\ Finish(t) /\ UNCHANGED <<map>>

\* ---- put / put_exp ---------------------------------------------------------
\* Variant "put_count_first" (current code): count the entry, then publish it, then subtract a replaced one.
\* Without it (pinned code): publish, then either add (new key) or adjust by the size difference (replacement).
NewEntry(t) == [id |-> OpId(t, ip[t]), size |-> SizeOf(OpId(t, ip[t])), exp |-> Cur(t).op = "put_exp"]
PutStart(t) ==
  /\ pc[t] = "start" /\ Cur(t).op \in {"put", "put_exp"}
  \* needs_eviction()/perform_eviction(): limits are large in this model
  /\ Park(t, "mem.put.before_insert") /\ UNCHANGED <<loc, map, cnt, mem>>
PutCount(t) ==
  /\ "put_count_first" \in Variant /\ pc[t] = "mem.put.before_insert"
  /\ cnt' = cnt + 1 /\ mem' = mem + NewEntry(t).size
  /\ Park(t, "mem.put.counted") /\ UNCHANGED <<loc, map>>
PutInsert(t) ==
  /\ pc[t] = (IF "put_count_first" \in Variant THEN "mem.put.counted" ELSE "mem.put.before_insert")
  /\ LET old == map[Cur(t).k] new == NewEntry(t)
     IN /\ map' = [map EXCEPT ![Cur(t).k] = new]
        /\ UNCHANGED <<cnt, mem>>
        /\ IF "put_count_first" \in Variant /\ old = None
           THEN Finish(t)
           ELSE /\ loc' = [loc EXCEPT ![t] = [old |-> old, new |-> new]]
                /\ Park(t, IF old = None THEN "mem.put.inserted" ELSE "mem.put.replaced")
PutAccount(t) ==
  /\ pc[t] \in {"mem.put.inserted", "mem.put.replaced"}
  /\ IF "put_count_first" \in Variant
     THEN cnt' = cnt - 1 /\ mem' = mem - loc[t].old.size
     ELSE IF pc[t] = "mem.put.replaced"
          THEN mem' = mem + loc[t].new.size - loc[t].old.size /\ cnt' = cnt
          ELSE cnt' = cnt + 1 /\ mem' = mem + loc[t].new.size
  /\ Finish(t) /\ UNCHANGED map

\* ---- remove ----------------------------------------------------------------
RemStart(t) ==
  /\ pc[t] = "start" /\ Cur(t).op = "remove"
  /\ LET e == map[Cur(t).k] IN
     IF e = None THEN Finish(t) /\ UNCHANGED <<map, cnt, mem>>
     ELSE /\ map' = [map EXCEPT ![Cur(t).k] = None] /\ loc' = [loc EXCEPT ![t] = e]
          /\ Park(t, "mem.remove.removed") /\ UNCHANGED <<cnt, mem>>
RemAccount(t) ==
  /\ pc[t] = "mem.remove.removed"
  /\ cnt' = cnt - 1 /\ mem' = mem - loc[t].size
  /\ Finish(t) /\ UNCHANGED <<map>>

\* ---- clear -----------------------------------------------------------------
RECURSIVE SumSizes(_, _)
SumSizes(m, S) == IF S = {} THEN 0 ELSE LET k == CHOOSE x \in S : TRUE IN m[k].size + SumSizes(m, S \ {k})
Live(m) == {k \in Keys : m[k] # None}

ClearStart(t) ==
  /\ pc[t] = "start" /\ Cur(t).op = "clear"
  /\ map' = [k \in Keys |-> None]
  /\ loc' = [loc EXCEPT ![t] = [n |-> Cardinality(Live(map)), bytes |-> SumSizes(map, Live(map))]]
  /\ Park(t, "mem.clear.cleared") /\ UNCHANGED <<cnt, mem>>
ClearAccount(t) ==
  /\ pc[t] = "mem.clear.cleared"
  /\ IF "clear_accounting" \in Variant
     THEN cnt' = cnt - loc[t].n /\ mem' = mem - loc[t].bytes
     ELSE cnt' = 0 /\ mem' = 0
  /\ Finish(t) /\ UNCHANGED <<map>>

\* ---- sweep: one tick of the background cleanup task ---------------------------
Expired(m) == {k \in Keys : m[k] # None /\ m[k].exp}
SweepCollect(t) ==
  /\ pc[t] = "start" /\ Cur(t).op = "sweep"
  /\ IF "cleanup_live" \notin Variant \/ Expired(map) = {}
     THEN Finish(t) /\ UNCHANGED <<map, cnt, mem>>
     ELSE /\ loc' = [loc EXCEPT ![t] = [todo |-> Expired(map)]]
          /\ Park(t, "mem.cleanup.next") /\ UNCHANGED <<map, cnt, mem>>
\* the keys were collected in the map's iteration order, which the model does not know: any order
SweepTry(t) ==
  /\ pc[t] = "mem.cleanup.next"
  /\ \E k \in loc[t].todo :
       LET rest == loc[t].todo \ {k} IN
       IF map[k] # None /\ map[k].exp
       THEN /\ map' = [map EXCEPT ![k] = None]
            /\ loc' = [loc EXCEPT ![t] = [todo |-> rest, e |-> map[k]]]
            /\ Park(t, "mem.cleanup.removed") /\ UNCHANGED <<cnt, mem>>
       ELSE /\ UNCHANGED <<map, cnt, mem>>
            /\ IF rest = {} THEN Finish(t)
               ELSE loc' = [loc EXCEPT ![t] = [todo |-> rest]] /\ Park(t, "mem.cleanup.next")
SweepAccount(t) ==
  /\ pc[t] = "mem.cleanup.removed"
  /\ cnt' = cnt - 1 /\ mem' = mem - loc[t].e.size
  /\ UNCHANGED map
  /\ IF loc[t].todo = {} THEN Finish(t)
     ELSE loc' = [loc EXCEPT ![t] = [todo |-> loc[t].todo]] /\ Park(t, "mem.cleanup.next")

\* ---- size: reads the entry counter ---------------------------------------------
Size(t) ==
  /\ pc[t] = "start" /\ Cur(t).op = "size"
  /\ Finish(t) /\ UNCHANGED <<map, cnt, mem>>

Step(t) ==
  /\ Running(t)
  /\ \/ SweepCollect(t) \/ SweepTry(t) \/ SweepAccount(t) \/ Size(t)
     \/ Look(t, "get") \/ LookRemove(t, "get") \/ LookAccount(t, "get")
     \/ Look(t, "contains") \/ LookRemove(t, "contains") \/ LookAccount(t, "contains")
     \/ PutStart(t) \/ PutCount(t) \/ PutInsert(t) \/ PutAccount(t)
     \/ RemStart(t) \/ RemAccount(t)
     \/ ClearStart(t) \/ ClearAccount(t)
  /\ UNCHANGED prog
  /\ last' = t
  /\ pre' = IF last # 0 /\ last # t /\ Running(last) THEN pre + 1 ELSE pre
  /\ sched' = Append(sched, <<t, pc'[t]>>)

Next == \E t \in Tasks : Step(t)

\* ---- design-level properties ------------------------------------------------
\* the books balance once every task has finished
Books == AllDone => (cnt = Cardinality(Live(map)) /\ mem = SumSizes(map, Live(map)))
\* a live (non-expiring) entry is only ever removed by remove/clear/overwrite, never by a reader
NoLostPut ==
  [][\A k \in Keys : (map[k] # None /\ ~map[k].exp /\ map'[k] # map[k])
        => \E t \in Tasks : Running(t) /\ Cur(t).op \in {"remove", "clear", "put", "put_exp"} /\ pc'[t] # pc[t]]_vars
\* the counters never dip below zero (an AtomicUsize would wrap and make every put evict)
NeverNegative == cnt >= 0 /\ mem >= 0
\* a tick of the cleanup task that runs undisturbed leaves no expired entry behind
SweepClean == (AllDone /\ \A t \in Tasks : \A i \in 1..Len(prog[t]) : prog[t][i].op = "sweep") => Expired(map) = {}
PreBound == pre <= MaxPre
=============================================================================
