------------------------------- MODULE Cache -------------------------------
(***************************************************************************)
(* Property-level specification of a single cache layer                    *)
(* (cascette-cache: MemoryCache / DiskCache behind the AsyncCache trait),  *)
(* property C10: "a cache is a bounded map: latest value or nothing,       *)
(* never over its limits".                                                 *)
(*                                                                         *)
(* PART 1 - functional core (no variables, no constants).  This is the     *)
(* sequential specification other checks reuse (C11 linearizability, C12   *)
(* multi-layer).  It is deliberately permissive: WHICH entry a cache       *)
(* evicts, and WHEN it collects an expired entry, is left open.            *)
(*                                                                         *)
(*   abstract state  s = [latest, clock]                                   *)
(*     latest : key -> [h, n, ttl, t, soft]  the most recent successful    *)
(*              put per key since the last remove/clear of that key        *)
(*              (h = identity of the bytes, n = their length, ttl = TTL    *)
(*              class, t = clock value at the put, soft = a later put of   *)
(*              the key reported an error)                                 *)
(*     clock  : number of Ticks so far.  Time is logical: a "long" TTL     *)
(*              (1 h) never ends during a run; a "short" TTL (2 ms) MAY    *)
(*              have ended at any moment after the put and HAS ended once  *)
(*              a Tick (sleep of 5 x TTL) has happened after the put.      *)
(*              The boundary values of the TTL domain are classes of their *)
(*              own: "zero" (Duration::ZERO) has ended the moment the put  *)
(*              returns - the value is never served; "ns" (1 ns) is judged *)
(*              like "short" (no clock is assumed to have advanced between *)
(*              two calls); "max" (Duration::MAX) never ends, like "long". *)
(*              No TTL value may make a call panic (PutOk).                *)
(*   configuration   cfg = [kind, policy, maxe, maxb, dttl, ...]           *)
(*     kind "mem"|"disk"; policy "lru"|"lfu"|"fifo"|"random"|"ttl";        *)
(*     maxe = max_entries / max_files; maxb = byte budget, 0 = none;       *)
(*     dttl = class of the default TTL ("none": built-in, counts as long)  *)
(*                                                                         *)
(* Per operation: XxxR(s, ...) is the next abstract state (a function of   *)
(* the operation's inputs only) and XxxOk(s, cfg, ..., r) says whether the *)
(* result r is one the property allows in state s.  Results are records:   *)
(*   get      [hit |-> FALSE] | [hit |-> TRUE, n |-> len, h |-> identity]  *)
(*   contains / remove   [b |-> BOOLEAN]                                   *)
(*   put / put_ttl / clear / tick / restart   [ok |-> TRUE]                *)
(*   probe    [vals |-> [key |-> get result]]   (one get per key)          *)
(*   anything else ([err |-> ..], [outcome |-> "panic"]) is a failure.     *)
(* Apply(s, cfg, e) / ResOk(s, cfg, e) dispatch on an operation record e   *)
(* with fields op, k, n, vh, ttl, res as logged by harness/drv_cache.      *)
(*                                                                         *)
(* PART 2 - the observable books (size(), stats()) as predicates.          *)
(* PART 3 - a state machine over the core: the IDEAL bounded cache with    *)
(* unconstrained eviction, and the AS-IS variant shaped like the code with *)
(* the defects of chosen findings switched on; used by MC_Cache only.      *)
(***************************************************************************)
EXTENDS Naturals, Sequences, FiniteSets

\* ======================= PART 1: functional core =========================
FnWith(f, k, v)  == [x \in DOMAIN f \cup {k} |-> IF x = k THEN v ELSE f[x]]
FnWithout(f, k)  == [x \in DOMAIN f \ {k} |-> f[x]]
EmptyFn          == [x \in {} |-> x]

RECURSIVE SumOver(_, _)
SumOver(f, S) == IF S = {} THEN 0
                 ELSE LET x == CHOOSE y \in S : TRUE IN f[x] + SumOver(f, S \ {x})

C0 == [latest |-> EmptyFn, clock |-> 0]

Has(s, k)      == k \in DOMAIN s.latest
\* the TTL of k's latest value has certainly ended / may or may not have ended
TtlNever   == {"long", "max"}     \* never ends during a run
TtlBrief   == {"short", "ns"}     \* ended for certain only after the next Tick
TtlClasses == TtlNever \cup TtlBrief \cup {"zero"}
EndedEnt(ent, clock)   == ent.ttl = "zero" \/ (ent.ttl \in TtlBrief /\ ent.t < clock)
UnsureEnt(ent, clock)  == ent.ttl \in TtlBrief /\ ent.t = clock
Expired(s, k)  == Has(s, k) /\ EndedEnt(s.latest[k], s.clock)
MaybeExp(s, k) == Has(s, k) /\ UnsureEnt(s.latest[k], s.clock)
\* a positive answer about k (a value, or contains = TRUE) is possible
MayHit(s, k)   == Has(s, k) /\ ~Expired(s, k)
\* the disk cache does not evict (its limits are configured far above the
\* population): a value whose TTL has not ended stays retrievable, also by a
\* new instance on the same directory.  The memory cache may always miss.
MustHit(s, cfg, k) ==
  /\ cfg.kind = "disk" /\ Has(s, k)
  /\ s.latest[k].ttl \in TtlNever /\ ~s.latest[k].soft

IsFailure(r) == "err" \in DOMAIN r \/ "outcome" \in DOMAIN r
NoHit        == [hit |-> FALSE]
HitOf(ent)   == [hit |-> TRUE, n |-> ent.n, h |-> ent.h]
IsHit(r)     == "hit" \in DOMAIN r /\ r.hit

\* class of the TTL a plain put() uses: the configured default_ttl ("none": the built-in 1 h / 24 h)
DefaultClass(cfg) == IF cfg.dttl \in TtlClasses THEN cfg.dttl ELSE "long"

\* ---- put / put_with_ttl: a successful put defines the latest value -------
PutR(s, k, h, n, ttl) ==
  [s EXCEPT !.latest = FnWith(s.latest, k, [h |-> h, n |-> n, ttl |-> ttl, t |-> s.clock, soft |-> FALSE])]
\* a put that reported an error defines nothing; what it left behind for the
\* key is not specified, so the key is no longer required to be retrievable
PutFailR(s, k) ==
  IF Has(s, k) THEN [s EXCEPT !.latest[k].soft = TRUE] ELSE s
PutOk(s, cfg, k, r) == ~("outcome" \in DOMAIN r)   \* ok or a reported error; never a panic

\* ---- get: the latest value or nothing -----------------------------------
GetR(s, k) == s
GetOk(s, cfg, k, r) ==
  /\ ~IsFailure(r)
  /\ "hit" \in DOMAIN r
  /\ IF r.hit THEN MayHit(s, k) /\ r = HitOf(s.latest[k])
              ELSE ~MustHit(s, cfg, k)

\* ---- contains: TRUE only for a key a get could still answer ---------------
ContainsR(s, k) == s
ContainsOk(s, cfg, k, r) ==
  /\ ~IsFailure(r) /\ "b" \in DOMAIN r
  /\ r.b => MayHit(s, k)

\* ---- remove: afterwards the key has no value; TRUE only if it had one -----
RemoveR(s, k) == [s EXCEPT !.latest = FnWithout(s.latest, k)]
RemoveOk(s, cfg, k, r) ==
  /\ ~IsFailure(r) /\ "b" \in DOMAIN r
  /\ r.b => Has(s, k)       \* an expired, not yet collected entry may still count as "was present"

ClearR(s)   == [s EXCEPT !.latest = EmptyFn]
TickR(s)    == [s EXCEPT !.clock = s.clock + 1]
RestartR(s) == s            \* a new instance on the same directory: same contents, same TTLs
UnitOk(r)   == ~IsFailure(r)

\* ---- probe: one get per key of the universe --------------------------------
ProbeOk(s, cfg, r) ==
  /\ ~IsFailure(r) /\ "vals" \in DOMAIN r
  /\ \A k \in DOMAIN r.vals : GetOk(s, cfg, k, r.vals[k])

\* ---- dispatch on a logged operation ----------------------------------------
IsPut(e)       == e.op \in {"put", "put_ttl"}
ClassOf(cfg, e) == IF e.op = "put_ttl" THEN e.ttl ELSE DefaultClass(cfg)

Apply(s, cfg, e) ==
  CASE IsPut(e)          -> IF IsFailure(e.res) THEN PutFailR(s, e.k)
                            ELSE PutR(s, e.k, e.vh, e.n, ClassOf(cfg, e))
    [] e.op = "get"      -> GetR(s, e.k)
    [] e.op = "contains" -> ContainsR(s, e.k)
    \* (a remove / clear that reported a failure is a violation by itself and defines nothing)
    [] e.op = "remove"   -> IF IsFailure(e.res) THEN s ELSE RemoveR(s, e.k)
    [] e.op = "clear"    -> IF IsFailure(e.res) THEN s ELSE ClearR(s)
    [] e.op = "tick"     -> TickR(s)
    [] e.op = "restart"  -> RestartR(s)
    [] e.op = "probe"    -> s
    [] OTHER             -> s

ResOk(s, cfg, e) ==
  CASE IsPut(e)          -> PutOk(s, cfg, e.k, e.res)
    [] e.op = "get"      -> GetOk(s, cfg, e.k, e.res)
    [] e.op = "contains" -> ContainsOk(s, cfg, e.k, e.res)
    [] e.op = "remove"   -> RemoveOk(s, cfg, e.k, e.res)
    [] e.op = "probe"    -> ProbeOk(s, cfg, e.res)
    [] e.op \in {"clear", "tick", "restart"} -> UnitOk(e.res)
    [] OTHER             -> FALSE

\* ======================= PART 2: the books ================================
\* An observation o = [cnt |-> size(), n |-> stats.entry_count, mem |-> stats.memory_usage_bytes].
\* The limits bind the in-memory cache under the count/size-driven policies.
LimitsApply(cfg) == cfg.kind = "mem" /\ cfg.policy \in {"lru", "lfu", "fifo", "random"}
EntryBound(cfg, o) == LimitsApply(cfg) => o.cnt <= cfg.maxe /\ o.n <= cfg.maxe
ByteBound(cfg, o)  == LimitsApply(cfg) /\ cfg.maxb > 0 => o.mem <= cfg.maxb
\* At a quiescent point (every key has just been probed once, so lazy expiry
\* has run) the reported figures equal what was actually retrievable.
HitKeys(vals)   == {k \in DOMAIN vals : IsHit(vals[k])}
BooksOk(vals, o) ==
  LET hk == HitKeys(vals) IN
  /\ o.cnt = Cardinality(hk) /\ o.n = Cardinality(hk)
  /\ o.mem = SumOver([k \in hk |-> vals[k].n], hk)

\* ======================= PART 3: cache machines (used by MC_Cache) ==========
\* A cache over the core, as a record  m = [s, store, idx, noexp]:
\*   s      the abstract state of PART 1 (what the user did)
\*   store  key -> entry physically held (memory map / files on disk)
\*   idx    keys the in-memory index knows (disk cache; = DOMAIN store for memory)
\*   noexp  indexed keys whose expiry time the index does not know
\* XxxStep(m, cfg, e, U) is the SET of possible outcomes [m |-> m', res |-> r]
\* of operation e (U = key universe of a probe).  IdealStep: any eviction that
\* makes the limits hold, lazy or eager expiry.  AsIsStep: shaped like the
\* code (evict-before-insert, disk index rebuilt lazily after a restart), with
\* the defects of the listed findings (F10a-F10d) switched on one by one.
M0 == [s |-> C0, store |-> EmptyFn, idx |-> {}, noexp |-> {}]
WithRes(e, r) == [x \in DOMAIN e \cup {"res"} |-> IF x = "res" THEN r ELSE e[x]]
Okay == [ok |-> TRUE]
Held(m) == DOMAIN m.store
EntOf(s, k) == s.latest[k]
Restrict(f, S) == [x \in S |-> f[x]]
ExpiredEnt(ent, clock) == EndedEnt(ent, clock)
MaybeEnt(ent, clock)   == UnsureEnt(ent, clock)
SizeOf(m, H) == SumOver([k \in H |-> m.store[k].n], H)
Fits(cfg, m, H) ==
  LimitsApply(cfg) => Cardinality(H) <= cfg.maxe /\ (cfg.maxb > 0 => SizeOf(m, H) <= cfg.maxb)

\* ---- the ideal cache ------------------------------------------------------
IdealSync(m, st) == [m EXCEPT !.store = st, !.idx = DOMAIN st, !.noexp = {}]
IdealPut(m, cfg, e) ==
  LET s1  == PutR(m.s, e.k, e.vh, e.n, ClassOf(cfg, e))
      st1 == FnWith(m.store, e.k, s1.latest[e.k])
      m1  == [m EXCEPT !.s = s1, !.store = st1]
      must == {k \in DOMAIN st1 : MustHit(s1, cfg, k)}
  IN {[m |-> IdealSync(m1, Restrict(st1, H)), res |-> Okay] :
        H \in {G \in SUBSET (DOMAIN st1) : must \subseteq G /\ Fits(cfg, m1, G)}}
IdealLookup(m, k) ==      \* possible answers of the ideal cache about k: <<hit?, store'>>
  IF k \in Held(m) /\ ~ExpiredEnt(m.store[k], m.s.clock)
  THEN {<<TRUE, m.store>>} \cup (IF MaybeEnt(m.store[k], m.s.clock) THEN {<<FALSE, FnWithout(m.store, k)>>} ELSE {})
  ELSE {<<FALSE, FnWithout(m.store, k)>>}
IdealGet(m, cfg, e) ==
  {[m |-> IdealSync(m, a[2]), res |-> IF a[1] THEN HitOf(m.store[e.k]) ELSE NoHit] : a \in IdealLookup(m, e.k)}
IdealContains(m, cfg, e) ==
  {[m |-> IdealSync(m, a[2]), res |-> [b |-> a[1]]] : a \in IdealLookup(m, e.k)}
IdealRemove(m, cfg, e) ==
  {[m |-> IdealSync([m EXCEPT !.s = RemoveR(m.s, e.k)], FnWithout(m.store, e.k)), res |-> [b |-> e.k \in Held(m)]]}
IdealProbe(m, cfg, U) ==
  LET live  == {k \in Held(m) : ~ExpiredEnt(m.store[k], m.s.clock)}
      maybe == {k \in live : MaybeEnt(m.store[k], m.s.clock)}
  IN {[m |-> IdealSync(m, Restrict(m.store, live \ X)),
       res |-> [vals |-> [k \in U |-> IF k \in live \ X THEN HitOf(m.store[k]) ELSE NoHit]]] : X \in SUBSET maybe}
IdealStep(m, cfg, e, U) ==
  CASE IsPut(e)          -> IdealPut(m, cfg, e)
    [] e.op = "get"      -> IdealGet(m, cfg, e)
    [] e.op = "contains" -> IdealContains(m, cfg, e)
    [] e.op = "remove"   -> IdealRemove(m, cfg, e)
    [] e.op = "clear"    -> {[m |-> IdealSync([m EXCEPT !.s = ClearR(m.s)], EmptyFn), res |-> Okay]}
    [] e.op = "tick"     -> {[m |-> [m EXCEPT !.s = TickR(m.s)], res |-> Okay]}
    [] e.op = "restart"  -> {[m |-> m, res |-> Okay]}
    [] e.op = "probe"    -> IdealProbe(m, cfg, U)
IdealObs(m) == [cnt |-> Cardinality(Held(m)), n |-> Cardinality(Held(m)), mem |-> SizeOf(m, Held(m))]

\* ---- the cache shaped like the code ------------------------------------------
\* The memory cache evicts BEFORE inserting; the disk cache keeps one file per
\* key plus an index that starts empty in every instance and is filled lazily
\* (a get of an un-indexed key finds the file and indexes it).  F is the set of
\* known findings whose defect the machine reproduces:
\*   F10a/F10c  memory put: eviction only if count >= maxe or bytes >= maxb, and
\*              then exactly (count - floor(0.9 maxe)) entries whatever their
\*              size (policy "ttl": the expired ones); the incoming size is
\*              never looked at.  Without them: any eviction that makes room.
\*   F10b       the lazily indexed entry gets NO expiry time.  Without it: the
\*              expiry time is known to every instance.
\*   F10d       remove only looks at the index and leaves an un-indexed file.
\*              Without it: the file goes too.
\* With F = {} the machine satisfies the properties (checked by MC_Cache); with
\* a finding in F, TLC refutes them and prints the witness program.
KSubsets(S, n) == {X \in SUBSET S : Cardinality(X) = n}
AsIsMemPut(m, cfg, e) ==
  LET c == Cardinality(Held(m))
      b == SizeOf(m, Held(m))
      target == (cfg.maxe * 90) \div 100
      due == c >= cfg.maxe \/ (cfg.maxb > 0 /\ b >= cfg.maxb)
      nev == IF due /\ c > target THEN c - target ELSE 0
      exp == {k \in Held(m) : ExpiredEnt(m.store[k], m.s.clock)}
      mayb == {k \in Held(m) : MaybeEnt(m.store[k], m.s.clock)}
      victims == IF nev = 0 THEN {{}}
                 ELSE IF cfg.policy = "ttl" THEN {exp \cup X : X \in SUBSET mayb}
                 ELSE KSubsets(Held(m), nev)
      s1 == PutR(m.s, e.k, e.vh, e.n, ClassOf(cfg, e))
  IN {[m |-> LET st == FnWith(Restrict(m.store, Held(m) \ V), e.k, s1.latest[e.k])
             IN [s |-> s1, store |-> st, idx |-> DOMAIN st, noexp |-> {}],
       res |-> Okay] : V \in victims}
AsIsDiskPut(m, cfg, e) ==
  LET s1 == PutR(m.s, e.k, e.vh, e.n, ClassOf(cfg, e))
  IN {[m |-> [s |-> s1, store |-> FnWith(m.store, e.k, s1.latest[e.k]),
              idx |-> m.idx \cup {e.k}, noexp |-> m.noexp \ {e.k}], res |-> Okay]}
Forget(m, k) == [m EXCEPT !.store = FnWithout(m.store, k), !.idx = m.idx \ {k}, !.noexp = m.noexp \ {k}]
\* what the cache thinks of a held key: "live", "expired", or either
AsIsVerdicts(m, k) ==
  IF k \in m.noexp THEN {"live"}
  ELSE IF ExpiredEnt(m.store[k], m.s.clock) THEN {"expired"}
  ELSE IF MaybeEnt(m.store[k], m.s.clock) THEN {"live", "expired"} ELSE {"live"}
AsIsGet(m, cfg, e, F) ==
  LET k == e.k IN
  IF k \in m.idx THEN
    {IF v = "live" THEN [m |-> m, res |-> HitOf(m.store[k])] ELSE [m |-> Forget(m, k), res |-> NoHit] : v \in AsIsVerdicts(m, k)}
  ELSE IF cfg.kind = "disk" /\ k \in Held(m) THEN
    IF "F10b" \in F
    THEN {[m |-> [m EXCEPT !.idx = m.idx \cup {k}, !.noexp = m.noexp \cup {k}], res |-> HitOf(m.store[k])]}
    ELSE {IF v = "live" THEN [m |-> [m EXCEPT !.idx = m.idx \cup {k}], res |-> HitOf(m.store[k])]
          ELSE [m |-> Forget(m, k), res |-> NoHit] : v \in AsIsVerdicts(m, k)}
  ELSE {[m |-> m, res |-> NoHit]}
AsIsContains(m, cfg, e) ==
  LET k == e.k IN
  IF k \in m.idx THEN
    {IF v = "live" THEN [m |-> m, res |-> [b |-> TRUE]]
     ELSE [m |-> IF cfg.kind = "mem" THEN Forget(m, k) ELSE m, res |-> [b |-> FALSE]] : v \in AsIsVerdicts(m, k)}
  ELSE {[m |-> m, res |-> [b |-> FALSE]]}
AsIsRemove(m, cfg, e, F) ==
  LET m1 == [m EXCEPT !.s = RemoveR(m.s, e.k)] IN
  IF e.k \in m.idx THEN {[m |-> Forget(m1, e.k), res |-> [b |-> TRUE]]}
  ELSE IF "F10d" \in F \/ ~(e.k \in Held(m)) THEN {[m |-> m1, res |-> [b |-> FALSE]]}
  ELSE {[m |-> Forget(m1, e.k), res |-> [b |-> TRUE]]}
RECURSIVE AsIsProbeFrom(_, _, _, _, _)
AsIsProbeFrom(m, cfg, todo, vals, F) ==     \* gets in some fixed order; outcomes as a set of <<m', vals>>
  IF todo = {} THEN {<<m, vals>>}
  ELSE LET k == CHOOSE x \in todo : TRUE IN
       UNION {AsIsProbeFrom(x.m, cfg, todo \ {k}, FnWith(vals, k, x.res), F) : x \in AsIsGet(m, cfg, [op |-> "get", k |-> k], F)}
AsIsStep(m, cfg, e, U, F) ==
  CASE IsPut(e)          -> IF cfg.kind = "disk" THEN AsIsDiskPut(m, cfg, e)
                            ELSE IF F \cap {"F10a", "F10c"} # {} THEN AsIsMemPut(m, cfg, e) ELSE IdealPut(m, cfg, e)
    [] e.op = "get"      -> AsIsGet(m, cfg, e, F)
    [] e.op = "contains" -> AsIsContains(m, cfg, e)
    [] e.op = "remove"   -> AsIsRemove(m, cfg, e, F)
    [] e.op = "clear"    -> {[m |-> [s |-> ClearR(m.s), store |-> EmptyFn, idx |-> {}, noexp |-> {}], res |-> Okay]}
    [] e.op = "tick"     -> {[m |-> [m EXCEPT !.s = TickR(m.s)], res |-> Okay]}
    [] e.op = "restart"  -> {[m |-> [m EXCEPT !.idx = {}, !.noexp = {}], res |-> Okay]}
    [] e.op = "probe"    -> {[m |-> p[1], res |-> [vals |-> p[2]]] : p \in AsIsProbeFrom(m, cfg, U, EmptyFn, F)}
\* size(): the index count, or a count of the files when the index is empty
AsIsObs(m) ==
  [cnt |-> IF m.idx = {} THEN Cardinality(Held(m)) ELSE Cardinality(m.idx),
   n |-> Cardinality(m.idx), mem |-> SizeOf(m, m.idx)]
=============================================================================
