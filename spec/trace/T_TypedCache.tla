--------------------------- MODULE T_TypedCache ---------------------------
(***************************************************************************)
(* Trace monitor (binding T / E) for executions of the typed cache layer   *)
(* recorded by harness/src/bin/drv_typedcache.rs.  Total: every event is   *)
(* consumed.  A run starts with {"op":"new","kind":K,...}; K selects the   *)
(* judge (keys / met / blk / arc / res / inv, see TypedCache.tla PART K, S,*)
(* W, I).  Per event a judge returns the next monitor state (a function of *)
(* the recorded inputs and results only - nothing is resynchronised) and a *)
(* SET of classes, one per thing the event was judged on:                  *)
(*    "ok"     conforms to the property                                    *)
(*    "FX04x"  explained only by the listed known finding (precise guard)  *)
(*    "bad"    not explained: VIOLATION                                    *)
(* A finding is usable only if it is in the constant KnownDeviations.      *)
(***************************************************************************)
EXTENDS TypedCache, Json, IOUtils

CONSTANT KnownDeviations
Rec == ndJsonDeserialize(IOEnv.TRACE)

VARIABLES l, run, st, seq, viol, nviol, devs

Known(f) == f \in KnownDeviations
Has2(r, f) == f \in DOMAIN r
RECURSIVE SetToSeqT(_)
SetToSeqT(S) == IF S = {} THEN <<>> ELSE LET x == CHOOSE y \in S : TRUE IN <<x>> \o SetToSeqT(S \ {x})
Out(s1, c) == [st |-> s1, cls |-> c]
One(b)  == IF b THEN "ok" ELSE "bad"
Dflt(f, k, d) == IF k \in DOMAIN f THEN f[k] ELSE d

(***************************************************************************)
(* KEYS                                                                    *)
(* FX04a  as_cache_key() joins string fields with ':' unescaped: two keys  *)
(*        with different fields report the same string.  Guard: every      *)
(*        conflicting earlier observation has different fields, the same   *)
(*        string, and both field tuples concatenate (NameOf) to it.        *)
(* FX04b  the string is cached in a OnceLock while the fields are public:  *)
(*        an object whose field was assigned after the string was first    *)
(*        read still reports the old string.  Guard: the object's fields   *)
(*        differ from those it had when its string was first read, and the *)
(*        string is the one observed for those earlier fields.             *)
(* A cache keyed by the string (DiskCache) then aliases such keys: the     *)
(* keys involved are TAINTED for the rest of the run (their answers and    *)
(* the books are not judged; panics and hangs still are).  A cache keyed   *)
(* by Eq/Hash (MemoryCache) is never tainted.                              *)
(***************************************************************************)
K0 == [slots |-> EmptyFn, N |-> {}, HS |-> EmptyFn, HF |-> EmptyFn, s |-> C0, used |-> {}, taint |-> {},
       rg |-> 0, rh |-> 0]
KCfg == CoreCfg(TRUE, "none")

NameClass(N, kt, o, n) ==
  IF Conflicts(N, o.f, n) = {} THEN "ok"
  ELSE IF Known("FX04b") /\ StaleExplains(N, o, n) THEN "FX04b"
  ELSE IF Known("FX04a") /\ \A p \in Conflicts(N, o.f, n) : CollisionExplains(kt, p, o.f, n) THEN "FX04a"
  ELSE "bad"
AddName(N, o, n, c) == IF c \in {"ok", "FX04a"} THEN N \cup {[f |-> o.f, n |-> n]} ELSE N

\* one observation x = [s, name, disp, fh64, fh32, hk64, sh] folded into a = [slots, N, HS, HF, cls]
ObsOne(a, kt, x) ==
  IF ~(x.s \in DOMAIN a.slots) THEN [a EXCEPT !.cls = @ \cup {"bad"}]
  ELSE LET o    == Touch(a.slots[x.s])
           c    == NameClass(a.N, kt, o, x.name)
           shOk == (o.f \in DOMAIN a.HS) => a.HS[o.f] = x.sh
           fhOk == (c # "FX04b" /\ o.f \in DOMAIN a.HF) => a.HF[o.f] = <<x.fh64, x.fh32>>
           self == x.disp = x.name /\ x.fh64 = x.hk64
       IN [slots |-> FnWith(a.slots, x.s, o), N |-> AddName(a.N, o, x.name, c),
           HS |-> IF o.f \in DOMAIN a.HS THEN a.HS ELSE FnWith(a.HS, o.f, x.sh),
           HF |-> IF c = "FX04b" \/ o.f \in DOMAIN a.HF THEN a.HF ELSE FnWith(a.HF, o.f, <<x.fh64, x.fh32>>),
           cls |-> a.cls \cup {c, One(shOk /\ fhOk /\ self)}]
RECURSIVE ObsFold(_, _, _, _)
ObsFold(a, kt, q, i) == IF i > Len(q) THEN a ELSE ObsFold(ObsOne(a, kt, q[i]), kt, q, i + 1)
EqOk(slots, q) ==
  \A i \in 1..Len(q) : /\ q[i][1] \in DOMAIN slots /\ q[i][2] \in DOMAIN slots
                       /\ q[i][3] = (slots[q[i][1]].f = slots[q[i][2]].f)

\* one cache call with key object o (already touched), logged string n, core operation ee (k filled in)
\* folded into a = [N, s, used, taint, rg, rh, cls]
KeyCall(a, kt, back, o, n, op, e) ==
  LET k     == o.f
      c     == NameClass(a.N, kt, o, n)
      alias == {p.f : p \in {q \in a.N : q.n = n /\ q.f # k}} \cap a.used
      t1    == a.taint \cup (IF back = "disk" /\ c = "FX04b" THEN {k, o.nf} ELSE {})
                       \cup (IF back = "disk" /\ alias # {} THEN {k} \cup alias ELSE {})
      ee    == IF op = "put" THEN [op |-> "put", k |-> k, n |-> e.n, vh |-> e.vh, res |-> e.res]
               ELSE [op |-> op, k |-> k, res |-> e.res]
      rc    == IF "outcome" \in DOMAIN e.res THEN "bad"
               ELSE IF k \in t1 THEN "ok"       \* tainted: also a reported error (the alias removed the file) is the same defect
               ELSE One(ResOk(a.s, KCfg, ee))
  IN [N |-> AddName(a.N, o, n, c), s |-> Apply(a.s, KCfg, ee), used |-> a.used \cup {k}, taint |-> t1,
      rg |-> a.rg + (IF op = "get" THEN 1 ELSE 0), rh |-> a.rh + (IF op = "get" /\ IsHit(e.res) THEN 1 ELSE 0),
      cls |-> a.cls \cup {c, rc}]
RECURSIVE ProbeFold(_, _, _, _, _, _)
ProbeFold(a, kt, back, keys, r, i) ==
  IF i > Len(keys) THEN a
  ELSE ProbeFold(KeyCall(a, kt, back, Touch(MkObj(keys[i])), r.names[i], "get", [res |-> r.vals[i]]), kt, back, keys, r, i + 1)
CountersOk(e, rg, rh) ==
  /\ Has2(e, "st") /\ e.st.gets = rg /\ e.st.hits = rh /\ e.st.miss = rg - rh

JudgeKeys(s0, cfg, e) ==
  LET kt == cfg.kt  back == cfg.back IN
  CASE e.op = "mk"    -> Out([s0 EXCEPT !.slots = FnWith(@, e.s, MkObj(e.f))], {One(IsOkUnit(e.res))})
    [] e.op = "set"   -> IF e.s \in DOMAIN s0.slots /\ IsOkUnit(e.res)
                         THEN Out([s0 EXCEPT !.slots = FnWith(@, e.s, SetField(s0.slots[e.s], e.i, e.v))], {"ok"})
                         ELSE Out(s0, {"bad"})
    [] e.op = "clone" -> IF e.s \in DOMAIN s0.slots /\ IsOkUnit(e.res)
                         THEN Out([s0 EXCEPT !.slots = FnWith(@, e.t, s0.slots[e.s])], {"ok"})
                         ELSE Out(s0, {"bad"})
    [] e.op = "obs"   -> IF ~Has2(e.res, "o") THEN Out(s0, {"bad"})
                         ELSE LET a == ObsFold([slots |-> s0.slots, N |-> s0.N, HS |-> s0.HS, HF |-> s0.HF, cls |-> {}], kt, e.res.o, 1)
                              IN Out([s0 EXCEPT !.slots = a.slots, !.N = a.N, !.HS = a.HS, !.HF = a.HF],
                                     a.cls \cup {One(Len(e.res.o) = Cardinality(DOMAIN s0.slots) /\ EqOk(a.slots, e.res.eq))})
    [] e.op \in {"put", "get", "contains", "remove"} ->
         IF ~(e.s \in DOMAIN s0.slots) \/ ~Has2(e, "name") THEN Out(s0, {"bad"})
         ELSE LET o == Touch(s0.slots[e.s])
                  a == KeyCall([N |-> s0.N, s |-> s0.s, used |-> s0.used, taint |-> s0.taint, rg |-> s0.rg, rh |-> s0.rh, cls |-> {}],
                               kt, back, o, e.name, e.op, e)
              IN Out([s0 EXCEPT !.slots = FnWith(@, e.s, o), !.N = a.N, !.s = a.s, !.used = a.used, !.taint = a.taint,
                                !.rg = a.rg, !.rh = a.rh],
                     a.cls \cup {One(CountersOk(e, a.rg, a.rh))})
    [] e.op = "probe" ->
         IF ~Has2(e.res, "vals") \/ ~Has2(e, "st") \/ ~Has2(e, "cnt") THEN Out(s0, {"bad"})
         ELSE LET a == ProbeFold([N |-> s0.N, s |-> s0.s, used |-> s0.used, taint |-> s0.taint, rg |-> s0.rg, rh |-> s0.rh, cls |-> {}],
                                 kt, back, run.keys, e.res, 1)
                  vals == [i \in 1..Len(run.keys) |-> e.res.vals[i]]
                  books == a.taint # {} \/ BooksOk(vals, [cnt |-> e.cnt, n |-> e.st.n, mem |-> e.st.mem])
              IN Out([s0 EXCEPT !.N = a.N, !.s = a.s, !.used = a.used, !.taint = a.taint, !.rg = a.rg, !.rh = a.rh],
                     a.cls \cup {One(CountersOk(e, a.rg, a.rh)), One(books)})
    [] OTHER -> Out(s0, {"bad"})

(***************************************************************************)
(* MET                                                                     *)
(* FX04c  AtomicCacheMetrics::record_put panics ("attempt to add with      *)
(*        overflow") once the byte counter has wrapped below zero.  Guard: *)
(*        the panicking call is record_put(size) and the bytes recorded    *)
(*        since the last reset sum (in unbounded integers) to mem with     *)
(*        mem < 0 <= mem + size.  After a panic the counters are not       *)
(*        judged until the next reset.                                     *)
(***************************************************************************)
M0m == [c |-> R0, mi |-> 0, dead |-> FALSE]
JudgeMet(s0, e) ==
  LET c1 == MetR(s0.c, e)
      mi == CASE e.op = "mput" -> s0.mi + e.n
              [] e.op \in {"mrem", "mevi", "mexp"} -> s0.mi - e.n
              [] e.op = "mreset" -> 0
              [] OTHER -> s0.mi
  IN IF IsPanic(e.res) THEN
        Out([c |-> c1, mi |-> mi, dead |-> TRUE],
            {IF Known("FX04c") /\ e.op = "mput" /\ AsIsPutPanics(s0.mi, e.n) THEN "FX04c" ELSE "bad"})
     ELSE IF ~IsOkUnit(e.res) \/ ~Has2(e, "snap") \/ ~Has2(e, "fast") THEN Out([c |-> c1, mi |-> mi, dead |-> s0.dead], {"bad"})
     ELSE LET dead == s0.dead /\ e.op # "mreset" IN
          Out([c |-> c1, mi |-> mi, dead |-> dead],
              {One(dead \/ (CountsOk(c1, e.snap, e.fast) /\ BalanceOk(c1, e.snap, e.fast)))})

(***************************************************************************)
(* BLK - BlteBlockCache + ContentAddressedCache + CdnContentCache          *)
(* FX04e  the wrappers' metadata (cached_blocks / cached_ranges) is never  *)
(*        shortened when the inner cache evicts or expires an entry: the   *)
(*        lists and is_range_cached name entries that are gone, and        *)
(*        CacheFull is reported although fewer than the maximum are        *)
(*        cached.  Guard: the as-is list (units successfully put since it  *)
(*        was last dropped) explains the answer.                           *)
(* FX04h  evict_old_entries drops the metadata only: every block stays     *)
(*        retrievable and the per-content limit starts again.  Guard: an   *)
(*        evict_old_entries(0) happened earlier in the run and the as-is   *)
(*        inner cache (nothing removed) explains the answer.               *)
(* FX04j  ContentAddressedCache stores a content under the block key       *)
(*        (content, 0, raw): on a shared inner cache it and raw block 0    *)
(*        overwrite each other.  Guard: shared inner cache, key (c,0,raw), *)
(*        the as-is slot explains the answer.                              *)
(***************************************************************************)
Cm0 == [req |-> 0, ok |-> 0, fail |-> 0]
Vm0 == [tot |-> 0, ok |-> 0, bad |-> 0]
B0 == [sb |-> C0, sa |-> C0, sv |-> C0, md |-> EmptyFn, psz |-> EmptyFn, evz |-> FALSE, wr |-> EmptyFn,
       pcm |-> Cm0, pvm |-> Vm0]
CC(cfg)     == CoreCfg(cfg.maxe >= 100, cfg.dttl)
DC(cfg)     == DefaultClass(CC(cfg))
GroupOf(s, c) == {x \in DOMAIN s.latest : x[1] = c}
CRow(c)     == run.ctab[CHOOSE i \in 1..Len(run.ctab) : run.ctab[i].c = c]
Slot0(c)    == <<c, 0, FALSE>>
TickAll3(s0) == [s0 EXCEPT !.sb = TickR(@), !.sa = TickR(@), !.sv = TickR(@)]

BlkGetClass(s0, cfg, k, r) ==
  IF GetOk(s0.sb, CC(cfg), k, r) THEN "ok"
  ELSE IF ~IsFailure(r) /\ Has2(r, "hit") /\ GetOk(s0.sa, CC(cfg), k, r) THEN
       IF Known("FX04j") /\ cfg.shared /\ k = Slot0(k[1]) /\ Dflt(s0.wr, k[1], "-") = "v" THEN "FX04j"
       ELSE IF Known("FX04h") /\ s0.evz THEN "FX04h" ELSE "bad"
  ELSE "bad"
VIdeal(s0, cfg, c, r) == ~IsFailure(r) /\ Has2(r, "hit") /\ GetOk(s0.sv, CC(cfg), c, r)
VAsIs(s0, cfg, c, r) ==
  /\ cfg.shared
  /\ IF Has2(r, "hit") THEN
        IF r.hit THEN MayHit(s0.sa, Slot0(c)) /\ Dflt(s0.wr, c, "-") = "v" /\ r = HitOf(s0.sa.latest[Slot0(c)])
        ELSE ~MustHit(s0.sa, CC(cfg), Slot0(c))
     ELSE IsErr(r, "validation") /\ MayHit(s0.sa, Slot0(c)) /\ Dflt(s0.wr, c, "-") = "b"
VClass(s0, cfg, c, r) ==
  IF VIdeal(s0, cfg, c, r) THEN "ok" ELSE IF Known("FX04j") /\ VAsIs(s0, cfg, c, r) THEN "FX04j" ELSE "bad"
StoreV(s0, cfg, c, h, n) ==
  [s0 EXCEPT !.sv = PutR(@, c, h, n, DC(cfg)),
             !.sa = IF cfg.shared THEN PutR(@, Slot0(c), h, n, DC(cfg)) ELSE @,
             !.wr = IF cfg.shared THEN FnWith(@, c, "v") ELSE @]

\* metadata of content c (answer m) against the abstract state, outside a probe
MetaClsB(s0, cfg, c, m) ==
  LET listed == IF m.some THEN SeqSet(m.cached) ELSE {}
      may    == MayUnits(s0.sb, GroupOf(s0.sb, c), LAMBDA x : x[2])
      must   == MustUnits(s0.sb, CC(cfg), GroupOf(s0.sb, c), LAMBDA x : x[2])
      asl    == SeqSet(Dflt(s0.md, c, <<>>))
      sizes  == m.some => \A j \in listed : j + 1 <= Len(m.sizes) /\ m.sizes[j + 1] \in Dflt(s0.psz, <<c, j>>, {})
  IN {IF listed \subseteq may THEN "ok" ELSE IF Known("FX04e") /\ listed \subseteq (may \cup asl) THEN "FX04e" ELSE "bad",
      One(must \subseteq listed), One(sizes)}
\* ... and at a probe, against what the probe's gets really returned
ProbeClsB(s0, cfg, c, vals, m) ==
  LET idx    == {i \in 1..Len(run.keys) : run.keys[i][1] = c}
      retr   == {run.keys[i][2] : i \in {j \in idx : IsHit(vals[j])}}
      mayexp == {run.keys[i][2] : i \in {j \in idx : MaybeExp(s0.sa, run.keys[j])}}
      listed == IF m.some THEN SeqSet(m.cached) ELSE {}
      asl    == SeqSet(Dflt(s0.md, c, <<>>))
      alias  == cfg.shared /\ Dflt(s0.wr, c, "-") = "v"
  IN {IF listed \subseteq (retr \cup mayexp) THEN "ok" ELSE IF Known("FX04e") /\ listed \subseteq asl THEN "FX04e" ELSE "bad",
      IF retr \subseteq listed THEN "ok"
        ELSE IF Known("FX04j") /\ alias /\ retr \ listed = {0} THEN "FX04j"
        ELSE IF Known("FX04h") /\ s0.evz THEN "FX04h" ELSE "bad",
      IF Cardinality(retr) <= cfg.maxb THEN "ok"
        ELSE IF Known("FX04h") /\ s0.evz THEN "FX04h"
        ELSE IF Known("FX04j") /\ alias THEN "FX04j" ELSE "bad"}

CountIf(q, P(_)) == Cardinality({i \in 1..Len(q) : P(q[i])})
\* expected deltas of the validation counters <<calls, successes, failures>>
VmExpect(e, dreq) ==
  CASE e.op = "getv"  -> <<1, IF IsHit(e.res) THEN 1 ELSE 0, IF IsErr(e.res, "validation") THEN 1 ELSE 0>>
    [] e.op = "getf"  -> <<1, IF IsHit(e.res) /\ dreq = 0 THEN 1 ELSE 0, IF IsErr(e.res, "validation") /\ dreq = 0 THEN 1 ELSE 0>>
    [] e.op = "probe" /\ Has2(e.res, "cvals") ->
         <<Len(e.res.cvals), CountIf(e.res.cvals, LAMBDA r : IsHit(r)), CountIf(e.res.cvals, LAMBDA r : IsErr(r, "validation"))>>
    [] OTHER          -> <<0, 0, 0>>
VmOk(s0, e, dreq) ==
  LET x == VmExpect(e, dreq)
      dt == e.vm.tot - s0.pvm.tot  do == e.vm.ok - s0.pvm.ok  db == e.vm.bad - s0.pvm.bad
  IN do = x[2] /\ db = x[3] /\ do + db <= dt /\ dt <= x[1]
CmOk(s0, e, fetchOp) ==
  /\ e.cm.req = e.cm.ok + e.cm.fail
  /\ e.cm.req >= s0.pcm.req /\ e.cm.ok >= s0.pcm.ok /\ e.cm.fail >= s0.pcm.fail
  /\ (~fetchOp => e.cm = s0.pcm)
  /\ e.cm.req - s0.pcm.req <= 1

JudgeBlk(s0, cfg, e) ==
  IF ~Has2(e, "vm") \/ ~Has2(e, "cm") THEN Out(s0, {"bad"}) ELSE
  LET cc   == CC(cfg)
      dreq == e.cm.req - s0.pcm.req  dok == e.cm.ok - s0.pcm.ok  dfail == e.cm.fail - s0.pcm.fail
      base == {One(VmOk(s0, e, dreq)), One(CmOk(s0, e, e.op = "getf"))}
      r    == e.res
      x ==
    CASE e.op = "putb" ->
         LET k == <<e.c, e.i, e.d>>  md == Dflt(s0.md, e.c, <<>>)  G == GroupOf(s0.sb, e.c) IN
         IF IsOkUnit(r) THEN
            Out([s0 EXCEPT !.sb = PutR(@, k, e.vh, e.n, DC(cfg)), !.sa = PutR(@, k, e.vh, e.n, DC(cfg)),
                           !.md = FnWith(@, e.c, AsIsListed(md, e.i)),
                           !.psz = FnWith(@, <<e.c, e.i>>, Dflt(s0.psz, <<e.c, e.i>>, {}) \cup {e.n}),
                           !.wr = IF cfg.shared /\ k = Slot0(e.c) THEN FnWith(@, e.c, "b") ELSE @],
                {One(AcceptJustified(s0.sb, cc, G, LAMBDA y : y[2], e.i, cfg.maxb))})
         ELSE IF IsErr(r, "full") THEN
            Out(s0, {IF FullJustified(s0.sb, cc, G, LAMBDA y : y[2], e.i, cfg.maxb) THEN "ok"
                     ELSE IF Known("FX04e") /\ AsIsFull(md, e.i, cfg.maxb) THEN "FX04e" ELSE "bad"})
         ELSE IF IsPanic(r) THEN Out(s0, {"bad"})
         ELSE Out([s0 EXCEPT !.sb = PutFailR(@, k), !.sa = PutFailR(@, k)], {"ok"})
      [] e.op = "getb" -> Out(s0, {BlkGetClass(s0, cfg, <<e.c, e.i, e.d>>, r)})
      [] e.op = "meta" -> IF Has2(r, "some") THEN Out(s0, MetaClsB(s0, cfg, e.c, r)) ELSE Out(s0, {"bad"})
      [] e.op = "evold" ->
         IF ~IsOkUnit(r) THEN Out(s0, {"bad"})
         ELSE IF e.age = "zero" THEN Out([s0 EXCEPT !.sb = ClearR(@), !.md = EmptyFn, !.evz = TRUE], {"ok"})
         ELSE Out(s0, {"ok"})
      [] e.op = "putv" ->
         IF e.as = e.c THEN
            IF IsOkUnit(r) THEN Out(StoreV(s0, cfg, e.c, CRow(e.c).h, CRow(e.c).n), {"ok"})
            ELSE Out([s0 EXCEPT !.sv = PutFailR(@, e.c)], {One(IsErr(r, "other"))})
         ELSE IF IsOkUnit(r) THEN Out(StoreV(s0, cfg, e.c, CRow(e.as).h, CRow(e.as).n), {"bad"})   \* stored without being valid
         ELSE Out(s0, {One(IsErr(r, "validation"))})
      [] e.op = "getv" -> Out(s0, {VClass(s0, cfg, e.c, r)})
      [] e.op = "getf" ->
         LET c == e.c
             hitA == IsHit(r) /\ dreq = 0 /\ VIdeal(s0, cfg, c, r)
             fetB == IsHit(r) /\ dreq = 1 /\ dok = 1 /\ ~MustHit(s0.sv, cc, c) /\ r.h = CRow(c).h /\ r.n = CRow(c).n
             invC == IsErr(r, "validation") /\ dreq = 1 /\ dok = 1 /\ ~MustHit(s0.sv, cc, c)
             netD == IsErr(r, "network") /\ dreq = 1 /\ dfail = 1 /\ ~MustHit(s0.sv, cc, c)
             asis == Known("FX04j") /\ dreq = 0 /\ VAsIs(s0, cfg, c, r)
             s1   == IF IsHit(r) /\ dreq = 1 THEN StoreV(s0, cfg, c, r.h, r.n) ELSE s0
         IN Out(s1, {IF hitA \/ fetB \/ invC \/ netD THEN "ok" ELSE IF asis THEN "FX04j" ELSE "bad"})
      [] e.op = "tick" -> Out(TickAll3(s0), {One(IsOkUnit(r))})
      [] e.op = "probe" ->
         IF ~Has2(r, "vals") \/ ~Has2(r, "metas") \/ ~Has2(r, "cvals") THEN Out(s0, {"bad"})
         ELSE Out(s0, {BlkGetClass(s0, cfg, run.keys[i], r.vals[i]) : i \in 1..Len(run.keys)}
                      \cup {VClass(s0, cfg, run.cs[i], r.cvals[i]) : i \in 1..Len(run.cs)}
                      \cup UNION {ProbeClsB(s0, cfg, run.cs[i], r.vals, r.metas[i]) : i \in 1..Len(run.cs)})
      [] OTHER -> Out(s0, {"bad"})
  IN Out([x.st EXCEPT !.pcm = e.cm, !.pvm = e.vm], x.cls \cup base)

(***************************************************************************)
(* ARC - ArchiveCache + CdnArchiveCache                                    *)
(* FX04e  as above (cached_ranges / is_range_cached / CacheFull).          *)
(* FX04f  find_overlapping_ranges computes offset + length in u64 with     *)
(*        overflow checks: it panics when the query or a cached range of   *)
(*        the archive starts at u64::MAX with length >= 1.                 *)
(* FX04m  get_range_with_fallback reports CacheFull (from put_range) after *)
(*        the backend delivered the range.  Guard: error CacheFull and     *)
(*        exactly one successful backend request in this call.             *)
(***************************************************************************)
A0 == [sr |-> C0, md |-> EmptyFn, pcm |-> Cm0]
RangesOf(s, a, P(_)) == {<<x[2], x[3]>> : x \in {y \in DOMAIN s.latest : y[1] = a /\ P(y)}}
SoftPut(s, k, h, n, ttl) == [PutR(s, k, h, n, ttl) EXCEPT !.latest[k].soft = TRUE]

JudgeArc(s0, cfg, e) ==
  IF ~Has2(e, "cm") THEN Out(s0, {"bad"}) ELSE
  LET cc   == CC(cfg)
      dreq == e.cm.req - s0.pcm.req  dok == e.cm.ok - s0.pcm.ok  dfail == e.cm.fail - s0.pcm.fail
      r    == e.res
      base == {One(CmOk(s0, e, e.op = "getf"))}
      x ==
    CASE e.op = "putr" ->
         LET k == <<e.a, e.o, e.l>>  u == <<e.o, e.l>>  md == Dflt(s0.md, e.a, <<>>)  G == GroupOf(s0.sr, e.a) IN
         IF IsOkUnit(r) THEN
            Out([s0 EXCEPT !.sr = PutR(@, k, e.vh, e.n, DC(cfg)), !.md = FnWith(@, e.a, AsIsListed(md, u))],
                {One(AcceptJustified(s0.sr, cc, G, LAMBDA y : <<y[2], y[3]>>, u, cfg.maxr))})
         ELSE IF IsErr(r, "full") THEN
            Out(s0, {IF FullJustified(s0.sr, cc, G, LAMBDA y : <<y[2], y[3]>>, u, cfg.maxr) THEN "ok"
                     ELSE IF Known("FX04e") /\ AsIsFull(md, u, cfg.maxr) THEN "FX04e" ELSE "bad"})
         ELSE IF IsPanic(r) THEN Out(s0, {"bad"})
         ELSE Out([s0 EXCEPT !.sr = PutFailR(@, k)], {"ok"})
      [] e.op = "getr" -> Out(s0, {One(GetOk(s0.sr, cc, <<e.a, e.o, e.l>>, r))})
      [] e.op = "isc" ->
         LET k == <<e.a, e.o, e.l>> IN
         IF ~Has2(r, "b") THEN Out(s0, {"bad"})
         ELSE IF r.b THEN Out(s0, {IF MayHit(s0.sr, k) THEN "ok"
                                   ELSE IF Known("FX04e") /\ SeqHas(Dflt(s0.md, e.a, <<>>), <<e.o, e.l>>) THEN "FX04e" ELSE "bad"})
         ELSE Out(s0, {One(~MustHit(s0.sr, cc, k))})
      [] e.op = "ovl" ->
         LET asl == SeqSet(Dflt(s0.md, e.a, <<>>)) IN
         IF IsPanic(r) THEN Out(s0, {IF Known("FX04f") /\ AsIsOverlapPanics(asl, e.o, e.l) THEN "FX04f" ELSE "bad"})
         ELSE IF ~Has2(r, "rs") THEN Out(s0, {"bad"})
         ELSE LET RS  == SeqSet(r.rs)
                  ov(S) == {q \in S : Overlaps(q[1], q[2], e.o, e.l)}
                  lo  == ov(RangesOf(s0.sr, e.a, LAMBDA y : MustHit(s0.sr, cc, y)))
                  hi  == ov(RangesOf(s0.sr, e.a, LAMBDA y : MayHit(s0.sr, y)))
              IN Out(s0, {IF lo \subseteq RS /\ RS \subseteq hi THEN "ok"
                          ELSE IF Known("FX04e") /\ lo \subseteq RS /\ RS \subseteq ov(asl) THEN "FX04e" ELSE "bad"})
      [] e.op = "getf" ->
         LET k == <<e.a, e.o, e.l>>  u == <<e.o, e.l>>
             hitA == IsHit(r) /\ dreq = 0 /\ GetOk(s0.sr, cc, k, r)
             fetB == IsHit(r) /\ dreq = 1 /\ dok = 1 /\ ~MustHit(s0.sr, cc, k)
             netD == IsErr(r, "network") /\ dreq = 1 /\ dfail = 1 /\ ~MustHit(s0.sr, cc, k)
             full == Known("FX04m") /\ IsErr(r, "full") /\ dreq = 1 /\ dok = 1 /\ ~MustHit(s0.sr, cc, k)
             \* a fetched range is stored and listed, unless the archive's list was full: then the bytes were returned
             \* and MAY have been stored (soft: a later miss is fine, a later hit must be these bytes)
             mdA  == Dflt(s0.md, e.a, <<>>)
             s1   == IF IsHit(r) /\ dreq = 1
                     THEN [s0 EXCEPT !.sr = IF AsIsFull(mdA, u, cfg.maxr) THEN SoftPut(@, k, r.h, r.n, DC(cfg)) ELSE PutR(@, k, r.h, r.n, DC(cfg)),
                                     !.md = IF AsIsFull(mdA, u, cfg.maxr) THEN @ ELSE FnWith(@, e.a, AsIsListed(mdA, u))]
                     ELSE s0
         IN Out(s1, {IF hitA \/ fetB \/ netD THEN "ok" ELSE IF full THEN "FX04m" ELSE "bad"})
      [] e.op = "meta" ->
         IF ~Has2(r, "some") THEN Out(s0, {"bad"})
         ELSE LET listed == IF r.some THEN SeqSet(r.ranges) ELSE {}
                  may  == RangesOf(s0.sr, e.a, LAMBDA y : MayHit(s0.sr, y))
                  must == RangesOf(s0.sr, e.a, LAMBDA y : MustHit(s0.sr, cc, y))
                  asl  == SeqSet(Dflt(s0.md, e.a, <<>>))
              IN Out(s0, {IF listed \subseteq may THEN "ok" ELSE IF Known("FX04e") /\ listed \subseteq (may \cup asl) THEN "FX04e" ELSE "bad",
                          One(must \subseteq listed)})
      [] e.op = "tick" -> Out([s0 EXCEPT !.sr = TickR(@)], {One(IsOkUnit(r))})
      [] e.op = "probe" ->
         IF ~Has2(r, "vals") \/ ~Has2(r, "iscs") THEN Out(s0, {"bad"})
         ELSE Out(s0, {One(GetOk(s0.sr, cc, run.keys[i], r.vals[i])) : i \in 1..Len(run.keys)}
                      \cup {LET k == run.keys[i] IN
                            IF r.iscs[i] = IsHit(r.vals[i]) \/ (r.iscs[i] /\ MaybeExp(s0.sr, k)) THEN "ok"
                            ELSE IF Known("FX04e") /\ r.iscs[i] /\ SeqHas(Dflt(s0.md, k[1], <<>>), <<k[2], k[3]>>) THEN "FX04e"
                            ELSE "bad" : i \in 1..Len(run.keys)})
      [] OTHER -> Out(s0, {"bad"})
  IN Out([x.st EXCEPT !.pcm = e.cm], x.cls \cup base)

(***************************************************************************)
(* RES - NgdpResolutionCache + CdnNgdpResolutionCache                      *)
(* FX04d  EncodingFileOps::get_parsed_encoding validates the cached bytes  *)
(*        against md5(hex(encoding key)) (a placeholder): every cached     *)
(*        encoding file is rejected with ContentValidationFailed.  Guard:  *)
(*        the error is ContentValidationFailed and an encoding file is     *)
(*        cached for the key.                                              *)
(* FX04l  resolve_with_fallback stores what the backend delivered BEFORE   *)
(*        validating it: a wrong download stays cached and every later     *)
(*        resolution of that root fails.  Guard: the as-is root cache      *)
(*        (which holds the unvalidated download) explains the answer and   *)
(*        the root is one whose entry came from such a download.           *)
(* FX04n  resolve_with_fallback treats "the cached root has no such path"  *)
(*        as a cache miss and asks the backend again (and overwrites the   *)
(*        cached root).  Guard: one backend request although the root is   *)
(*        cached, and the cached root answers None for the path.           *)
(* FX04i  CdnClient::fetch_config slices the hash at [0..2] and [2..4]: it *)
(*        panics for a hash shorter than 4 bytes.  Guard: panic and        *)
(*        Len(hash) < 4.                                                   *)
(***************************************************************************)
Rm0 == [tot |-> 0, ok |-> 0, rh |-> 0, rmiss |-> 0, eh |-> 0, emiss |-> 0]
S0r == [sroot |-> C0, asroot |-> C0, senc |-> C0, poison |-> {}, prm |-> Rm0, pcm |-> Cm0]
RC(cfg) == CoreCfg(cfg.maxroots >= 100, "long")
Backend == "rj"          \* the blob cdn.rs's mock client answers every content request with
TabOf(id) == BlobOf(run.blobs, id).tab
\* does outcome set O (ResolveOutcomes) explain result r of resolving x through the blob cached in s under key?
Explains(O, s, key, x, r) ==
  LET oc == OutcomeOf(r) IN
  CASE oc = "some" -> "some" \in O /\ <<r.some>> = Lookup(TabOf(s.latest[key].h), x)
    [] oc = "none" -> "none" \in O \/ "miss" \in O
    [] oc \in {"validation", "parse"} -> oc \in O
    [] OTHER -> FALSE
\* expected deltas <<rh, rmiss>> (or eh, emiss) for an explained outcome
HitMissOk(O, r, dh, dm) ==
  LET oc == OutcomeOf(r) IN
  CASE oc = "some" -> dh = 1 /\ dm = 0
    [] oc = "none" -> (("none" \in O) /\ dh = 1 /\ dm = 0) \/ (("miss" \in O) /\ dh = 0 /\ dm = 1)
    [] OTHER -> dh = 0 /\ dm = 0

JudgeRes(s0, cfg, e) ==
  IF ~Has2(e, "rm") \/ ~Has2(e, "cm") THEN Out(s0, {"bad"}) ELSE
  LET cc   == RC(cfg)
      r    == e.res
      m    == e.rm   p == s0.prm
      dreq == e.cm.req - s0.pcm.req  dok == e.cm.ok - s0.pcm.ok  dfail == e.cm.fail - s0.pcm.fail
      mono == /\ m.tot >= p.tot /\ m.ok >= p.ok /\ m.rh >= p.rh /\ m.rmiss >= p.rmiss /\ m.eh >= p.eh /\ m.emiss >= p.emiss
              /\ m.ok - p.ok = (IF e.op \in {"res", "fb"} /\ IsSome(r) THEN 1 ELSE IF e.op = "chain" /\ m.ok > p.ok THEN 1 ELSE 0)
      base == {One(mono), One(CmOk(s0, e, e.op \in {"fb", "fcfg"}))}
      x ==
    CASE e.op = "croot" ->
         IF IsOkUnit(r) THEN Out([s0 EXCEPT !.sroot = PutR(@, e.r, e.as, 0, "long"), !.asroot = PutR(@, e.r, e.as, 0, "long"),
                                            !.poison = @ \ {e.r}], {One(m = p)})
         ELSE Out(s0, {"bad"})
      [] e.op = "cenc" ->
         IF IsOkUnit(r) THEN Out([s0 EXCEPT !.senc = PutR(@, e.e, e.as, 0, "long")], {One(m = p)}) ELSE Out(s0, {"bad"})
      [] e.op = "res" ->
         LET O  == ResolveOutcomes(s0.sroot, cc, run.blobs, e.r, e.p, TRUE)
             Oa == ResolveOutcomes(s0.asroot, cc, run.blobs, e.r, e.p, TRUE)
             cnt(OO) == m.tot - p.tot = 1 /\ HitMissOk(OO, r, m.rh - p.rh, m.rmiss - p.rmiss) /\ m.eh = p.eh /\ m.emiss = p.emiss
         IN Out(s0, {IF Explains(O, s0.sroot, e.r, e.p, r) /\ cnt(O) THEN "ok"
                     ELSE IF Known("FX04l") /\ e.r \in s0.poison /\ Explains(Oa, s0.asroot, e.r, e.p, r) /\ cnt(Oa) THEN "FX04l"
                     ELSE "bad"})
      [] e.op = "rese" ->
         LET O == ResolveOutcomes(s0.senc, cc, run.blobs, e.e, e.c, FALSE)
             cnt == m.tot = p.tot /\ m.rh = p.rh /\ m.rmiss = p.rmiss /\ HitMissOk(O, r, m.eh - p.eh, m.emiss - p.emiss)
         IN Out(s0, {IF Explains(O, s0.senc, e.e, e.c, r) /\ cnt THEN "ok"
                     ELSE IF Known("FX04d") /\ IsErr(r, "validation") /\ MayHit(s0.senc, e.e) /\ m = p THEN "FX04d"
                     ELSE "bad"})
      [] e.op = "chain" ->
         LET O   == ResolveOutcomes(s0.sroot, cc, run.blobs, e.r, e.p, TRUE)
             Oa  == ResolveOutcomes(s0.asroot, cc, run.blobs, e.r, e.p, TRUE)
             ckq(s) == Lookup(TabOf(s.latest[e.r].h), e.p)      \* <<content key>> the root step yields
             encO(s) == ResolveOutcomes(s0.senc, cc, run.blobs, e.e, ckq(s)[1], FALSE)
             viaRoot(OO) == (OutcomeOf(r) \in {"validation", "parse"} /\ OutcomeOf(r) \in OO)
                            \/ (IsNone(r) /\ ("none" \in OO \/ "miss" \in OO))
             viaEnc(OO, s) == "some" \in OO /\ Explains(encO(s), s0.senc, e.e, ckq(s)[1], r)
             fx04d(OO, s)  == "some" \in OO /\ IsErr(r, "validation") /\ MayHit(s0.senc, e.e)
         IN Out(s0, {One(m.tot - p.tot = 1),
                     IF viaRoot(O) \/ viaEnc(O, s0.sroot) THEN "ok"
                     ELSE IF Known("FX04d") /\ fx04d(O, s0.sroot) THEN "FX04d"
                     ELSE IF Known("FX04l") /\ e.r \in s0.poison /\ (viaRoot(Oa) \/ viaEnc(Oa, s0.asroot)) THEN "FX04l"
                     ELSE "bad"})
      [] e.op = "fb" ->
         LET O   == ResolveOutcomes(s0.sroot, cc, run.blobs, e.r, e.p, TRUE)
             Oa  == ResolveOutcomes(s0.asroot, cc, run.blobs, e.r, e.p, TRUE)
             \* the download is valid iff it is the blob whose hash is the requested key
             valid == e.r = Backend
             afterFetch == PutR(s0.sroot, e.r, Backend, 0, "long")
             idealNoFetch == dreq = 0 /\ Explains(O \ {"miss"}, s0.sroot, e.r, e.p, r)
             idealFetch ==
               /\ "miss" \in O /\ dreq = 1
               /\ \/ dfail = 1 /\ IsErr(r, "network")
                  \/ dok = 1 /\ ~valid /\ IsErr(r, "validation")
                  \/ dok = 1 /\ valid /\ Explains(ResolveOutcomes(afterFetch, cc, run.blobs, e.r, e.p, TRUE) \ {"miss"}, afterFetch, e.r, e.p, r)
             asisNoFetch == dreq = 0 /\ e.r \in s0.poison /\ Explains(Oa \ {"miss"}, s0.asroot, e.r, e.p, r)
             \* as-is: fetched although the root is cached and merely has no such path
             asisRefetch == /\ dreq = 1 /\ MayHit(s0.asroot, e.r) /\ "none" \in Oa
                            /\ \/ dfail = 1 /\ IsErr(r, "network")
                               \/ dok = 1 /\ (IF valid THEN IsNone(r) \/ IsErr(r, "parse") ELSE IsErr(r, "validation"))
             fetched == dreq = 1 /\ dok = 1
             s1 == IF ~fetched THEN s0
                   ELSE [s0 EXCEPT !.asroot = PutR(@, e.r, Backend, 0, "long"),
                                   !.sroot = IF valid /\ "miss" \in O THEN PutR(@, e.r, Backend, 0, "long") ELSE @,
                                   !.poison = IF valid THEN @ ELSE @ \cup {e.r}]
         IN Out(s1, {One(m.tot - p.tot \in {0, 1, 2}),
                     IF idealNoFetch \/ idealFetch THEN "ok"
                     ELSE IF Known("FX04n") /\ asisRefetch THEN "FX04n"
                     ELSE IF Known("FX04l") /\ asisNoFetch THEN "FX04l"
                     ELSE "bad"})
      [] e.op = "fcfg" ->      \* CdnClient::fetch_config: data from one request, or a reported error; never a panic
         IF IsPanic(r) THEN Out(s0, {IF Known("FX04i") /\ Len(e.h) < 4 THEN "FX04i" ELSE "bad"})
         ELSE Out(s0, {One(m = p /\ ((IsHit(r) /\ dreq = 1 /\ dok = 1) \/ (Has2(r, "err") /\ dok = 0 /\ dfail = dreq)))})
      [] OTHER -> Out(s0, {"bad"})
  IN Out([x.st EXCEPT !.prm = e.rm, !.pcm = e.cm], x.cls \cup base)

(***************************************************************************)
(* INV - decision tables (binding E)                                       *)
(***************************************************************************)
JudgeInv(s0, e) ==
  CASE e.op = "sinv" -> Out(s0, {One(Has2(e.res, "b") /\ e.res.b = ShouldInvalidate(e.strat, e.ent, e.size, e.bytes))})
    [] e.op = "gttl" -> Out(s0, {One(Has2(e.res, "ttl") /\ e.res.ttl = TtlOf(e.strat))})
    [] e.op = "wval" -> Out(s0, {One(Has2(e.res, "b") /\ e.res.b = WarmingValid(e.en, e.maxe))})
    [] OTHER -> Out(s0, {"bad"})

\* ------------------------------------------------------------------------------------
InitOf(e) == CASE e.kind = "keys" -> K0 [] e.kind = "met" -> M0m [] e.kind = "blk" -> B0
               [] e.kind = "arc" -> A0 [] e.kind = "res" -> S0r [] OTHER -> [none |-> TRUE]
Judge(e) ==
  CASE run.kind = "keys" -> JudgeKeys(st, run.cfg, e)
    [] run.kind = "met"  -> JudgeMet(st, e)
    [] run.kind = "blk"  -> JudgeBlk(st, run.cfg, e)
    [] run.kind = "arc"  -> JudgeArc(st, run.cfg, e)
    [] run.kind = "res"  -> JudgeRes(st, run.cfg, e)
    [] run.kind = "inv"  -> JudgeInv(st, e)
    [] OTHER -> Out(st, {"bad"})

MaxListed == 200
AddDevs(d, used, line) ==
  [f \in DOMAIN d \cup used |->
     IF f \in used THEN (IF f \in DOMAIN d THEN [d[f] EXCEPT !.n = @ + 1] ELSE [n |-> 1, first |-> line]) ELSE d[f]]
AddViol(v, line) == IF Len(v) < MaxListed THEN Append(v, line) ELSE v
Run0 == [kind |-> "none", cfg |-> [none |-> TRUE], keys |-> <<>>]

TInit == /\ l = 1 /\ run = Run0 /\ st = [none |-> TRUE] /\ seq = 0
         /\ viol = <<>> /\ nviol = 0 /\ devs = EmptyFn

Step ==
  /\ l <= Len(Rec)
  /\ LET e == Rec[l] IN
     IF e.op = "new" THEN
        /\ run' = e /\ st' = InitOf(e) /\ seq' = 0
        /\ viol' = IF IsFailure(e.res) THEN AddViol(viol, l) ELSE viol
        /\ nviol' = IF IsFailure(e.res) THEN nviol + 1 ELSE nviol
        /\ devs' = devs
     ELSE IF e.op = "hang" THEN
        /\ viol' = AddViol(viol, l) /\ nviol' = nviol + 1
        /\ UNCHANGED <<run, st, seq, devs>>
     ELSE
        LET j    == Judge(e)
            used == j.cls \ {"ok", "bad"}
            good == ~("bad" \in j.cls) /\ e.seq = seq + 1
        IN /\ st' = j.st /\ run' = run /\ seq' = e.seq
           /\ viol' = IF good THEN viol ELSE AddViol(viol, l)
           /\ nviol' = IF good THEN nviol ELSE nviol + 1
           /\ devs' = IF good /\ used # {} THEN AddDevs(devs, used, l) ELSE devs
  /\ l' = l + 1

TNext == Step
Done == (l = Len(Rec) + 1) =>
  PrintT(<<"VERDICT", ToJson([events |-> Len(Rec), violations |-> viol, nviol |-> nviol,
                              deviations |-> SetToSeqT({<<devs[f].first, f, devs[f].n>> : f \in DOMAIN devs})])>>)
=============================================================================
