---------------------------- MODULE T_ArchClient ----------------------------
(***************************************************************************)
(* Trace monitor (binding T) for executions of the real archive-client      *)
(* layer recorded by harness/src/bin/drv_archclient.rs.  Total and          *)
(* resynchronising: every event is consumed and judged with Judge of        *)
(* ArchClient.tla; the state after an event is the one the judge returns.   *)
(*                                                                         *)
(*   {"op":"new","fam":F,"cfg":{..},"arcs":[[byte..]..],"nidx":[n..]}       *)
(*        run boundary; the materialised world must be the one the spec     *)
(*        computes from cfg (ArcBytes) - a skew between the driver's and    *)
(*        the specification's reading of a world is flagged here            *)
(*   {"op":"call","i":n,"url":U,"range":[s,e]|[],"o":outcome}  a GET seen   *)
(*   {"op":<operation>,args..,"seq":n,"res":{..},"obs":{..}}  one per call  *)
(*   {"op":"hang",..}                    driver watchdog: no return        *)
(***************************************************************************)
EXTENDS ArchClient, Json, IOUtils

Rec == ndJsonDeserialize(IOEnv.TRACE)

VARIABLES l,      \* position in Rec
          fam, cfg, st, seq,
          viol, devs,   \* line numbers of violations / <<line, finding id>> of explained deviations (the first Keep of each)
          nviol, ndev   \* how many there were in all

Keep == 60
TInit == /\ l = 1 /\ fam = "none" /\ cfg = 0 /\ st = [x |-> 0, calls |-> <<>>] /\ seq = 0 /\ viol = <<>> /\ devs = <<>>
         /\ nviol = 0 /\ ndev = [i \in AllIds |-> 0]
Flag(bad, ln) == /\ viol' = IF bad /\ nviol < Keep THEN Append(viol, ln) ELSE viol
                 /\ nviol' = IF bad THEN nviol + 1 ELSE nviol
Flag2(bad1, ln1, bad2, ln2) ==
  LET v1 == IF bad1 /\ nviol < Keep THEN Append(viol, ln1) ELSE viol
      n1 == IF bad1 THEN nviol + 1 ELSE nviol
  IN /\ viol' = IF bad2 /\ n1 < Keep THEN Append(v1, ln2) ELSE v1
     /\ nviol' = IF bad2 THEN n1 + 1 ELSE n1
Note(id)  == /\ devs' = IF id # "" /\ ndev[id] < Keep THEN Append(devs, <<l, id>>) ELSE devs
             /\ ndev' = IF id # "" THEN [ndev EXCEPT ![id] = @ + 1] ELSE ndev
HasWorld(f) == f \in {"rd", "rs", "bt"}

Step ==
  /\ l <= Len(Rec)
  /\ LET e == Rec[l] IN
     IF e.op = "new" THEN
        /\ Flag2(OpenAtEnd(st), l - 1, HasWorld(e.fam) /\ ~NewOK(e), l) /\ Note("")
        /\ fam' = e.fam /\ cfg' = e.cfg /\ st' = St0(e.fam, e) /\ seq' = 0
     ELSE IF e.op = "hang" THEN       \* the call never returned: the run ends here
        /\ Flag(TRUE, l) /\ Note("")
        /\ st' = [st EXCEPT !.calls = <<>>] /\ UNCHANGED <<fam, cfg, seq>>
     ELSE IF e.op = "call" THEN
        /\ Flag(FALSE, l) /\ Note("")
        /\ st' = Judge(fam, cfg, st, e).st /\ UNCHANGED <<fam, cfg, seq>>
     ELSE
        LET v    == Judge(fam, cfg, st, e)
            good == v.ok /\ e.seq = seq + 1
        IN /\ Flag(~good, l) /\ Note(IF good THEN v.dev ELSE "")
           /\ st' = v.st /\ seq' = e.seq
           /\ UNCHANGED <<fam, cfg>>
  /\ l' = l + 1

TNext == Step
Done == (l = Len(Rec) + 1) =>
  PrintT(<<"VERDICT", ToJson([events |-> Len(Rec),
                              violations |-> IF OpenAtEnd(st) THEN Append(viol, Len(Rec)) ELSE viol,
                              deviations |-> devs, nviol |-> nviol + (IF OpenAtEnd(st) THEN 1 ELSE 0),
                              n_FX10b |-> ndev["FX10b"], n_FX10c |-> ndev["FX10c"], n_FX10d |-> ndev["FX10d"],
                              n_FX10e |-> ndev["FX10e"], n_FX10f |-> ndev["FX10f"], n_FX10g |-> ndev["FX10g"]])>>)
=============================================================================
