---------------------------- MODULE T_Compaction ----------------------------
(***************************************************************************)
(* Trace monitor (binding T) for executions of the real compaction code.   *)
(* Total and resynchronising: every event is consumed and judged with the  *)
(* property-level predicates of Compaction.tla (CompactOK, PlanOK,         *)
(* ArchOK); the state carried between events of a run (the file as a       *)
(* sequence of unit numbers) is always taken from the logged projection,   *)
(* so the rest of a run is still judged after a non-conforming event.      *)
(*                                                                         *)
(* Events (one JSON object per line, written by drv_compaction):           *)
(*  {"op":"new","kind":"seg","n":N,"unit":U} | {"op":"new","kind":"plan"}  *)
(*  | {"op":"new","kind":"arch"}                          run boundaries   *)
(*  {"op":"compact","budget":B,"spans":[[off,len]..],"seq":k,              *)
(*   "res":{"ok":true,"saved":bytes}|{"ok":false,..}|{"outcome":"panic"},  *)
(*   "obs":{"units":[..],"ragged":r,"bytes":b}}                            *)
(*  {"op":"plan","size":S,"segs":[["F"|"T",used]..],"thr":[n,d],"seq":k,   *)
(*   "res":{"moves":[[src,soff,dst,doff,len]..],..}|{"outcome":"panic"}}   *)
(*  {"op":"arch","objs":[..],"seq":k,"res":{"ok":..,"reclaimed":r,..},     *)
(*   "obs":{"objs":[{"want","pre","post","diskpre","diskpost"}..],         *)
(*          "before":b,"after":a}}                                         *)
(*  {"op":"new","kind":"move","n":N,"m":M,"unit":U}                        *)
(*  {"op":"move","budget":B,"src":so,"dst":do,"len":l,"seq":k,             *)
(*   "res":{"ok":..},"obs":{"src":[..],"dst":[..],"ragged":r}}             *)
(*  {"op":"hang",..}                       the call never returned         *)
(*                                                                         *)
(* Known deviations (enabled only when listed in KnownDeviations):         *)
(*  Dev_F18a  plan_archive_merge lays the moves onto the FIRST destination *)
(*            out from offset 0 instead of from behind that segment's own  *)
(*            data.  Guard: the first move goes to offset 0 of the         *)
(*            least-used source segment (the planner's first destination), *)
(*            which uses bytes; the moves onto that segment are laid out   *)
(*            contiguously from 0; and the plan is correct in every other  *)
(*            respect (PlanOK with that one segment regarded as empty).    *)
(*  F18c      (no Dev action: the behaviour is outside the three           *)
(*            conditions of the statement and is never a violation) a plan *)
(*            in which a segment is both emptied and filled is counted in  *)
(*            the statistic plan_chained.                                  *)
(*  Dev_F18b  validate_spans refuses a span set in which no two spans      *)
(*            share a byte.  Guard: refused, file untouched, and an empty  *)
(*            span is listed after a non-empty span with the same offset.  *)
(***************************************************************************)
EXTENDS Compaction, TLC, Json, IOUtils

CONSTANT KnownDeviations
Rec == ndJsonDeserialize(IOEnv.TRACE)

VARIABLES l,       \* position in Rec
          kind,    \* kind of the current run
          file,    \* seg runs: the file as unit numbers
          unit,    \* seg runs: bytes per unit
          seq,     \* last sequence number of the current run
          viol, devs,
          stats    \* informational counters (not part of the verdict)

Ids(n) == [i \in 1..n |-> i - 1]
Has(r, f) == f \in DOMAIN r
IsPanic(e) == Has(e.res, "outcome")

\* ---- (a) ------------------------------------------------------------------
OutOf(e) ==
  [ok    |-> e.res.ok,
   saved |-> IF e.res.ok THEN (IF e.res.saved % unit = 0 THEN e.res.saved \div unit ELSE -1) ELSE 0,
   file  |-> e.obs.units]

DevF18b(f, sp, out) ==
  /\ "F18b" \in KnownDeviations
  /\ InRange(sp, Len(f)) /\ ~Overlapping(sp)
  /\ ~out.ok /\ out.file = f
  /\ \E i, j \in 1..Len(sp) : i < j /\ SpLen(sp[i]) > 0 /\ SpLen(sp[j]) = 0 /\ SpOff(sp[j]) = SpOff(sp[i])

\* ---- (b) ------------------------------------------------------------------
RECURSIVE LenOnto(_, _, _)
LenOnto(plan, d, k) ==      \* bytes the moves 1..k-1 put onto segment d
  IF k <= 1 THEN 0
  ELSE LenOnto(plan, d, k - 1) + (IF MvDst(plan[k - 1]) = d THEN MvLen(plan[k - 1]) ELSE 0)

DevF18a(plan, segs, tn, td, size) ==
  /\ "F18a" \in KnownDeviations
  /\ plan # <<>>
  /\ LET d0 == MvDst(plan[1])
         emptied == [i \in 1..Len(segs) |-> IF i = d0 + 1 THEN <<segs[i][1], 0>> ELSE segs[i]]
         srcs == SortByUsed(Eligible(segs, 1, tn, td, size))
     IN /\ srcs # <<>> /\ srcs[1][1] = d0          \* d0 is the planner's first destination: the least-used source
        /\ MvDstOff(plan[1]) = 0
        /\ UsedOf(segs, d0) > 0
        /\ \A k \in 1..Len(plan) : MvDst(plan[k]) = d0 => MvDstOff(plan[k]) = LenOnto(plan, d0, k)
        /\ PlanOK(plan, emptied, size)

\* ---- (d) move runs: `file` is <<source file, destination file>> ---------------
MoveOut(e) == [ok |-> e.res.ok, src |-> e.obs.src, dst |-> e.obs.dst]

\* ---- (c) ------------------------------------------------------------------
ArchRes(e) == [ok |-> e.res.ok, reclaimed |-> IF e.res.ok THEN e.res.reclaimed ELSE 0]

\* ---- the monitor ----------------------------------------------------------
Stats0 == [compact_ok |-> 0, compact_refused |-> 0, moved_spans |-> 0, plans |-> 0, plans_nonempty |-> 0,
           plan_model_agrees |-> 0, plan_chained |-> 0, arch |-> 0, arch_compacted |-> 0, moves |-> 0, moves_chunked |-> 0]

TInit == l = 1 /\ kind = "none" /\ file = <<>> /\ unit = 1 /\ seq = 0 /\ viol = <<>> /\ devs = <<>> /\ stats = Stats0

Judge(e) ==      \* [good, dev, stats']
  IF e.op = "compact" /\ kind = "seg" THEN
     IF IsPanic(e) THEN [good |-> FALSE, dev |-> "", st |-> stats]
     ELSE LET out == OutOf(e)
              ok  == CompactOK(file, e.spans, out) /\ e.obs.ragged = 0
                     /\ e.obs.bytes = Len(e.obs.units) * unit
              dB  == ~ok /\ e.obs.ragged = 0 /\ DevF18b(file, e.spans, out)
          IN [good |-> ok \/ dB, dev |-> IF dB THEN "F18b" ELSE "",
              st |-> [stats EXCEPT !.compact_ok = @ + (IF out.ok THEN 1 ELSE 0),
                                   !.compact_refused = @ + (IF out.ok THEN 0 ELSE 1),
                                   !.moved_spans = @ + (IF out.ok /\ e.moved > 0 THEN 1 ELSE 0)]]
  ELSE IF e.op = "plan" /\ kind = "plan" THEN
     IF IsPanic(e) THEN [good |-> FALSE, dev |-> "", st |-> stats]
     ELSE LET plan == e.res.moves
              ok   == PlanOK(plan, e.segs, e.size)
              dA   == ~ok /\ DevF18a(plan, e.segs, e.thr[1], e.thr[2], e.size)
              \* informational: the real plan is the one of the code-shaped model (corrected cursor, or as listed in F18a)
              agrees == \E cf, nc \in BOOLEAN :
                          /\ cf \/ "F18a" \in KnownDeviations
                          /\ nc \/ "F18c" \in KnownDeviations
                          /\ plan = PlanImpl(e.segs, e.thr[1], e.thr[2], e.size, cf, nc)
          IN [good |-> ok \/ dA, dev |-> IF dA THEN "F18a" ELSE "",
              st |-> [stats EXCEPT !.plans = @ + 1,
                                   !.plans_nonempty = @ + (IF plan # <<>> THEN 1 ELSE 0),
                                   !.plan_model_agrees = @ + (IF agrees THEN 1 ELSE 0),
                                   !.plan_chained = @ + (IF Chained(plan) THEN 1 ELSE 0)]]
  ELSE IF e.op = "move" /\ kind = "move" THEN
     IF IsPanic(e) THEN [good |-> FALSE, dev |-> "", st |-> stats]
     ELSE [good |-> MoveOK(file[1], file[2], e.src, e.dst, e.len, MoveOut(e)) /\ e.obs.ragged = 0, dev |-> "",
           st |-> [stats EXCEPT !.moves = @ + 1, !.moves_chunked = @ + (IF e.len * unit > e.bufsize THEN 1 ELSE 0)]]
  ELSE IF e.op = "arch" /\ kind = "arch" THEN
     IF IsPanic(e) THEN [good |-> FALSE, dev |-> "", st |-> stats]
     ELSE [good |-> ArchOK(e.obs.objs, ArchRes(e), e.obs.before, e.obs.after), dev |-> "",
           st |-> [stats EXCEPT !.arch = @ + 1,
                                !.arch_compacted = @ + (IF e.res.ok /\ e.res.compacted > 0 THEN 1 ELSE 0)]]
  ELSE [good |-> FALSE, dev |-> "", st |-> stats]      \* unknown operation / wrong kind of run / hang

Step ==
  /\ l <= Len(Rec)
  /\ LET e == Rec[l] IN
     IF e.op = "new" THEN
        /\ kind' = e.kind
        /\ file' = CASE e.kind = "seg" -> Ids(e.n)
                      [] e.kind = "move" -> <<Ids(e.n), [i \in 1..e.m |-> e.n + i - 1]>>
                      [] OTHER -> <<>>
        /\ unit' = IF e.kind \in {"seg", "move"} THEN e.unit ELSE 1
        /\ seq' = 0
        /\ UNCHANGED <<viol, devs, stats>>
     ELSE IF e.op = "hang" THEN
        /\ viol' = Append(viol, l)
        /\ UNCHANGED <<kind, file, unit, seq, devs, stats>>
     ELSE
        LET j == Judge(e)
            seqok == e.seq = seq + 1
            good == j.good /\ seqok
        IN /\ file' = CASE e.op = "compact" -> e.obs.units
                         [] e.op = "move" /\ ~IsPanic(e) -> <<e.obs.src, e.obs.dst>>
                         [] OTHER -> file
           /\ seq' = e.seq
           /\ viol' = IF good THEN viol ELSE Append(viol, l)
           /\ devs' = IF good /\ j.dev # "" THEN Append(devs, <<l, j.dev>>) ELSE devs
           /\ stats' = j.st
           /\ UNCHANGED <<kind, unit>>
  /\ l' = l + 1

TNext == Step
\* the monitor is deterministic (one behaviour, position l strictly increases): fingerprinting the position alone
\* is exact and keeps the cost per event independent of the length of the verdict lists
TView == l
Done == (l = Len(Rec) + 1) =>
  PrintT(<<"VERDICT", ToJson([events |-> Len(Rec), violations |-> viol, deviations |-> devs] @@ stats)>>)
=============================================================================
