CONSTANTS KnownDeviations = {"F17a", "F17b"} Cap = 0
INIT TInit
NEXT TNext
INVARIANT Done
CHECK_DEADLOCK FALSE
