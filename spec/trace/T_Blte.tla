------------------------------- MODULE T_Blte -------------------------------
(***************************************************************************)
(* Trace monitor (binding T) for executions of the real BlteBuilder ->     *)
(* CascFormat::build -> BlteFile::parse -> decompress_with_keys recorded   *)
(* by harness/src/bin/drv_blte.rs.  Total: every event is consumed.  The   *)
(* model state `b` is a function of the recorded inputs only (operation,   *)
(* arguments, whether the call succeeded), so nothing is resynchronised.   *)
(*                                                                         *)
(* Per event the verdict is                                                *)
(*   conforms  - a builder call: the outcome is the one the property fixes *)
(*               (or either one where the property leaves it open);        *)
(*               build: error only where the builder cannot honour the     *)
(*               property, else the serialised container decodes to the    *)
(*               content handed in (identity) and its chunk table, read by *)
(*               Blte!ParseTable from the raw bytes, is truthful;          *)
(*   deviation - only LISTED findings explain it (signatures below);       *)
(*   violation - otherwise.                                                *)
(*                                                                         *)
(* Events: {"op":"new","inline":bool} starts a run; one event per builder  *)
(* call {"op",args..,"seq","res":"ok"|"err"|"panic","dlen","data":[..]};   *)
(* the build event carries the observations:                               *)
(*   content {len,md5[,b]}  what the driver handed to successful add calls *)
(*   total, bytes | head    the container (whole, or its header)           *)
(*   ranges, md5s, firsts   per chunk [offset,len], MD5 (md5 crate), first *)
(*                          byte, from the driver's own raw reader         *)
(*   parse, nparsed, parts  the library's parser and per-chunk decoder     *)
(*   dec, dec2              decompress_with_keys / decompress              *)
(***************************************************************************)
EXTENDS Blte, TLC, Json, IOUtils

Rec == ndJsonDeserialize(IOEnv.TRACE)

\* b, phase: inherited from Blte (model builder; "open" | "built" | "failed")
VARIABLES l,        \* position in Rec
          inline,   \* the run logs payloads and containers byte by byte
          content,  \* ghost: concatenation of the payloads of the successful add calls (inline runs)
          seq,      \* last sequence number seen in the run
          viol,     \* lines of the non-conforming events (the first MaxListed; nviol counts all)
          nviol,
          devs      \* finding id -> [n |-> build events it was needed for, first |-> line of the first one]

Fids == {"F01a", "F01b", "F01c", "F01d", "F01e", "F01f", "F01g"}
MaxListed == 200
Flag(v, line) == IF Len(v) < MaxListed THEN Append(v, line) ELSE v

Bump(d, fs) == [f \in Fids |-> IF \E i \in 1..Len(fs) : fs[i] = f
                               THEN [n |-> d[f].n + 1, first |-> IF d[f].n = 0 THEN l ELSE d[f].first]
                               ELSE d[f]]
HasB(r) == "b" \in DOMAIN r
Has(e, f) == f \in DOMAIN e
RECURSIVE SetToSeqB(_)
SetToSeqB(S) == IF S = {} THEN <<>> ELSE LET x == CHOOSE y \in S : TRUE IN <<x>> \o SetToSeqB(S \ {x})
Verdict(ok, fids) == [ok |-> ok, devs |-> IF ok THEN SetToSeqB(fids) ELSE <<>>]

SameDigest(a, c) == a.ok /\ a.len = c.len /\ a.md5 = c.md5 /\ (HasB(a) /\ HasB(c) => a.b = c.b)

(***************************************************************************)
(* Signatures of the listed deviations (all need the id in                 *)
(* KnownDeviations; ids and prose: header of Blte.tla).                    *)
(*  identity fails  <- F01a / F01b / F01d: the model, fed with the calls   *)
(*    of this run, holds a chunk that is Broken (Salsa20 block index # its *)
(*    position: from add_data under with_encryption -> F01a, from          *)
(*    add_encrypted_data -> F01b; empty payload with inner mode N          *)
(*    encrypted -> F01d), the container has exactly the chunks of the      *)
(*    model, every chunk that is NOT broken decodes to exactly the next    *)
(*    bytes of the content (a broken chunk stands for as many bytes as the *)
(*    model says), and an F01d chunk is 17 bytes long and undecodable.     *)
(*  dsize wrong     <- F01c: the chunk is encrypted ('E') and dsize is the *)
(*    length of the encrypted payload (csize - 1 - 15);                    *)
(*                  <- F01e: the model's chunk was taken from a parsed     *)
(*    file and dsize is its compressed length (csize - 1);                 *)
(*                  <- the chunk is broken (its decoded bytes are garbage) *)
(*  decoded-data checksum (40-byte table) wrong <- F01f: the chunk is      *)
(*    encrypted and the field repeats the checksum of the chunk bytes.     *)
(* The checksum of the chunk bytes and the compressed sizes have no        *)
(* listed deviation.                                                       *)
(***************************************************************************)
(***************************************************************************)
(* Dev_F01g: the call did not return (the driver process, run alone under  *)
(* an address-space limit, was killed by the limit or by the time-out; the *)
(* check records that as res = "abort" / "hang").  Signature: an           *)
(* automatically chunking call, chunk size 0, non-empty payload.           *)
(***************************************************************************)
NeverReturned(e) == e.res \in {"abort", "hang"}
DevF01g(e, cs) == /\ Known("F01g") /\ e.op \in {"add_data", "add_mixed_data", "compress"}
                  /\ cs = 0 /\ e.len > 0

\* mb: the model builder the container was built from; mcontent: what was handed to it; x: Apply(.., e)
JudgeBuild(e, mb, mcontent, x) ==
  LET seqok == e.seq = seq + 1
  IN
  IF NeverReturned(e) THEN Verdict(seqok /\ DevF01g(e, e.n), {"F01g"})
  ELSE IF e.res = "err" THEN Verdict(seqok /\ x.may, {})
  ELSE IF e.res # "ok" \/ ~Has(e, "ser") \/ e.ser # "ok" \/ ~Has(e, "parse") \/ e.parse # "ok" THEN Verdict(FALSE, {})
  ELSE IF Has(e, "big") THEN
    \* summary form (more than 1024 chunks): the count is read from the first 12 bytes, every per-chunk column of
    \* the table is compared as a digest pair (as written / as measured); no listed deviation applies here
    LET t == ParseHead(e.head)
    IN Verdict(/\ seqok /\ e.content.len = mb.clen /\ Broken(mb) = {}
               /\ SameDigest(e.dec, e.content)
               /\ Has(e, "dec2") => e.dec2.ok /\ e.dec2.len = e.content.len /\ e.dec2.md5 = e.content.md5
               /\ t.wf /\ e.ranges_ok /\ e.nranges = t.n /\ e.nparsed = t.n
               /\ e.min_cs >= 1 /\ t.hs + e.sum_cs = e.total
               /\ e.tbl_md5_dig = e.calc_md5_dig
               /\ e.parts_ok = t.n /\ e.tbl_ds_dig = e.parts_len_dig, {})
  ELSE
    LET t  == ParseTable(IF Has(e, "bytes") THEN e.bytes ELSE e.head, e.total)
        n  == NChunks(mb)
        np == Len(e.parts)
        same == e.nparsed = n /\ np = n /\ NRec(mb) = n    \* (one model record per chunk: no bulk record)
        contentok == e.content.len = mb.clen /\ (inline => HasB(e.content) /\ e.content.b = mcontent)
        \* ---- identity
        ident == /\ SameDigest(e.dec, e.content)
                 /\ Has(e, "dec2") => e.dec2.ok /\ e.dec2.len = e.content.len /\ e.dec2.md5 = e.content.md5
                 /\ (Has(e, "bytes") /\ HasB(e.content) /\ t.wf /\ AllStored(e.bytes, t))
                       => StoredBody(e.bytes, t, 1) = e.content.b
        br == Broken(mb)
        \* segments as observed: a chunk that is not broken covers as much content as it decodes to (this
        \* does not depend on HOW a call cut its payload into chunks), a broken one what the model says
        SegLen == [p \in 1..n |-> IF p \in br \/ ~e.parts[p].ok THEN mb.chunks[p].len ELSE e.parts[p].len]
        SegOk(p) == /\ e.parts[p].ok
                    /\ (HasB(e.parts[p]) /\ inline) =>
                          e.parts[p].b = SubSeq(mcontent, SumTo(SegLen, p - 1) + 1, SumTo(SegLen, p))
        identDev == /\ br # {} /\ same /\ t.wf /\ t.n = n
                    /\ \A p \in br : Known(WhyBroken(mb, p))
                    /\ SumTo(SegLen, n) = mb.clen
                    /\ \A p \in (1..n) \ br : SegOk(p)
                    /\ \A p \in TooShort(mb) : ~e.parts[p].ok /\ t.cs[p] = 17
        identFids == IF ident THEN {} ELSE {WhyBroken(mb, p) : p \in br}
        \* ---- chunk table (nothing to judge when there is none)
        tableBase == /\ t.wf /\ e.ranges_ok /\ Len(e.ranges) = t.n /\ np = t.n /\ e.nparsed = t.n
                     /\ \A i \in 1..t.n : e.ranges[i] = <<t.off[i], t.cs[i]>>
        tabled == tableBase /\ ~t.single
        md5bad == IF tabled THEN {i \in 1..t.n : t.md5[i] # e.md5s[i]} ELSE {}
        dsbad  == IF tabled THEN {i \in 1..t.n : e.parts[i].ok /\ t.ds[i] # e.parts[i].len} ELSE {}
        \* an all-zero decoded-data checksum means "not recorded"; the encoder has no key, so for an
        \* encrypted chunk that is the one truthful thing it can write
        NotRecorded(i) == e.firsts[i] = 69 /\ t.dmd5[i] = [k \in 1..16 |-> 0]
        dmbad  == IF tabled /\ t.entry = 40
                  THEN {i \in 1..t.n : e.parts[i].ok /\ t.dmd5[i] # e.parts[i].md5 /\ ~NotRecorded(i)} ELSE {}
        DsWhy(i) == IF Known("F01c") /\ e.firsts[i] = 69 /\ t.ds[i] = t.cs[i] - 16 THEN "F01c"
                    ELSE IF Known("F01e") /\ t.n = n /\ NRec(mb) = n /\ mb.chunks[i].kind = "parsed" /\ t.ds[i] = t.cs[i] - 1 THEN "F01e"
                    ELSE IF ~ident /\ identDev /\ i \in br THEN "broken"
                    ELSE "bad"
        DmWhy(i) == IF Known("F01f") /\ e.firsts[i] = 69 /\ t.dmd5[i] = t.md5[i] THEN "F01f" ELSE "bad"
        tableOk == /\ tableBase /\ md5bad = {}
                   /\ \A i \in dsbad : DsWhy(i) # "bad"
                   /\ \A i \in dmbad : DmWhy(i) # "bad"
        fids == (identFids \cup {DsWhy(i) : i \in dsbad} \cup {DmWhy(i) : i \in dmbad}) \ {"broken"}
    IN Verdict(seqok /\ contentok /\ (ident \/ identDev) /\ tableOk, fids)

TInit == /\ l = 1 /\ b = B0 /\ phase = "open" /\ inline = FALSE /\ content = <<>> /\ seq = 0
         /\ viol = <<>> /\ nviol = 0 /\ devs = [f \in Fids |-> [n |-> 0, first |-> 0]]

Step ==
  /\ l <= Len(Rec)
  /\ LET e == Rec[l] IN
     IF e.op = "new" THEN
        /\ b' = B0 /\ phase' = "open" /\ inline' = e.inline /\ content' = <<>> /\ seq' = 0
        /\ UNCHANGED <<viol, nviol, devs>>
     ELSE IF e.op = "hang" \/ phase # "open" THEN    \* a call that never returned / an event after the program's end
        /\ viol' = Flag(viol, l) /\ nviol' = nviol + 1 /\ phase' = "failed"
        /\ UNCHANGED <<b, inline, content, seq, devs>>
     ELSE IF Final(e) THEN
        LET x == Apply(b, e)
            j == IF e.op = "build" THEN JudgeBuild(e, b, content, x)
                 ELSE JudgeBuild(e, x.st, IF inline /\ Has(e, "data") THEN e.data ELSE <<>>, x)
        IN
        /\ viol' = IF j.ok THEN viol ELSE Flag(viol, l)
        /\ nviol' = IF j.ok THEN nviol ELSE nviol + 1
        /\ devs' = Bump(devs, j.devs)
        /\ phase' = "built" /\ seq' = e.seq
        /\ UNCHANGED <<b, inline, content>>
     ELSE
        LET x == Apply(b, e)
            argsok == IsAdd(e) => /\ e.dlen = e.len
                                  /\ (inline /\ ~NeverReturned(e)) => Has(e, "data") /\ Len(e.data) = e.len
            dG     == NeverReturned(e) /\ DevF01g(e, b.cs)
            resok  == e.res = x.res \/ (x.may /\ e.res \in {"ok", "err"}) \/ dG
        IN /\ b' = IF e.res = "ok" THEN x.st ELSE b
           /\ phase' = IF e.res = "ok" THEN "open" ELSE "failed"
           /\ content' = IF e.res = "ok" /\ IsAdd(e) /\ inline /\ Has(e, "data") THEN content \o e.data ELSE content
           /\ seq' = e.seq
           /\ viol' = IF resok /\ argsok /\ e.seq = seq + 1 THEN viol ELSE Flag(viol, l)
           /\ nviol' = IF resok /\ argsok /\ e.seq = seq + 1 THEN nviol ELSE nviol + 1
           /\ devs' = IF dG /\ argsok /\ e.seq = seq + 1 THEN Bump(devs, <<"F01g">>) ELSE devs
           /\ UNCHANGED inline
  /\ l' = l + 1

TNext == Step
Done == (l = Len(Rec) + 1) =>
  PrintT(<<"VERDICT", ToJson([events |-> Len(Rec), violations |-> viol, nviol |-> nviol,
                              deviations |-> SetToSeqB({<<devs[f].first, f>> : f \in {g \in Fids : devs[g].n > 0}}),
                              nF01a |-> devs["F01a"].n, nF01b |-> devs["F01b"].n, nF01c |-> devs["F01c"].n,
                              nF01d |-> devs["F01d"].n, nF01e |-> devs["F01e"].n, nF01f |-> devs["F01f"].n,
                              nF01g |-> devs["F01g"].n])>>)
=============================================================================
