------------------------------- MODULE T_Stats -------------------------------
(***************************************************************************)
(* Trace monitor (binding T / E) for the statistics runs of                *)
(* drv_bookkeeping: kinds met, merge, opm, mls, sm, pm, exp.  Total: every *)
(* event gets a SET of classes - empty = explained by the ideal            *)
(* specification (Stats.tla), a finding id = explained only by that        *)
(* finding's as-is arithmetic under its guard, "bad" = not explained.      *)
(* An event is accepted iff its set contains no "bad" and only ids of      *)
(* KnownDeviations.  After every event the model continues from the        *)
(* specification's state (counts) and the logged values where the          *)
(* judgement is relational (bandwidth, exported values, merged slots).     *)
(*                                                                         *)
(* Events: {"op":"new","kind":K,..} then one per call with "res":          *)
(* {"ok":true} | {"outcome":"panic"}, "seq", "obs" (see the driver).       *)
(* Numbers are BigNats, durations {"s","n","ns"}, floats {"k","n9"}.       *)
(*                                                                         *)
(* Known deviations and their guards:                                      *)
(*  FX11a kind exp, op upd_pool / upd_stream: the exported counters are    *)
(*        the previous exported values PLUS the sources' running totals.   *)
(*  FX11b kind sm / exp source, op dl with a duration that is not a        *)
(*        positive whole number of seconds: current_bandwidth is           *)
(*        bytes div whole seconds, or unchanged below one second.          *)
(*  FX11c kind opm, count >= 2^32: avg_duration divides by count as u32    *)
(*        (wrong value, or a division by zero panic).                      *)
(*  FX11g kinds met / merge / mls: nanosecond arithmetic in 64 bits - an   *)
(*        average time is wrong once the exact sum of the durations (or    *)
(*        avg * count in merge) has passed u64::MAX ns.                    *)
(*  FX11h kind met, memory_usage_bytes >= 2^52: FastCacheMetrics           *)
(*        .memory_usage_mb is the MiB count cut to 32 bits.                *)
(*  FX11i sums that overflow u64 / Duration: PoolMetrics::total_requests   *)
(*        and success_rate with successes + failures > u64::MAX,           *)
(*        average_response_time with a window sum > Duration::MAX,         *)
(*        bytes_downloaded past u64::MAX (wraps), the exporter's           *)
(*        activated - recovered with recovered > activated (panic here,    *)
(*        wrap without overflow checks).                                   *)
(***************************************************************************)
EXTENDS Stats, TLC, Json, IOUtils

CONSTANT KnownDeviations
Rec == ndJsonDeserialize(IOEnv.TRACE)

VARIABLES l, t      \* position; monitor state [kind, st, seq, viol, devs]

Has(r, f)  == f \in DOMAIN r
IsPanic(r) == Has(r, "outcome")
Bad(c)     == IF c THEN {} ELSE {"bad"}
\* c holds, or the finding explains it under guard g, or bad
Or(c, fid, g) == IF c THEN {} ELSE IF g THEN {fid} ELSE {"bad"}
Over64(x)  == BnLt(QMax, x)

\* ---- met ----------------------------------------------------------------------------
MetCls(st, e) ==       \* st: M0-record; returns [st, cls]
  LET m1 == MetR(st, e)
      o  == e.obs
  IN IF IsPanic(e.res) \/ IsPanic(o) THEN [st |-> m1, cls |-> {"bad"}]
     ELSE [st |-> m1, cls |->
        Bad(CountsOk(m1, o.sn) /\ GaugesOk(m1, o.sn) /\ FastCountsOk(m1, o.fa))
        \cup Bad(RatesOk(m1, o.rates))
        \cup Bad(/\ Ratio32Ok(o.fa.rate, m1.hits, m1.gets, Z) /\ Ratio32Ok(o.fhit, m1.hits, m1.gets, Z)
                 /\ Ratio32Ok(o.fmem, m1.mem, o.rates.cap, Z) /\ Ratio32Ok(o.fmem0, m1.mem, Z, Z))
        \cup Or(AvgOk(o.sn.avg_get, m1.tgl, m1.tgh, m1.gets), "FX11g", Over64(m1.tgh))
        \cup Or(AvgOk(o.sn.avg_put, m1.tpl, m1.tph, m1.puts), "FX11g", Over64(m1.tph))
        \cup Or(MiBOk(o.fa.mb, m1.mem), "FX11h", BnLeq(Bn2p52, m1.mem))]

\* ---- merge ---------------------------------------------------------------------------
\* the as-is arithmetic leaves 64 bits: a weighted sum above u64::MAX or an average of 2^64 ns or more
AvgGuard(a, n, b, m) == Over64(WSum(a, n, b, m)) \/ Over64(a) \/ Over64(b)
MergeCls(slots, e) ==
  LET a == slots[e.a + 1]
      b == slots[e.b + 1]
      o == e.obs
  IN IF IsPanic(e.res) \/ IsPanic(o) THEN [st |-> slots, cls |-> {"bad"}]
     ELSE LET r == o.slot IN
          [st |-> [slots EXCEPT ![e.a + 1] = r], cls |->
             Bad(MergeBooksOk(a, b, r)) \cup Bad(RatesOk(r, o.rates))
             \cup Or(WAvgOk(r.avg_get, a.avg_get, a.gets, b.avg_get, b.gets, a.avg_get), "FX11g", AvgGuard(a.avg_get, a.gets, b.avg_get, b.gets))
             \cup Or(WAvgOk(r.avg_put, a.avg_put, a.puts, b.avg_put, b.puts, a.avg_put), "FX11g", AvgGuard(a.avg_put, a.puts, b.avg_put, b.puts))]

\* ---- opm ------------------------------------------------------------------------------
OpmCls(st, e) ==
  LET o1 == IF e.op = "record" THEN ORecord(st, e.d.ns) ELSE IF e.op = "set_count" THEN [st EXCEPT !.count = e.c] ELSE st
      o  == e.obs
      big == BnLeq(Bn2p32, o1.count)
  IN IF IsPanic(e.res) THEN [st |-> o1, cls |-> {"bad"}]
     ELSE [st |-> o1, cls |->
        Bad(o.count = o1.count /\ o.total = o1.total /\ o.min = o1.min /\ o.max = o1.max)
        \cup (IF IsPanic(o.avg) THEN Or(FALSE, "FX11c", big) ELSE Or(OAvgOk(o1, o.avg.ns), "FX11c", big))
        \cup Bad(~IsPanic(o.ops) /\ ~IsPanic(o.ops0) /\ OOpsOk(o1, o.ops, o.window.ns) /\ OOpsOk(o1, o.ops0, Z))]

\* ---- mls ------------------------------------------------------------------------------
ZeroStats == [f \in BookFields \cup {"avg_get", "avg_put"} |-> Z]
L0(n) == [layers |-> [i \in 1..n |-> ZeroStats], promos |-> Z, counts |-> <<>>]
PromoOf(st, f, tt) == IF <<f, tt>> \in DOMAIN st.counts THEN st.counts[<<f, tt>>] ELSE Z
LayerGuard(ls, avgf, cntf) == \E i \in 1..Len(ls) : Over64(BnMul(ls[i][avgf], ls[i][cntf])) \/ Over64(ls[i][avgf])
                              \/ Over64(BnAdd(BnMul(ls[i][avgf], ls[i][cntf]), BnZero))
SumGuard(ls, avgf, cntf) ==
  LET RECURSIVE S(_)
      S(i) == IF i > Len(ls) THEN Z ELSE BnAdd(BnMul(ls[i][avgf], ls[i][cntf]), S(i + 1))
  IN Over64(S(1)) \/ \E i \in 1..Len(ls) : Over64(ls[i][avgf])
MlsCls(st, e) ==
  LET st1 == IF e.op = "update" /\ e.i < Len(st.layers)
             THEN [st EXCEPT !.layers[e.i + 1] = [f \in DOMAIN ZeroStats |-> e.st[f]]]
             ELSE IF e.op = "promo"
             THEN [st EXCEPT !.promos = CInc(@),
                             !.counts = [p \in (DOMAIN st.counts) \cup {<<e.f, e.t>>} |->
                                           IF p = <<e.f, e.t>> THEN CInc(PromoOf(st, e.f, e.t)) ELSE st.counts[p]]]
             ELSE st
      o == e.obs
      ls == st1.layers
  IN IF IsPanic(e.res) THEN [st |-> st1, cls |-> {"bad"}]
     ELSE [st |-> st1, cls |->
        Bad(/\ Len(o.layers) = Len(ls)
            /\ \A i \in 1..Len(ls) : \A f \in DOMAIN ZeroStats : o.layers[i][f] = ls[i][f])
        \cup Bad(Books(o.total) = FoldBooks(ls, 1, ZeroBooks))
        \cup Or(AvgBetween(o.total.avg_get, ls, "avg_get", "gets"), "FX11g", SumGuard(ls, "avg_get", "gets"))
        \cup Or(AvgBetween(o.total.avg_put, ls, "avg_put", "puts"), "FX11g", SumGuard(ls, "avg_put", "puts"))
        \cup Bad(Ratio64Ok(o.overall, o.total.hits, o.total.gets, Z))
        \cup Bad(o.promos = st1.promos /\ \A i \in 1..Len(o.counts) : o.counts[i][3] = PromoOf(st1, o.counts[i][1], o.counts[i][2]))]

\* ---- sm --------------------------------------------------------------------------------
\* st: S0-record whose down is the EXACT sum; bw / peak are the last logged values
BwCls(st, e, o) ==
  IF e.op # "dl" THEN Bad(o.bw = st.bw /\ o.peak = st.peak)
  ELSE LET ideal == IF e.d.ns = Z THEN o.bw = st.bw /\ o.peak = st.peak
                    ELSE BwOk(o.bw, e.b, e.d.ns) /\ o.peak = BnMax(st.peak, o.bw)
           asis  == IF e.d.s = Z THEN o.bw = st.bw /\ o.peak = st.peak
                    ELSE BwAsIs(o.bw, e.b, e.d.s) /\ o.peak = BnMax(st.peak, o.bw)
       IN IF ideal THEN {} ELSE Or(FALSE, "FX11b", asis /\ (e.d.n # 0 \/ e.d.s = Z))
CachesOk(st, o) ==
  /\ \A i \in 1..Len(o.caches) :
        LET c == CacheOf(st, o.caches[i][1])
            r == o.caches[i][2]
        IN /\ r.hits = c.hits /\ r.misses = c.misses /\ r.size = c.size /\ r.evictions = c.evictions
           /\ ~IsPanic(r.ratio) /\ HitRatioOk(r.ratio, c)
  /\ o.named = Cardinality(DOMAIN st.caches)
SmCls(st, e) ==
  LET s1 == IF e.op = "dl" THEN [SmR(st, e) EXCEPT !.down = BnAdd(st.down, e.b)] ELSE SmR(st, e)
      o  == e.obs
  IN IF IsPanic(e.res) \/ IsPanic(o) THEN [st |-> s1, cls |-> {"bad"}]
     ELSE [st |-> [s1 EXCEPT !.bw = o.bw, !.peak = o.peak], cls |->
        BwCls(st, e, o)
        \cup Or(o.down = BnMin(s1.down, QMax), "FX11i", Over64(s1.down))
        \cup Bad(o.up = s1.up /\ CachesOk(s1, o) /\ EffOk(o.eff, [down |-> o.down, up |-> o.up]))]

\* ---- pm --------------------------------------------------------------------------------
PmCls(st, e) ==
  LET p1 == CASE e.op = "succ" -> [st EXCEPT !.succ = e.v]
              [] e.op = "fail" -> [st EXCEPT !.fail = e.v]
              [] e.op = "rt"   -> [st EXCEPT !.win = WinPush(@, e.d.ns, IF Has(e, "times") THEN e.times ELSE 1)]
              [] OTHER         -> st
      o == e.obs
      over == Over64(PoolTotal(p1))
  IN IF IsPanic(e.res) THEN [st |-> p1, cls |-> {"bad"}]
     ELSE [st |-> p1, cls |->
        Bad(o.succ = p1.succ /\ o.fail = p1.fail)
        \cup (IF IsPanic(o.total) THEN Or(FALSE, "FX11i", over) ELSE Or(o.total.v = BnMin(PoolTotal(p1), QMax), "FX11i", over))
        \cup (IF IsPanic(o.rate) THEN Or(FALSE, "FX11i", over) ELSE Or(PoolRateOk(o.rate, p1), "FX11i", over))
        \cup (IF IsPanic(o.avg) THEN Or(FALSE, "FX11i", BnLt(DMax, WinSum(p1.win))) ELSE Bad(AvgRtOk(p1.win, o.avg.v)))
        \cup (IF IsPanic(o.p95) THEN {"bad"} ELSE Bad(P95Ok(p1.win, o.p95.v)))]

\* ---- exp -------------------------------------------------------------------------------
ObsWf(o) == ~IsPanic(o) /\ \A nm \in ExportedNames : Has(o, nm) /\ Has(o[nm], "int")
ObsX(o)  == [nm \in ExportedNames |-> o[nm].int]
SrcCaches(sm) == [c \in {sm.caches[i][1] : i \in 1..Len(sm.caches)} |->
                    (CHOOSE i \in 1..Len(sm.caches) : sm.caches[i][1] = c)]
SrcStream(sm) == [down |-> sm.down, up |-> sm.up, rr |-> sm.rr, rc |-> sm.rc, fo |-> sm.fo, ra |-> sm.ra, bw |-> sm.bw,
                  mem |-> sm.mem,
                  caches |-> [c \in {sm.caches[i][1] : i \in 1..Len(sm.caches)} |->
                                sm.caches[CHOOSE i \in 1..Len(sm.caches) : sm.caches[i][1] = c][2]]]
\* equal except possibly at the names in `open'
EqExcept(x, y, open) == \A nm \in ExportedNames \ open : x[nm] = y[nm]
ExpCls(x, e) ==      \* x: exported values before the call
  IF ~ObsWf(e.obs) THEN [st |-> x, cls |-> {"bad"}]
  ELSE
  LET o == ObsX(e.obs) IN
  IF e.op = "upd_pool" THEN
     LET v == PoolView(e.src.pool)
         under == BnLt(e.src.pool.ba, e.src.pool.br)
         open == IF under THEN {"pool_circuit_breakers"} ELSE {}
     IN IF IsPanic(e.res) THEN [st |-> o, cls |-> Or(FALSE, "FX11i", under)]
        ELSE IF EqExcept(o, Update(x, v), open) THEN [st |-> o, cls |-> {}]
        ELSE [st |-> o, cls |-> Or(FALSE, "FX11a", EqExcept(o, UpdateAsIs(x, v, PoolCounters), open))]
  ELSE IF e.op = "upd_stream" THEN
     LET v == StreamView(SrcStream(e.src.sm))
     IN IF IsPanic(e.res) THEN [st |-> o, cls |-> {"bad"}]
        ELSE IF o = Update(x, v) THEN [st |-> o, cls |-> {}]
        ELSE [st |-> o, cls |-> Or(FALSE, "FX11a", o = UpdateAsIs(x, v, StreamCounters))]
  ELSE [st |-> o, cls |-> Bad(~IsPanic(e.res) /\ o = x)]

\* ---- the monitor ---------------------------------------------------------------------------
T0 == [kind |-> "none", st |-> <<>>, seq |-> 0, viol |-> <<>>, devs |-> <<>>]
TInit == l = 1 /\ t = T0 /\ books = M0 /\ before = M0

Fids == <<"FX11a", "FX11b", "FX11c", "FX11g", "FX11h", "FX11i">>
DevsOf(cls, ln) == SelectSeq([i \in 1..Len(Fids) |-> <<ln, Fids[i]>>], LAMBDA p : p[2] \in cls)

InitOf(e) ==
  CASE e.kind = "met"   -> M0
    [] e.kind = "merge" -> e.slots
    [] e.kind = "opm"   -> O0
    [] e.kind = "mls"   -> L0(e.layers)
    [] e.kind = "sm"    -> S0
    [] e.kind = "pm"    -> P0
    [] e.kind = "exp"   -> X0
    [] OTHER            -> <<>>
NewOk(e) ==
  CASE e.kind \in {"met", "merge"} -> e.usize_bits = 64
    [] e.kind = "exp" -> ~Has(e, "err") /\ ObsWf(e.obs) /\ ObsX(e.obs) = X0
    [] e.kind \in {"opm", "mls", "sm", "pm"} -> TRUE
    [] OTHER -> FALSE

After(tt, e, ln) ==
  IF e.op = "new" THEN [tt EXCEPT !.kind = e.kind, !.st = InitOf(e), !.seq = 0, !.viol = IF NewOk(e) THEN @ ELSE Append(@, ln)]
  ELSE IF e.op = "hang" THEN [tt EXCEPT !.viol = Append(@, ln)]
  ELSE
    LET x == CASE tt.kind = "met"   -> MetCls(tt.st, e)
               [] tt.kind = "merge" -> MergeCls(tt.st, e)
               [] tt.kind = "opm"   -> OpmCls(tt.st, e)
               [] tt.kind = "mls"   -> MlsCls(tt.st, e)
               [] tt.kind = "sm"    -> SmCls(tt.st, e)
               [] tt.kind = "pm"    -> PmCls(tt.st, e)
               [] tt.kind = "exp"   -> ExpCls(tt.st, e)
               [] OTHER             -> [st |-> tt.st, cls |-> {"bad"}]
        expl == x.cls \subseteq KnownDeviations /\ e.seq = tt.seq + 1
    IN [tt EXCEPT !.st = x.st, !.seq = e.seq,
                  !.viol = IF expl THEN @ ELSE Append(@, ln),
                  !.devs = IF expl THEN @ \o DevsOf(x.cls, ln) ELSE @]

Step == /\ l <= Len(Rec)
        /\ t' = After(t, Rec[l], l)
        /\ UNCHANGED <<books, before>>
        /\ l' = l + 1
TNext == Step
Done == (l = Len(Rec) + 1) =>
  PrintT(<<"VERDICT", ToJson([events |-> Len(Rec), violations |-> t.viol, deviations |-> t.devs])>>)
=============================================================================
