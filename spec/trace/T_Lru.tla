------------------------------- MODULE T_Lru -------------------------------
(***************************************************************************)
(* Trace monitor (binding T) for executions of the real LruManager.        *)
(* Total and resynchronising: every event is consumed and judged with the  *)
(* operators of Lru.tla; after a non-conforming event the observable part  *)
(* of the state is reset to the logged projection so that the rest of the  *)
(* trace is still checked.                                                 *)
(*                                                                         *)
(* Event (one JSON object per line, written by harness/src/bin/drv_lru):   *)
(*   {"op":"new","cap":c}                                  run boundary    *)
(*   {"op":..., args..., "seq":n, "res":r,                                 *)
(*    "obs":{"order":[..],"len":n,"members":[..],"gen":g,"prev":p,         *)
(*           "gens":[..]}}                                                 *)
(***************************************************************************)
EXTENDS Lru, TLC, Json, IOUtils

CONSTANT KnownDeviations
Rec == ndJsonDeserialize(IOEnv.TRACE)

\* s, res: inherited from Lru (abstract state, last result)
VARIABLES l,      \* position in Rec
          cap,    \* capacity of the current run
          seq,    \* last sequence number seen in the current run
          lost,   \* F17a bookkeeping: slots evicted through evict_tail/evict_to_target since the free list was last rebuilt
          taint,  \* F17b: the all-zero key has been reloaded from disk in this run
          viol, devs

ZKey == "z"

Proj(x) == [order |-> x.order, len |-> Len(x.order), members |-> SetOf(x.order),
            gen |-> x.gen, prev |-> x.prev, gens |-> Gens(x.files)]
Obs(e) == [order |-> e.obs.order, len |-> e.obs.len, members |-> SetOf(e.obs.members),
           gen |-> e.obs.gen, prev |-> e.obs.prev, gens |-> SetOf(e.obs.gens)]

ConformsTo(e, x) == x.res = e.res /\ Proj(x.st) = Obs(e)
Conforms(e, s0, c) == ConformsTo(e, Apply(s0, c, e))

(* Dev_F17a: slots freed by the public evict_tail (also via evict_to_target)
   are not returned to the free list, so the next touches of new keys behave
   like an LRU whose capacity is smaller by the number of leaked slots. *)
DevF17a(e, s0, c, ls) ==
  /\ "F17a" \in KnownDeviations /\ e.op = "touch" /\ ls > 0 /\ ls <= c
  /\ Conforms(e, s0, c - ls)

(* Dev_F17b: the all-zero key is indistinguishable from an empty slot:
   enumeration skips it (in memory), and a reload forgets it. *)
DevF17bEnum(e, s0, c) ==
  LET x == Apply(s0, c, e) IN
  /\ "F17b" \in KnownDeviations /\ InSeq(x.st.order, ZKey)
  /\ x.res = e.res
  /\ Obs(e) = [Proj(x.st) EXCEPT !.order = Without(x.st.order, ZKey)]
LoadsZero(e, s0) ==
  \/ e.op = "load" /\ e.g \in Gens(s0.files) /\ InSeq(FileAt(s0.files, e.g), ZKey)
  \/ e.op = "run_cycle" /\ s0.files # {} /\ InSeq(FileAt(s0.files, MaxOf(Gens(s0.files))), ZKey)
DevF17bLoad(e, s0) == "F17b" \in KnownDeviations /\ LoadsZero(e, s0)

LostAfter(e, s0, ls) ==
  CASE e.op = "evict_tail" -> IF s0.order # <<>> THEN ls + 1 ELSE ls
    [] e.op = "evict_to_target" -> ls + Min2(e.n, Len(s0.order))
    [] e.op \in {"reset", "reopen"} -> 0
    [] e.op = "load" -> IF e.res = TRUE THEN 0 ELSE ls
    [] e.op = "run_cycle" -> IF s0.files # {} THEN 0 ELSE ls
    [] OTHER -> ls

\* state after resynchronisation: observable fields from the log, ghost file
\* contents from the specification where the generation is really on disk
Resync(e, x) ==
  LET og == SetOf(e.obs.gens)
      known == {p \in x.st.files : p[1] \in og}
  IN [order |-> e.obs.order, gen |-> e.obs.gen, prev |-> e.obs.prev,
      files |-> known \cup {<<g, e.obs.order>> : g \in og \ Gens(known)}]

TInit == l = 1 /\ s = S0 /\ res = TRUE /\ cap = 0 /\ seq = 0 /\ lost = 0 /\ taint = FALSE /\ viol = <<>> /\ devs = <<>>

Step ==
  /\ l <= Len(Rec)
  /\ LET e == Rec[l] IN
     IF e.op = "new" THEN
        /\ s' = S0 /\ res' = TRUE /\ cap' = e.cap /\ seq' = 0 /\ lost' = 0 /\ taint' = FALSE
        /\ UNCHANGED <<viol, devs>>
     ELSE IF e.op = "hang" THEN   \* the call never returned (driver watchdog); the run ends here
        /\ viol' = IF taint /\ "F17b" \in KnownDeviations THEN viol ELSE Append(viol, l)
        /\ devs' = IF taint /\ "F17b" \in KnownDeviations THEN Append(devs, <<l, "F17b">>) ELSE devs
        /\ UNCHANGED <<s, res, cap, seq, lost, taint>>
     ELSE
        LET x    == Apply(s, cap, e)
            ok   == ConformsTo(e, x)
            seqok == e.seq = seq + 1
            dA   == ~ok /\ DevF17a(e, s, cap, lost)
            dBl  == DevF17bLoad(e, s)
            dB   == ~ok /\ (taint \/ dBl \/ DevF17bEnum(e, s, cap))
            capn == CapAfter(cap, e)
            inv  == e.obs.len <= capn /\ Len(e.obs.order) <= capn
            good == (ok \/ dA \/ dB) /\ inv /\ seqok
        IN /\ res' = e.res
           /\ s' = IF ok \/ (dB /\ ~taint /\ ~dBl) THEN x.st ELSE Resync(e, x)
           /\ cap' = capn
           /\ seq' = e.seq
           /\ lost' = LostAfter(e, s, lost)
           /\ taint' = (taint \/ dBl)
           /\ viol' = IF good THEN viol ELSE Append(viol, l)
           /\ devs' = IF good /\ ~ok THEN Append(devs, <<l, IF dA THEN "F17a" ELSE "F17b">>) ELSE devs
  /\ l' = l + 1

TNext == Step
Done == (l = Len(Rec) + 1) =>
  PrintT(<<"VERDICT", ToJson([events |-> Len(Rec), violations |-> viol, deviations |-> devs])>>)
=============================================================================
