------------------------------ MODULE T_Bsdiff ------------------------------
(***************************************************************************)
(* Trace monitor (binding E) for executions of the real ZBSDIFF1 builders  *)
(* and patchers.  Total and resynchronising: every event is consumed; each *)
(* patch record is judged on its own with the executable format definition *)
(* of Bsdiff.tla, so one bad record never hides the next.                  *)
(*                                                                         *)
(* Events (one JSON object per line, written by drv_bsdiff):               *)
(*  {"op":"new","tier":"short","old":[bytes],"new":[bytes],"newlen":n,     *)
(*   "newmd5":h,"kind":..,"prog":{..}}          one run per (old, new)     *)
(*  {"op":"new","tier":"long","oldlen":..,"newlen":n,"newmd5":h,..}        *)
(*  {"op":"new","tier":"arb","old":[..],"ctrl":[[x,y,z]..],"diff":[..],    *)
(*   "extra":[..],"size":n,..}                  an arbitrary patch         *)
(*  {"op":"patch","seq":k,"cfgs":[[builder,max_diff_block_size]..],        *)
(*   "res":{"ok":true}|{"ok":false,"err":..}|{"ok":false,"panic":..},      *)
(*   -- when ok: the patch as an independent reader sees it --             *)
(*   "plen":bytes,"split":"ok"|"bad","hdr":[32 bytes],"zl":[c,d,e],        *)
(*   "inflate":"ok"|"error"|"disputed",                                    *)
(*   short: "ctrl":[raw control bytes],"diff":[..],"extra":[..]            *)
(*   long:  "ctrl_rem":r,"ctrl_big":b,"ctrl3":[[x,y,z]..],"dlen","elen"    *)
(*   "outs":[{"by":[applier..],"ok":true,"len":n,"b":[..]|"md5":h}         *)
(*           |{"by":..,"ok":false,"err":..}|{"by":..,"ok":false,"panic":..}]}*)
(*      one record per group of configurations that behaved identically    *)
(*  {"op":"apply","seq":1,"outs":[..]}          arb runs: the real patchers*)
(*  {"op":"end","n":k}                          closes a run (k records)   *)
(*  {"op":"hang",..}                            a call never returned      *)
(*                                                                         *)
(* Judged per patch record (C16):                                          *)
(*  (i)  every applier returned exactly the new file (appliers: in-memory, *)
(*       object, streaming x buffer size x initial position of the old-    *)
(*       file reader - "s1024@mid" = reader handed over at the middle);    *)
(*  (ii) the patch is a well-formed ZBSDIFF1 file whose header states      *)
(*       |new| and Bsdiff!Apply(old, blocks) = new - the independent       *)
(*       patcher catches a builder and patchers that agree with each other *)
(*       but not with the format.                                          *)
(*  long tier: (i) by length + digest, (ii) by Bsdiff!ApplyLen.            *)
(*  A builder that returns Err produced no patch (a refusal; counted).     *)
(*  arb runs: every applier fails or returns exactly `size` bytes.         *)
(*                                                                         *)
(* Known deviation (enabled only when listed in KnownDeviations):          *)
(*  Dev_F16a  build_chunked_patch writes its absolute old position into    *)
(*            the relative seek field of extra entries.  Guard: every      *)
(*            configuration of the record is the chunked builder; the      *)
(*            control block has exactly the shape the defect leaves        *)
(*            (AbsSeekShape); the patch is well formed and length exact;   *)
(*            with all seeks zeroed Apply yields the new file; and every   *)
(*            applier returned what the format says the patch *as written* *)
(*            produces (the patchers themselves conform).  Long tier: the  *)
(*            same on lengths/digests (appliers agree with each other).    *)
(***************************************************************************)
EXTENDS Bsdiff, TLC, Json, IOUtils

CONSTANT KnownDeviations
Rec == ndJsonDeserialize(IOEnv.TRACE)

VARIABLES l,        \* position in Rec
          run,      \* the "new" event of the current run
          seq,      \* records seen in the current run
          open,     \* a run is open (no "end" yet)
          viol, devs,
          stats     \* counters (undecided is part of the verdict: the check exits 2 if it is not 0)

Has(r, f) == f \in DOMAIN r
NoRun == [op |-> "none", tier |-> "none"]

Stats0 == [records |-> 0, patches |-> 0, refusals |-> 0, builder_panics |-> 0, applies |-> 0, undecided |-> 0,
           with_diff |-> 0, with_seek |-> 0, fmt_only |-> 0, impl_only |-> 0,
           model_checked |-> 0, model_agrees |-> 0, arb |-> 0, arb_ok |-> 0, arb_fail |-> 0, arb_panics |-> 0,
           arb_agree |-> 0, long_records |-> 0, by_simple |-> 0, by_chunked |-> 0, by_optimized |-> 0]

SumBy(outs) == FoldLeft(LAMBDA n, o : n + Len(o.by), 0, outs)
CountB(e, name) == FoldLeft(LAMBDA n, c : n + (IF c[1] = name THEN 1 ELSE 0), 0, e.cfgs)
Produced(st, e) == [st EXCEPT !.records = @ + 1, !.patches = @ + Len(e.cfgs), !.applies = @ + SumBy(e.outs),
                              !.by_simple = @ + CountB(e, "simple"), !.by_chunked = @ + CountB(e, "chunked"),
                              !.by_optimized = @ + CountB(e, "optimized")]

\* ---- the patch as an independent reader sees it ---------------------------
WellFormed(e) ==
  /\ e.split = "ok" /\ e.inflate = "ok"
  /\ HeaderOK(e.hdr)
  /\ HeaderOf(e.hdr).ctrl = e.zl[1] /\ HeaderOf(e.hdr).diff = e.zl[2]
  /\ 32 + e.zl[1] + e.zl[2] + e.zl[3] = e.plen

\* the driver's inflater rejects a block that the library's zlib reads: a dispute between two inflaters - undecided
Disputed(e) == e.split = "ok" /\ e.inflate = "disputed"

AllChunked(e) == \A i \in 1..Len(e.cfgs) : e.cfgs[i][1] = "chunked"

\* a non-zero seek that a later diff entry depends on
SeekMatters(ctrl) == LET f == SelectInSeq(ctrl, LAMBDA c : c[3] # 0)         \* first non-zero seek, 0 = none
                     IN f > 0 /\ \E j \in (f + 1)..Len(ctrl) : ctrl[j][1] > 0
SeekMattersBig(ctrl) == LET f == SelectInSeq(ctrl, LAMBDA c : c[3] # <<0, 0, 0>>)
                        IN f > 0 /\ \E j \in (f + 1)..Len(ctrl) : ctrl[j][1] > 0
UsesDiff(ctrl)    == \E i \in 1..Len(ctrl) : ctrl[i][1] > 0

\* informational: the code-shaped model of the builder writes the same blocks
ModelOf(e, old, new) ==
  LET b == e.cfgs[1][1] IN
  IF b = "simple" THEN SimpleB(new)
  ELSE ChunkedB(old, new, [maxBlock |-> e.cfgs[1][2], minMatch |-> 4, extraChunk |-> 256,
                           absSeek |-> "F16a" \in KnownDeviations])

\* ---- short tier: judged byte by byte --------------------------------------
JudgeShort(e) ==
  LET old == run.old
      new == run.new
      n   == Len(e.cfgs)
  IN
  IF ~e.res.ok THEN
     [good |-> TRUE, dev |-> "", undec |-> FALSE,
      st |-> [stats EXCEPT !.records = @ + 1,
                           !.refusals = @ + (IF Has(e.res, "panic") THEN 0 ELSE n),
                           !.builder_panics = @ + (IF Has(e.res, "panic") THEN n ELSE 0)]]
  ELSE
  LET st1 == Produced(stats, e) IN
  IF Disputed(e) THEN [good |-> TRUE, dev |-> "", undec |-> TRUE, st |-> st1]
  ELSE IF ~(WellFormed(e) /\ CtrlShapeOK(e.ctrl)) THEN [good |-> FALSE, dev |-> "", undec |-> FALSE, st |-> st1]
  ELSE IF Len(old) >= W \/ Len(e.diff) >= W \/ Len(e.extra) >= W \/ Len(e.ctrl) >= W
       THEN [good |-> TRUE, dev |-> "", undec |-> TRUE, st |-> st1]         \* (the driver never logs such a record)
  ELSE
  LET CB   == CtrlBigOf(e.ctrl)                       \* exact, whatever the 8-byte fields hold
      small == CtrlSmall(e.ctrl)                      \* every field below 2^24: the triples are also small integers
      C    == IF small THEN CtrlOf(e.ctrl) ELSE <<>>
      P    == Patch(CB, e.diff, e.extra, HeaderOf(e.hdr).size)
      A    == ApplyBig(old, P)
      fmt  == A.ok /\ A.out = new                                                     \* (ii)
      impl == \A i \in 1..Len(e.outs) : e.outs[i].ok /\ e.outs[i].b = new              \* (i)
      good == fmt /\ impl
      dA   == /\ ~good
              /\ "F16a" \in KnownDeviations
              /\ AllChunked(e)
              /\ small /\ AbsSeekShape(C)
              /\ A.ok
              /\ LET Z == Apply(old, Patch(ZeroSeeks(C), e.diff, e.extra, P.size)) IN Z.ok /\ Z.out = new
              /\ \A i \in 1..Len(e.outs) : e.outs[i].ok /\ e.outs[i].b = A.out
      modelled == small /\ e.cfgs[1][1] \in {"simple", "chunked"} /\ Len(old) <= 64 /\ Len(new) <= 64
      M    == ModelOf(e, old, new)
      agrees == modelled /\ M.ctrl = C /\ M.diff = e.diff /\ M.extra = e.extra
  IN [good |-> good \/ dA, dev |-> IF dA THEN "F16a" ELSE "", undec |-> FALSE,
      st |-> [st1 EXCEPT !.with_diff = @ + (IF UsesDiff(CB) THEN 1 ELSE 0),
                         !.with_seek = @ + (IF SeekMattersBig(CB) THEN 1 ELSE 0),
                         !.fmt_only = @ + (IF impl /\ ~fmt THEN 1 ELSE 0),
                         !.impl_only = @ + (IF fmt /\ ~impl THEN 1 ELSE 0),
                         !.model_checked = @ + (IF modelled THEN 1 ELSE 0),
                         !.model_agrees = @ + (IF agrees THEN 1 ELSE 0)]]

\* ---- long tier: judged by lengths and digests ------------------------------
JudgeLong(e) ==
  LET n == Len(e.cfgs) IN
  IF ~e.res.ok THEN
     [good |-> TRUE, dev |-> "", undec |-> FALSE,
      st |-> [stats EXCEPT !.records = @ + 1, !.long_records = @ + 1,
                           !.refusals = @ + (IF Has(e.res, "panic") THEN 0 ELSE n),
                           !.builder_panics = @ + (IF Has(e.res, "panic") THEN n ELSE 0)]]
  ELSE
  LET st1 == [Produced(stats, e) EXCEPT !.long_records = @ + 1] IN
  IF Disputed(e) THEN [good |-> TRUE, dev |-> "", undec |-> TRUE, st |-> st1]
  ELSE IF ~(WellFormed(e) /\ e.ctrl_rem = 0) THEN [good |-> FALSE, dev |-> "", undec |-> FALSE, st |-> st1]
  ELSE
  LET C     == e.ctrl3        \* sizes >= 2^24 logged as 2^30, negative sizes as -1, seeks clamped to +-2^30 (ctrl_big)
      size  == HeaderOf(e.hdr).size
      lenok == size = run.newlen /\ ApplyLen(C, e.dlen, e.elen, size)
      impl  == \A i \in 1..Len(e.outs) : e.outs[i].ok /\ e.outs[i].len = run.newlen /\ e.outs[i].md5 = run.newmd5
      good  == lenok /\ impl
      dA    == /\ ~good
               /\ "F16a" \in KnownDeviations
               /\ AllChunked(e)
               /\ lenok
               /\ ~e.ctrl_big /\ AbsSeekShape(C) /\ SeekMatters(C)
               /\ \A i \in 1..Len(e.outs) : e.outs[i].ok /\ e.outs[i].len = run.newlen /\ e.outs[i].md5 = e.outs[1].md5
  IN [good |-> good \/ dA, dev |-> IF dA THEN "F16a" ELSE "", undec |-> FALSE,
      st |-> [st1 EXCEPT !.with_diff = @ + (IF UsesDiff(C) THEN 1 ELSE 0),
                         !.with_seek = @ + (IF SeekMatters(C) THEN 1 ELSE 0)]]

\* ---- arbitrary patches: fail or be length-exact ----------------------------
JudgeArb(e) ==
  LET P  == Patch(run.ctrl, run.diff, run.extra, run.size)
      A  == Apply(run.old, P)
      exact == \A i \in 1..Len(e.outs) : ~e.outs[i].ok \/ e.outs[i].len = run.size
      anyok == \E i \in 1..Len(e.outs) : e.outs[i].ok
      pan   == \E i \in 1..Len(e.outs) : Has(e.outs[i], "panic")
      agree == \A i \in 1..Len(e.outs) : IF A.ok THEN e.outs[i].ok /\ e.outs[i].b = A.out ELSE ~e.outs[i].ok
  IN [good |-> exact, dev |-> "", undec |-> FALSE,
      st |-> [stats EXCEPT !.arb = @ + 1, !.applies = @ + SumBy(e.outs),
                           !.arb_ok = @ + (IF anyok THEN 1 ELSE 0), !.arb_fail = @ + (IF anyok THEN 0 ELSE 1),
                           !.arb_panics = @ + (IF pan THEN 1 ELSE 0), !.arb_agree = @ + (IF agree THEN 1 ELSE 0)]]

Judge(e) ==
  IF e.op = "patch" /\ run.tier = "short" THEN JudgeShort(e)
  ELSE IF e.op = "patch" /\ run.tier = "long" THEN JudgeLong(e)
  ELSE IF e.op = "apply" /\ run.tier = "arb" THEN JudgeArb(e)
  ELSE [good |-> FALSE, dev |-> "", undec |-> FALSE, st |-> stats]     \* unknown operation / wrong kind of run

\* ---- the monitor -----------------------------------------------------------
TInit == l = 1 /\ run = NoRun /\ seq = 0 /\ open = FALSE /\ viol = <<>> /\ devs = <<>> /\ stats = Stats0

Step ==
  /\ l <= Len(Rec)
  /\ LET e == Rec[l] IN
     IF e.op = "new" THEN
        /\ run' = e /\ seq' = 0 /\ open' = TRUE
        /\ viol' = IF open THEN Append(viol, l) ELSE viol          \* the previous run was never closed: events lost
        /\ UNCHANGED <<devs, stats>>
     ELSE IF e.op = "end" THEN
        /\ viol' = IF open /\ e.n = seq THEN viol ELSE Append(viol, l)
        /\ open' = FALSE
        /\ UNCHANGED <<run, seq, devs, stats>>
     ELSE IF e.op = "hang" \/ ~open THEN
        /\ viol' = Append(viol, l)
        /\ UNCHANGED <<run, seq, open, devs, stats>>
     ELSE
        LET j == Judge(e)
            good == j.good /\ e.seq = seq + 1
        IN /\ seq' = e.seq
           /\ viol' = IF good THEN viol ELSE Append(viol, l)
           /\ devs' = IF good /\ j.dev # "" THEN Append(devs, <<l, j.dev>>) ELSE devs
           /\ stats' = [j.st EXCEPT !.undecided = @ + (IF j.undec THEN 1 ELSE 0)]
           /\ UNCHANGED <<run, open>>
  /\ l' = l + 1

TNext == Step
\* the monitor is deterministic (one behaviour, l strictly increases): fingerprinting the position alone is exact
TView == l
Done == (l = Len(Rec) + 1) =>
  PrintT(<<"VERDICT", ToJson([events |-> Len(Rec),
                              violations |-> IF open THEN Append(viol, Len(Rec)) ELSE viol,   \* trace ends inside a run
                              deviations |-> devs] @@ stats)>>)
=============================================================================
