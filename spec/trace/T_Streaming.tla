---------------------------- MODULE T_Streaming ----------------------------
(***************************************************************************)
(* Trace monitor (binding T) for executions of the real CDN streaming      *)
(* components recorded by harness/src/bin/drv_streaming.rs.  Total and     *)
(* resynchronising: every event is consumed and judged with Judge of       *)
(* Streaming.tla (RangePlan / Recovery libraries); the state after an      *)
(* event is the one the judge returns (it follows the observation).        *)
(*                                                                         *)
(*   {"op":"new","fam":F,"cfg":{..}}                         run boundary  *)
(*   {"op":<operation>,args..,"seq":n,"res":{..},"obs":{..}} one per call  *)
(*   {"op":"hang",..}                    driver watchdog: no return        *)
(***************************************************************************)
EXTENDS Streaming, Json, IOUtils

Rec == ndJsonDeserialize(IOEnv.TRACE)

VARIABLES l,      \* position in Rec
          fam, cfg, st, seq,
          viol, devs

TInit == l = 1 /\ fam = "none" /\ cfg = 0 /\ st = 0 /\ seq = 0 /\ viol = <<>> /\ devs = <<>>

Step ==
  /\ l <= Len(Rec)
  /\ LET e == Rec[l] IN
     IF e.op = "new" THEN
        /\ viol' = IF OpenAtEnd(fam, st) THEN Append(viol, l) ELSE viol
        /\ fam' = e.fam /\ cfg' = e.cfg /\ st' = St0(e.fam, e.cfg) /\ seq' = 0
        /\ UNCHANGED devs
     ELSE IF e.op = "hang" THEN       \* the call never returned: the run ends here
        /\ viol' = Append(viol, l)
        /\ st' = St0(fam, cfg) /\ UNCHANGED <<fam, cfg, seq, devs>>
     ELSE
        LET v    == Judge(fam, cfg, st, e)
            good == v.ok /\ e.seq = seq + 1
        IN /\ viol' = IF good THEN viol ELSE Append(viol, l)
           /\ devs' = IF good /\ v.dev # "" THEN Append(devs, <<l, v.dev>>) ELSE devs
           /\ st' = v.st /\ seq' = e.seq
           /\ UNCHANGED <<fam, cfg>>
  /\ l' = l + 1

TNext == Step
Done == (l = Len(Rec) + 1) =>
  PrintT(<<"VERDICT", ToJson([events |-> Len(Rec),
                              violations |-> IF OpenAtEnd(fam, st) THEN Append(viol, Len(Rec)) ELSE viol,
                              deviations |-> devs])>>)
=============================================================================
