---------------------------- MODULE T_Streaming ----------------------------
(***************************************************************************)
(* Trace monitor (binding T) for executions of the real CDN streaming      *)
(* components recorded by harness/src/bin/drv_streaming.rs.  Total and     *)
(* resynchronising: every event is consumed and judged with Judge of       *)
(* Streaming.tla (RangePlan / Recovery libraries); the state after an      *)
(* event is the one the judge returns (it follows the observation).        *)
(*                                                                         *)
(*   {"op":"new","fam":F,"cfg":{..}}                         run boundary  *)
(*   {"op":<operation>,args..,"seq":n,"res":{..},"obs":{..}} one per call  *)
(*   {"op":"hang",..}                    driver watchdog: no return        *)
(***************************************************************************)
EXTENDS Streaming, Json, IOUtils

Rec == ndJsonDeserialize(IOEnv.TRACE)

VARIABLES l,      \* position in Rec
          fam, cfg, st, seq,
          viol, devs,   \* line numbers of violations / <<line, finding id>> of explained deviations (the first Keep of each)
          nviol, ndev   \* how many there were in all

Keep == 60
Ids == {"FX02a", "FX02b", "FX02c", "FX02d", "FX02e", "FX02f", "FX02g", "FX02h", "FX02i"}
TInit == /\ l = 1 /\ fam = "none" /\ cfg = 0 /\ st = 0 /\ seq = 0 /\ viol = <<>> /\ devs = <<>>
         /\ nviol = 0 /\ ndev = [i \in Ids |-> 0]
Flag(bad, ln) == /\ viol' = IF bad /\ nviol < Keep THEN Append(viol, ln) ELSE viol
                 /\ nviol' = IF bad THEN nviol + 1 ELSE nviol
Note(id)  == /\ devs' = IF id # "" /\ ndev[id] < Keep THEN Append(devs, <<l, id>>) ELSE devs
             /\ ndev' = IF id # "" THEN [ndev EXCEPT ![id] = @ + 1] ELSE ndev

Step ==
  /\ l <= Len(Rec)
  /\ LET e == Rec[l] IN
     IF e.op = "new" THEN
        /\ Flag(OpenAtEnd(fam, st), l - 1) /\ Note("")
        /\ fam' = e.fam /\ cfg' = e.cfg /\ st' = St0(e.fam, e.cfg) /\ seq' = 0
     ELSE IF e.op = "hang" THEN       \* the call never returned: the run ends here
        /\ Flag(TRUE, l) /\ Note("")
        /\ st' = St0(fam, cfg) /\ UNCHANGED <<fam, cfg, seq>>
     ELSE
        LET v    == Judge(fam, cfg, st, e)
            good == v.ok /\ e.seq = seq + 1
        IN /\ Flag(~good, l) /\ Note(IF good THEN v.dev ELSE "")
           /\ st' = v.st /\ seq' = e.seq
           /\ UNCHANGED <<fam, cfg>>
  /\ l' = l + 1

TNext == Step
Done == (l = Len(Rec) + 1) =>
  PrintT(<<"VERDICT", ToJson([events |-> Len(Rec),
                              violations |-> IF OpenAtEnd(fam, st) THEN Append(viol, Len(Rec)) ELSE viol,
                              deviations |-> devs, nviol |-> nviol + (IF OpenAtEnd(fam, st) THEN 1 ELSE 0),
                              n_FX02a |-> ndev["FX02a"], n_FX02b |-> ndev["FX02b"], n_FX02c |-> ndev["FX02c"],
                              n_FX02d |-> ndev["FX02d"], n_FX02e |-> ndev["FX02e"], n_FX02f |-> ndev["FX02f"],
                              n_FX02g |-> ndev["FX02g"], n_FX02h |-> ndev["FX02h"], n_FX02i |-> ndev["FX02i"]])>>)
=============================================================================
